(* C02 - jobs start only after everything they depend on has finished.
   Statements over Mro/Sched.v instantiated at job identifiers; the
   dependency relation is arbitrary in the theorems and is Mro/Deps.v's
   source-level relation in the trace acceptance (checks/c02.py). *)
From Martian Require Import Lib.Bytes Mro.Sem Mro.Deps Mro.Sched Mro.TraceCheck Proofs.BytesFacts Proofs.Sched.

(* In every valid history, when a job starts, each job it depends on has a
   completion event earlier in the history, is done at that moment, and is
   still done in the final state - for every dependency relation, every
   interleaving, with any failures, crashes and resets in between. *)
Theorem C02_start_after_deps : forall (deps : bytes -> list bytes) pre j post s,
  run bytes bytes_eqb deps [] (pre ++ EStart j :: post) = Some s ->
  forall d, In d (deps j) ->
    In (EDone d) pre /\
    (forall s1, run bytes bytes_eqb deps [] pre = Some s1 -> get bytes bytes_eqb s1 d = Done) /\
    get bytes bytes_eqb s d = Done.
Proof. exact (start_after_deps bytes bytes_eqb bytes_eqb_spec). Qed.
Print Assumptions C02_start_after_deps.

(* the same, phrased for an accepted observed history of a program *)
Theorem C02_accepted_history : forall P jobs evs,
  tv_valid (check_trace P jobs evs) = true ->
  forall pre j post, evs = pre ++ EStart j :: post ->
  forall d, In d (trace_deps P jobs j) -> In (EDone d) pre.
Proof.
  intros P jobs evs Hv pre j post -> d Hd.
  unfold check_trace, tv_valid, valid_trace in Hv.
  destruct (run bytes bytes_eqb (trace_deps P jobs) [] (pre ++ EStart j :: post)) as [s|] eqn:E; [|discriminate].
  exact (proj1 (start_after_deps bytes bytes_eqb bytes_eqb_spec _ _ _ _ _ E d Hd)).
Qed.
Print Assumptions C02_accepted_history.

(* within one fork: the split job finishes before any chunk job starts and
   every chunk job finishes before the join starts (these are dependencies
   of the job-level relation) *)
Theorem C02_phase_order_deps : forall nd jobs me x,
  In me jobs -> In x jobs ->
  (forall y, In y jobs -> bytes_eqb (ji_id y) (ji_id me) = true -> y = me) ->
  bytes_eqb (ji_path x) (ji_path me) && bytes_eqb (ji_fork x) (ji_fork me) = true ->
  (ji_kind me = KChunk -> ji_kind x = KSplit -> In (ji_id x) (job_deps nd jobs (ji_id me))) /\
  (ji_kind me = KJoin -> ji_kind x = KChunk -> In (ji_id x) (job_deps nd jobs (ji_id me))).
Proof.
  intros nd jobs me x Hme Hx Huniq Hsame.
  assert (Hf : exists r, filter (fun y => bytes_eqb (ji_id y) (ji_id me)) jobs = me :: r).
  { clear Hx Hsame x. induction jobs as [|y jobs IH]; [contradiction|].
    cbn [filter]. destruct (bytes_eqb (ji_id y) (ji_id me)) eqn:E.
    - rewrite (Huniq y (or_introl eq_refl) E). eexists. reflexivity.
    - destruct Hme as [->|Hme]; [rewrite (proj2 (bytes_eqb_spec _ _) eq_refl) in E; discriminate|].
      apply IH; [exact Hme|]. intros z Hz. apply Huniq. right. exact Hz. }
  destruct Hf as [r Hf]. unfold job_deps. rewrite Hf.
  split; intros Hk Hkx; rewrite Hk; apply in_map; apply filter_In; (split; [|rewrite Hkx; reflexivity]);
    apply filter_In; (split; [exact Hx|exact Hsame]).
Qed.
Print Assumptions C02_phase_order_deps.

(* Non-vacuity: a three-job chain; the valid order is accepted, starting the
   consumer before the producer finished is rejected. *)
Definition ex_deps (j : bytes) : list bytes :=
  if bytes_eqb j [x62] then [[x61]] else if bytes_eqb j [x63] then [[x62]] else [].
Example C02_nonvacuous :
  valid_trace bytes bytes_eqb ex_deps
    [EStart [x61]; EDone [x61]; EStart [x62]; EDone [x62]; EStart [x63]; EDone [x63]] = true /\
  valid_trace bytes bytes_eqb ex_deps
    [EStart [x61]; EStart [x62]; EDone [x61]; EDone [x62]] = false.
Proof. vm_compute. split; reflexivity. Qed.
