(* C19 - semantic edits (mro edit) preserve behaviour.
   Only statements, [exact], [Print Assumptions] and non-vacuity Examples.
   Models: K/Refactor.v; proofs: Proofs/Refactor.v. *)
From Coq Require Import String.
From Martian Require Import Lib.Bytes Mro.Ast K.Refactor Proofs.Refactor.

(* The reference rename (every syntactic occurrence of the renamed callable,
   call ids, input and output parameters, in declarations, DecIds, bindings,
   returns, retains, modifiers, projections and wildcard sources) preserves the
   resolved call tree of the top-level call of EVERY program, up to exactly
   that renaming - provided the callable names stay distinct. *)
Theorem C19_rename_denote : forall rho a t,
  ren_ok rho a = true ->
  denote a = Some t ->
  denote (rename_ast rho a) = Some (rename_tree rho [] [] t).
Proof. exact rename_denote. Qed.
Print Assumptions C19_rename_denote.

(* Dropping input parameters, output parameters and calls (with the bindings
   that supply / return them) preserves the resolved call tree up to exactly
   that restriction. *)
Theorem C19_restrict_denote : forall d a t,
  denote a = Some t ->
  denote (restrict_ast d a) = Some (restrict_tree d t).
Proof. exact restrict_denote. Qed.
Print Assumptions C19_restrict_denote.

(* Soundness of the translation validator run on every (before, after) pair
   dumped from the implementation: if it accepts, the call tree after the edit
   is the call tree before it with the identifiers of rho renamed and the
   elements of d removed, and nothing that survives referred to a removed
   element. *)
Theorem C19_same_up_to_sound : forall rho d a b t,
  same_up_to rho d a b = true ->
  denote a = Some t ->
  denote b = Some (rename_tree rho [] [] (restrict_tree d t)).
Proof. exact same_up_to_sound. Qed.
Print Assumptions C19_same_up_to_sound.

(* the two entry points the correspondence run evaluates *)
Theorem C19_check_rename_sound : forall e a b t,
  check_rename e a b = 0%N ->
  denote a = Some t ->
  denote b = Some (rename_tree (go_renaming e a) [] [] t).
Proof. exact check_rename_sound. Qed.
Print Assumptions C19_check_rename_sound.

Theorem C19_check_removal_sound : forall a b t,
  check_removal a b = 0%N ->
  denote a = Some t ->
  denote b = Some (rename_tree ren_none [] [] (restrict_tree (diff_removed a b) t))
  /\ unused_ok (diff_removed a b) a = true.
Proof. exact check_removal_sound. Qed.
Print Assumptions C19_check_removal_sound.

(* Renaming onto a name that is already a call id forces an alias: when no
   call id changes, the tree of fully qualified names is unchanged; in general
   it is the original one with the call ids renamed per pipeline. *)
Theorem C19_alias_insertion_preserves : forall rho,
  rn_call rho = [] ->
  forall t P sg, tree_ids (rename_tree rho P sg t) = tree_ids t.
Proof. exact alias_insertion_preserves. Qed.
Print Assumptions C19_alias_insertion_preserves.

Theorem C19_rename_tree_ids : forall rho t P sg,
  tree_ids (rename_tree rho P sg t) = rename_ids rho P t.
Proof. exact rename_tree_ids. Qed.
Print Assumptions C19_rename_tree_ids.

(* Round trip.  The validator of the T cases accepts only the original
   program; and at the level of identifiers, renaming X to a fresh Y and back
   is the identity (partial: the lifting of this identity through rename_ast
   to whole programs is checked per dumped pair by check_roundtrip, not proved
   for all programs). *)
Theorem C19_roundtrip_sound : forall a c,
  check_roundtrip a c = 0%N -> c = a /\ denote c = denote a.
Proof. exact check_roundtrip_sound. Qed.
Print Assumptions C19_roundtrip_sound.

Theorem C19_rename_involutive_partial : forall X Y n,
  n <> Y -> ren1 [(Y, X)] (ren1 [(X, Y)] n) = n.
Proof. exact ren1_inverse. Qed.
Print Assumptions C19_rename_involutive_partial.

Theorem C19_rename_param_involutive_partial : forall C x y c n,
  ~ (c = C /\ n = y) -> ren2 [(C, y, x)] c (ren2 [(C, x, y)] c n) = n.
Proof. exact ren2_inverse. Qed.
Print Assumptions C19_rename_param_involutive_partial.

(* Several edits in ONE invocation (mro edit --rename X=Y --rename-output
   Y.o=p --remove-unused-calls ...): the renames compose, each with the
   renaming chosen on the program the earlier ones produced; an accepted pair
   has the composed renamed call tree, then restricted by unused elements. *)
Theorem C19_check_combo_sound : forall es a b t,
  check_combo es false a b = 0%N ->
  denote a = Some t ->
  denote b = Some (apply_edits_tree es a t).
Proof. exact check_combo_sound. Qed.
Print Assumptions C19_check_combo_sound.

Theorem C19_check_combo_removal_sound : forall es a b t,
  check_combo es true a b = 0%N ->
  denote a = Some t ->
  exists a', apply_edits es a = Some a' /\
    denote b = Some (rename_tree ren_none [] []
                       (restrict_tree (diff_removed a' b) (apply_edits_tree es a t))) /\
    unused_ok (diff_removed a' b) a' = true.
Proof. exact check_combo_removal_sound. Qed.
Print Assumptions C19_check_combo_removal_sound.

(* ------------------------------------------------------------ non-vacuity *)

(* stage S(in int x, out int y); pipeline P(in int x, out int y) { call S(x = self.x)
   call S as T(x = S.y) return (y = T.y) }; call P(x = 1) *)
Definition ex_int : type_id := mk_tid (bs "int") 0 0.
Definition ex_in (n : string) : in_param := mk_in (bs n) ex_int [] KindIsNotFile false.
Definition ex_out (n : string) : out_param := mk_member (bs n) ex_int [] [] KindIsNotFile false false.
Definition ex_stage : stage :=
  mk_stage (bs "S") [ex_in "x"] [ex_out "y"] false [] [] [] (mk_src LangPython (bs "s") []) None.
Definition ex_mods : option modifiers := Some (mk_mods [] false false false).
Definition ex_pipe : pipeline :=
  mk_pipeline (bs "P") [ex_in "x"] [ex_out "y"]
    [mk_call (bs "S") (bs "S") ex_mods [mk_bind (bs "x") (ERef RefSelf (bs "x") []) ex_int] ModeSingleCall;
     mk_call (bs "T") (bs "S") ex_mods [mk_bind (bs "x") (ERef RefCall (bs "S") (bs "y")) ex_int] ModeSingleCall]
    (Some [mk_bind (bs "y") (ERef RefCall (bs "T") (bs "y")) ex_int]) [].
Definition ex_ast : ast :=
  mk_ast [] [] [CStage ex_stage; CPipeline ex_pipe] true
         (Some (mk_call (bs "P") (bs "P") ex_mods [mk_bind (bs "x") (EInt 1) ex_int] ModeSingleCall)).

(* renaming S to T (colliding with the alias T): the call S keeps its id *)
Example C19_rename_nonvacuous :
  let e := RenameCallable (bs "S") (bs "T") in
  let rho := go_renaming e ex_ast in
  ren_ok rho ex_ast = true /\ rn_call rho = [] /\
  (exists t, denote ex_ast = Some t) /\
  check_rename e ex_ast (rename_ast rho ex_ast) = 0%N /\
  rename_ast rho ex_ast <> ex_ast.
Proof. vm_compute. repeat split; try reflexivity; [eexists; reflexivity|discriminate]. Qed.

(* renaming the output y of S rewrites S.y and T.y but not the pipeline's own y *)
Example C19_rename_out_nonvacuous :
  let e := RenameOutput (bs "S") (bs "y") (bs "z") in
  let b := rename_ast (go_renaming e ex_ast) ex_ast in
  check_rename e ex_ast b = 0%N /\
  option_map (fun p => match p with CPipeline p => pl_ret p | _ => None end) (nth_error (a_callables b) 1)
    = Some (Some [mk_bind (bs "y") (ERef RefCall (bs "T") (bs "z")) ex_int]) /\
  check_rename e ex_ast ex_ast = 3%N.
Proof. vm_compute. repeat split; reflexivity. Qed.

(* removing the call T while the return still uses it is rejected; removing
   input x of S together with its bindings is accepted *)
Example C19_removal_nonvacuous :
  unused_ok (mk_removed [] [] [(bs "P", bs "T")]) ex_ast = false /\
  let d := mk_removed [(bs "S", bs "x")] [] [] in
  unused_ok d ex_ast = true /\ check_removal ex_ast (restrict_ast d ex_ast) = 0%N /\
  diff_removed ex_ast (restrict_ast d ex_ast) = d.
Proof. vm_compute. repeat split; reflexivity. Qed.

Example C19_roundtrip_nonvacuous :
  let e := RenameCallable (bs "S") (bs "NEW") in
  let b := rename_ast (go_renaming e ex_ast) ex_ast in
  check_roundtrip ex_ast (rename_ast (go_renaming (inverse e) b) b) = 0%N /\ b <> ex_ast.
Proof. vm_compute. split; [reflexivity|discriminate]. Qed.

(* rename S to NEW and, in the same request, its output y (named through the
   new callable name) to z: the reference through the ALIAS T is rewritten *)
Example C19_combo_nonvacuous :
  let es := [RenameCallable (bs "S") (bs "NEW"); RenameOutput (bs "NEW") (bs "y") (bs "z")] in
  exists b, apply_edits es ex_ast = Some b /\ check_combo es false ex_ast b = 0%N /\
  option_map (fun p => match p with CPipeline p => pl_ret p | _ => None end) (nth_error (a_callables b) 1)
    = Some (Some [mk_bind (bs "y") (ERef RefCall (bs "T") (bs "z")) ex_int]) /\
  check_combo es false ex_ast (rename_ast (go_renaming (RenameCallable (bs "S") (bs "NEW")) ex_ast) ex_ast) = 3%N.
Proof. eexists. vm_compute. repeat split; reflexivity. Qed.
