(* C17 - JSON validation and filtering agree with the type system.
   Only statements, [exact], [Print Assumptions] and non-vacuity examples.

   Model: K/JsonTypes.v ([valid] = IsValidJson, [filter] = FilterJson,
   [assignable] = IsAssignableFrom on the type trees dumped from compiled MRO).
   [wf t]: struct member names are distinct (the compiler enforces it).
   [table U]: U is closed under components and the TypeId determines the type
   (what TypeLookup.Get provides). *)
From Coq Require Import String.
From Martian Require Import Lib.Bytes Json.Json K.JsonTypes Proofs.JsonTypes.

(* ------------------------------------------------------------ filtering *)

(* Filtering is idempotent, for every type and every JSON value. *)
Theorem C17_filter_idempotent : forall t v, wf t ->
  out (filter t (out (filter t v))) = out (filter t v).
Proof. exact filter_idempotent_lemma. Qed.
Print Assumptions C17_filter_idempotent.

(* ... and the second pass takes the fast path (returns its input slice). *)
Theorem C17_filter_second_pass_unchanged : forall t, wf t -> forall v,
  out (filter t (out (filter t v))) = out (filter t v) /\ ch (filter t (out (filter t v))) = false.
Proof. exact filter_stable_lemma. Qed.
Print Assumptions C17_filter_second_pass_unchanged.

(* The fast path returns the input itself. *)
Theorem C17_filter_unchanged_is_input : forall t v, ch (filter t v) = false -> out (filter t v) = v.
Proof. exact ch_false_out_lemma. Qed.
Print Assumptions C17_filter_unchanged_is_input.

(* Unless the filter reports a fatal error, it changes nothing except dropping
   undeclared struct fields and writing numbers whose binary64 value is an
   int64 integer as that integer where the type is int ([drops]). *)
Theorem C17_filter_only_drops : forall t v, fatal (filter t v) = false -> drops t v (out (filter t v)).
Proof. exact filter_only_drops_lemma. Qed.
Print Assumptions C17_filter_only_drops.

(* A fatal result always comes with an error. *)
Theorem C17_filter_fatal_has_error : forall t v, fatal (filter t v) = true -> ferr (filter t v) = true.
Proof. exact fatal_err_lemma. Qed.
Print Assumptions C17_filter_fatal_has_error.

(* The result validates cleanly (no error, no alarm) against the type whenever
   the input validated cleanly against a type assignable to it.  Guards: the
   assignability derivation does not use "typed map accepts a struct"
   ([assignable_g false]) and the target has no directory-like typed map
   ([no_dir_map]); both are needed, see the two refutations below. *)
Theorem C17_filter_valid_of_assignable : forall U, table U -> forall t t' v,
  wf t -> U t -> U t' -> no_dir_map t = true ->
  assignable_g false t t' = true -> valid_clean t' v = true ->
  fatal (filter t v) = false /\ valid_clean t (out (filter t v)) = true.
Proof. exact filter_valid_lemma. Qed.
Print Assumptions C17_filter_valid_of_assignable.

(* Without the second guard: the result validates cleanly up to the file-name
   rule on the keys of directory-like typed maps. *)
Theorem C17_filter_valid_of_assignable_modkeys_partial : forall U, table U -> forall t t' v,
  wf t -> U t -> U t' ->
  assignable_g false t t' = true -> valid_clean t' v = true ->
  fatal (filter t v) = false /\ clean (valid_gen allk t (out (filter t v))) = true.
Proof. exact filter_valid_modkeys_lemma. Qed.
Print Assumptions C17_filter_valid_of_assignable_modkeys_partial.

(* The guard is a restriction of the implementation's assignability. *)
Theorem C17_guarded_assignable_is_assignable : forall t o,
  assignable_g false t o = true -> assignable t o = true.
Proof. exact assignable_g_mono. Qed.
Print Assumptions C17_guarded_assignable_is_assignable.

(* The unguarded statement is false in the model (and in the implementation,
   where the witnesses are replayed by the check): a struct value with an
   undeclared field filtered to a typed map ... *)
Theorem C17_filter_valid_of_assignable_refuted_struct_to_map :
  exists t t' v, wf t /\ no_dir_map t = true /\ assignable t t' = true /\ valid_clean t' v = true /\
                 valid_clean t (out (filter t v)) = false.
Proof. exact filter_valid_refuted_struct_to_map. Qed.
Print Assumptions C17_filter_valid_of_assignable_refuted_struct_to_map.

(* ... and a map<string> value whose key is not a file name filtered to map<file>. *)
Theorem C17_filter_valid_of_assignable_refuted_dir_keys :
  exists t t' v, wf t /\ assignable_g false t t' = true /\ valid_clean t' v = true /\
                 fatal (filter t v) = false /\ valid_clean t (out (filter t v)) = false.
Proof. exact filter_valid_refuted_dir_keys. Qed.
Print Assumptions C17_filter_valid_of_assignable_refuted_dir_keys.

(* ------------------------------------------------------------ validation *)

(* Validation accepts null for every type. *)
Theorem C17_valid_null : forall t, valid t JNull = vok.
Proof. exact valid_null_lemma. Qed.
Print Assumptions C17_valid_null.

(* Validation is clean exactly on the values of the declared shape. *)
Theorem C17_valid_exact_shape : forall t v, valid_clean t v = true <-> shape t v.
Proof. exact valid_exact_shape_lemma. Qed.
Print Assumptions C17_valid_exact_shape.

(* ------------------------------------------------------------ assignability *)

Theorem C17_assignable_refl : forall t, wf t -> assignable t t = true.
Proof. exact assignable_refl_lemma. Qed.
Print Assumptions C17_assignable_refl.

(* Arrays: exactly when the element types are assignable and the dimensions agree. *)
Theorem C17_assignable_array_iff : forall e d e' d',
  assignable (TArr e d) (TArr e' d') = assignable e e' && (d =? d')%nat.
Proof. exact assignable_array_lemma. Qed.
Print Assumptions C17_assignable_array_iff.

(* Typed maps: exactly when the element types are assignable. *)
Theorem C17_assignable_map_iff : forall e e', assignable (TMap e) (TMap e') = assignable e e'.
Proof. exact assignable_map_lemma. Qed.
Print Assumptions C17_assignable_map_iff.

(* Structs: exactly when every member has an assignable counterpart OF THE SAME
   ARRAY AND MAP DIMENSION.  Partial: the dimension equalities are not part of
   the property's statement; without them the equivalence is refuted below. *)
Theorem C17_assignable_struct_iff_partial : forall U, table U -> forall n ms n' ms',
  wf (TS n ms) -> U (TS n ms) -> U (TS n' ms') ->
  (assignable (TS n ms) (TS n' ms') = true <->
   forall m, In m ms -> exists ot, assoc_get (fst m) ms' = Some ot /\
     adim (snd m) = adim ot /\ mdim (snd m) = mdim ot /\ assignable (snd m) ot = true).
Proof. exact assignable_struct_partial_lemma. Qed.
Print Assumptions C17_assignable_struct_iff_partial.

Theorem C17_assignable_struct_iff_refuted :
  exists n ms n' ms',
    (forall m, In m ms -> exists ot, assoc_get (fst m) ms' = Some ot /\ assignable (snd m) ot = true) /\
    assignable (TS n ms) (TS n' ms') = false.
Proof. exact assignable_struct_refuted. Qed.
Print Assumptions C17_assignable_struct_iff_refuted.

(* ------------------------------------------------------------ non-vacuity *)
Open Scope string_scope.

Definition ex_S : ty := TS (bs "S") [(bs "a", TB KFloat); (bs "g", TArr (TB KInt) 1)].
Definition ex_T : ty := TS (bs "T") [(bs "g", TArr (TB KInt) 1); (bs "a", TB KInt); (bs "b", TB KString)].
(* {"a":3,"zz":true,"g":[[1,2.0],null],"b":"x"}  (2.0 is JNum 20 (-1)) *)
Definition ex_v : json :=
  JObj [(bs "a", JNum 3 0); (bs "zz", JBool true);
        (bs "g", JArr [JArr [JNum 1 0; JNum 20 (-1)]; JNull]); (bs "b", JStr (bs "x"))].
(* the same with 2 for 2.0: valid for T *)
Definition ex_w : json :=
  JObj [(bs "a", JNum 3 0); (bs "zz", JBool true);
        (bs "g", JArr [JArr [JNum 1 0; JNum 2 0]; JNull]); (bs "b", JStr (bs "x"))].
Definition ex_U (t : ty) : Prop :=
  t = ex_S \/ t = ex_T \/ t = TB KFloat \/ t = TB KInt \/ t = TB KString \/ t = TArr (TB KInt) 1.

(* a struct value with an undeclared field and an integral float in a nested
   int array: the filter really changes it, the second pass does not *)
Example C17_filter_nonvacuous :
  wf ex_S /\ fatal (filter ex_S ex_v) = false /\ ch (filter ex_S ex_v) = true /\
  out (filter ex_S ex_v) =
    JObj [(bs "a", JNum 3 0); (bs "g", JArr [JArr [JNum 1 0; JNum 2 0]; JNull])] /\
  out (filter ex_S (out (filter ex_S ex_v))) = out (filter ex_S ex_v).
Proof. split; [repeat constructor; cbn; intuition discriminate|]. vm_compute. auto. Qed.

(* the hypotheses of C17_filter_valid_of_assignable are met by S <- T on that
   value (T has an extra member, int members feed a float member) *)
Example C17_filter_valid_nonvacuous :
  table ex_U /\ wf ex_S /\ ex_U ex_S /\ ex_U ex_T /\ no_dir_map ex_S = true /\
  assignable_g false ex_S ex_T = true /\ valid_clean ex_T ex_w = true /\
  ch (filter ex_S ex_w) = true /\ valid_clean ex_T ex_v = false.
Proof.
  split; [|split; [repeat constructor; cbn; intuition discriminate|unfold ex_U; vm_compute; intuition auto]].
  unfold table, ex_U. repeat split.
  - intros e d H. repeat (destruct H as [H|H]; try discriminate). inversion H; subst. auto 10.
  - intros e H. repeat (destruct H as [H|H]; try discriminate).
  - intros n ms m H Hin. repeat (destruct H as [H|H]; try discriminate); try discriminate H;
      inversion H; subst; cbn in Hin; repeat (destruct Hin as [<-|Hin]; [cbn; auto 10|]); contradiction.
  - intros a b Ha Hb.
    repeat (destruct Ha as [Ha|Ha]); subst a; repeat (destruct Hb as [Hb|Hb]); subst b;
      intros H; try reflexivity; vm_compute in H; discriminate.
Qed.

(* validation: a value of the declared shape, and near misses that are not *)
Example C17_valid_nonvacuous :
  valid_clean ex_T ex_w = true /\
  valid_clean ex_T (JObj [(bs "g", JNull); (bs "a", JNum 30 (-1)); (bs "b", JStr (bs "x"))]) = false /\
  valid_clean ex_T (JObj [(bs "g", JArr [JNum 1 0]); (bs "a", JNum 3 0); (bs "b", JStr (bs "x"))]) = false /\
  valid_clean ex_T (JObj [(bs "g", JNull); (bs "a", JNum 3 0)]) = false /\
  valid_clean (TMap (TB KFile)) (JObj [(bs "a/b", JStr (bs "x"))]) = false /\
  valid_clean (TMap (TB KString)) (JObj [(bs "a/b", JStr (bs "x"))]) = true.
Proof. vm_compute. auto 10. Qed.

(* assignability: structs with equal member dimensions, both directions of the iff *)
Example C17_assignable_nonvacuous :
  assignable ex_S ex_T = true /\ assignable ex_T ex_S = false /\
  assignable (TArr ex_S 1) (TArr ex_T 1) = true /\ assignable (TArr ex_S 1) (TArr ex_T 0) = false /\
  assignable (TMap ex_S) (TMap ex_T) = true /\ assignable (TMap (TB KInt)) (TS (bs "C") [(bs "m", TB KInt)]) = true.
Proof. vm_compute. auto 10. Qed.
