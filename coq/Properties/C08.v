(* C08 - the parser/compiler is total: any input yields a tree or a located
   error.  Proved here: the lexer part of the property and the contract
   between the token rules and the converters the grammar actions call
   (parseInt, parseFloat, unquote, the src_stm action), which are the places
   where a crash needs one specific token.  The LALR driver, the other grammar
   actions and the compiler passes are exercised by the crash search of the
   check, not proved (the property is partial).
   Only statements, [exact], and [Print Assumptions]. *)
From Coq Require Import String.
From Martian Require Import Lib.Bytes Lib.Utf8 K.ParseNum K.Unquote K.Lexer Extracted.Lexer.
From Martian Require Import Proofs.ParseNum Proofs.Lexer.

(* The recognisers of the model are written for exactly the regular
   expression texts tokenizer.go has now (left-hand sides regenerated from the
   source on every run). *)
Theorem C08_token_rules_are_the_modelled_ones :
  tok_string_re = map b2n (bs "^""(?:[^\\""]|\\(?:[abfnrtv\\""]|[0-7]{3}|x[[:xdigit:]]{2}|u[[:xdigit:]]{4}|U[[:xdigit:]]{8}))*""")
  /\ tok_float_re = map b2n (bs "^-?\d+(?:(?:\.\d+)?[eE][+-]?|\.)\d+\b")
  /\ tok_int_re = map b2n (bs "^-?0*\d{1,19}\b")
  /\ tok_id_re = map b2n (bs "^_?[[:alpha:]]\w*\b").
Proof. exact token_rules_are_the_modelled_ones_lemma. Qed.
Print Assumptions C08_token_rules_are_the_modelled_ones.

(* Every byte string yields a token or INVALID (next_token is a total
   function), and every token other than INVALID is non-empty - in particular
   SKIP and COMMENT, after which mmLexInfo.Lex loops. *)
Theorem C08_lexer_progress : forall b t n,
  next_token b = (t, n) -> t <> TInvalid -> (0 < n)%nat.
Proof. exact lexer_progress_lemma. Qed.
Print Assumptions C08_lexer_progress.

(* The scanner loop terminates on every byte string within length+1
   nextToken calls, yielding the token list up to the end of input or the
   first INVALID token. *)
Theorem C08_lex_terminates : forall src, lex_source src <> None.
Proof. exact lex_terminates_lemma. Qed.
Print Assumptions C08_lex_terminates.

(* Every token the parser is handed, and every comment block, carries a
   valid source position (line and column at least 1): the position a syntax
   error is reported at. *)
Theorem C08_lex_locations_valid : forall src l,
  lex_source src = Some l -> Forall loc_valid l.
Proof. exact lex_locations_valid_lemma. Qed.
Print Assumptions C08_lex_locations_valid.

(* NUM_INT: whatever text the lexer labels NUM_INT is a decimal literal that
   parseInt (with its wrapping uint64 arithmetic and overflow panics) converts
   without a panic to the literal's value, which fits an int64. *)
Theorem C08_int_token_parses : forall b n,
  next_token b = (TInt, n) ->
  exists neg ds,
    int_literal neg ds (firstn n b)
    /\ parse_int (firstn n b) = IOk (int_value neg ds)
    /\ (- 2 ^ 63 <= int_value neg ds < 2 ^ 63)%Z.
Proof. exact int_token_parses_lemma. Qed.
Print Assumptions C08_int_token_parses.

(* NUM_FLOAT: whatever text the lexer labels NUM_FLOAT, parseFloat does not
   panic on.  _partial: the statement holds because nextToken asks
   strconv.ParseFloat itself; that the float rule only matches text with
   strconv's float syntax (so that the check only ever rejects for range) is
   not proved, it is covered by the correspondence. *)
Theorem C08_float_token_parses_partial : forall b n,
  next_token b = (TFloat, n) -> parse_float (firstn n b) = FOk.
Proof. exact float_token_parses_lemma. Qed.
Print Assumptions C08_float_token_parses_partial.

(* LITSTRING: whatever text the lexer labels LITSTRING - every escape form
   the rule admits, in any combination and at any length - unquote converts
   without a panic (no index out of range, no unhex of a non-hex byte). *)
Theorem C08_string_token_unquotes : forall b n,
  next_token b = (TStr, n) -> exists v, unquote (firstn n b) = Some v.
Proof. exact string_token_unquotes_lemma. Qed.
Print Assumptions C08_string_token_unquotes.

(* src_stm: the action yields a located error exactly for a command without
   fields (where it used to index out of range), and parts[0], parts[1:]
   otherwise. *)
Theorem C08_src_action_total : forall cmd,
  (src_action cmd = None <-> fields cmd = [])
  /\ (forall p args, src_action cmd = Some (p, args) <-> fields cmd = p :: args)
  /\ (src_action_unrepaired cmd = SrcPanic <-> src_action cmd = None).
Proof. exact src_action_total_lemma. Qed.
Print Assumptions C08_src_action_total.

(* Why the repairs were needed: the same statements for the code as it was. *)
Theorem C08_int_token_unchecked_refuted :
  exists b n, next_token_unchecked tok_float b = (TInt, n)
              /\ parse_int (firstn n b) = IPanic.
Proof. exact int_token_unchecked_refuted. Qed.
Print Assumptions C08_int_token_unchecked_refuted.

Theorem C08_float_token_unchecked_refuted :
  exists b n, next_token_unchecked tok_float b = (TFloat, n)
              /\ parse_float (firstn n b) = FPanic.
Proof. exact float_token_unchecked_refuted. Qed.
Print Assumptions C08_float_token_unchecked_refuted.

Theorem C08_old_float_rule_refuted :
  exists b n, next_token_unchecked (tok_float_gen true) b = (TFloat, n)
              /\ read_float (firstn n b) = None.
Proof. exact old_float_rule_refuted. Qed.
Print Assumptions C08_old_float_rule_refuted.

Theorem C08_src_action_unrepaired_refuted :
  exists cmd, src_action_unrepaired cmd = SrcPanic.
Proof. exact src_action_unrepaired_refuted. Qed.
Print Assumptions C08_src_action_unrepaired_refuted.

(* Non-vacuity: concrete inputs meet the hypotheses of the theorems above. *)
Example C08_int_nonvacuous :
  next_token (bs "-0009223372036854775808,") = (TInt, 23%nat)
  /\ parse_int (bs "-0009223372036854775808") = IOk (Z.opp 9223372036854775808%Z)
  /\ next_token (bs "9223372036854775808,") = (TInvalid, 19%nat).
Proof. vm_compute. repeat split; reflexivity. Qed.

Example C08_float_nonvacuous :
  next_token (bs "1.7976931348623158e308]") = (TFloat, 22%nat)
  /\ next_token (bs "1.7976931348623159e308]") = (TInvalid, 22%nat)
  /\ next_token (bs "1:e5") = (TInt, 1%nat).
Proof. vm_compute. repeat split; reflexivity. Qed.

Example C08_string_nonvacuous :
  let s := bs """a\n\x41\101é\U0001F600\\\"""" rest" in
  next_token s = (TStr, 29%nat)
  /\ unquote (firstn 29 s) = Some (unhex "610a4141c3a9f09f98805c22").
Proof. vm_compute. repeat split; reflexivity. Qed.

Example C08_lex_nonvacuous :
  match lex_source (bs (String.append "stage A(in int x, src py ""a b"",) # c" (String (Ascii.ascii_of_nat 10) "call A(x = 1:e5,)"))) with
  | Some l => length l = 23%nat
  | None => False
  end.
Proof. vm_compute. reflexivity. Qed.

Example C08_src_nonvacuous :
  src_action (bs "code/stage  arg1 arg2 ") = Some (bs "code/stage", [bs "arg1"; bs "arg2"])
  /\ src_action (bs "  ") = None.
Proof. vm_compute. repeat split; reflexivity. Qed.
