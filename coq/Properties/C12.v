(* C12 - resource limits are never exceeded and never stall the pipestance.
   Only statements, [exact], and [Print Assumptions]. *)
From Martian Require Import Extracted.Resources K.Semaphore K.SysReqs K.MaxJobs K.LocalJobs.
From Martian Require Import Proofs.Semaphore Proofs.SysReqs Proofs.MaxJobs Proofs.LocalJobs.
Local Open Scope Z_scope.

(* ------------------------------------------------------------------ *)
(* ResourceSemaphore (cores, memory, virtual memory, processes).      *)

(* For every history of Acquire / release-what-you-hold / availability
   updates (any interleaving: every locked method is one step), the amounts
   held by the requests that were granted and have not released sum up to
   [reserved], Release never panics, and the sum never exceeds the limit.
   Side conditions: requests are non-negative (GetSystemReqs, see the C12_sysreqs theorems),
   UpdateSize never exceeds the limit (its only call site passes the soft
   rlimit to a semaphore created with the hard rlimit; inventory checked on
   every run). *)
Theorem C12_reserved_le_max : forall size ops,
  0 <= size -> Forall (cop_ok size) ops ->
  let c := fst (crun (client_init size) ops) in
  c_dead c = false /\
  s_res (c_sem c) = sum_held (c_held c) /\
  0 <= sum_held (c_held c) <= size.
Proof. exact held_le_max_lemma. Qed.
Print Assumptions C12_reserved_le_max.

(* The same bound for the raw method-level model (arbitrary amounts in
   Acquire, any non-negative Release): reserved <= maxSize, curSize <= maxSize. *)
Theorem C12_reserved_le_max_raw : forall size ops,
  0 <= size -> Forall (op_ok size) ops ->
  let s := fst (run (sem_init size) ops) in
  s_max s = size /\ s_cur s <= size /\ s_res s <= size.
Proof. exact reserved_le_max_lemma. Qed.
Print Assumptions C12_reserved_le_max_raw.

(* Grants occur in request order: at any time the history of accepted
   requests is the history of grants followed by the queue. *)
Theorem C12_grant_fifo : forall size ops,
  let '(s, ev) := run (sem_init size) ops in
  requests ev = grants ev ++ s_wait s.
Proof. exact grant_fifo_lemma. Qed.
Print Assumptions C12_grant_fifo.

(* No lost wake-up: in every reachable state the queue is empty or its head
   does not fit the free capacity, i.e. whenever the oldest waiting request
   fits it has already been granted.  Holds for every op sequence with
   arbitrary arguments (growing and shrinking availability updates included). *)
Theorem C12_head_blocked_inv : forall size ops,
  let '(s, ev) := run (sem_init size) ops in
  has_panic ev = false ->
  match s_wait s with
  | [] => True
  | (_, a) :: _ => available s < a
  end.
Proof. exact head_blocked_inv_lemma. Qed.
Print Assumptions C12_head_blocked_inv.

(* The invariant above is a statement about atomic method calls.  It fails as
   soon as the decision to wait and the insertion into the queue are two
   critical sections: a Release landing in between is lost (refutation by
   computation on the model with the second half as a separate step).  The
   check therefore also drives the real Acquire with a Release / size
   increase landing INSIDE the call (Formatter callback) and under
   contention. *)
Theorem C12_enqueue_must_be_atomic :
  let s0 := fst (step (sem_init 10) (Acquire 1 5)) in
  snd (step s0 (Acquire 2 8)) = [EEnqueue 2 8] /\
  let s1 := fst (step s0 (Release 5)) in
  let s2 := enqueue_only s1 2 8 in
  s_wait s2 = [(2%N, 8)] /\ available s2 = 10 /\ ~ head_blocked s2.
Proof. exact enqueue_must_be_atomic_lemma. Qed.
Print Assumptions C12_enqueue_must_be_atomic.

(* The three outcomes of Acquire: immediate grant exactly when the request
   fits and nobody is queued; otherwise an error exactly when it exceeds the
   hard limit; otherwise it queues at the tail. *)
Theorem C12_acquire_outcome : forall s id n,
  let fits := n <= available s /\ s_wait s = [] in
  (fits -> step s (Acquire id n) =
     (mkSem (s_max s) (s_cur s) (s_res s + n) (s_wait s), [EGrantNow id n])) /\
  (~ fits -> s_max s < n -> step s (Acquire id n) = (s, [EError id])) /\
  (~ fits -> n <= s_max s -> step s (Acquire id n) =
     (mkSem (s_max s) (s_cur s) (s_res s) (s_wait s ++ [(id, n)]), [EEnqueue id n])).
Proof. exact acquire_outcome_lemma. Qed.
Print Assumptions C12_acquire_outcome.

Theorem C12_acquire_error_iff : forall s id n,
  In (EError id) (snd (step s (Acquire id n))) <->
  (s_max s < n /\ ~ (n <= available s /\ s_wait s = [])).
Proof. exact acquire_error_iff_lemma. Qed.
Print Assumptions C12_acquire_error_iff.

(* Non-vacuity: a history with a queue, a shrinking and a growing update and
   releases meets the side conditions; something is granted from the queue and
   something stays queued. *)
Example C12_semaphore_nonvacuous :
  let ops := [CAcquire 1 60; CAcquire 2 50; CAcquire 3 10; CUpdateActual 5;
              CRelease 1; CUpdateFreeUsed 90 50; CAcquire 4 100; CUpdateSize 80] in
  Forall (cop_ok 100) ops /\
  let '(c, ev) := crun (client_init 100) ops in
  grants ev = [(1%N, 60); (2%N, 50); (3%N, 10)] /\
  s_wait (c_sem c) = [(4%N, 100)] /\ c_held c = [(2%N, 50); (3%N, 10)] /\
  s_res (c_sem c) = 60.
Proof.
  split.
  - repeat constructor; cbn; lia.
  - vm_compute. repeat split; reflexivity.
Qed.

(* ------------------------------------------------------------------ *)
(* What the code says now (regenerated from the Go AST on every run): Enqueue
   acquires each of the (at most four) semaphores once, in one fixed order
   that is the same for every job (currently cores, memory, virtual memory,
   processes); UpdateSize has one call site and it passes the soft rlimit to
   the semaphore created with the hard rlimit (side condition of
   C12_reserved_le_max); the unit multipliers are the ones K/SysReqs assumes. *)
Theorem C12_callsite_inventory :
  NoDup enqueue_acquire_order /\ Forall (fun i => (i < 4)%N) enqueue_acquire_order /\
  update_size_callsites = 1%N /\ update_size_soft_le_hard = 1%N /\
  centi_per_core = 100 /\ mb_per_gb = 1024.
Proof.
  split; [|split; [|repeat split; reflexivity]].
  - repeat constructor; cbn; intuition discriminate.
  - repeat constructor.
Qed.
Print Assumptions C12_callsite_inventory.

(* ------------------------------------------------------------------ *)
(* GetSystemReqs + the amounts Enqueue derives from its result.       *)

(* For every request (threads t/64, mem m/4096 GB, vmem v/4096 GB with any
   integers t m v: fractional, zero, negative adaptive, above the limit), any
   current sizes of the memory semaphores and any sane configuration, the
   amounts acquired are positive / non-negative and within the limit of
   their semaphore; so Acquire never refuses them (C12_acquire_error_iff)
   and C12_reserved_le_max applies to them. *)
Theorem C12_sysreqs_clamped : forall c mem_cur vmem_cur t m v,
  cfg_ok c ->
  match enqueue_amounts (get_system_reqs c mem_cur vmem_cur t m v) with
  | [cc; mb; vmb; procs] =>
      0 < cc <= max_cores c * 100 /\
      0 <= mb <= max_mem_gb c * 1024 /\
      (0 < mem_gb_per_job c -> 0 < mb) /\
      (has_vmem c = true -> max_mem_gb c * 1024 <= max_vmem_mb c ->
         0 <= vmb <= max_vmem_mb c) /\
      Z.of_N procs_per_job < procs <= Z.of_N procs_per_job + max_cores c
  | _ => False
  end.
Proof. exact sysreqs_clamped_lemma. Qed.
Print Assumptions C12_sysreqs_clamped.

(* A negative (adaptive) memory request -x gets the whole current size of
   the semaphore when that is at least x, and x clamped to the limit otherwise. *)
Theorem C12_sysreqs_adaptive : forall c mem_cur m, cfg_ok c ->
  let m0 := round_away (m * mb_per_gb) 4096 in
  m0 < 0 ->
  (1 <= mem_cur -> - m0 <= mem_cur <= max_mem_gb c * 1024 -> mem_mb c mem_cur m = mem_cur) /\
  (mem_cur < - m0 -> mem_mb c mem_cur m = Z.min (- m0) (max_mem_gb c * 1024)).
Proof. exact mem_adaptive_lemma. Qed.
Print Assumptions C12_sysreqs_adaptive.

(* The vmem bound needs max_mem <= max_vmem: with --localvmem below
   --localmem the final vmem >= mem adjustment exceeds the vmem limit (and
   the job is then refused by Acquire, not over-subscribed). *)
Theorem C12_vmem_misconfigured :
  let c := mkCfg 4 8 2048 1 1 0 in
  vmem_mb c 8192 2048 (4 * 4096) 0 = 4096 /\ max_vmem_mb c = 2048.
Proof. exact vmem_above_limit_when_misconfigured. Qed.
Print Assumptions C12_vmem_misconfigured.

Example C12_sysreqs_nonvacuous :
  let c := mkCfg 4 8 16384 1 1 2 in
  cfg_ok c /\ has_vmem c = true /\ max_mem_gb c * 1024 <= max_vmem_mb c /\
  enqueue_amounts (get_system_reqs c 8192 16384 (-3) 40000 0) = [400; 8192; 11264; 19] /\
  enqueue_amounts (get_system_reqs c 6000 16384 0 (-4096) 6144) = [100; 6000; 5120; 16].
Proof. unfold cfg_ok. vm_compute. repeat split; try reflexivity; discriminate. Qed.

(* ------------------------------------------------------------------ *)
(* MaxJobsSemaphore (cluster mode, --maxjobs).                         *)

(* For every history of Acquire (blocking or not) / Release / FindDone /
   Clear / metadata state changes, in every wake-up order the model can
   take, the running set never holds more than the configured maximum and a
   metadata object occupies at most one slot. *)
Theorem C12_maxjobs_card_le_limit : forall limit ops,
  1 <= limit ->
  let m := fst (mrun (mj_init limit) ops) in
  len (mj_running m) <= limit /\ NoDup (mj_running m).
Proof. exact maxjobs_card_le_limit_lemma. Qed.
Print Assumptions C12_maxjobs_card_le_limit.

Example C12_maxjobs_nonvacuous :
  let ops := [MAcquire 1 false; MAcquire 2 false; MAcquire 3 false; MAcquire 3 false;
              MSet 1 MComplete; MFindDone; MRelease 2] in
  let '(m, ev) := mrun (mj_init 2) ops in
  mj_running m = [3%N] /\ mj_blocked m = [] /\
  ev = [MRet 1 true; MRet 2 true; MBlock 3; MBlock 3; MRet 3 true; MRet 3 true].
Proof. vm_compute. repeat split; reflexivity. Qed.

(* ------------------------------------------------------------------ *)
(* Never stall: n jobs that each take the k semaphores in the fixed order
   (C12_callsite_inventory), block in their FIFO queues, run, and release in
   reverse order; [req j i] is what job j takes from semaphore i, within
   [0, sizes i] (C12_sysreqs_clamped).  Moves are scheduled arbitrarily: any
   job, or any availability update of any semaphore that respects the hard
   limit and does not leave the current size below a job's request
   ([move_ok]); a move of a parked or finished job is a no-op. *)

(* No reachable state is a deadlock: while some job is unfinished, some job
   can move (ordered acquisition + head-of-queue invariant + the holders'
   sum). *)
Theorem C12_local_jobs_progress : forall k n req sizes,
  (forall j i, 0 <= req j i) -> (forall i, 0 <= sizes i) -> (forall j i, req j i <= sizes i) ->
  forall ms, moves_ok k req sizes (sys_init sizes n) ms ->
  let st := sys_run k req (sys_init sizes n) ms in
  (exists j, sy_pc st j <> Done) -> exists j, enabled st j = true.
Proof. exact local_jobs_progress_lemma. Qed.
Print Assumptions C12_local_jobs_progress.

(* Every schedule finishes: from any reachable state, any legal continuation
   contains at most [measure] effective job moves (a job cannot be kept busy
   or waiting forever by the others), and completion of all jobs is reachable
   within that many job moves.  With C12_local_jobs_progress: a scheduler that
   keeps moving some enabled job brings every job to Done. *)
Theorem C12_local_jobs_terminate : forall k n req sizes,
  (forall j i, 0 <= req j i) -> (forall i, 0 <= sizes i) -> (forall j i, req j i <= sizes i) ->
  forall ms, moves_ok k req sizes (sys_init sizes n) ms ->
  let st := sys_run k req (sys_init sizes n) ms in
  (forall ms', moves_ok k req sizes st ms' ->
     (measure k n (sys_run k req st ms') + job_moves k req st ms' <= measure k n st)%nat) /\
  (exists js, (length js <= measure k n st)%nat /\
     all_done n (sys_run k req st (map MJob js)) = true).
Proof. exact local_jobs_terminate_lemma. Qed.
Print Assumptions C12_local_jobs_terminate.

Theorem C12_local_jobs_measure_init : forall k n sizes,
  measure k n (sys_init sizes n) = (n * (3 * k + 2))%nat.
Proof. exact measure_init_lemma. Qed.
Print Assumptions C12_local_jobs_measure_init.

(* Non-vacuity: three jobs contending for two semaphores (4 cores, 8 GB);
   after a prefix of a schedule two of them are parked behind the first, and
   the rest of the schedule completes all of them. *)
Example C12_local_jobs_nonvacuous :
  let req := fun j i => nth i (nth j [[3; 5]; [2; 4]; [4; 8]] []) 0 in
  let sizes := fun i => nth i [4; 8] 0 in
  let pre := [MJob 0; MJob 1; MJob 2; MJob 0] in
  let post := [MJob 0; MJob 0; MJob 0; MJob 0; MJob 1; MJob 1; MJob 1; MJob 1; MJob 1;
               MJob 2; MJob 2; MJob 2; MJob 2; MJob 2] in
  let st := sys_run 2 req (sys_init sizes 3) pre in
  moves_ok 2 req sizes (sys_init sizes 3) (pre ++ post) /\
  sy_pc st 0 = Acq 2 /\ sy_pc st 1 = Wait 0 /\ sy_pc st 2 = Wait 0 /\
  enabled st 1 = false /\
  all_done 3 (sys_run 2 req st post) = true.
Proof. vm_compute. repeat split; reflexivity. Qed.
