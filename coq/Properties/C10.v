(* C10 - compilation, formatting and call-graph resolution are deterministic.
   Only statements, [exact], [Print Assumptions] and non-vacuity examples.

   A Go map is an association list in some insertion order; two traversals of
   the same map are two lists related by [Permutation], with pairwise distinct
   keys ([NoDup (map fst l)]).  Each theorem says that the bytes / the ordered
   list / the choice computed by the model of one emitting function of Martian
   is the same for both. *)
From Coq Require Import String.
From Martian Require Import Lib.Bytes Lib.Utf8 Json.Json K.Determinism Proofs.Determinism.
From Coq Require Import Permutation.

(* sort.Strings(keys) after ranging over a map: the common core *)
Theorem C10_sort_keys_perm_invariant : forall (A : Type) (l l' : list (bytes * A)),
  Permutation l l' -> NoDup (map fst l) -> sort_keys l = sort_keys l'.
Proof. exact (@sort_keys_perm_invariant). Qed.
Print Assumptions C10_sort_keys_perm_invariant.

(* MapExp.format (mro text of a map / struct literal, incl. key alignment) *)
Theorem C10_format_perm_invariant : forall st kvs kvs' prefix,
  Permutation kvs kvs' -> NoDup (map fst kvs) ->
  format (EMap st kvs) prefix = format (EMap st kvs') prefix.
Proof. exact format_perm_invariant_lemma. Qed.
Print Assumptions C10_format_perm_invariant.

(* ... at any nesting depth: expressions with the same canonical form (every
   literal sorted, recursively) format to the same bytes; [C10_canon_perm]
   shows permuted literals have the same canonical form. *)
Theorem C10_format_deep_invariant : forall e e',
  exp_wf e = true -> exp_wf e' = true -> canon e = canon e' ->
  forall prefix, format e prefix = format e' prefix.
Proof. exact format_deep_invariant_lemma. Qed.
Print Assumptions C10_format_deep_invariant.

Theorem C10_canon_perm : forall st kvs kvs',
  Permutation kvs kvs' -> NoDup (map fst kvs) ->
  canon (EMap st kvs) = canon (EMap st kvs').
Proof. exact canon_perm_lemma. Qed.
Print Assumptions C10_canon_perm.

(* MapExp.EncodeJSON / MarshalJSON *)
Theorem C10_encode_json_perm_invariant : forall st kvs kvs',
  Permutation kvs kvs' -> NoDup (map fst kvs) ->
  encode_json (EMap st kvs) = encode_json (EMap st kvs').
Proof. exact encode_json_perm_invariant_lemma. Qed.
Print Assumptions C10_encode_json_perm_invariant.

Theorem C10_encode_json_deep_invariant : forall e e',
  exp_wf e = true -> exp_wf e' = true -> canon e = canon e' ->
  encode_json e = encode_json e'.
Proof. exact encode_json_deep_invariant_lemma. Qed.
Print Assumptions C10_encode_json_deep_invariant.

(* core.LazyArgumentMap.encodeJSON / MarshalerMap.encodeJSON *)
Theorem C10_encode_lazy_args_perm_invariant : forall (l l' : list (bytes * option bytes)),
  Permutation l l' -> NoDup (map fst l) -> encode_lazy_args l = encode_lazy_args l'.
Proof. exact encode_lazy_args_perm_invariant. Qed.
Print Assumptions C10_encode_lazy_args_perm_invariant.

(* syntax.ResolvedBindingMap.encodeJSON (call graph JSON, "inputs") *)
Theorem C10_encode_binding_map_perm_invariant : forall (l l' : list (bytes * bytes)),
  Permutation l l' -> NoDup (map fst l) -> encode_binding_map l = encode_binding_map l'.
Proof. exact encode_binding_map_perm_invariant. Qed.
Print Assumptions C10_encode_binding_map_perm_invariant.

(* encodeMapSourceJson, map-literal source *)
Theorem C10_map_source_json_perm_invariant : forall (l l' : list (bytes * unit)),
  Permutation l l' -> NoDup (map fst l) -> map_source_json l = map_source_json l'.
Proof. exact map_source_json_perm_invariant. Qed.
Print Assumptions C10_map_source_json_perm_invariant.

(* core.makeForkIdParts + ForkIdSet.MakeForkIds: the enumeration (order and
   content) of fork ids does not depend on the traversal order of the key set
   of any map-typed fork dimension *)
Theorem C10_fork_ids_perm_invariant : forall dims dims',
  Forall2 dim_same dims dims' -> make_fork_ids dims = make_fork_ids dims'.
Proof. exact fork_ids_perm_invariant_lemma. Qed.
Print Assumptions C10_fork_ids_perm_invariant.

(* expandForkFromObj: keys of a run-time JSON object *)
Theorem C10_expand_fork_keys_perm_invariant : forall (l l' : list (bytes * unit)),
  Permutation l l' -> NoDup (map fst l) -> expand_fork_keys l = expand_fork_keys l'.
Proof. exact expand_fork_keys_perm_invariant. Qed.
Print Assumptions C10_expand_fork_keys_perm_invariant.

(* unifyMapSources: for ANY merge step, given that no two splits of the call
   share a source location (file, line, column) *)
Theorem C10_merge_sources_perm_invariant :
  forall (S St : Type) (step : St -> S -> St) (init : St) (l l' : list (loc * S)),
  Permutation l l' -> NoDup (map fst l) ->
  unify_map_sources step init l = unify_map_sources step init l'.
Proof. exact merge_sources_perm_invariant_lemma. Qed.
Print Assumptions C10_merge_sources_perm_invariant.

(* ... and the guard is needed: two splits the comparison cannot tell apart
   (before the repair: any two splits on one source line) *)
Theorem C10_merge_sources_same_line_refuted :
  exists l l' : list (loc * N),
    Permutation l l' /\
    unify_map_sources merge_len_step (None, []) l <>
    unify_map_sources merge_len_step (None, []) l'.
Proof. exact merge_sources_same_line_refuted_lemma. Qed.
Print Assumptions C10_merge_sources_same_line_refuted.

(* findMergeForkNode: sorted search over call.Inputs *)
Theorem C10_find_merge_fork_node_perm_invariant :
  forall (A B : Type) (f : A -> option B) (l l' : list (bytes * A)),
  Permutation l l' -> NoDup (map fst l) -> find_first_sorted f l = find_first_sorted f l'.
Proof. exact (@find_first_sorted_perm_invariant). Qed.
Print Assumptions C10_find_merge_fork_node_perm_invariant.

(* MergeMapCallSources "map key missing": the loop as written (unsorted)
   depends on the order; the sorted form does not *)
Theorem C10_first_missing_key_refuted :
  exists (ka ka' : list (bytes * unit)) (kb : list bytes),
    Permutation ka ka' /\ NoDup (map fst ka) /\
    first_missing_key ka kb <> first_missing_key ka' kb.
Proof. exact first_missing_key_refuted_lemma. Qed.
Print Assumptions C10_first_missing_key_refuted.

Theorem C10_first_missing_key_sorted_perm_invariant :
  forall (ka ka' : list (bytes * unit)) kb,
    Permutation ka ka' -> NoDup (map fst ka) ->
    first_missing_key_sorted ka kb = first_missing_key_sorted ka' kb.
Proof. exact first_missing_key_sorted_perm_invariant_lemma. Qed.
Print Assumptions C10_first_missing_key_sorted_perm_invariant.

(* Error accumulation over the entries of a literal (per-key type errors,
   unexpected fields, unresolved references ...): after the repair the entries
   are visited in sorted key order, so the ErrorList - and the message text -
   is the same for any traversal order; the loop as it was is refuted. *)
Theorem C10_error_list_perm_invariant :
  forall (A E : Type) (chk : bytes -> A -> option E) (l l' : list (bytes * A)),
  Permutation l l' -> NoDup (map fst l) ->
  collect_errors_sorted chk l = collect_errors_sorted chk l'.
Proof. exact error_list_perm_invariant_lemma. Qed.
Print Assumptions C10_error_list_perm_invariant.

Theorem C10_error_list_unsorted_refuted :
  exists (chk : bytes -> bool -> option bytes) (l l' : list (bytes * bool)),
    Permutation l l' /\ NoDup (map fst l) /\
    collect_errors chk l <> collect_errors chk l'.
Proof. exact error_list_unsorted_refuted_lemma. Qed.
Print Assumptions C10_error_list_unsorted_refuted.

(* Non-vacuity: a struct literal with a nested map, in two different insertion
   orders at both levels, meets the hypotheses, and the model gives the same
   non-trivial text for both. *)
Example C10_format_nonvacuous :
  let inner  := EMap false [(bs "y", EInt 2); (bs "x", EStr (bs "a""b"))] in
  let inner' := EMap false [(bs "x", EStr (bs "a""b")); (bs "y", EInt 2)] in
  let e  := EMap true [(bs "bb", inner); (bs "a", EArr [EInt 1]); (bs "cccc", ENull)] in
  let e' := EMap true [(bs "cccc", ENull); (bs "bb", inner'); (bs "a", EArr [EInt 1])] in
  exp_wf e = true /\ exp_wf e' = true /\ canon e = canon e' /\ e <> e' /\
  hex (format e []) = hex (format e' []) /\
  (64 <? blen (format e []))%N = true /\
  encode_json e = bs "{""a"":[1],""bb"":{""x"":""a\""b"",""y"":2},""cccc"":null}".
Proof. vm_compute. repeat split; try reflexivity. discriminate. Qed.

Example C10_perm_nonvacuous :
  let l  := [(bs "k2", 1%N); (bs "k10", 2%N); (bs "a", 3%N)] in
  let l' := [(bs "a", 3%N); (bs "k2", 1%N); (bs "k10", 2%N)] in
  Permutation l l' /\ NoDup (map fst l) /\ l <> l' /\
  sort_keys l = [(bs "a", 3%N); (bs "k10", 2%N); (bs "k2", 1%N)].
Proof.
  cbv zeta. split; [|split; [|split]].
  - apply Permutation_sym. apply Permutation_cons_append.
  - apply nodup_keys_NoDup. vm_compute. reflexivity.
  - discriminate.
  - vm_compute. reflexivity.
Qed.

Example C10_fork_ids_nonvacuous :
  let dims  := [DMap [bs "b"; bs "a"]; DArr 2] in
  let dims' := [DMap [bs "a"; bs "b"]; DArr 2] in
  Forall2 dim_same dims dims' /\
  make_fork_ids dims =
    [[PKey (bs "a"); PIdx 0]; [PKey (bs "b"); PIdx 0];
     [PKey (bs "a"); PIdx 1]; [PKey (bs "b"); PIdx 1]].
Proof.
  cbv zeta. split.
  - constructor; [|constructor; [constructor|constructor]].
    constructor; [apply perm_swap|].
    apply nodup_keys_NoDup. vm_compute. reflexivity.
  - vm_compute. reflexivity.
Qed.

Example C10_merge_sources_nonvacuous :
  let l  := [((Some (bs "p.mro"), (7%N, 30%N)), 3%N); ((Some (bs "p.mro"), (7%N, 9%N)), 3%N); ((None, (1%N, 1%N)), 4%N)] in
  NoDup (map fst l) /\
  unify_map_sources merge_len_step (None, []) l = ((Some 3%N, [(3%N, 4%N)]), Some 3%N).
Proof.
  cbv zeta. split.
  - repeat constructor; cbn; intuition congruence.
  - vm_compute. reflexivity.
Qed.
