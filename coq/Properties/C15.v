(* C15 - re-attach is refused iff the invocation's meaning (not merely its
   text) changed.  Only statements, [exact], and [Print Assumptions].

   [equiv_call a b] is the model of Ast.EquivalentCall (K/Equiv.v, tied to
   martian/syntax/equivalence.go on every run); a is the newly supplied
   program, b the one the pipestance was started with.  [norm] erases what the
   property calls cosmetic; [call_sim] says two normal forms have the same
   content (same named entries with the same normalised content; numeric
   literals up to the tolerance of IntExp/FloatExp.equal, which is the guard
   recorded as known finding C15-float-tolerance).  Struct types are compared
   by name only (recorded as C15-struct-definition, see
   C15_struct_member_refuted). *)
From Coq Require Import String.
From Martian Require Import Lib.Bytes Mro.Ast K.Equiv K.Lock Proofs.Equiv Proofs.EquivExamples Proofs.Lock.

(* accepted => same meaning *)
Theorem C15_equiv_sound : forall a b x y,
  wf_ast a = true -> wf_ast b = true ->
  norm (fuel_of a b) a = Some x -> norm (fuel_of a b) b = Some y ->
  equiv_call a b = true -> call_sim x y.
Proof. exact equiv_sound_lemma. Qed.
Print Assumptions C15_equiv_sound.

(* same meaning => accepted *)
Theorem C15_equiv_complete : forall a b x y,
  wf_ast a = true -> wf_ast b = true ->
  norm (fuel_of a b) a = Some x -> norm (fuel_of a b) b = Some y ->
  call_sim x y -> equiv_call a b = true.
Proof. exact equiv_complete_lemma. Qed.
Print Assumptions C15_equiv_complete.

(* the comparison always reaches a decision on such programs *)
Theorem C15_equiv_decides : forall a b x y,
  wf_ast a = true -> wf_ast b = true ->
  norm (fuel_of a b) a = Some x -> norm (fuel_of a b) b = Some y ->
  exists r, equiv_call_opt a b = Some r.
Proof. exact equiv_decides_lemma. Qed.
Print Assumptions C15_equiv_decides.

(* value expressions, both directions, any nesting depth *)
Theorem C15_exp_sound : forall a b, exp_equal a b = true -> exp_sim (norm_exp a) (norm_exp b).
Proof. exact exp_sound. Qed.
Print Assumptions C15_exp_sound.
Theorem C15_exp_complete : forall a b, wf_exp b = true ->
  exp_sim (norm_exp a) (norm_exp b) -> exp_equal a b = true.
Proof. exact exp_complete. Qed.
Print Assumptions C15_exp_complete.

(* the two clauses as they were before the fix: commits are wrong *)
Theorem C15_mods_v0_refuted : exists m o,
  mods_equiv_some_v0 m o = true /\ ~ opt_sim (dis_norm m) (dis_norm o).
Proof. exact mods_v0_refuted_lemma. Qed.
Print Assumptions C15_mods_v0_refuted.
Theorem C15_ptype_v0_refuted : exists t u,
  ptype_equal_v0 t u KindIsDirectory KindIsDirectory = false /\
  norm_type t KindIsDirectory true = norm_type u KindIsDirectory true.
Proof. exact ptype_v0_refuted_lemma. Qed.
Print Assumptions C15_ptype_v0_refuted.

(* recorded, not repaired: struct definitions are not compared; float
   literals within the relative tolerance are equal *)
Theorem C15_struct_member_refuted : exists a b,
  wf_ast a = true /\ wf_ast b = true /\ equiv_call b a = true /\
  a_struct_types a <> a_struct_types b.
Proof. exact struct_member_refuted_lemma. Qed.
Print Assumptions C15_struct_member_refuted.
Theorem C15_float_tolerance_refuted : exists m e m' e',
  exp_equal (EFloat m e) (EFloat m' e') = true /\ (m, e) <> (m', e') /\
  feqb (m, e) (m', e') = false.
Proof. exact float_tolerance_refuted_lemma. Qed.
Print Assumptions C15_float_tolerance_refuted.

(* A second instance can never attach for writing to a pipestance a live
   instance holds: if i's lock write precedes j's check and nobody unlocks in
   between, j is refused and does not hold the pipestance afterwards. *)
Theorem C15_lock_exclusion : forall s i j mid post,
  In i (saw_free s) -> i <> j ->
  ~ In j (saw_free s) -> ~ In j (holders s) ->
  forallb (fun e => negb (is_unlock e)) mid = true ->
  forallb (fun e => negb (is_check_of j e)) post = true ->
  let s1 := lock_step s (LWrite i) in
  let s2 := lock_run s1 (mid ++ [LCheck j]) in
  In i (holders s1) /\ lock_file s1 = true /\
  In j (refused s2) /\ ~ In j (holders (lock_run s2 post)).
Proof. exact lock_exclusion_lemma. Qed.
Print Assumptions C15_lock_exclusion.

Theorem C15_readonly_always : forall s j,
  let s' := lock_step s (LAttachRO j) in
  In j (readers s') /\ lock_file s' = lock_file s /\ holders s' = holders s /\ refused s' = refused s.
Proof. exact readonly_always_lemma. Qed.
Print Assumptions C15_readonly_always.

(* why a refused or read-only instance must never unlock (the lock file is
   removed whoever asks): an unlock by an instance that holds nothing admits
   a second writer while the first still holds the pipestance.  That only
   holders call Unlock is checked on the real mrp (a refused --inspect must
   leave the live instance's lock in place). *)
Theorem C15_foreign_unlock_breaks_exclusion : exists h,
  forallb (fun e => match e with LUnlock i => negb (N.eqb i 1 || N.eqb i 2) | _ => true end) h = true /\
  holders (lock_run lock_init h) = [2%N; 1%N].
Proof. exact foreign_unlock_lemma. Qed.
Print Assumptions C15_foreign_unlock_breaks_exclusion.

(* outside the statement: the check-then-write window *)
Theorem C15_lock_toctou : exists h, length (holders (lock_run lock_init h)) = 2.
Proof. exact lock_toctou_lemma. Qed.
Print Assumptions C15_lock_toctou.

(* Non-vacuity: a program with a user file type used as T[], a struct, a
   disabled modifier and a float literal meets every hypothesis; a cosmetic
   edit of it (file type renamed, comment added) is accepted both ways and a
   semantic edit (x = 1.5 becomes 2.5) is refused both ways. *)
Example C15_equiv_nonvacuous :
  (wf_ast ex_a = true /\ wf_ast ex_b = true /\ wf_ast ex_c = true /\ wf_ast ex_d = true /\
   cache_ok ex_a = true /\ cache_ok ex_b = true) /\
  ((exists x, norm (fuel_of ex_b ex_a) ex_a = Some x) /\
   (exists y, norm (fuel_of ex_b ex_a) ex_b = Some y) /\
   (exists z, norm (fuel_of ex_c ex_a) ex_c = Some z)) /\
  (equiv_call ex_b ex_a = true /\ equiv_call ex_a ex_b = true /\
   equiv_call ex_c ex_a = false /\ equiv_call ex_a ex_c = false).
Proof. exact (conj examples_wf (conj examples_norm examples_equiv)). Qed.

Example C15_lock_nonvacuous :
  let s := lock_step lock_init (LCheck 1%N) in
  In 1%N (saw_free s) /\ ~ In 2%N (saw_free s) /\ ~ In 2%N (holders s) /\
  refused (lock_run s [LWrite 1%N; LAttachRO 3%N; LCheck 2%N; LWrite 2%N]) = [2%N] /\
  holders (lock_run s [LWrite 1%N; LAttachRO 3%N; LCheck 2%N; LWrite 2%N]) = [1%N].
Proof. cbn. repeat split; auto; intros [H|H]; try discriminate; auto. Qed.
