(* C09 - formatting is idempotent and preserves the program.  Only statements,
   [exact] and [Print Assumptions]; definitions in K/FormatExp.v, K/FormatGB.v,
   K/TopoSort.v, K/Same.v (and K/Lexer.v, K/Unquote.v, K/ParseNum.v of C08),
   proofs in Proofs/.

   Kernels: what the formatter writes for a string / an integer / a memory
   amount is read back by the lexer and the token converters as the value it
   was written from.  Whole programs: [ast_same] is the validator run on every
   (source, formatted) pair of compiled Asts dumped from the implementation;
   [same_ast] is what it establishes.  Comments and the byte-level fixed point
   are checked on the implementation only (partial, see checks/c09.py). *)
From Coq Require Import String Permutation.
From Martian Require Import Lib.Bytes Lib.Utf8 Mro.Ast
  K.ParseNum K.Unquote K.Lexer K.FormatExp K.FormatGB K.TopoSort K.Same K.ExpComments
  Proofs.FormatExp Proofs.FormatGB Proofs.TopoSort Proofs.Same Proofs.ExpComments.

(* quoteString: for every valid UTF-8 string, of any length, the text written
   is exactly one string token (whatever follows it) and unquoting that token
   gives the string back *)
Theorem C09_quote_roundtrip : forall s rest,
  valid_utf8 s = true ->
  tok_string (quote_string s ++ rest) = length (quote_string s) /\
  unquote (quote_string s) = Some s.
Proof. exact quote_roundtrip_lemma. Qed.
Print Assumptions C09_quote_roundtrip.

(* the guard is needed: bytes that are not valid UTF-8 are not reproduced
   (recorded known finding C09-invalid-utf8-literal) *)
Theorem C09_quote_invalid_utf8_refuted :
  exists s, unquote (quote_string s) <> Some s /\ valid_utf8 s = false.
Proof. exact quote_invalid_utf8_refuted_lemma. Qed.
Print Assumptions C09_quote_invalid_utf8_refuted.

(* IntExp.format then parseInt is the identity on int64 *)
Theorem C09_int_format_parse : forall z,
  (- 2 ^ 63 <= z < 2 ^ 63)%Z -> parse_int (format_int z) = IOk z.
Proof. exact int_format_parse_lemma. Qed.
Print Assumptions C09_int_format_parse.

(* formatGB: for every amount of memory mbt/1024 GB (any size), the printed
   text is the integer part followed by a fraction that, read as an exact
   decimal and rounded up to whole MB, is the fractional number of MB.
   PARTIAL: the parser reads the text as a float32; that rounding is not
   modelled (it matters from 256 GB up, where the implementation re-checks
   each candidate with the real float32 parse; the implementation-side oracle
   covers all 1024 fractions in every binade). *)
Theorem C09_formatGB_roundtrip_partial : forall mbt,
  let whole := (mbt / 1024)%N in
  let mb := (mbt mod 1024)%N in
  format_gb mbt = (if (mbt =? 0)%N then [c_zero]
                   else print_dec whole ++ (if (mb =? 0)%N then [] else gb_frac mb)) /\
  forallb is_digit (print_dec whole) = true /\
  (dec_value (print_dec whole) * 1024 + (if (mb =? 0)%N then 0 else gb_frac_mb mb))%N = mbt.
Proof. exact format_gb_roundtrip_lemma. Qed.
Print Assumptions C09_formatGB_roundtrip_partial.

Theorem C09_formatGB_fraction : forall mb,
  (0 < mb < 1024)%N -> gb_frac_mb mb = mb /\ frac_shape (gb_frac mb) = true.
Proof. exact (fun mb H => conj (gb_frac_roundtrip_lemma mb H) (gb_frac_shape_lemma mb H)). Qed.
Print Assumptions C09_formatGB_fraction.

(* topoSort only rearranges the calls ... *)
Theorem C09_toposort_perm : forall g out,
  topo_sort g = Some out -> Permutation out (map fst g).
Proof. exact topo_sort_perm_lemma. Qed.
Print Assumptions C09_toposort_perm.

(* ... and is the identity on calls that already are in dependency order
   (so formatting a formatted pipeline does not move calls again).  That the
   result respects the dependencies is established per run by the validator
   ([dep_ordered] in [same_ast]). *)
Theorem C09_toposort_stable : forall g,
  cyclic (closure g) = false -> ordered (closure g) = true ->
  topo_sort g = Some (map fst g).
Proof. exact topo_sort_ordered_lemma. Qed.
Print Assumptions C09_toposort_stable.

(* the validator is sound: programs it accepts have the same declarations,
   parameters, types, help/outname strings, src, resources, retains, the same
   calls (a permutation, both orders respecting the dependencies) with the same
   bindings, literal values, modifiers and modes, the same return bindings and
   the same top-level call *)
Theorem C09_ast_same_sound : forall a b, ast_same a b = true -> same_ast a b.
Proof. exact ast_same_sound_lemma. Qed.
Print Assumptions C09_ast_same_sound.

(* what same_ast gives for the calls of two matched pipelines *)
Theorem C09_same_pipeline_calls : forall p q c,
  same_pipeline p q -> In c (pl_calls p) ->
  length (pl_calls p) = length (pl_calls q) /\
  exists d, In d (pl_calls q) /\ canon_call c = canon_call d.
Proof. exact (fun p q c H Hc => conj (same_pipeline_length p q H) (same_pipeline_calls p q c H Hc)). Qed.
Print Assumptions C09_same_pipeline_calls.

(* literal values are compared exactly: an int and a float literal are the same
   value only if the float is that integer; two non-integral floats only if they
   are the same float; a string only with the same string *)
Theorem C09_literal_values_exact :
  (forall z m e, canon_exp (EInt z) = canon_exp (EFloat m e) <-> ((0 <= e)%Z /\ z = (m * 2 ^ e)%Z)) /\
  (forall m e m' e', (e < 0)%Z -> (e' < 0)%Z ->
     (canon_exp (EFloat m e) = canon_exp (EFloat m' e') <-> (m = m' /\ e = e'))) /\
  (forall s e, canon_exp (EString s) = canon_exp e -> e = EString s).
Proof. exact (conj canon_int_float (conj canon_float_float canon_string)). Qed.
Print Assumptions C09_literal_values_exact.

(* comments inside collection literals: for every literal, of any nesting, the
   model of ArrayExp.formatNested / MapExp.format prints each comment attached
   to an element or entry exactly once, in order - including the elements of
   single-element arrays nested in single-element arrays, which are written on
   one line only when the element carries no comment.  (Which node a comment
   is attached to - lexer.go attachComments - is not modelled; the
   correspondence uses layouts where it is the element that follows.) *)
Theorem C09_literal_comments_exactly_once : forall e, fmt false e = inorder e.
Proof. exact fmt_inorder_lemma. Qed.
Print Assumptions C09_literal_comments_exactly_once.

(* the test is needed at every level: a printer that skips it once its caller
   has said single line loses the comment before the 7 of [[7]] *)
Theorem C09_literal_comments_slip_refuted :
  exists e, fmt_slip false e <> inorder e /\ inorder e = [5%N].
Proof. exact fmt_slip_refuted_lemma. Qed.
Print Assumptions C09_literal_comments_slip_refuted.

(* ---------------------------------------------------------------- non-vacuity *)
Open Scope string_scope.

(* a string with a quote, a backslash, a newline, a control byte, U+2028 and a
   two-byte rune is valid UTF-8, gets escapes, and comes back *)
Example C09_quote_nonvacuous :
  let s := (bs "a""b\c" ++ [x0a; x01; xe2; x80; xa8; xc3; xa9])%list in
  valid_utf8 s = true /\ quote_string s <> (c_dquote :: s ++ [c_dquote])%list /\
  unquote (quote_string s) = Some s.
Proof. vm_compute. repeat split; try reflexivity. discriminate. Qed.

Example C09_int_nonvacuous :
  format_int (-9223372036854775808)%Z = bs "-9223372036854775808" /\
  parse_int (format_int (-9223372036854775808)%Z) = IOk (-9223372036854775808)%Z.
Proof. vm_compute. split; reflexivity. Qed.

Example C09_formatGB_nonvacuous :
  format_gb 2560 = bs "2.5" /\ format_gb 2 = bs "0.001" /\ format_gb 10445 = bs "10.2" /\
  format_gb 1024 = bs "1" /\ gb_frac_mb 2 = 2%N.
Proof. vm_compute. repeat split; reflexivity. Qed.

(* three calls written in reverse dependency order are put in order; the
   ordered list is then left alone *)
Example C09_toposort_nonvacuous :
  topo_sort [(2, [1]); (1, [0]); (0, [])]%N = Some [0; 1; 2]%N /\
  topo_sort [(0, []); (1, [0]); (2, [1])]%N = Some [0; 1; 2]%N /\
  ordered (closure [(0, []); (1, [0]); (2, [1])]%N) = true /\
  topo_sort [(0, [1]); (1, [0])]%N = None.
Proof. vm_compute. repeat split; reflexivity. Qed.

(* a pipeline with two calls: swapping independent calls and writing 1.0 as 1
   is accepted; changing a literal, or an order that breaks a dependency, is not *)
Definition ex_t : type_id := mk_tid (bs "int") 0 0.
Definition ex_call (id : string) (e : exp) : call_stm :=
  mk_call (bs id) (bs "S") (Some (mk_mods [] false false false))
          [mk_bind (bs "x") e ex_t] ModeSingleCall.
Definition ex_stage : callable :=
  CStage (mk_stage (bs "S") [mk_in (bs "x") ex_t [] KindIsNotFile false]
                   [mk_member (bs "y") ex_t [] [] KindIsNotFile false false]
                   false [] [] [] (mk_src LangPython (bs "s") []) None).
Definition ex_pipe (calls : list call_stm) : ast :=
  mk_ast [] [] [ex_stage; CPipeline (mk_pipeline (bs "P") [] [] calls (Some []) [])] true None.
Example C09_ast_same_nonvacuous :
  ast_same (ex_pipe [ex_call "A" (EFloat 1 0); ex_call "B" (EInt 2)])
           (ex_pipe [ex_call "B" (EInt 2); ex_call "A" (EInt 1)]) = true /\
  ast_same (ex_pipe [ex_call "A" (EInt 1)]) (ex_pipe [ex_call "A" (EInt 2)]) = false /\
  ast_same (ex_pipe [ex_call "A" (EFloat 3 (-1))]) (ex_pipe [ex_call "A" (EInt 1)]) = false /\
  ast_same (ex_pipe [ex_call "A" (EInt 1); ex_call "B" (ERef RefCall (bs "A") (bs "y"))])
           (ex_pipe [ex_call "B" (ERef RefCall (bs "A") (bs "y")); ex_call "A" (EInt 1)]) = false.
Proof. vm_compute. repeat split; reflexivity. Qed.

(* [[# c5 / 7]] inside a map entry with its own comment, next to a two-element
   array: all four comments come out once, in order *)
Example C09_literal_comments_nonvacuous :
  let e := CMap [([1%N], CArr [([], CArr [([5%N], CLeaf)])]);
                 ([], CArr [([7%N], CLeaf); ([8%N], CArr [])])] in
  fmt false e = [1; 5; 7; 8]%N /\ slf (CArr [([], CArr [([5%N], CLeaf)])]) = true.
Proof. vm_compute. split; reflexivity. Qed.
