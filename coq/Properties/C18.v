(* C18 - cluster job scripts reproduce commands, paths and environment values
   exactly.  Only statements, [exact], and [Print Assumptions]. *)
From Coq Require Import String.
From Martian Require Import Lib.Bytes Lib.Utf8 K.ShellQuote K.Sh K.JobScript Proofs.ShellQuote Proofs.JobScript.
From Coq Require Import Permutation.

(* A POSIX shell evaluating the double-quoted word produced for [s] yields
   exactly [s]; in particular evaluation never reaches an expansion. *)
Theorem C18_quote_roundtrip : forall s,
  valid_utf8 s = true -> sh_dquote (quote s) = Lit s.
Proof. exact quote_roundtrip_lemma. Qed.
Print Assumptions C18_quote_roundtrip.

(* The assembled command line ( K="v" ... "cmd" "arg" ... ) evaluates to a
   simple command with exactly the given environment assignments (in some
   order: they are sorted) and exactly the given words. *)
Theorem C18_format_args_roundtrip : forall envs cmd argv,
  Forall env_ok envs ->
  valid_utf8 cmd = true ->
  Forall (fun a => valid_utf8 a = true) argv ->
  exists envs', Permutation envs envs' /\
    sh_simple_command (format_args envs cmd argv) = Lit (envs', cmd :: argv).
Proof. exact format_args_roundtrip_lemma. Qed.
Print Assumptions C18_format_args_roundtrip.

(* Filling the job template: which positions of the template are replaced is a
   function of the template and the placeholder names only; text that was
   substituted (a quoted path, the command line, an environment value) is
   never scanned for placeholders again, whatever it contains. *)
Theorem C18_template_single_pass : forall keys vals s,
  length keys = length vals ->
  replace_all (combine keys vals) s = render vals (scan (S (length s)) keys s).
Proof. exact replace_factors. Qed.
Print Assumptions C18_template_single_pass.

Theorem C18_template_same_positions : forall keys vals vals' s,
  length keys = length vals -> length keys = length vals' ->
  exists ts, replace_all (combine keys vals) s = render vals ts /\
             replace_all (combine keys vals') s = render vals' ts.
Proof. exact same_positions. Qed.
Print Assumptions C18_template_same_positions.

Example C18_template_nonvacuous :
  (* a value that contains a later placeholder is copied, not expanded *)
  replace_all [(bs "__A__", bs "x__B__y"); (bs "__B__", bs "2")] (bs "a=__A__ b=__B__")
  = bs "a=x__B__y b=2".
Proof. vm_compute. reflexivity. Qed.

(* Non-vacuity: a value made of every shell-active character plus non-ASCII
   text meets the hypotheses, and the model evaluates it back. *)
Example C18_nonvacuous :
  let v := unhex "6122245c600a2a3f7e20c3a9e298ba27" in
  valid_utf8 v = true /\ env_ok (bs "MRO_X1", v) /\
  sh_simple_command (format_args [(bs "MRO_X1", v)] v [v; []]) = Lit ([(bs "MRO_X1", v)], [v; v; []]).
Proof. vm_compute. repeat split; reflexivity. Qed.
