(* C06 - a failing job fails the pipestance, blocks only its dependents. *)
From Martian Require Import Lib.Bytes Mro.Sched Proofs.BytesFacts Proofs.Sched.

(* while a failed job is not reset, a job that depends on it is never
   started and stays idle - for every dependency relation, every history *)
Theorem C06_failed_blocks_dependents : forall (deps : bytes -> list bytes) tr s s' j k,
  run bytes bytes_eqb deps s tr = Some s' ->
  get bytes bytes_eqb s j = Failed -> no_reset_of bytes j tr ->
  In j (deps k) -> get bytes bytes_eqb s k = Idle ->
  count_starts bytes bytes_eqb k tr = 0 /\ get bytes bytes_eqb s' k = Idle.
Proof. exact (failed_blocks_dependents bytes bytes_eqb bytes_eqb_spec). Qed.
Print Assumptions C06_failed_blocks_dependents.

(* a failed job is never done, so the pipestance is never complete while the
   failure stands *)
Theorem C06_failed_never_complete : forall (deps : bytes -> list bytes) tr s s' j,
  run bytes bytes_eqb deps s tr = Some s' ->
  get bytes bytes_eqb s j = Failed -> no_reset_of bytes j tr ->
  get bytes bytes_eqb s' j <> Done.
Proof. exact (failed_never_complete bytes bytes_eqb bytes_eqb_spec). Qed.
Print Assumptions C06_failed_never_complete.

(* restarting after the fault is removed never re-executes finished work *)
Theorem C06_done_never_restarted : forall (deps : bytes -> list bytes) pre j post s,
  run bytes bytes_eqb deps [] (pre ++ EDone j :: post) = Some s ->
  count_starts bytes bytes_eqb j post = 0.
Proof. exact (done_never_restarted bytes bytes_eqb bytes_eqb_spec). Qed.
Print Assumptions C06_done_never_restarted.

(* a reset is only ever possible for a job that is running or failed *)
Theorem C06_restart_only_resets_unfinished : forall (deps : bytes -> list bytes) s j,
  enabled bytes bytes_eqb deps s (EReset j) = true ->
  get bytes bytes_eqb s j = Running \/ get bytes bytes_eqb s j = Failed.
Proof.
  intros deps s j H. cbn in H. destruct (get bytes bytes_eqb s j); cbn in H; try discriminate; auto.
Qed.
Print Assumptions C06_restart_only_resets_unfinished.

(* independent jobs are unaffected: a job none of whose dependencies failed
   remains startable *)
Theorem C06_independent_startable : forall (deps : bytes -> list bytes) s k,
  get bytes bytes_eqb s k = Idle ->
  (forall d, In d (deps k) -> get bytes bytes_eqb s d = Done) ->
  enabled bytes bytes_eqb deps s (EStart k) = true.
Proof.
  intros deps s k Hk Hd. cbn. rewrite Hk. cbn. apply forallb_forall. intros d Hin.
  unfold is_done. rewrite (Hd d Hin). reflexivity.
Qed.
Print Assumptions C06_independent_startable.

Example C06_nonvacuous :
  let d (j : bytes) := if bytes_eqb j [x62] then [[x61]] else [] in
  (* a fails; its dependent b cannot start; the independent c can; after the
     reset a re-runs and b follows *)
  valid_trace bytes bytes_eqb d [EStart [x61]; EFail [x61]; EStart [x63]; EDone [x63]] = true /\
  valid_trace bytes bytes_eqb d [EStart [x61]; EFail [x61]; EStart [x62]] = false /\
  valid_trace bytes bytes_eqb d [EStart [x61]; EFail [x61]; EStart [x63]; EDone [x63];
                                 EReset [x61]; EStart [x61]; EDone [x61]; EStart [x62]; EDone [x62]] = true /\
  valid_trace bytes bytes_eqb d [EStart [x63]; EDone [x63]; EReset [x63]] = false.
Proof. vm_compute. repeat split; reflexivity. Qed.
