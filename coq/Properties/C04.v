(* C04 - volatile data removal never deletes a file that is still needed.

   Model: Mro/Vdr.v (the bookkeeping of martian/core storage.go, stage.go,
   node.go as a state machine over an abstract file set).  Every theorem
   quantifies over ALL initial systems satisfying the executable
   well-formedness check [static_ok] (the stage contract of the property's
   quantifier) and over ALL operation sequences [ops] - producers advancing
   through their phases, asynchronous caching and partial kills in any order
   and at any time, consumers finishing in any order, the final sweep, dynamic
   fork cloning, restarts - and all four VDR modes. *)
From Martian Require Import Lib.Bytes Mro.Vdr Proofs.Vdr Proofs.VdrExamples.
Local Open Scope N_scope.

(* the two maps agree: a node is recorded as a holder of an argument exactly
   when the argument is in the node's set *)
Theorem C04_books_consistent : forall s ops, init_ok s ->
  forall id k, In (id, k) (s_forks (run s ops)) ->
  forall n a, In (a, Some n) (fa k) <-> In (n, a) (fp k).
Proof. exact books_consistent. Qed.
Print Assumptions C04_books_consistent.

(* ... and the nil holder (top-level pipeline / retain) of an argument that
   names a file is never removed from the books *)
Theorem C04_top_holder_never_removed : forall s ops, init_ok s ->
  forall id k, In (id, k) (s_forks (run s ops)) ->
  forall a f, In (a, None) (init_fa k) -> In f (files0 k) -> In a (f_names f) -> In (a, None) (fa k).
Proof. exact top_holder_never_removed. Qed.
Print Assumptions C04_top_holder_never_removed.

(* A file has left the disk (at whatever step: the statement holds in every
   reachable state, hence in the state right after the removal) only if every
   argument naming it has no nil holder, and each of its holders has finished. *)
Theorem C04_no_kill_while_needed : forall s ops, init_ok s ->
  forall id k, In (id, k) (s_forks (run s ops)) ->
  forall f a h, In f (removed k) -> In a (f_names f) -> In (a, h) (init_fa k) ->
  exists n, h = Some n /\ In n (s_done (run s ops)).
Proof. exact no_kill_while_needed. Qed.
Print Assumptions C04_no_kill_while_needed.

(* files named by a top-level output or a retain declaration stay on disk forever *)
Theorem C04_top_and_retained_never_removed : forall s ops, init_ok s ->
  forall id k, In (id, k) (s_forks (run s ops)) ->
  forall f a, In f (files0 k) -> In a (f_names f) -> In (a, None) (init_fa k) ->
  In f (disk k) /\ ~ In f (removed k).
Proof. exact top_and_retained_never_removed. Qed.
Print Assumptions C04_top_and_retained_never_removed.

(* a consumer that has not finished finds every file named by an argument it is bound to *)
Theorem C04_args_present_at_start : forall s ops, init_ok s ->
  forall id k, In (id, k) (s_forks (run s ops)) ->
  forall f a n, In f (files0 k) -> In a (f_names f) -> In (a, Some n) (init_fa k) ->
  ~ In n (s_done (run s ops)) -> In f (disk k).
Proof. exact args_present_at_start. Qed.
Print Assumptions C04_args_present_at_start.

(* final outputs intact: what is on disk is always part of what was written
   (same path, owner, size - the model has no operation that rewrites a file),
   what is gone is recorded, and a path is never both *)
Theorem C04_final_outputs_intact : forall s ops, init_ok s ->
  forall id k, In (id, k) (s_forks (run s ops)) ->
  (forall f, In f (disk k) -> In f (files0 k)) /\
  (forall f, In f (files0 k) -> In f (disk k) \/ In f (removed k)) /\
  (forall f g, In f (disk k) -> In g (removed k) -> f_path f <> f_path g).
Proof. exact disk_only_shrinks. Qed.
Print Assumptions C04_final_outputs_intact.

(* a fork created at run time (cloneFork) starts with exactly the books of its
   template - every holder, the nil (retain / top-level) holder included; the
   theorems above then protect its files against those books *)
Theorem C04_clone_keeps_holders : forall s src new files vals k,
  get_fork src (s_forks s) = Some k -> get_fork new (s_forks s) = None -> ph k = PRun ->
  files_ok (k_split k) files vals = true ->
  exists k', In (new, k') (s_forks (step s (CloneFork src new files vals))) /\
             fa k' = fa k /\ fp k' = fp k /\ init_fa k' = fa k /\ init_fp k' = fp k /\
             files0 k' = files /\ disk k' = files.
Proof. exact clone_keeps_holders. Qed.
Print Assumptions C04_clone_keeps_holders.

(* ---- non-vacuity: a concrete system meets the hypotheses, and the theorems
   say something there (files really are removed, and only the permitted ones) *)
Example C04_books_consistent_nonvacuous : init_ok (ex_sys Rolling) /\
  map (fun e => (fa (snd e), fp (snd e))) (s_forks (run (ex_sys Rolling) ex_ops1))
  = [([(0, Some 7); (1, None)], [(7, 0)])].
Proof. split; [apply ex_init_ok | vm_compute; reflexivity]. Qed.

(* while consumer 7 is pending only the temporary file 3 (strict mode: also the
   unreferenced file 4) is gone; once it has finished, file 1 goes too; file 2
   (top-level) stays *)
Example C04_no_kill_while_needed_nonvacuous : init_ok (ex_sys Rolling) /\
  removed_paths (run (ex_sys Rolling) ex_ops1) = [(0, [3])] /\
  removed_paths (run (ex_sys Rolling) ex_ops2) = [(0, [3; 1; 4])] /\
  removed_paths (run (ex_sys Strict) ex_ops1) = [(0, [3; 4])] /\
  removed_paths (run (ex_sys Strict) ex_ops2) = [(0, [3; 4; 1])].
Proof. split; [apply ex_init_ok | repeat split; vm_compute; reflexivity]. Qed.

Example C04_top_and_retained_never_removed_nonvacuous : init_ok (ex_sys Strict) /\
  disk_paths (run (ex_sys Strict) ex_ops2) = [(0, [2])] /\
  disk_paths (run (ex_sys Post) ex_ops2) = [(0, [2])].
Proof. split; [apply ex_init_ok | split; vm_compute; reflexivity]. Qed.

Example C04_args_present_at_start_nonvacuous :
  disk_paths (run (ex_sys Rolling) ex_ops1) = [(0, [1; 2; 4])] /\
  s_done (run (ex_sys Rolling) ex_ops1) = [].
Proof. split; vm_compute; reflexivity. Qed.

(* a clone of the example fork with a retained file of its own: the file
   survives the completion of consumer 7 and the final sweep *)
Example C04_clone_keeps_holders_nonvacuous :
  disk_paths (run (ex_sys Rolling)
    ([CloneFork 0 1 [mkFile 11 ChunkFiles 3 [1]; mkFile 12 ChunkFiles 4 [0]] [0; 1];
      Advance 1; Advance 1; Advance 1; Advance 1; Cache 1] ++ ex_ops2 ++ [PartialKill 1; FinalSweep]))
  = [(0, [2]); (1, [11])].
Proof. vm_compute. reflexivity. Qed.
