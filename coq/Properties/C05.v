(* C05 - an interrupted pipestance resumes to the same result, not redoing
   finished work. *)
From Martian Require Import Lib.Bytes Mro.Sched Proofs.BytesFacts Proofs.Sched.

(* a recorded completion survives everything that can follow: crashes,
   failures and restarts only ever reset jobs that are not done *)
Theorem C05_done_stable : forall (deps : bytes -> list bytes) tr s s' d,
  run bytes bytes_eqb deps s tr = Some s' ->
  get bytes bytes_eqb s d = Done -> get bytes bytes_eqb s' d = Done.
Proof. exact (done_stable bytes bytes_eqb bytes_eqb_spec). Qed.
Print Assumptions C05_done_stable.

(* a job whose completion was recorded before the interruption is never
   executed again, in any continuation *)
Theorem C05_done_never_restarted : forall (deps : bytes -> list bytes) pre j post s,
  run bytes bytes_eqb deps [] (pre ++ EDone j :: post) = Some s ->
  count_starts bytes bytes_eqb j post = 0.
Proof. exact (done_never_restarted bytes bytes_eqb bytes_eqb_spec). Qed.
Print Assumptions C05_done_never_restarted.

(* whatever the interruption point: once the restart has reset the unfinished
   jobs (every job idle or done), there is a continuation that completes the
   pipestance, starts nothing that was done and everything else exactly once *)
Theorem C05_restart_converges : forall (deps : bytes -> list bytes) jobs s,
  topo bytes deps jobs ->
  (forall j, In j jobs -> get bytes bytes_eqb s j = Idle \/ get bytes bytes_eqb s j = Done) ->
  exists tr s', run bytes bytes_eqb deps s tr = Some s' /\
    (forall j, In j jobs -> get bytes bytes_eqb s' j = Done) /\
    (forall j, get bytes bytes_eqb s j = Done -> count_starts bytes bytes_eqb j tr = 0) /\
    (forall j, count_starts bytes bytes_eqb j tr <= 1) /\ quiet bytes tr.
Proof. exact (restart_converges bytes bytes_eqb bytes_eqb_spec). Qed.
Print Assumptions C05_restart_converges.

(* and the scheduler cannot stall on the way (some job is always startable) *)
Theorem C05_no_stall : forall (deps : bytes -> list bytes) jobs s,
  topo bytes deps jobs ->
  (forall j, In j jobs -> get bytes bytes_eqb s j = Idle \/ get bytes bytes_eqb s j = Done) ->
  (exists j, In j jobs /\ get bytes bytes_eqb s j <> Done) ->
  exists j, In j jobs /\ enabled bytes bytes_eqb deps s (EStart j) = true.
Proof. exact (progress bytes bytes_eqb). Qed.
Print Assumptions C05_no_stall.

(* the final outputs are a function of the program and the stage behaviour
   only (Mro/Sem.v has no notion of schedule or interruption): equality with an
   uninterrupted run is the checked correspondence *)

Example C05_nonvacuous :
  let d (j : bytes) := if bytes_eqb j [x62] then [[x61]] else [] in
  (* a done, b running when mrp is killed; restart resets b, never a *)
  valid_trace bytes bytes_eqb d [EStart [x61]; EDone [x61]; EStart [x62]; EReset [x62]; EStart [x62]; EDone [x62]] = true /\
  valid_trace bytes bytes_eqb d [EStart [x61]; EDone [x61]; EStart [x62]; EReset [x62]; EStart [x61]] = false /\
  topo bytes d [[x61]; [x62]].
Proof.
  split; [vm_compute; reflexivity|]. split; [vm_compute; reflexivity|].
  intros pre j post H dd Hd.
  destruct pre as [|p0 pre]; cbn in H; injection H as <- H.
  - vm_compute in Hd. contradiction.
  - destruct pre as [|p1 pre]; cbn in H; [injection H as <- _|].
    + vm_compute in Hd. destruct Hd as [<-|[]]. left. reflexivity.
    + injection H as _ H. destruct pre; discriminate.
Qed.
