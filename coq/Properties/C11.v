(* C11 - fork identities are unique and job notifications reach exactly their
   owner.  Only statements, [exact], and [Print Assumptions]. *)
From Coq Require Import String.
From Martian Require Import Lib.Bytes Extracted.Journal K.ForkName K.Journal
  Proofs.ForkName Proofs.ForkNameEmpty Proofs.Journal Proofs.JournalParse K.Attempt Proofs.Attempt.

(* Distinct map keys have distinct safe (percent-encoded) forms: all keys,
   any bytes. *)
Theorem C11_path_escape_inj : forall k1 k2,
  path_escape k1 = path_escape k2 -> k1 = k2.
Proof. exact path_escape_inj_lemma. Qed.
Print Assumptions C11_path_escape_inj.

(* The journal encoding of fork ids (the replacer pairs the source has now)
   is injective on all byte strings, and never produces a dot or a slash. *)
Theorem C11_journal_encode_inj : forall s t,
  journal_encode s = journal_encode t -> s = t.
Proof. exact journal_encode_inj_lemma. Qed.
Print Assumptions C11_journal_encode_inj.

Theorem C11_journal_token_safe : forall s,
  contains_byte c_dot (journal_encode s) = false /\
  contains_byte c_slash (journal_encode s) = false.
Proof. exact (fun s => conj (journal_no_dot s) (journal_no_slash s)). Qed.
Print Assumptions C11_journal_token_safe.

(* Two forks of one call (same sources and ranges wherever the indices above
   agree; arbitrary nesting depth, static or dynamic arrays of any length,
   maps over any keys) with the same id string - hence the same directory
   and the same journal token - have the same indices and keys. *)
Theorem C11_fork_id_inj : forall ps qs s,
  sib ps qs -> Forall wf_part ps -> Forall wf_part qs ->
  fork_id ps = Some s -> fork_id qs = Some s -> map p_id ps = map p_id qs.
Proof. exact fork_id_inj_lemma. Qed.
Print Assumptions C11_fork_id_inj.

Theorem C11_fork_journal_token_inj : forall ps qs s t,
  sib ps qs -> Forall wf_part ps -> Forall wf_part qs ->
  fork_id ps = Some s -> fork_id qs = Some t ->
  fork_journal_token s = fork_journal_token t -> map p_id ps = map p_id qs.
Proof.
  exact (fun ps qs s t H1 H2 H3 E1 E2 E3 =>
    fork_id_inj_lemma ps qs s H1 H2 H3 E1
      (eq_ind_r (fun x => fork_id qs = Some x) E2 (journal_encode_inj_lemma s t E3))).
Qed.
Print Assumptions C11_fork_journal_token_inj.

(* The same with empty inner collections (a part whose range has length 0:
   one fork, identified by the indices above it): two forks of one call with
   the same id string agree on every index and key up to and including their
   first empty part.  (Stating this found a defect: the code returned the
   default id for an empty collection at accumulated index 0 even behind an
   already written enclosing index - C11_empty_default_id_refuted_before_fix
   below is the witness, replayed on mrp and repaired.) *)
Theorem C11_fork_id_inj_with_empty : forall ps qs s,
  sib ps qs -> Forall wf_part_e ps -> Forall wf_part_e qs ->
  fork_id ps = Some s -> fork_id qs = Some s -> ids_upto_empty ps = ids_upto_empty qs.
Proof. exact fork_id_inj_empty_lemma. Qed.
Print Assumptions C11_fork_id_inj_with_empty.

(* the two forks (0,0,empty) and (1,0,empty) of a call nested three deep: well
   formed siblings, which the repaired code names fork0_fork0 and fork1_fork0
   (before the repair both were fork0) *)
Example C11_fork_id_inj_with_empty_nonvacuous :
  let ps := fst fork_go_empty_bug_witness in
  let qs := snd fork_go_empty_bug_witness in
  sib ps qs /\ Forall wf_part_e ps /\ Forall wf_part_e qs /\
  ids_upto_empty ps <> ids_upto_empty qs /\
  fork_id ps = Some (bs "fork0_fork0") /\ fork_id qs = Some (bs "fork1_fork0").
Proof.
  cbv zeta. split.
  { constructor; [repeat split| |reflexivity]. intro H. vm_compute in H. discriminate. }
  split.
  { constructor; [left; split; [reflexivity|discriminate]|].
    constructor; [left; split; [reflexivity|discriminate]|].
    constructor; [right; repeat split; discriminate|constructor]. }
  split.
  { constructor; [left; split; [reflexivity|discriminate]|].
    constructor; [left; split; [reflexivity|discriminate]|].
    constructor; [right; repeat split; discriminate|constructor]. }
  split; [vm_compute; discriminate|]. vm_compute. split; reflexivity.
Qed.

(* getFork: for every order of the fork list (static or after dynamic
   expansion) with pairwise distinct tokens, the fork found for a token is
   the fork that has it. *)
Theorem C11_get_fork_exact : forall toks i t,
  NoDup toks -> nth_error toks i = Some t -> t <> [] ->
  get_fork false toks t = Some i.
Proof. exact get_fork_exact_lemma. Qed.
Print Assumptions C11_get_fork_exact.

(* Parsing (the model of jobJournalRe under leftmost-first matching) the
   journal name a job writes returns exactly the writer's node name - any
   bytes, even containing .fork - fork token, chunk digits, uniquifier and
   prefixed file name. *)
Theorem C11_parse_print_journal : forall j x,
  jo_id j = s_fork ++ x -> x <> [] -> uniq_ok (jo_uniq j) -> no_dot (jo_file j) ->
  parse_journal (journal_name j) = Some (printed j).
Proof. exact parse_print_journal_lemma. Qed.
Print Assumptions C11_parse_print_journal.

(* Routing inside the node found by name: the parsed token looked up in the
   node's fork list (any order, distinct tokens) is the writer's fork, and
   chunk, attempt and file are the writer's.  (The lookup of the node itself
   by name equality, Node.find, is not part of this statement.) *)
Theorem C11_routing_exact_within_node : forall toks i j x,
  NoDup toks -> jo_id j = s_fork ++ x -> x <> [] -> uniq_ok (jo_uniq j) ->
  no_dot (jo_file j) -> nth_error toks i = Some (fork_tok (jo_id j)) ->
  exists p, parse_journal (journal_name j) = Some p /\
    jp_fq p = jo_rel j /\ get_fork false toks (jp_idx p) = Some i /\
    chunk_index p = match jo_run j with RMain => Some (jo_chunk j) | _ => None end /\
    jp_uniq p = jo_uniq j /\ jp_state p = run_prefix (jo_run j) ++ jo_file j.
Proof. exact routing_within_node_lemma. Qed.
Print Assumptions C11_routing_exact_within_node.

(* An update carrying another attempt's uniquifier is not recorded. *)
Theorem C11_stale_uniquifier_ignored : forall cur seen,
  uniq_accepts cur seen = true <-> cur = seen.
Proof. exact uniq_accepts_iff. Qed.
Print Assumptions C11_stale_uniquifier_ignored.

(* Attempt lifecycle of a job (start, reset, notifications by the process of
   any attempt - stragglers included -, journal reads; histories of any
   length): every notification mrp has recorded was written by the process
   of the current attempt, and no two attempts share a uniquifier (directory
   suffix and journal prefix). *)
Theorem C11_attempt_attribution_exact : forall ops k f,
  In (k, f) (s_contents (arun false ops)) -> S k = length (s_atts (arun false ops)).
Proof. exact attempt_attribution_exact_lemma. Qed.
Print Assumptions C11_attempt_attribution_exact.

Theorem C11_attempt_uniquifiers_distinct : forall ops, NoDup (s_atts (arun false ops)).
Proof. exact attempt_uniquifiers_distinct_lemma. Qed.
Print Assumptions C11_attempt_uniquifiers_distinct.

(* A reset that keeps the old uniquifier breaks it. *)
Theorem C11_attempt_reuse_refuted : exists ops k f,
  In (k, f) (s_contents (arun true ops)) /\ S k <> length (s_atts (arun true ops)).
Proof. exact attempt_reuse_refuted. Qed.

(* The source still has the pattern, prefixes and file names modelled. *)
Theorem C11_constants_as_modelled :
  job_journal_re = job_journal_re_expected /\
  run_prefix RSplit = splitp /\ run_prefix RJoin = joinp /\
  forallb (fun f => file_ok (map n2b f)) journaled_file_names = true.
Proof.
  exact (conj job_journal_re_unchanged (conj run_prefix_split (conj run_prefix_join journaled_names_ok))).
Qed.
Print Assumptions C11_constants_as_modelled.

(* The two defects of the code before the fixes, on the model. *)
Theorem C11_get_fork_legacy_refuted : exists toks i t,
  NoDup toks /\ nth_error toks i = Some t /\ t <> [] /\ get_fork true toks t <> Some i.
Proof. exact get_fork_legacy_refuted. Qed.

(* Non-vacuity. *)
Definition kS k ks := mkPart MMap true 0 ks RNone (IKey k).
Definition kV k ks := mkPart MMap false 0 [] (RKeys ks) (IKey k).
Definition aS i n := mkPart MArray true n [] RNone (IArr i).
Definition aV i n := mkPart MArray false 0 [] (RArr n) (IArr i).

(* the nested keys (a, b/fork_c) and (a/fork_b, c): siblings, well formed,
   distinct directories and distinct journal tokens *)
Example C11_fork_id_inj_nonvacuous :
  let ks := [bs "a"; bs "a/fork_b"] in
  let ps := [kS (bs "a") ks; kV (bs "b/fork_c") [bs "b/fork_c"]] in
  let qs := [kS (bs "a/fork_b") ks; kV (bs "c") [bs "c"]] in
  sib ps qs /\ Forall wf_part ps /\ Forall wf_part qs /\
  fork_id ps = Some (bs "fork_a/fork_b%2Ffork_c") /\
  fork_id qs = Some (bs "fork_a%2Ffork_b/fork_c") /\
  fork_journal_token (bs "fork_a/fork_b%2Ffork_c") = bs "fork_a%2Ffork_b%252Ffork_c" /\
  fork_journal_token (bs "fork_a%2Ffork_b/fork_c") = bs "fork_a%252Ffork_b%2Ffork_c".
Proof.
  cbv zeta. split.
  { constructor; [repeat split| |reflexivity]. intro H. vm_compute in H. discriminate. }
  split. { repeat constructor; vm_compute; congruence. }
  split. { repeat constructor; vm_compute; congruence. }
  vm_compute. repeat split.
Qed.

(* array under array under map, lengths crossing a decimal width *)
Example C11_fork_id_nested_nonvacuous :
  let ps := [aS 7 12; aV 10 11; kV (bs "x.y") [bs "x.y"; bs "z"]] in
  let qs := [aS 7 12; aV 10 11; kV (bs "z") [bs "x.y"; bs "z"]] in
  sib ps qs /\ Forall wf_part ps /\ Forall wf_part qs /\
  fork_id ps = Some (bs "fork07_fork10/fork_x.y") /\
  fork_id qs = Some (bs "fork07_fork10/fork_z") /\
  fork_id_legacy ps = fork_id_legacy qs.
Proof.
  cbv zeta. split.
  { constructor; [repeat split| |reflexivity]. intros _.
    constructor; [repeat split| |reflexivity]. intros _.
    constructor; [repeat split| |reflexivity]. intro H. vm_compute in H. discriminate. }
  split. { repeat constructor; vm_compute; congruence. }
  split. { repeat constructor; vm_compute; congruence. }
  vm_compute. repeat split.
Qed.

Example C11_get_fork_nonvacuous :
  let toks := [bs "0_fork0"; bs "1_fork0"; bs "0_fork1"; bs "0"; bs "1"] in
  NoDup toks /\ get_fork false toks (bs "1") = Some 4%nat /\ get_fork true toks (bs "1") = Some 1%nat.
Proof.
  cbv zeta. split; [|vm_compute; split; reflexivity].
  repeat constructor; cbn; intuition discriminate.
Qed.

(* a main job of chunk 7 of 12 of the fork (a/fork_b, c) of a node whose name
   itself looks like a journal name *)
Example C11_parse_print_nonvacuous :
  let j := mkJ (bs "P.fork0.chnk1.S") (bs "fork_a%2Ffork_b/fork_c") RMain 7 12
               (bs "0123abcdef") (bs "complete") in
  jo_id j = s_fork ++ bs "_a%2Ffork_b/fork_c" /\ uniq_ok (jo_uniq j) /\ no_dot (jo_file j) /\
  journal_name j = bs "P.fork0.chnk1.S.fork_a%252Ffork_b%2Ffork_c.chnk07.u0123abcdef.complete" /\
  parse_journal (journal_name j) = Some (printed j) /\
  jp_idx (printed j) = bs "_a%252Ffork_b%2Ffork_c" /\ chunk_index (printed j) = Some 7%N.
Proof.
  cbv zeta. split; [reflexivity|]. split; [right; split; reflexivity|].
  split; [reflexivity|]. vm_compute. repeat split.
Qed.

(* a straggler of attempt 0 reports complete after the reset; the process of
   attempt 1 reports progress: only the latter is recorded *)
Example C11_attempt_nonvacuous :
  let ops := [OStart; OWrite 0%nat (bs "log"); ORefresh; OReset; OStart;
              OWrite 0%nat (bs "complete"); OWrite 1%nat (bs "progress"); ORefresh] in
  s_contents (arun false ops) = [(1%nat, bs "progress")] /\
  length (s_atts (arun false ops)) = 2%nat /\
  s_contents (arun true ops) = [(0%nat, bs "complete"); (1%nat, bs "progress")].
Proof. vm_compute. repeat split. Qed.
