(* C11 - fork identities are unique and job notifications reach exactly their
   owner.  Only statements, [exact], and [Print Assumptions]. *)
From Coq Require Import String.
From Martian Require Import Lib.Bytes K.ForkName K.Journal Proofs.ForkName.

(* Distinct map keys have distinct safe (percent-encoded) forms. *)
Theorem C11_path_escape_inj : forall k1 k2,
  path_escape k1 = path_escape k2 -> k1 = k2.
Proof. exact path_escape_inj_lemma. Qed.
Print Assumptions C11_path_escape_inj.
