(* C13 - final outputs are materialised faithfully under outs/.
   Only statements, [exact], and [Print Assumptions]. *)
From Coq Require Import String.
From Martian Require Import Lib.Bytes Json.Json K.PostProcess Proofs.PostProcess.

(* One file-typed leaf (moveOutFile).  For every pipestance path, out
   directory, file system and every source that is a regular file or a
   directory inside the pipestance whose destination is free: afterwards the
   whole subtree is readable under outs/ at the derived path with exactly the
   nodes it had, the rewritten value names that location, the original
   location is a symbolic link to it, no error is flagged, and nothing else
   changes except that the directories on the way to the destination exist. *)
Theorem C13_file_leaf_materialised_partial : forall ps outrel fname fp n s,
  let outp := (ps ++ outrel) ++ [fname] in
  fp <> [] -> clean_path fp -> through_link s fp = false ->
  lk s fp = Some n -> (forall t, n <> NLink t) ->
  inside ps fp = true ->
  is_pfx fp outp = false -> is_pfx outp fp = false ->
  lk s outp = None ->
  dirs_free ps outrel s ->
  exists s',
    move_file ps outrel fname (JStr (render fp)) s = (JStr (render outp), s')
    /\ (forall r, lk s' (outp ++ r) = lk s (fp ++ r))
    /\ lk s' fp = Some (NLink (rel_path (dirname fp) outp))
    /\ err s' = err s /\ unm s' = unm s
    /\ (forall q, is_pfx fp q = false -> is_pfx outp q = false ->
                  is_pfx q (ps ++ outrel) = false -> lk s' q = lk s q)
    /\ (forall q, is_pfx q (ps ++ outrel) = true -> is_pfx ps q = true -> q <> ps ->
                  lk s' q = Some NDir).
Proof. exact move_file_materialises_lemma. Qed.
Print Assumptions C13_file_leaf_materialised_partial.

Example C13_file_leaf_materialised_nonvacuous :
  let ps := [bs "R"; bs "ps"] in
  let fp := [bs "R"; bs "ps"; bs "w"; bs "f1"] in
  let s := init_st [(fp, NFile (bs "content"))] in
  fp <> [] /\ clean_path fp /\ through_link s fp = false /\ lk s fp = Some (NFile (bs "content")) /\
  inside ps fp = true /\ dirs_free ps [bs "outs"; bs "x"] s /\
  move_val ps (TFile (Some (bs "txt"))) (bs "a") [] [bs "outs"; bs "x"] (JStr (render fp)) s
  = move_file ps [bs "outs"; bs "x"] (bs "a.txt") (JStr (render fp)) s /\
  fst (move_file ps [bs "outs"; bs "x"] (bs "a.txt") (JStr (render fp)) s)
  = JStr (bs "/R/ps/outs/x/a.txt").
Proof. vm_compute. repeat split; try reflexivity; try discriminate; auto. Qed.

(* null, empty and missing files become null and touch nothing *)
Theorem C13_null_stays_null : forall ps t key on outrel s,
  move_val ps t key on outrel JNull s = (JNull, s).
Proof. exact move_val_null_lemma. Qed.
Print Assumptions C13_null_stays_null.

Theorem C13_missing_file_to_null : forall ps outrel fname fp s,
  fp <> [] -> clean_path fp -> through_link s fp = false -> lk s fp = None ->
  lk s ((ps ++ outrel) ++ [fname]) = None ->
  move_file ps outrel fname (JStr (render fp)) s = (JNull, s).
Proof. exact move_file_missing_lemma. Qed.
Print Assumptions C13_missing_file_to_null.

Example C13_missing_file_nonvacuous :
  let fp := [bs "R"; bs "ps"; bs "w"; bs "gone"] in
  fp <> [] /\ clean_path fp /\ through_link (init_st []) fp = false /\ lk (init_st []) fp = None /\
  lk (init_st []) (([bs "R"; bs "ps"] ++ [bs "outs"]) ++ [bs "gone"]) = None.
Proof. vm_compute. repeat split; try reflexivity; discriminate. Qed.

(* a post-processing run that was killed after it moved a file to its place
   under outs/ and before it linked it back is completed by the next run: the
   link back is made and the rewritten value names the place under outs/
   (without this the restarted pipestance reported null for that output) *)
Theorem C13_interrupted_move_resumed : forall ps outrel fname fp s n,
  fp <> [] -> clean_path fp -> through_link s fp = false -> lk s fp = None ->
  lk s ((ps ++ outrel) ++ [fname]) = Some n ->
  lk s (dirname fp) = Some NDir ->
  let outp := (ps ++ outrel) ++ [fname] in
  move_file ps outrel fname (JStr (render fp)) s =
  (JStr (render outp), with_fs s (fs_set fp (NLink (rel_path (dirname fp) outp)) (fs s))).
Proof. exact move_file_resumes_lemma. Qed.
Print Assumptions C13_interrupted_move_resumed.

(* a value with a trailing separator ("/R/ps/w/d/", what os.path.join(files,
   "d/") gives) has the effect of the value without it on the file system, and
   is rewritten to the same value unless both are left as they were (without
   the repair the directory was moved, the link back failed and the recorded
   value kept naming the old place) *)
Theorem C13_trailing_separator_same_effect : forall ps outrel fname fp s,
  fp <> [] -> clean_path fp ->
  let v0 := JStr (render fp) in
  let v1 := JStr (render fp ++ [c_slash]) in
  snd (move_file ps outrel fname v1 s) = snd (move_file ps outrel fname v0 s) /\
  (fst (move_file ps outrel fname v1 s) = fst (move_file ps outrel fname v0 s) \/
   fst (move_file ps outrel fname v1 s) = v1 /\ fst (move_file ps outrel fname v0 s) = v0).
Proof. exact move_file_trailing_slash_lemma. Qed.
Print Assumptions C13_trailing_separator_same_effect.

Example C13_trailing_separator_nonvacuous :
  let ps := [bs "R"; bs "ps"] in
  let fp := [bs "R"; bs "ps"; bs "w"; bs "d"] in
  let s := init_st [(fp, NDir); (fp ++ [bs "inner.txt"], NFile (bs "content"))] in
  fp <> [] /\ clean_path fp /\
  fst (move_file ps [bs "outs"] (bs "d") (JStr (bs "/R/ps/w/d/")) s) = JStr (bs "/R/ps/outs/d") /\
  lk (snd (move_file ps [bs "outs"] (bs "d") (JStr (bs "/R/ps/w/d/")) s))
     [bs "R"; bs "ps"; bs "outs"; bs "d"; bs "inner.txt"] = Some (NFile (bs "content")) /\
  lk (snd (move_file ps [bs "outs"] (bs "d") (JStr (bs "/R/ps/w/d/")) s)) fp
     = Some (NLink (bs "../outs/d")).
Proof. vm_compute. repeat split; try reflexivity; discriminate. Qed.

(* the compiler's duplicate-name rejection (modelled by names_distinct, tied
   to syntax.ParseSourceBytes by the naming cases) makes the entries of one
   directory under outs/ pairwise different; typed-map keys stay different *)
Theorem C13_derived_names_distinct : forall ms,
  names_distinct ms = true -> NoDup (map m_id ms) /\ NoDup (member_names ms).
Proof. exact names_distinct_lemma. Qed.
Print Assumptions C13_derived_names_distinct.

Theorem C13_map_entry_names_injective : forall e k1 k2,
  is_fd (kind_of e) = true ->
  out_filename k1 e [] = out_filename k2 e [] -> k1 = k2.
Proof. exact map_entry_names_injective. Qed.
Print Assumptions C13_map_entry_names_injective.

Example C13_derived_names_nonvacuous :
  names_distinct [(bs "a", TFile (Some (bs "txt")), []); (bs "b", TFile None, bs "a");
                  (bs "c", TPlain KNot, bs "a")] = true /\
  names_distinct [(bs "a", TFile (Some (bs "txt")), []); (bs "b", TFile None, bs "a.txt")] = false.
Proof. vm_compute. split; reflexivity. Qed.

(* ---- the rewritten record has the shape of the original.  Stated level by
   level for every type, value and state; every recursive step of move_val is
   itself a move_val call, so the statements apply at every depth. ---- *)

(* values whose type holds no file are returned as they are, state untouched *)
Theorem C13_nonfile_values_unchanged : forall ps t key on outrel v s,
  is_fd (kind_of t) = false -> move_val ps t key on outrel v s = (v, s).
Proof. exact move_val_plain_lemma. Qed.
Print Assumptions C13_nonfile_values_unchanged.

(* a file-typed leaf stays a leaf: null, the value it was, or a path string *)
Theorem C13_file_leaf_stays_leaf : forall ps outrel fname v s,
  let v' := fst (move_file ps outrel fname v s) in
  v' = JNull \/ v' = v \/ exists p, v' = JStr p.
Proof. exact move_file_leaf_lemma. Qed.
Print Assumptions C13_file_leaf_stays_leaf.

Theorem C13_array_length_preserved : forall ps e key on outrel l s,
  exists l', fst (move_val ps (TArr e) key on outrel (JArr l) s) = JArr l'
             /\ length l' = length l.
Proof. exact move_val_array_lemma. Qed.
Print Assumptions C13_array_length_preserved.

(* no key of a typed map is lost or invented (json.Unmarshal keeps the last
   binding of a repeated key; keys come out sorted) *)
Theorem C13_map_keys_preserved : forall ps e key on outrel kvs s,
  kind_of (TMap e) = KDir ->
  exists o, fst (move_val ps (TMap e) key on outrel (JObj kvs) s) = JObj o
            /\ map fst o = isort bytes_leb (map fst (dedup_last kvs)).
Proof. exact move_val_map_lemma. Qed.
Print Assumptions C13_map_keys_preserved.

Theorem C13_struct_members_by_name : forall ps ms key on outrel kvs s,
  kind_of (TStruct ms) = KDir ->
  exists o, fst (move_val ps (TStruct ms) key on outrel (JObj kvs) s) = JObj o
            /\ ((dedup_last kvs = [] /\ o = [])
                \/ map fst o = isort bytes_leb (map m_id ms)).
Proof. exact move_val_struct_lemma. Qed.
Print Assumptions C13_struct_members_by_name.

Theorem C13_top_level_keys_preserved : forall ps params m outrel s,
  map fst (fst (handle_outs ps params m outrel s))
  = map m_id (filter (fun p => match assoc_get (m_id p) m with Some _ => true | None => false end) params).
Proof. exact handle_outs_keys. Qed.
Print Assumptions C13_top_level_keys_preserved.

Example C13_shape_nonvacuous :
  let ps := [bs "R"; bs "ps"] in
  let f1 := [bs "R"; bs "ps"; bs "w"; bs "f1"] in
  let t := TMap (TStruct [(bs "b", TFile (Some (bs "txt")), []); (bs "a", TPlain KNot, [])]) in
  let v := JObj [(bs "k2", JObj [(bs "a", JNum 7 0); (bs "b", JStr (render f1))]); (bs "k1", JNull)] in
  kind_of t = KDir /\
  fst (move_val ps t (bs "m") [] [bs "outs"] v (init_st [(f1, NFile (bs "x"))]))
  = JObj [(bs "k1", JNull);
          (bs "k2", JObj [(bs "a", JNum 7 0); (bs "b", JStr (bs "/R/ps/outs/m/k2/b.txt"))])].
Proof. vm_compute. split; reflexivity. Qed.
