(* C14 - VDR reclaims what it may and reports exactly what it removed.

   Same model as C04 (Mro/Vdr.v).  Every theorem quantifies over ALL initial
   systems satisfying the executable well-formedness check, ALL operation
   sequences (including restarts between partial and final clean-up, dynamic
   fork cloning, any interleaving of asynchronous caching / partial kills /
   consumer completions) and all VDR modes. *)
From Martian Require Import Lib.Bytes Mro.Vdr Proofs.Vdr Proofs.VdrExamples.
Local Open Scope N_scope.

(* temp_gone: a partialVdrKill of a complete fork - which is what the final
   sweep does to every fork - leaves none of the fork's temporary files *)
Theorem C14_temp_gone : forall s ops, init_ok s ->
  forall id k, In (id, k) (s_forks (run s ops)) -> ph k = PComplete ->
  forall f, In f (disk (fst (fst (partial_kill (s_mode (run s ops)) (s_done (run s ops)) k)))) ->
  is_tmp (f_own f) = false.
Proof. exact temp_gone. Qed.
Print Assumptions C14_temp_gone.

Theorem C14_final_sweep_is_partial_kill : forall s, mode_disabled (s_mode s) = false ->
  forall id k', In (id, k') (s_forks (step s FinalSweep)) ->
  exists k, In (id, k) (s_forks s) /\ k' = fst (fst (partial_kill (s_mode s) (s_done s) k)).
Proof. exact final_sweep_is_partial_kill. Qed.
Print Assumptions C14_final_sweep_is_partial_kill.

(* ... and a fork that has its final report never has a temporary file again *)
Theorem C14_temp_gone_final : forall s ops, init_ok s ->
  forall id k, In (id, k) (s_forks (run s ops)) -> final k <> None ->
  forall f, In f (disk k) -> is_tmp (f_own f) = false.
Proof. exact temp_gone_final. Qed.
Print Assumptions C14_temp_gone_final.

(* every path listed in a fork's partial or final report no longer exists *)
Theorem C14_report_paths_removed : forall s ops, init_ok s ->
  forall id k, In (id, k) (s_forks (run s ops)) ->
  forall p, In p (r_paths (cur_report k)) -> forall f, In f (disk k) -> f_path f <> p.
Proof. exact report_paths_removed. Qed.
Print Assumptions C14_report_paths_removed.

(* the fork's current report (final if present, else partial) counts exactly
   the files that have left the disk, and its byte total is exactly their
   sizes - at every moment, across partial reports written in any order,
   merges, and restarts *)
Theorem C14_report_totals_exact : forall s ops, init_ok s ->
  forall id k, In (id, k) (s_forks (run s ops)) ->
  r_count (cur_report k) = count_files (removed k) /\ r_size (cur_report k) = sum_sizes (removed k).
Proof. exact report_totals_exact. Qed.
Print Assumptions C14_report_totals_exact.

(* reports only name files the fork itself wrote, and only the fork's own
   files ever leave its directories *)
Theorem C14_kill_paths_inside_stage_dirs : forall s ops, init_ok s ->
  forall id k, In (id, k) (s_forks (run s ops)) ->
  forall p, In p (r_paths (cur_report k)) -> exists f, In f (files0 k) /\ f_path f = p.
Proof. exact kill_paths_inside_stage_dirs. Qed.
Print Assumptions C14_kill_paths_inside_stage_dirs.

Theorem C14_removed_are_own_files : forall s ops, init_ok s ->
  forall id k, In (id, k) (s_forks (run s ops)) ->
  (forall f, In f (removed k) -> In f (files0 k)) /\ NoDup (map f_path (disk k)).
Proof. exact removed_are_own_files. Qed.
Print Assumptions C14_removed_are_own_files.

(* PARTIAL.  chunk_files_of_split_stages_gone and volatile_unreferenced_gone
   are proved for the kill functions themselves, for every fork state:
   - the full kill of a non-volatile splitting stage leaves no chunk file;
   - after vdrKillSome on a fork whose file map is not cached yet (first kill,
     or first kill after a restart), every non-temporary file left on disk is
     named by an argument that is still in fileArgs.
   Not proved: that a stale cached file map still covers every file (so that
   the second statement holds along every op sequence), and that at the final
   sweep, when every consumer has finished, the remaining keys of fileArgs are
   exactly those with a top-level/retain holder.  Both are covered by the
   correspondence only (the oracle checks them on every real and simulated run). *)
Theorem C14_chunk_files_of_split_stages_gone_partial : forall m k,
  mode_disabled m = false -> final k = None -> is_volatile m k = false -> k_split k = true ->
  forall f, In f (disk (fst (full_kill m k))) -> f_own f <> ChunkFiles.
Proof. exact chunk_files_gone_partial. Qed.
Print Assumptions C14_chunk_files_of_split_stages_gone_partial.

Theorem C14_volatile_unreferenced_gone_partial : forall m k d,
  mode_disabled m = false -> fpm k = None ->
  forall f, In f (disk (fst (fst (kill_some m k d)))) -> is_tmp (f_own f) = false ->
  exists a, In a (f_names f) /\ has_key a (fa k) = true.
Proof. exact volatile_unreferenced_gone_partial. Qed.
Print Assumptions C14_volatile_unreferenced_gone_partial.

(* ---- non-vacuity *)
Definition reports_of (s : sys) :=
  (map (fun e => (option_map (fun p => (r_count (p_rep p), r_size (p_rep p))) (partial (snd e)),
                  option_map (fun r => (r_paths r, r_count r, r_size r)) (final (snd e)))) (s_forks s),
   option_map (fun r => (r_count r, r_size r)) (s_total s)).

(* the temporary file (path 3, 5 bytes) is reported by the partial report while
   the consumer is pending; at the end the final report and the pipestance
   total say 3 files, 22 bytes = files 3, 1, 4 *)
Example C14_report_totals_exact_nonvacuous : init_ok (ex_sys Rolling) /\
  reports_of (run (ex_sys Rolling) ex_ops1) = ([(Some (1, 5), None)], None) /\
  reports_of (run (ex_sys Rolling) ex_ops2) = ([(None, Some ([3; 1; 4], 3, 22))], Some (3, 22)) /\
  removed_paths (run (ex_sys Rolling) ex_ops2) = [(0, [3; 1; 4])].
Proof. split; [apply ex_init_ok | repeat split; vm_compute; reflexivity]. Qed.

Example C14_temp_gone_nonvacuous :
  disk_paths (run (ex_sys Rolling) [Advance 0; Advance 0; Advance 0; Advance 0]) = [(0, [1; 2; 3; 4])] /\
  disk_paths (run (ex_sys Rolling) ex_ops1) = [(0, [1; 2; 4])] /\
  disk_paths (run (ex_sys Disable) ex_ops1) = [(0, [1; 2; 4])].
Proof. repeat split; vm_compute; reflexivity. Qed.

(* a restart between the partial and the final clean-up loses nothing *)
Example C14_report_totals_exact_restart_nonvacuous :
  reports_of (run (ex_sys Strict) (ex_ops1 ++ [Restart; ConsumerFinished 7; FinalSweep]))
  = ([(None, Some ([3; 4; 1], 3, 22))], Some (3, 22)).
Proof. vm_compute. reflexivity. Qed.

Example C14_volatile_unreferenced_gone_nonvacuous :
  disk_paths (run (ex_sys Strict) ex_ops2) = [(0, [2])] /\
  disk_paths (run (ex_sys Rolling) ex_ops2) = [(0, [2])].
Proof. split; vm_compute; reflexivity. Qed.
