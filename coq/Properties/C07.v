(* C07 - accepted programs are type-safe at run time; ill-typed bindings are
   rejected.  Only statements, [exact], [Print Assumptions] and non-vacuity
   examples.

   Model: Mro/Typing.v ([valid_exp] = the IsValidExpression methods,
   [resolve] = RefExp.resolveType, [check_param] = BindStm.compileParam,
   [check_call] = Modifiers/BindStms.compile + checkMappings of one call,
   [typecheck] = Ast.compile).  [valid_clean] / [filter] / [assignable_g] are
   C17's IsValidJson / FilterJson / IsAssignableFrom (K/JsonTypes.v);
   [ty_of] builds the type tree TypeLookup.Get builds. *)
From Coq Require Import String.
From Martian Require Import Lib.Bytes Json.Json Mro.Ast K.JsonTypes Proofs.JsonTypes Mro.Typing Proofs.Typing.

(* ------------------------------------------------------------ soundness *)

(* For ALL programs, types and reference-free expressions: an expression the
   checker accepts at a parameter type evaluates to a JSON value that
   IsValidJson accepts without error or alarm (int->float, string->file types,
   integral float->int, struct and typed-map literals, arrays of any depth). *)
Theorem C07_literal_sound : forall sm a res e t T,
  plain e = true -> nums_ok e = true -> ty_of a t = Some T ->
  valid_exp sm a res t e = true -> valid_clean T (eval_lit e) = true.
Proof. exact literal_valid_lemma. Qed.
Print Assumptions C07_literal_sound.

(* ... and so does every element a mapped call receives from a split literal. *)
Theorem C07_split_elements_sound : forall sm a res items t T x,
  forallb plain items = true -> forallb nums_ok items = true -> ty_of a t = Some T ->
  valid_exp sm a res t (ESplit (EArray items)) = true -> In x items ->
  valid_clean T (eval_lit x) = true.
Proof. exact split_literal_valid_lemma. Qed.
Print Assumptions C07_split_elements_sound.

(* An accepted reference: the resolved type (projection and mapped-call
   dimension included) is assignable to the parameter type, so a source value
   conforming to the resolved type is delivered by FilterJson without a fatal
   error as a conforming value.  PARTIAL: stated for the checker without the
   struct->typed-map coercion ([valid_ref false]), modulo the file-name rule on
   directory-like typed-map keys ([allk]) - both are C17's recorded findings -
   and with C17's closure hypothesis [table U] on the universe of type trees
   left as a hypothesis; that the projected value conforms to fieldType's
   result is not proved here. *)
Theorem C07_ref_coercion_sound_partial : forall U, table U -> forall a t tn T Tn v,
  wf T -> U T -> U Tn ->
  valid_ref false a t (Some tn) = true -> ty_of a t = Some T -> ty_of a tn = Some Tn ->
  valid_clean Tn v = true ->
  fatal (filter T v) = false /\ clean (valid_gen allk T (out (filter T v))) = true.
Proof. exact ref_coercion_sound_lemma. Qed.
Print Assumptions C07_ref_coercion_sound_partial.

(* An accepted reference never differs from the parameter in an array depth -
   the outer one or the one of a typed map's values (map<int[]> takes neither
   map<int> nor map<int[][]>, map<S> not map<S[]>) - and never trades an array
   for a typed map; [adim] / [mdim] are the ArrayDim / MapDim of the type trees.
   Stated away from the untyped map ([no_umap]: `map[]` does take `map<int>[]`)
   and without the struct->typed-map coercion. *)
Theorem C07_accepted_ref_same_dims : forall a t tn T Tn,
  valid_ref false a t (Some tn) = true -> ty_of a t = Some T -> ty_of a tn = Some Tn ->
  no_umap T = true -> adim T = adim Tn /\ mdim T = mdim Tn.
Proof. exact accepted_ref_same_dims_lemma. Qed.
Print Assumptions C07_accepted_ref_same_dims.

Theorem C07_assignable_same_dims : forall T O,
  no_umap T = true -> assignable_g false T O = true -> adim T = adim O /\ mdim T = mdim O.
Proof. exact assignable_same_dims_lemma. Qed.
Print Assumptions C07_assignable_same_dims.

(* ------------------------------------------------------------ rejection, per call *)

(* In every context, for every call: a binding (before any wildcard) that
   names no parameter of the callee is an error located at that binding. *)
Theorem C07_reject_unknown_param : forall sm a c infos pid cs callee,
  find_callable (c_dec_id cs) (a_callables a) = Some callee -> forall pre post b,
  c_bindings cs = pre ++ b :: post -> no_star pre -> bytes_eqb (b_id b) star_id = false ->
  find_param (b_id b) (in_params (callable_ins callee)) = None ->
  In (pid, c_id cs, b_id b) (cr_binds (check_call sm a c infos pid cs)).
Proof. exact reject_unknown_param_lemma. Qed.
Print Assumptions C07_reject_unknown_param.

(* ... whose expression does not check against the parameter's type. *)
Theorem C07_reject_illtyped_binding : forall sm a c infos pid cs callee,
  find_callable (c_dec_id cs) (a_callables a) = Some callee -> forall pre post b,
  c_bindings cs = pre ++ b :: post -> no_star pre -> bytes_eqb (b_id b) star_id = false -> forall t,
  find_param (b_id b) (in_params (callable_ins callee)) = Some t ->
  check_param sm a c t (b_exp b) = false ->
  In (pid, c_id cs, b_id b) (cr_binds (check_call sm a c infos pid cs)).
Proof. exact reject_illtyped_binding_lemma. Qed.
Print Assumptions C07_reject_illtyped_binding.

(* ... that binds a parameter again. *)
Theorem C07_reject_duplicate_binding : forall sm a c infos pid cs callee,
  find_callable (c_dec_id cs) (a_callables a) = Some callee -> forall pre post b,
  c_bindings cs = pre ++ b :: post -> no_star pre -> bytes_eqb (b_id b) star_id = false ->
  In (b_id b) (map b_id pre) ->
  In (pid, c_id cs, b_id b) (cr_binds (check_call sm a c infos pid cs)).
Proof. exact reject_duplicate_binding_lemma. Qed.
Print Assumptions C07_reject_duplicate_binding.

(* A parameter of the callee that no binding names (no wildcard): an error
   located at the call. *)
Theorem C07_reject_missing_param : forall sm a c infos pid cs callee k t,
  find_callable (c_dec_id cs) (a_callables a) = Some callee ->
  no_star (c_bindings cs) ->
  In (k, t) (in_params (callable_ins callee)) -> ~ In k (map b_id (c_bindings cs)) ->
  In (pid, c_id cs, []) (cr_binds (check_call sm a c infos pid cs)).
Proof. exact reject_missing_param_lemma. Qed.
Print Assumptions C07_reject_missing_param.

(* An error that a call of a pipeline has in every context is reported for the
   whole program, at that location (or the program is outside the modelled
   fragment). *)
Theorem C07_reject_located : forall sm a p c l,
  In (CPipeline p) (a_callables a) -> In c (pl_calls p) ->
  (forall ctx infos, In l (ck_errs (call_chk (check_call sm a ctx infos (pl_id p) c)))) ->
  typecheck_g sm a = RUnsupported \/ exists ls, typecheck_g sm a = RReject ls /\ In l ls.
Proof. exact reject_located_lemma. Qed.
Print Assumptions C07_reject_located.

(* ------------------------------------------------------------ rejection, per expression *)

(* array versus map *)
Theorem C07_reject_map_for_array : forall sm a res t mk kvs,
  shape_of a t = ShArray -> valid_exp sm a res t (EMap mk kvs) = false.
Proof. exact reject_map_for_array_lemma. Qed.
Print Assumptions C07_reject_map_for_array.

Theorem C07_reject_array_for_map : forall sm a res t items,
  shape_of a t = ShTMap -> valid_exp sm a res t (EArray items) = false.
Proof. exact reject_array_for_map_lemma. Qed.
Print Assumptions C07_reject_array_for_map.

(* array depth: an array literal for a scalar type, a scalar literal for an
   array type; an array literal is accepted exactly when every element is
   accepted at the type of one dimension less *)
Theorem C07_reject_array_for_scalar : forall sm a res t items,
  scalar_shape (shape_of a t) -> valid_exp sm a res t (EArray items) = false.
Proof. exact reject_array_for_scalar_lemma. Qed.
Print Assumptions C07_reject_array_for_scalar.

Theorem C07_reject_scalar_for_array : forall sm a res t e,
  shape_of a t = ShArray -> scalar_lit e -> valid_exp sm a res t e = false.
Proof. exact reject_scalar_for_array_lemma. Qed.
Print Assumptions C07_reject_scalar_for_array.

Theorem C07_array_literal_elementwise : forall sm a res t items,
  valid_exp sm a res t (EArray items) =
    match shape_of a t with ShArray => forallb (valid_exp sm a res (elem_of_array t)) items | _ => false end.
Proof. exact valid_exp_array. Qed.
Print Assumptions C07_array_literal_elementwise.

(* wrong base type: a builtin type accepts a scalar literal exactly per the
   table [lit_builtin]; strings only for string/file/path, ints only for
   int/float, bools only for bool *)
Theorem C07_builtin_literal_table : forall sm a res t k e,
  shape_of a t = ShBuiltin k -> scalar_lit e -> valid_exp sm a res t e = lit_builtin k e.
Proof. exact builtin_literal_lemma. Qed.
Print Assumptions C07_builtin_literal_table.

Theorem C07_string_literal_only_for : forall k s,
  lit_builtin k (EString s) = true <-> k = KString \/ k = KFile \/ k = KPath.
Proof. exact lit_builtin_string. Qed.
Theorem C07_int_literal_only_for : forall k z, lit_builtin k (EInt z) = true <-> k = KInt \/ k = KFloat.
Proof. exact lit_builtin_int. Qed.
Theorem C07_bool_literal_only_for : forall k x, lit_builtin k (EBool x) = true <-> k = KBool.
Proof. exact lit_builtin_bool. Qed.
Theorem C07_float_literal_only_for : forall k m x,
  lit_builtin k (EFloat m x) = true <-> k = KFloat \/ (k = KInt /\ float_is_int64 m x = true).
Proof. exact lit_builtin_float. Qed.
Print Assumptions C07_float_literal_only_for.

Theorem C07_reject_scalar_for_struct : forall sm a res t ms e,
  shape_of a t = ShStruct ms -> scalar_lit e -> valid_exp sm a res t e = false.
Proof. exact reject_scalar_for_struct_lemma. Qed.
Print Assumptions C07_reject_scalar_for_struct.

(* struct literals: missing field, extra field *)
Theorem C07_reject_struct_missing_field : forall sm a res t ms mk kvs m,
  shape_of a t = ShStruct ms -> In m ms -> (forall kv, In kv kvs -> fst kv <> sm_id m) ->
  valid_exp sm a res t (EMap mk kvs) = false.
Proof. exact reject_struct_missing_field_lemma. Qed.
Print Assumptions C07_reject_struct_missing_field.

Theorem C07_reject_struct_extra_field : forall sm a res t ms mk kvs kv,
  shape_of a t = ShStruct ms -> In kv kvs -> find_member (fst kv) ms = None ->
  valid_exp sm a res t (EMap mk kvs) = false.
Proof. exact reject_struct_extra_field_lemma. Qed.
Print Assumptions C07_reject_struct_extra_field.

(* references that do not resolve: to a call that is not in the pipeline, to
   an output or field that does not exist *)
Theorem C07_reject_unresolved_ref : forall sm a c t k id o out,
  resolve a c k id (o :: out) = None -> check_param sm a c t (ERef k id (o :: out)) = false.
Proof. exact check_param_ref_unresolved. Qed.
Print Assumptions C07_reject_unresolved_ref.

Theorem C07_no_such_call_unresolved : forall a c p id out,
  bc_pipe c = Some p -> find_call id (pl_calls p) = None -> resolve a c RefCall id out = None.
Proof. exact resolve_no_call. Qed.
Theorem C07_no_such_output_unresolved : forall a c p id out cs,
  bc_pipe c = Some p -> find_call id (pl_calls p) = Some cs ->
  field_type a (tid0 (c_dec_id cs)) (split_dots out) = None -> resolve a c RefCall id out = None.
Proof. exact resolve_no_output. Qed.
Theorem C07_no_such_field : forall a id f rest ms,
  struct_members a (tid_name id) = Some ms -> find_member f ms = None -> field_type a id (f :: rest) = None.
Proof. exact field_type_no_field. Qed.
Print Assumptions C07_no_such_field.

(* ------------------------------------------------------------ split collections *)

(* arrays and maps among the split sources of one call, unequal known lengths,
   unequal key sets: no merged mapping; the error is located at the call *)
Theorem C07_split_array_vs_map : forall k0 sh k, merge_info (MI false k0 sh) true k = None.
Proof. exact merge_map_vs_array. Qed.
Theorem C07_split_map_vs_array : forall k0 sh arr k, arr <> true -> merge_info (MI true k0 sh) arr k = None.
Proof. exact merge_array_vs_map. Qed.
Theorem C07_split_length_mismatch : forall arr sh n n',
  n <> n' -> merge_info (MI arr (KLen n) sh) arr (KLen n') = None.
Proof. exact merge_length_mismatch. Qed.
Theorem C07_split_keys_mismatch : forall arr sh ks ks',
  same_keys ks ks' = false -> merge_info (MI arr (KKeys ks) sh) arr (KKeys ks') = None.
Proof. exact merge_keys_mismatch. Qed.
Theorem C07_reject_inconsistent_split_located : forall a c infos call_loc bind_loc cur items,
  merge_info cur true (KLen (length items)) = None ->
  fst (fst (check_binding_map a c infos call_loc bind_loc cur (EArray items))) = [call_loc].
Proof. exact reject_split_literal_lemma. Qed.
Print Assumptions C07_reject_inconsistent_split_located.

(* split over a reference that is not a collection *)
Theorem C07_reject_split_scalar : forall sm a res t k id out tn,
  res k id out = Some tn -> tid_arr tn = 0%N -> tid_map tn = 0%N ->
  valid_exp sm a res t (ESplit (ERef k id out)) = false.
Proof. exact reject_split_scalar_ref_lemma. Qed.
Print Assumptions C07_reject_split_scalar.

(* ------------------------------------------------------------ non-vacuity *)
Open Scope string_scope.

(* filetype txt; struct S(int a, float b);
   stage ST(in float[] xs, in S s, in map<txt> m, out int o);
   pipeline P(in int i, out int r) { call ST(xs = [1, 2.5, self.i], s = {a: 1, b: 2}, m = {"k": "f.txt"}) return (r = ST.o) }
   call P(i = 3)            -- as dumped from martian's parser *)
Definition ex_ast : ast := (mk_ast [(unhex "747874")] [(mk_struct (unhex "53") [(mk_member (unhex "61") (mk_tid (unhex "696e74") 0%N 0%N) (@nil byte) (@nil byte) KindIsNotFile true false); (mk_member (unhex "62") (mk_tid (unhex "666c6f6174") 0%N 0%N) (@nil byte) (@nil byte) KindIsNotFile true false)] KindIsNotFile)] [(CStage (mk_stage (unhex "5354") [(mk_in (unhex "7873") (mk_tid (unhex "666c6f6174") 1%N 0%N) (@nil byte) KindIsNotFile false); (mk_in (unhex "73") (mk_tid (unhex "53") 0%N 0%N) (@nil byte) KindIsNotFile false); (mk_in (unhex "6d") (mk_tid (unhex "747874") 0%N 1%N) (@nil byte) KindIsNotFile false)] [(mk_member (unhex "6f") (mk_tid (unhex "696e74") 0%N 0%N) (@nil byte) (@nil byte) KindIsNotFile true false)] false [] [] [] (mk_src LangUnknown (unhex "78") []) None)); (CPipeline (mk_pipeline (unhex "50") [(mk_in (unhex "69") (mk_tid (unhex "696e74") 0%N 0%N) (@nil byte) KindIsNotFile false)] [(mk_member (unhex "72") (mk_tid (unhex "696e74") 0%N 0%N) (@nil byte) (@nil byte) KindIsNotFile true false)] [(mk_call (unhex "5354") (unhex "5354") (Some (mk_mods [] false false false)) [(mk_bind (unhex "7873") (EArray [(EInt (1)%Z); (EFloat (5)%Z (-1)%Z); (ERef RefSelf (unhex "69") (@nil byte))]) (mk_tid (@nil byte) 0%N 0%N)); (mk_bind (unhex "73") (EMap MapKindStruct [((unhex "61"), (EInt (1)%Z)); ((unhex "62"), (EInt (2)%Z))]) (mk_tid (@nil byte) 0%N 0%N)); (mk_bind (unhex "6d") (EMap MapKindMap [((unhex "6b"), (EString (unhex "662e747874")))]) (mk_tid (@nil byte) 0%N 0%N))] ModeSingleCall)] (Some [(mk_bind (unhex "72") (ERef RefCall (unhex "5354") (unhex "6f")) (mk_tid (@nil byte) 0%N 0%N))]) []))] false (Some (mk_call (unhex "50") (unhex "50") (Some (mk_mods [] false false false)) [(mk_bind (unhex "69") (EInt (3)%Z) (mk_tid (@nil byte) 0%N 0%N))] ModeSingleCall))).
(* the same with the first binding renamed to zz *)
Definition ex_ast_unknown : ast := (mk_ast [(unhex "747874")] [(mk_struct (unhex "53") [(mk_member (unhex "61") (mk_tid (unhex "696e74") 0%N 0%N) (@nil byte) (@nil byte) KindIsNotFile true false); (mk_member (unhex "62") (mk_tid (unhex "666c6f6174") 0%N 0%N) (@nil byte) (@nil byte) KindIsNotFile true false)] KindIsNotFile)] [(CStage (mk_stage (unhex "5354") [(mk_in (unhex "7873") (mk_tid (unhex "666c6f6174") 1%N 0%N) (@nil byte) KindIsNotFile false); (mk_in (unhex "73") (mk_tid (unhex "53") 0%N 0%N) (@nil byte) KindIsNotFile false); (mk_in (unhex "6d") (mk_tid (unhex "747874") 0%N 1%N) (@nil byte) KindIsNotFile false)] [(mk_member (unhex "6f") (mk_tid (unhex "696e74") 0%N 0%N) (@nil byte) (@nil byte) KindIsNotFile true false)] false [] [] [] (mk_src LangUnknown (unhex "78") []) None)); (CPipeline (mk_pipeline (unhex "50") [(mk_in (unhex "69") (mk_tid (unhex "696e74") 0%N 0%N) (@nil byte) KindIsNotFile false)] [(mk_member (unhex "72") (mk_tid (unhex "696e74") 0%N 0%N) (@nil byte) (@nil byte) KindIsNotFile true false)] [(mk_call (unhex "5354") (unhex "5354") (Some (mk_mods [] false false false)) [(mk_bind (unhex "7a7a") (EArray [(EInt (1)%Z); (EFloat (5)%Z (-1)%Z); (ERef RefSelf (unhex "69") (@nil byte))]) (mk_tid (@nil byte) 0%N 0%N)); (mk_bind (unhex "73") (EMap MapKindStruct [((unhex "61"), (EInt (1)%Z)); ((unhex "62"), (EInt (2)%Z))]) (mk_tid (@nil byte) 0%N 0%N)); (mk_bind (unhex "6d") (EMap MapKindMap [((unhex "6b"), (EString (unhex "662e747874")))]) (mk_tid (@nil byte) 0%N 0%N))] ModeSingleCall)] (Some [(mk_bind (unhex "72") (ERef RefCall (unhex "5354") (unhex "6f")) (mk_tid (@nil byte) 0%N 0%N))]) []))] false (Some (mk_call (unhex "50") (unhex "50") (Some (mk_mods [] false false false)) [(mk_bind (unhex "69") (EInt (3)%Z) (mk_tid (@nil byte) 0%N 0%N))] ModeSingleCall))).

Definition ex_float_arr : type_id := mk_tid (bs "float") 1 0.
Definition ex_S : type_id := mk_tid (bs "S") 0 0.
Definition ex_res : ref_kind -> bytes -> bytes -> option type_id := fun _ _ _ => None.

(* the program is accepted; the literal [1, 2.5] is accepted at float[] and the
   struct literal {a: 1, b: 2} at S, and both evaluate to conforming values *)
Example C07_literal_sound_nonvacuous :
  typecheck ex_ast = RAccept /\
  plain (EArray [EInt 1; EFloat 5 (-1)]) = true /\ nums_ok (EArray [EInt 1; EFloat 5 (-1)]) = true /\
  ty_of ex_ast ex_float_arr = Some (TArr (TB KFloat) 0) /\
  valid_exp true ex_ast ex_res ex_float_arr (EArray [EInt 1; EFloat 5 (-1)]) = true /\
  eval_lit (EArray [EInt 1; EFloat 5 (-1)]) = JArr [JNum 1 0; JNum 25 (-1)] /\
  ty_of ex_ast ex_S = Some (TS (bs "S") [(bs "a", TB KInt); (bs "b", TB KFloat)]) /\
  valid_exp true ex_ast ex_res ex_S (EMap MapKindStruct [(bs "a", EInt 1); (bs "b", EInt 2)]) = true /\
  valid_exp true ex_ast ex_res ex_S (EMap MapKindStruct [(bs "a", EInt 1)]) = false /\
  valid_exp true ex_ast ex_res ex_float_arr (EArray [EString (bs "x")]) = false.
Proof. vm_compute. repeat split; reflexivity. Qed.

(* the hypotheses of C07_reject_unknown_param and C07_reject_located are met by
   the renamed binding, and the checker reports exactly that place *)
Example C07_reject_nonvacuous :
  typecheck ex_ast_unknown = RReject [(bs "P", bs "ST", bs "zz"); (bs "P", bs "ST", [])] /\
  (exists p c callee b post,
     In (CPipeline p) (a_callables ex_ast_unknown) /\ In c (pl_calls p) /\
     find_callable (c_dec_id c) (a_callables ex_ast_unknown) = Some callee /\
     c_bindings c = (@nil bind_stm ++ b :: post)%list /\ b_id b = bs "zz" /\
     find_param (b_id b) (in_params (callable_ins callee)) = None).
Proof.
  split; [vm_compute; reflexivity|].
  unfold ex_ast_unknown. cbn [a_callables].
  eexists. eexists. eexists. eexists. eexists.
  split; [right; left; reflexivity|]. cbn [pl_calls].
  split; [left; reflexivity|]. cbn [c_dec_id c_bindings].
  split; [vm_compute; reflexivity|]. split; [reflexivity|]. split; vm_compute; reflexivity.
Qed.

(* typed maps whose values differ only in array depth: map<int[]> accepts a
   map<int[]> reference, not map<int> nor map<int[][]>, nor int[] *)
Example C07_same_dims_nonvacuous :
  let mp k := mk_tid (bs "int") 0 k in
  valid_ref false ex_ast (mp 2%N) (Some (mp 2%N)) = true /\
  ty_of ex_ast (mp 2%N) = Some (TMap (TArr (TB KInt) 0)) /\ no_umap (TMap (TArr (TB KInt) 0)) = true /\
  mdim (TMap (TArr (TB KInt) 0)) = 2 /\
  valid_ref false ex_ast (mp 2%N) (Some (mp 1%N)) = false /\
  valid_ref false ex_ast (mp 2%N) (Some (mp 3%N)) = false /\
  valid_ref true ex_ast (mp 1%N) (Some (mp 2%N)) = false /\
  valid_ref false ex_ast (mp 2%N) (Some (mk_tid (bs "int") 1 0)) = false.
Proof. vm_compute. repeat split; reflexivity. Qed.

(* inconsistent split sources *)
Example C07_split_nonvacuous :
  merge_info MIPlaceholder true (KLen 2) = Some (MI true (KLen 2) false) /\
  merge_info (MI true (KLen 2) false) true (KLen 3) = None /\
  merge_info (MI true (KLen 2) false) false (KKeys [bs "k"]) = None /\
  merge_info (MI true KUnknown false) true (KLen 3) = Some (MI true (KLen 3) false).
Proof. vm_compute. repeat split; reflexivity. Qed.
