(* C16 - MRO call text and invocation JSON convert into each other without
   loss.  Only statements, [exact], [Print Assumptions] and non-vacuity
   examples.

   Model: K/Invocation.v ([json_to_exp] = ParseValExp + fixExpressionTypes,
   [exp_to_json] = EncodeJSON, [build_call] = InvocationData.BuildCallAst,
   [data_for_ast] = BuildDataForAst), specification predicates in
   K/InvocationSpec.v.  [fparse] / [fprint] stand for strconv.ParseFloat and
   strconv.AppendFloat 'g' -1; they are universally quantified and enter only
   through the two hypotheses [float_print_parse] (parse (print x) = x) and
   [float_print_token] (a float printed without fraction or exponent is an
   in-range integer token with the float's value). *)
From Coq Require Import String.
From Martian Require Import Lib.Bytes Json.Json Mro.Ast K.Invocation K.InvocationSpec
  Proofs.Invocation Proofs.InvocationExamples.
Local Open Scope Z_scope.

(* JSON -> expression -> JSON gives the value back (object keys in order), at
   EVERY declared type - the struct/map decision never changes the value. *)
Theorem C16_json_exp_json : forall fparse fprint, float_print_parse fparse fprint ->
  forall te j t, jwf fprint j ->
  exp_to_json fprint (json_to_exp fparse te t j) = json_canon j.
Proof. exact json_exp_json_proof. Qed.
Print Assumptions C16_json_exp_json.

(* expression -> JSON -> expression gives the expression back, struct
   literals included, when its struct literals sit where the declared type
   says; only a float printed as an integer literal returns as that integer. *)
Theorem C16_exp_json_exp : forall fparse fprint, float_print_parse fparse fprint ->
  forall te e t, exp_wf e -> kinds_ok te t e ->
  exp_eqv fprint e (json_to_exp fparse te (Some t) (exp_to_json fprint e)).
Proof. exact exp_json_exp_proof. Qed.
Print Assumptions C16_exp_json_exp.

(* An object becomes a struct literal exactly where the declared type is a
   struct, at every nesting depth through arrays, typed maps and members. *)
Theorem C16_struct_map_decision_correct : forall fparse te j t,
  wf_value te t j -> kinds_ok te t (json_to_exp fparse te (Some t) j).
Proof. exact struct_map_decision_proof. Qed.
Print Assumptions C16_struct_map_decision_correct.

(* The split status of every argument survives JSON -> call -> JSON. *)
Theorem C16_split_status_preserved : forall fparse fprint te params inv,
  call_typed fprint te params inv ->
  exists c, build_call fparse te params inv = Some c
    /\ inv_split (data_for_ast fprint c) = filter (fun id => mem_bytes id (inv_split inv)) (map fst params)
    /\ Forall2 (fun (p : bytes * type_id) (b : bytes * exp) =>
                  fst b = fst p /\ is_split (snd b) = mem_bytes (fst p) (inv_split inv))
               params (tc_binds c).
Proof. exact split_status_preserved_proof. Qed.
Print Assumptions C16_split_status_preserved.

(* A typed invocation builds a call, and the invocation data of that call is
   the given one: callable, include, one argument per parameter with its value
   unchanged (null when not given), the same arguments split; and in the call
   every binding has its struct literals where the (split collection of the)
   parameter type says. *)
Theorem C16_call_json_roundtrip : forall fparse fprint, float_print_parse fparse fprint ->
  forall te params inv, call_typed fprint te params inv ->
  exists c, build_call fparse te params inv = Some c
    /\ data_for_ast fprint c = expected_data params inv
    /\ Forall2 (bind_kinds_ok te) params (tc_binds c).
Proof. exact call_json_roundtrip_proof. Qed.
Print Assumptions C16_call_json_roundtrip.

(* What BuildDataForAst writes for a value is always accepted by the parser
   again (print x matches the number token). *)
Theorem C16_exp_json_parses : forall fprint, float_print_token fprint ->
  forall e, exp_int64 e = true -> json_ok (exp_to_json fprint e) = true.
Proof. exact exp_json_parses_proof. Qed.
Print Assumptions C16_exp_json_parses.

(* The json key the split wrapper is written with is the key it is read from
   (both regenerated from the Go sources on every run). *)
Theorem C16_split_keys_agree : split_enc_key = split_dec_key.
Proof. exact split_keys_agree_proof. Qed.
Print Assumptions C16_split_keys_agree.

(* ---- non-vacuity ---- *)

(* the two float hypotheses are jointly satisfiable *)
Example C16_float_hypotheses_nonvacuous :
  float_print_parse fparse_ex fprint_ex /\ float_print_token fprint_ex.
Proof. exact (conj fex_print_parse fex_print_token). Qed.

(* a value of struct type T(S s, S[] ss, map<S> ms, map m) with a float, an
   int64 boundary integer, a null member and nested untyped objects meets
   the hypotheses of the first three theorems, and its expression has struct
   literals at s, ss[0], ms.k and the top, map literals at ms, m, m.q *)
Example C16_value_nonvacuous :
  jwf fprint_ex j_ex /\ wf_value te_ex (tid0 "T") j_ex /\
  json_to_exp fparse_ex te_ex (Some (tid0 "T")) j_ex = e_ex /\
  exp_wf e_ex /\ kinds_ok te_ex (tid0 "T") e_ex /\
  exp_to_json fprint_ex e_ex = json_canon j_ex /\ json_canon j_ex <> j_ex.
Proof.
  split; [exact j_ex_jwf|]. split; [exact j_ex_wf|]. split; [exact e_ex_is|].
  split; [exact e_ex_wf|]. split; [rewrite <- e_ex_is; exact (struct_map_decision_proof fparse_ex te_ex j_ex _ j_ex_wf)|].
  split; [vm_compute; reflexivity|]. vm_compute. discriminate.
Qed.

(* a call with one split argument, one plain argument and one argument not
   given meets the hypothesis of the call theorems *)
Example C16_call_nonvacuous :
  call_typed fprint_ex te_ex params_ex inv_ex /\
  inv_split (expected_data params_ex inv_ex) = [bs "n"] /\
  map fst (inv_args (expected_data params_ex inv_ex)) = [bs "x"; bs "n"; bs "y"].
Proof. split; [exact inv_ex_typed|]. split; vm_compute; reflexivity. Qed.
