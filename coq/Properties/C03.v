(* C03 - every enabled job runs exactly once; disabled calls never run. *)
From Martian Require Import Lib.Bytes Json.Json Mro.Sem Mro.Deps Mro.Sched Mro.TraceCheck
  Proofs.BytesFacts Proofs.Sched Proofs.Sem.

(* no job is started twice in a run without failures and resets, for every
   dependency relation and every interleaving *)
Theorem C03_no_double_start : forall (deps : bytes -> list bytes) tr s s' j,
  run bytes bytes_eqb deps s tr = Some s' -> quiet bytes tr ->
  count_starts bytes bytes_eqb j tr <= 1.
Proof. exact (no_double_start bytes bytes_eqb bytes_eqb_spec). Qed.
Print Assumptions C03_no_double_start.

(* ... and every job that is done at the end was started exactly once *)
Theorem C03_exactly_once : forall (deps : bytes -> list bytes) tr s j,
  run bytes bytes_eqb deps [] tr = Some s -> quiet bytes tr ->
  get bytes bytes_eqb s j = Done -> count_starts bytes bytes_eqb j tr = 1.
Proof. exact (exactly_once bytes bytes_eqb bytes_eqb_spec). Qed.
Print Assumptions C03_exactly_once.

(* the scheduler never stalls: while nothing is running or failed and some
   job is not done, some job can start *)
Theorem C03_progress : forall (deps : bytes -> list bytes) jobs s,
  topo bytes deps jobs ->
  (forall j, In j jobs -> get bytes bytes_eqb s j = Idle \/ get bytes bytes_eqb s j = Done) ->
  (exists j, In j jobs /\ get bytes bytes_eqb s j <> Done) ->
  exists j, In j jobs /\ enabled bytes bytes_eqb deps s (EStart j) = true.
Proof. exact (progress bytes bytes_eqb). Qed.
Print Assumptions C03_progress.

(* which jobs exist: a mapped call has exactly one fork per element or key
   (nested mapped calls: per combination, by nesting of this statement), and
   the executed jobs are exactly the forks' jobs *)
Theorem C03_map_call_forks : forall P Orc pf f E path c k,
  is_disabled P pf E c = false -> c_mapped c = Some k ->
  let vals := bind_vals P pf E c in
  let elems := split_elems k (first_split vals) in
  let forks := map (fun ie => eval_callable P Orc pf f (c_callee c) (path ++ [c_id c])
                                (JObj (fork_args k vals (fst ie) (fst (snd ie)))))
                   (combine (seq 0 (length elems)) elems) in
  length forks = length elems /\
  fst (fst (eval_call P Orc pf (S f) E path c)) = collect k elems (map fst forks) /\
  snd (eval_call P Orc pf (S f) E path c) = List.concat (map snd forks).
Proof. exact map_call_elementwise. Qed.
Print Assumptions C03_map_call_forks.

(* a disabled call executes no job at all *)
Theorem C03_disabled_never_runs : forall P Orc pf f E path c,
  is_disabled P pf E c = true -> snd (eval_call P Orc pf (S f) E path c) = [].
Proof.
  intros P Orc pf f E path c H.
  exact (proj1 (proj2 (disabled_gives_null P Orc pf f E path c H))).
Qed.
Print Assumptions C03_disabled_never_runs.

(* mapping over an empty or null collection executes no job at all *)
Theorem C03_empty_map_never_runs : forall P Orc pf f E path c k,
  is_disabled P pf E c = false -> c_mapped c = Some k ->
  split_elems k (first_split (bind_vals P pf E c)) = [] ->
  snd (eval_call P Orc pf (S f) E path c) = [].
Proof. exact map_call_empty. Qed.
Theorem C03_null_collection_has_no_elements : forall k, split_elems k JNull = [].
Proof. exact split_elems_null. Qed.
Print Assumptions C03_empty_map_never_runs.

(* a splitting stage runs its split, one chunk per definition the split
   returned (including none), and its join *)
Theorem C03_stage_jobs : forall Orc name s path args ci co,
  st_split s = Some (ci, co) ->
  length (snd (eval_stage Orc name s path args)) = 2 + length (o_split Orc name args).
Proof.
  intros Orc name s path args ci co H.
  destruct (stage_split_jobs Orc name s path args ci co H) as (Hj & _ & _).
  rewrite Hj. cbn [length]. rewrite app_length, map_length, combine_length, seq_length, map_length.
  cbn [length]. lia.
Qed.
Print Assumptions C03_stage_jobs.

Example C03_nonvacuous :
  let d (j : bytes) := if bytes_eqb j [x62] then [[x61]] else [] in
  let tr := [EStart [x61]; EDone [x61]; EStart [x62]; EDone [x62]] in
  quiet bytes tr /\ valid_trace bytes bytes_eqb d tr = true /\
  count_starts bytes bytes_eqb [x62] tr = 1 /\
  valid_trace bytes bytes_eqb d (tr ++ [EStart [x62]]) = false.
Proof. vm_compute. repeat split; reflexivity. Qed.
