(* C01 - stage arguments and pipeline outputs equal the MRO dataflow
   semantics.  Statements about Mro/Sem.v only; proofs in Proofs/Sem.v.
   The semantics is a function of (program, arguments, stage oracle): no
   schedule appears in it, so whatever the runtime does under any order of job
   completion must equal it; that equality is the checked correspondence
   (checks/c01.py), these theorems are what the equality then implies. *)
From Coq Require Import String.
From Martian Require Import Lib.Bytes Json.Json Mro.Sem Mro.StageSpec Mro.Obs Proofs.Sem Proofs.SemAlias.

(* a disabled call runs nothing and delivers null; a disabled mapped call may
   instead (the latitude stated in the property) deliver a collection of
   nulls, which is null after the normalisation both sides of the
   correspondence go through *)
Theorem C01_disabled_gives_null : forall P Orc pf f E path c,
  is_disabled P pf E c = true ->
  nullify (fst (fst (eval_call P Orc pf (S f) E path c))) = JNull /\
  snd (eval_call P Orc pf (S f) E path c) = [] /\
  (o_nulls Orc (path ++ [c_id c]) = false \/ c_mapped c = None ->
   fst (fst (eval_call P Orc pf (S f) E path c)) = JNull).
Proof. exact disabled_gives_null. Qed.
Print Assumptions C01_disabled_gives_null.

(* an enabled single call: the callee receives exactly what the binding
   expressions denote *)
Theorem C01_single_call_args : forall P Orc pf f E path c,
  is_disabled P pf E c = false -> c_mapped c = None ->
  eval_call P Orc pf (S f) E path c =
  let r := eval_callable P Orc pf f (c_callee c) (path ++ [c_id c])
             (JObj (map (fun b => (fst b, eval_exp P pf E (snd (snd b)))) (c_binds c))) in
  ((fst r, TStruct (c_callee c)), snd r).
Proof. exact single_call_args. Qed.
Print Assumptions C01_single_call_args.

(* a mapped call: one fork per element/key, fork i gets element i of every
   split argument and the unsplit arguments unchanged, results collected in
   order, and the executed jobs are exactly the forks' jobs *)
Theorem C01_map_call_elementwise : forall P Orc pf f E path c k,
  is_disabled P pf E c = false -> c_mapped c = Some k ->
  let vals := bind_vals P pf E c in
  let elems := split_elems k (first_split vals) in
  let forks := map (fun ie => eval_callable P Orc pf f (c_callee c) (path ++ [c_id c])
                                (JObj (fork_args k vals (fst ie) (fst (snd ie)))))
                   (combine (seq 0 (length elems)) elems) in
  length forks = length elems /\
  fst (fst (eval_call P Orc pf (S f) E path c)) = collect k elems (map fst forks) /\
  snd (eval_call P Orc pf (S f) E path c) = List.concat (map snd forks).
Proof. exact map_call_elementwise. Qed.
Print Assumptions C01_map_call_elementwise.

Theorem C01_fork_args_array : forall (vals : list (bytes * (bool * json))) i key n sp v,
  In (n, (sp, v)) vals ->
  In (n, if sp then match v with JArr l => nth i l JNull | _ => JNull end else v)
     (fork_args MArr vals i key).
Proof. exact fork_args_array. Qed.
Print Assumptions C01_fork_args_array.

Theorem C01_fork_args_map : forall (vals : list (bytes * (bool * json))) i k n sp v,
  In (n, (sp, v)) vals ->
  In (n, if sp then match v with
                    | JObj kvs => match assoc_get k kvs with Some x => x | None => JNull end
                    | _ => JNull end else v)
     (fork_args MMap vals i (JStr k)).
Proof. exact fork_args_map. Qed.
Print Assumptions C01_fork_args_map.

(* a join receives the chunk definitions and the chunk outputs complete and
   in chunk order; chunk i receives the stage arguments merged with
   definition i *)
Theorem C01_stage_split_jobs : forall Orc name s path args ci co,
  st_split s = Some (ci, co) ->
  let defs := o_split Orc name args in
  let merged := map (merge_obj args) defs in
  let couts := map (o_chunk Orc name) merged in
  snd (eval_stage Orc name s path args) =
    {| i_path := path; i_phase := PhSplit; i_args := args |}
    :: map (fun im => {| i_path := path; i_phase := PhChunk (fst im); i_args := snd im |})
           (combine (seq 0 (length merged)) merged)
    ++ [{| i_path := path; i_phase := PhJoin;
           i_args := JObj [(bs_args, args); (bs_defs, JArr defs); (bs_outs, JArr couts)] |}]
  /\ length couts = length defs
  /\ fst (eval_stage Orc name s path args) = o_join Orc name args defs couts.
Proof. exact stage_split_jobs. Qed.
Print Assumptions C01_stage_split_jobs.

(* the recorded outputs of a pipeline are what its return bindings denote
   over the results of its calls, converted to the declared output types *)
Theorem C01_pipeline_outputs : forall P Orc pf f name path args p,
  assoc_get name (pr_callables P) = Some (CPipe p) ->
  exists E,
    e_self E = coerce_fields (pr_structs P ++ map (fun nc => (fst nc, callable_outs (snd nc))) (pr_callables P))
                 pf (p_ins p) args /\
    map fst (e_calls E) = map c_id (p_calls p) /\
    fst (eval_callable P Orc pf (S f) name path args) =
    JObj (map (fun ot =>
                 (fst ot,
                  coerce (pr_structs P ++ map (fun nc => (fst nc, callable_outs (snd nc))) (pr_callables P))
                    pf (snd ot)
                    (match assoc_get (fst ot) (p_ret p) with
                     | Some e => eval_exp P pf E e
                     | None => JNull
                     end))) (p_outs p)).
Proof. exact pipeline_outputs. Qed.
Print Assumptions C01_pipeline_outputs.

(* struct narrowing keeps exactly the declared fields; projection distributes
   over arrays and typed maps; null projects to null *)
Theorem C01_struct_narrowing : forall ss f n fs kvs,
  assoc_get n ss = Some fs ->
  exists vals, coerce ss (S f) (TStruct n) (JObj kvs) = JObj vals /\ map fst vals = map fst fs.
Proof. exact coerce_struct_fields. Qed.
Print Assumptions C01_struct_narrowing.

Theorem C01_projection_through_array : forall ss f t l k,
  fst (proj_field ss (S f) (TArr t) (JArr l) k) = JArr (map (fun x => fst (proj_field ss f t x k)) l).
Proof. exact proj_array. Qed.
Theorem C01_projection_through_map : forall ss f t kvs k,
  fst (proj_field ss (S f) (TMap t) (JObj kvs) k)
  = JObj (map (fun kv => (fst kv, fst (proj_field ss f t (snd kv) k))) kvs).
Proof. exact proj_map. Qed.
Theorem C01_projection_of_null : forall ss f t k, fst (proj_field ss f t JNull k) = JNull.
Proof. exact proj_null. Qed.
Print Assumptions C01_projection_of_null.

(* Non-vacuity: a mapped call of a splitting stage inside a pipeline. *)
Definition ex_prog : program :=
  {| pr_structs := [];
     pr_callables :=
       [(unhex "53", CStage {| st_ins := [(unhex "78", TInt)]; st_outs := [(unhex "72", TArr TInt)];
                               st_split := Some ([(unhex "63", TInt)], [(unhex "6f", TInt)]) |});
        (unhex "50", CPipe {| p_ins := [(unhex "7873", TArr TInt)]; p_outs := [(unhex "7273", TArr (TArr TInt))];
                              p_calls := [{| c_id := unhex "53"; c_callee := unhex "53"; c_mapped := Some MArr;
                                             c_binds := [(unhex "78", (true, ERef (RSelf (unhex "7873")) []))];
                                             c_disabled := None; c_preflight := false |}];
                              p_ret := [(unhex "7273", ERef (RCall (unhex "53") (Some (unhex "72"))) [])] |})];
     pr_top := {| c_id := unhex "50"; c_callee := unhex "50"; c_mapped := None;
                  c_binds := [(unhex "7873", (false, EArr [ELit (JNum 1 0); ELit (JNum 2 0)]))];
                  c_disabled := None; c_preflight := false |} |}.
Definition ex_spec : spec :=
  [(unhex "53", {| sb_outs := [(unhex "72", SChunkOuts (unhex "6f"))];
                   sb_chunks := ChunksConst [JObj [(unhex "63", JNum 7 0)]; JObj [(unhex "63", JNum 8 0)]];
                   sb_chunk_outs := [(unhex "6f", SArg (unhex "78"))] |})].
Example C01_nonvacuous :
  let r := eval_program ex_prog (spec_oracle ex_spec) 10 10 in
  fst r = JObj [(unhex "7273", JArr [JArr [JNum 1 0; JNum 1 0]; JArr [JNum 2 0; JNum 2 0]])]
  /\ length (snd r) = 8.
Proof. vm_compute. split; reflexivity. Qed.

(* The semantics is independent of how calls are aliased: renaming the call
   ids of every pipeline body by any injective function (consistently in the
   references to them) changes no output value, no job argument and no job;
   only the names in the jobs' call paths differ.  (The latitude for disabled
   mapped calls is resolved per call path, hence the uniformity hypothesis.) *)
Theorem C01_alias_invariance : forall (sigma : bytes -> bytes) P Orc pf fuel,
  (forall a b, sigma a = sigma b -> a = b) ->
  (forall p q, o_nulls Orc p = o_nulls Orc q) ->
  fst (eval_program (ren_prog sigma P) Orc pf fuel) = fst (eval_program P Orc pf fuel) /\
  map strip (snd (eval_program (ren_prog sigma P) Orc pf fuel)) =
  map strip (snd (eval_program P Orc pf fuel)).
Proof. intros sigma P Orc pf fuel Hinj Hn. exact (alias_invariance_program sigma Hinj P Orc pf Hn fuel). Qed.
Print Assumptions C01_alias_invariance.

(* and of every callable and call inside, at any fuel *)
Theorem C01_alias_invariance_callable : forall (sigma : bytes -> bytes) P Orc pf fuel name path path' args,
  (forall a b, sigma a = sigma b -> a = b) ->
  (forall p q, o_nulls Orc p = o_nulls Orc q) ->
  same_result (eval_callable (ren_prog sigma P) Orc pf fuel name path' args)
              (eval_callable P Orc pf fuel name path args).
Proof.
  intros sigma P Orc pf fuel name path path' args Hinj Hn.
  exact (proj1 (alias_invariance sigma Hinj P Orc pf Hn fuel) name path path' args).
Qed.
Print Assumptions C01_alias_invariance_callable.

(* Non-vacuity: prefixing every call id with a byte is injective, really
   changes the example program, and the spec oracle resolves the latitude
   uniformly. *)
Example C01_alias_nonvacuous :
  (forall a b, cons x41 a = cons x41 b -> a = b) /\
  (forall p q, o_nulls (spec_oracle ex_spec) p = o_nulls (spec_oracle ex_spec) q) /\
  ren_prog (cons x41) ex_prog <> ex_prog /\
  map i_path (snd (eval_program (ren_prog (cons x41) ex_prog) (spec_oracle ex_spec) 10 10)) <>
  map i_path (snd (eval_program ex_prog (spec_oracle ex_spec) 10 10)).
Proof.
  split; [intros a b H; injection H; auto|]. split; [reflexivity|].
  split; [intros H; apply (f_equal (fun P => c_id (pr_top P))) in H; vm_compute in H; discriminate|].
  vm_compute. intros H. discriminate.
Qed.
