(* Bytes: strings as [list byte]; hex transport encoding used by the harness. *)
From Coq Require Import Strings.String Strings.Ascii.
From Coq Require Export List NArith ZArith Bool Lia.
From Coq Require Export Strings.Byte.
Export ListNotations.

Notation bytes := (list byte).

Definition b2n (b : byte) : N := Byte.to_N b.
Definition n2b (n : N) : byte :=
  match Byte.of_N n with Some b => b | None => x00 end.

Definition beq (a b : byte) : bool := Byte.eqb a b.

Fixpoint bytes_eqb (a b : bytes) : bool :=
  match a, b with
  | [], [] => true
  | x :: a', y :: b' => beq x y && bytes_eqb a' b'
  | _, _ => false
  end.

(* bytewise lexicographic order: Go's string comparison / sort.Strings *)
Fixpoint bytes_ltb (a b : bytes) : bool :=
  match a, b with
  | [], [] => false
  | [], _ :: _ => true
  | _ :: _, [] => false
  | x :: a', y :: b' =>
      if (b2n x <? b2n y)%N then true
      else if (b2n y <? b2n x)%N then false
      else bytes_ltb a' b'
  end.
Definition bytes_leb (a b : bytes) : bool := negb (bytes_ltb b a).

(* string literal -> bytes *)
Definition bs (s : string) : bytes := list_byte_of_string s.

(* hex transport *)
Definition hexdigit (n : N) : ascii :=
  ascii_of_N (if (n <? 10)%N then 48 + n else 87 + n)%N.
Definition unhexdigit (c : ascii) : N :=
  let n := N_of_ascii c in
  if (n <? 58)%N then (n - 48)%N else (n - 87)%N.

Fixpoint hex (s : bytes) : string :=
  match s with
  | [] => EmptyString
  | b :: r =>
      String (hexdigit (b2n b / 16)) (String (hexdigit (b2n b mod 16)) (hex r))
  end.

Fixpoint unhex (s : string) : bytes :=
  match s with
  | String h (String l r) => n2b (unhexdigit h * 16 + unhexdigit l) :: unhex r
  | _ => []
  end.

Definition contains_byte (b : byte) (s : bytes) : bool := existsb (beq b) s.

(* prefix test and substring search *)
Fixpoint is_prefix (p s : bytes) : bool :=
  match p, s with
  | [], _ => true
  | x :: p', y :: s' => beq x y && is_prefix p' s'
  | _ :: _, [] => false
  end.

Fixpoint is_infix (p s : bytes) : bool :=
  is_prefix p s ||
  match s with
  | [] => false
  | _ :: s' => is_infix p s'
  end.

(* insertion sort, used for sort.Strings *)
Section Sort.
  Context {A : Type} (leb : A -> A -> bool).
  Fixpoint insert_sorted (x : A) (l : list A) : list A :=
    match l with
    | [] => [x]
    | y :: r => if leb x y then x :: l else y :: insert_sorted x r
    end.
  Definition isort (l : list A) : list A := fold_right insert_sorted [] l.
End Sort.
