(* Utf8: Go's unicode/utf8 DecodeRune acceptance (first-byte table and accept
   ranges), as width-of-the-leading-rune on byte lists. *)
From Martian Require Import Lib.Bytes.
Local Open Scope N_scope.

Definition in_range (lo hi : N) (b : byte) : bool :=
  (lo <=? b2n b) && (b2n b <=? hi).

Definition is_cont (b : byte) : bool := in_range 128 191 b.

(* Number of bytes of the valid UTF-8 encoded rune at the head of [s];
   0 when [s] is empty or its head does not start a valid encoding
   (Go: DecodeRune returns (RuneError, 1) — or (RuneError, 0) on empty). *)
Definition utf8_len (s : bytes) : nat :=
  match s with
  | [] => 0%nat
  | b0 :: r =>
      let n := b2n b0 in
      if n <? 128 then 1%nat
      else if n <? 194 then 0%nat
      else if n <? 224 then
        match r with
        | b1 :: _ => if is_cont b1 then 2%nat else 0%nat
        | _ => 0%nat
        end
      else if n <? 240 then
        match r with
        | b1 :: b2 :: _ =>
            let lo := if n =? 224 then 160 else 128 in
            let hi := if n =? 237 then 159 else 191 in
            if in_range lo hi b1 && is_cont b2 then 3%nat else 0%nat
        | _ => 0%nat
        end
      else if n <? 245 then
        match r with
        | b1 :: b2 :: b3 :: _ =>
            let lo := if n =? 240 then 144 else 128 in
            let hi := if n =? 244 then 143 else 191 in
            if in_range lo hi b1 && is_cont b2 && is_cont b3 then 4%nat else 0%nat
        | _ => 0%nat
        end
      else 0%nat
  end.

(* valid_utf8 s: s is a concatenation of valid encodings (Go: utf8.Valid). *)
Fixpoint valid_utf8_aux (skip : nat) (s : bytes) : bool :=
  match s with
  | [] => Nat.eqb skip 0
  | _ :: r =>
      match skip with
      | S k => valid_utf8_aux k r
      | O =>
          match utf8_len s with
          | O => false
          | S k => valid_utf8_aux k r
          end
      end
  end.
Definition valid_utf8 (s : bytes) : bool := valid_utf8_aux 0 s.

(* Rune value of the valid encoding at the head of s (0 when invalid). *)
Definition utf8_rune (s : bytes) : N :=
  match utf8_len s, s with
  | 1%nat, b0 :: _ => b2n b0
  | 2%nat, b0 :: b1 :: _ => (b2n b0 mod 32) * 64 + (b2n b1 mod 64)
  | 3%nat, b0 :: b1 :: b2 :: _ =>
      (b2n b0 mod 16) * 4096 + (b2n b1 mod 64) * 64 + (b2n b2 mod 64)
  | 4%nat, b0 :: b1 :: b2 :: b3 :: _ =>
      (b2n b0 mod 8) * 262144 + (b2n b1 mod 64) * 4096
      + (b2n b2 mod 64) * 64 + (b2n b3 mod 64)
  | _, _ => 0
  end.

(* Go's utf8.EncodeRune (surrogates and out-of-range become U+FFFD). *)
Definition utf8_encode (r : N) : bytes :=
  if r <? 128 then [n2b r]
  else if r <? 2048 then [n2b (192 + r / 64); n2b (128 + r mod 64)]
  else if ((55296 <=? r) && (r <=? 57343)) || (1114111 <? r) then
    [n2b 239; n2b 191; n2b 189]
  else if r <? 65536 then
    [n2b (224 + r / 4096); n2b (128 + (r / 64) mod 64); n2b (128 + r mod 64)]
  else
    [n2b (240 + r / 262144); n2b (128 + (r / 4096) mod 64);
     n2b (128 + (r / 64) mod 64); n2b (128 + r mod 64)].
