(* Mro/Typing.v - executable model of the binding type rules of the MRO
   compiler (martian/syntax): compile_params.go (BindStms.compile,
   compileGeneric, compileWildcard, BindStm.compileParam,
   rewriteToDefaultOutput, RefExp.resolveType), the IsValidExpression methods of
   builtin_types.go / user_file_type.go / collection_types.go / struct_type.go,
   types.go isValidSplit, struct_type.go fieldType, type_lookup.go Get,
   compile_calls.go checkMappings / checkBindingMap with the mode and
   known-length content of map_call_source.go MergeMapCallSources,
   compile_pipelines.go Pipeline.compile / compilePipelineArgs and
   compile_calls.go compileCall, in the order of parser.go Ast.compile.

   Input: the Ast as the PARSER built it (Parser.UncheckedParse, dumped by
   harness/internal/astdump): no wildcard expansion, no binding types, map
   calls have the placeholder mode ModeUnknownMapCall.

   Output: accept, or the set of places where the compiler reports an error
   (pipeline id, call id / "return" / "in", bound parameter id), or
   "unsupported" for programs outside the modelled fragment (declaration-level
   errors, cyclic call references, preflight, retain,
   a map call that adds a known length to a length-unknown mapping inherited
   from another call: the implementation shares one MapCallSet object between
   such calls).

   IsAssignableFrom is K/JsonTypes.assignable on the type trees built the way
   TypeLookup.Get builds them.  No proofs here. *)
From Coq Require Import String.
From Martian Require Import Lib.Bytes Json.Json Mro.Ast K.JsonTypes.

(* ------------------------------------------------------------ type table *)

Definition mem (n : bytes) (l : list bytes) : bool := existsb (bytes_eqb n) l.

(* structFromCallable: a callable with outputs is a struct type of its name *)
Definition callable_members (c : callable) : option (list struct_member) :=
  match callable_outs c with [] => None | ms => Some ms end.

(* the members of the struct type named n (TypeLookup.baseTypes) *)
Definition struct_members (a : ast) (n : bytes) : option (list struct_member) :=
  if is_builtin n || mem n (a_user_types a) then None
  else match find_struct n (a_struct_types a) with
       | Some s => Some (sd_members s)
       | None => match find_callable n (a_callables a) with
                 | Some c => callable_members c
                 | None => None
                 end
       end.

Definition is_some {A} (o : option A) : bool := match o with Some _ => true | None => false end.

(* TypeLookup.Get(id) != nil: the base name is in the table *)
Definition base_exists (a : ast) (n : bytes) : bool :=
  is_builtin n || mem n (a_user_types a) || is_some (struct_members a n).

Definition builtin_kind (n : bytes) : option kind :=
  if bytes_eqb n n_string then Some KString
  else if bytes_eqb n n_int then Some KInt
  else if bytes_eqb n n_float then Some KFloat
  else if bytes_eqb n n_bool then Some KBool
  else if bytes_eqb n n_path then Some KPath
  else if bytes_eqb n n_file then Some KFile
  else if bytes_eqb n n_map then Some KMap
  else None.

(* TypeLookup.Get: array(map(array(base))) from the dimensions *)
Definition wrap (t : type_id) (b : ty) : ty :=
  let inner := match N.to_nat (tid_map t) with
               | O => b
               | S O => TMap b
               | S (S k) => TMap (TArr b k)
               end in
  match N.to_nat (tid_arr t) with O => inner | S d => TArr inner d end.

Section Members.
  Variable rec : bytes -> option ty.
  Fixpoint members_ty (ms : list struct_member) : option (list (bytes * ty)) :=
    match ms with
    | [] => Some []
    | m :: r =>
      match rec (tid_name (sm_tname m)), members_ty r with
      | Some b, Some r' => Some ((sm_id m, wrap (sm_tname m) b) :: r')
      | _, _ => None
      end
    end.
End Members.

Fixpoint base_ty (fuel : nat) (a : ast) (n : bytes) : option ty :=
  match builtin_kind n with
  | Some k => Some (TB k)
  | None =>
    if mem n (a_user_types a) then Some (TU n)
    else match fuel with
         | O => None
         | S f =>
           match struct_members a n with
           | None => None
           | Some ms => option_map (TS n) (members_ty (base_ty f a) ms)
           end
         end
  end.

Definition ty_fuel (a : ast) : nat := S (length (a_struct_types a) + length (a_callables a)).

Definition ty_of_f (fuel : nat) (a : ast) (t : type_id) : option ty :=
  option_map (wrap t) (base_ty fuel a (tid_name t)).

Definition ty_of (a : ast) (t : type_id) : option ty := ty_of_f (ty_fuel a) a t.

(* t.IsAssignableFrom(o) on TypeIds (both looked up in the table) *)
Definition asg_g (sm : bool) (a : ast) (t o : type_id) : bool :=
  match ty_of a t, ty_of a o with
  | Some t1, Some t2 => assignable_g sm t1 t2
  | _, _ => false
  end.

Definition tid0 (n : bytes) : type_id := mk_tid n 0 0.

(* --------------------------------------------------- fieldType (projection) *)

(* the typed-map layer, then the array layer, of the outer type around the
   type of the projected member *)
Definition lift_dims (id inner : type_id) : option type_id :=
  let after_map :=
    if (tid_map id =? 0)%N then Some inner
    else if negb (tid_map inner =? 0)%N then None     (* projection through nested maps *)
    else Some (mk_tid (tid_name inner) 0 (tid_map id + tid_arr inner)) in
  match after_map with
  | None => None
  | Some t => Some (mk_tid (tid_name t) (tid_arr t + tid_arr id) (tid_map t))
  end.

Fixpoint field_type (a : ast) (id : type_id) (path : list bytes) : option type_id :=
  match path with
  | [] => Some id
  | f :: rest =>
    match struct_members a (tid_name id) with
    | None => None                       (* unknown type / not a struct *)
    | Some ms =>
      match find_member f ms with
      | None => None                     (* no such field *)
      | Some m =>
        match field_type a (sm_tname m) rest with
        | None => None
        | Some inner => lift_dims id inner
        end
      end
    end
  end.

(* OutputId is a dot-separated path *)
Fixpoint split_dots_aux (s cur : bytes) : list bytes :=
  match s with
  | [] => [rev cur]
  | c :: r => if beq c x2e then rev cur :: split_dots_aux r [] else split_dots_aux r (c :: cur)
  end.
Definition split_dots (s : bytes) : list bytes :=
  match s with [] => [] | _ => split_dots_aux s [] end.

(* ------------------------------------------------ RefExp.resolveType *)

(* the added dimension of a mapped call *)
Definition lift_mode (m : call_mode) (t : type_id) : option type_id :=
  match m with
  | ModeArrayCall => Some (mk_tid (tid_name t) (tid_arr t + 1) (tid_map t))
  | ModeMapCall =>
      if negb (tid_map t =? 0)%N then None           (* MappedMapError *)
      else Some (mk_tid (tid_name t) 0 (tid_arr t + 1))
  | _ => Some t
  end.

(* the context of a binding: the enclosing pipeline (None for the top-level
   call) and the call modes of the calls compiled so far *)
Record bctx := mk_bctx {
  bc_pipe : option pipeline;
  bc_modes : list (bytes * call_mode)
}.

Fixpoint mode_of (id : bytes) (l : list (bytes * call_mode)) : option call_mode :=
  match l with
  | [] => None
  | (k, m) :: r => if bytes_eqb k id then Some m else mode_of id r
  end.

Definition resolve (a : ast) (c : bctx) (k : ref_kind) (id out : bytes) : option type_id :=
  match bc_pipe c with
  | None => None                                      (* outside of a pipeline *)
  | Some p =>
    match k with
    | RefSelf =>
      match find_in id (pl_ins p) with
      | None => None                                  (* ScopeNameError *)
      | Some ip => field_type a (ip_tname ip) (split_dots out)
      end
    | RefCall =>
      match find_call id (pl_calls p) with
      | None => None                                  (* ScopeNameError *)
      | Some cs =>
        (* calls are compiled in order: a call that is not compiled yet still
           has its parser-given mode *)
        let m := match mode_of id (bc_modes c) with Some m => m | None => c_mode cs end in
        match field_type a (tid0 (c_dec_id cs)) (split_dots out) with
        | None => None                                (* NoSuchOutputError / StructFieldError *)
        | Some t => lift_mode m t
        end
      end
    end
  end.

(* ------------------------------------------------ IsValidExpression *)

Inductive tshape :=
| ShArray                    (* ArrayType, Dim = tid_arr *)
| ShTMap                     (* TypedMapType *)
| ShBuiltin (k : kind)
| ShUser
| ShStruct (ms : list struct_member)
| ShNone.                    (* not in the table *)

Definition shape_of (a : ast) (t : type_id) : tshape :=
  if negb (base_exists a (tid_name t)) then ShNone
  else if negb (tid_arr t =? 0)%N then ShArray
  else if negb (tid_map t =? 0)%N then ShTMap
  else match builtin_kind (tid_name t) with
       | Some k => ShBuiltin k
       | None => if mem (tid_name t) (a_user_types a) then ShUser
                 else match struct_members a (tid_name t) with
                      | Some ms => ShStruct ms
                      | None => ShNone
                      end
       end.

Definition elem_of_array (t : type_id) : type_id := mk_tid (tid_name t) (tid_arr t - 1) (tid_map t).
Definition elem_of_map (t : type_id) : type_id := mk_tid (tid_name t) (tid_map t - 1) 0.

Definition exists_tid (a : ast) (t : type_id) : bool := base_exists a (tid_name t).

(* the RefExp clause of each IsValidExpression, given the resolved type *)
Definition valid_ref (sm : bool) (a : ast) (t : type_id) (r : option type_id) : bool :=
  match r with
  | None => false
  | Some tn =>
    match shape_of a t with
    | ShBuiltin _ | ShUser | ShStruct _ =>
        (tid_arr tn =? 0)%N && (tid_map tn =? 0)%N && exists_tid a tn && asg_g sm a t tn
    | ShArray =>
        (1 <=? tid_arr tn)%N && (tid_arr tn =? tid_arr t)%N && exists_tid a tn && asg_g sm a t tn
    | ShTMap =>
        negb (tid_map tn =? 0)%N && exists_tid a tn && asg_g sm a t tn
    | ShNone => false
    end
  end.

(* the element type a split reference delivers *)
Definition split_elem (tn : type_id) : option type_id :=
  if (1 <=? tid_arr tn)%N then Some (mk_tid (tid_name tn) (tid_arr tn - 1) (tid_map tn))
  else if (1 <=? tid_map tn)%N then Some (mk_tid (tid_name tn) (tid_map tn - 1) 0)
  else None.

Fixpoint has_ref (e : exp) : bool :=
  match e with
  | ERef _ _ _ => true
  | EArray l => existsb has_ref l
  | EMap _ kvs => existsb (fun kv => has_ref (snd kv)) kvs
  | ESplit x => has_ref x
  | _ => false
  end.

(* float64(int64(v)) == v for v = m * 2^e in canonical form (m odd, or m = e = 0),
   amd64 conversion *)
Definition float_is_int64 (m e : Z) : bool :=
  ((0 <=? e) && (- 9223372036854775808 <=? m * 2 ^ e) && (m * 2 ^ e <? 9223372036854775808))%Z.

Definition is_dir_tid (a : ast) (t : type_id) : bool :=
  match ty_of a t with Some T => is_dir T | None => false end.

Definition lit_builtin (k : kind) (e : exp) : bool :=
  match e with
  | EString _ => match k with KString | KFile | KPath => true | _ => false end
  | EInt _ => match k with KInt | KFloat => true | _ => false end
  | EFloat m x => match k with KFloat => true | KInt => float_is_int64 m x | _ => false end
  | EBool _ => match k with KBool => true | _ => false end
  | EMap MapKindMap kvs => match k with KMap => negb (has_ref e) | _ => false end
  | _ => false
  end.

Section ValidExp.
  Variable sm : bool.
  Variable a : ast.
  Variable res : ref_kind -> bytes -> bytes -> option type_id.

  Fixpoint valid_exp (t : type_id) (e : exp) {struct e} : bool :=
    match e with
    | ENull => true
    | ERef k id out => valid_ref sm a t (res k id out)
    | ESplit inner =>
        match inner with
        | EArray items => forallb (valid_exp t) items
        | EMap _ kvs => forallb (fun kv => valid_exp t (snd kv)) kvs
        | ERef k id out =>
            match res k id out with
            | None => false
            | Some tn =>
              match split_elem tn with
              | None => false
              | Some te => exists_tid a te && asg_g sm a t te
              end
            end
        | _ => true
        end
    | EArray items =>
        match shape_of a t with
        | ShArray => forallb (valid_exp (elem_of_array t)) items
        | _ => false
        end
    | EMap mk kvs =>
        match shape_of a t with
        | ShTMap =>
            match mk with
            | MapKindStruct => false
            | MapKindMap =>
                forallb (fun kv => valid_exp (elem_of_map t) (snd kv)) kvs
                && (if is_dir_tid a t then forallb (fun kv => legal_filename (fst kv)) kvs else true)
            end
        | ShStruct ms =>
            (* exp.Value[member.Id] of the Go map: the entry of that key (the
               last one, should the dumped list ever repeat a key) *)
            forallb (fun m : struct_member =>
                       match (fix find (l : list (bytes * exp)) : option bool :=
                                match l with
                                | [] => None
                                | (k, v) :: r =>
                                    match find r with
                                    | Some b => Some b
                                    | None => if bytes_eqb (sm_id m) k then Some (valid_exp (sm_tname m) v) else None
                                    end
                                end) kvs with
                       | Some b => b
                       | None => false
                       end) ms
            && forallb (fun kv => is_some (find_member (fst kv) ms)) kvs
        | ShBuiltin k => lit_builtin k e
        | _ => false
        end
    | _ =>
        match shape_of a t with
        | ShBuiltin k => lit_builtin k e
        | ShUser => match e with EString _ => true | _ => false end
        | _ => false
        end
    end.
End ValidExp.

(* isBackwardsCompatibleType: not a struct or typed map, nor an array of one *)
Definition backwards_compatible (a : ast) (t : type_id) : bool :=
  (tid_map t =? 0)%N &&
  match shape_of a (tid0 (tid_name t)) with ShStruct _ | ShNone => false | _ => true end.

Definition default_out : bytes := [x64; x65; x66; x61; x75; x6c; x74].

(* BindStm.compileParam: the expression is valid for the parameter type, or it
   is a reference without output id that can be rewritten to .default *)
Definition check_param (sm : bool) (a : ast) (c : bctx) (t : type_id) (e : exp) : bool :=
  exists_tid a t &&
  (valid_exp sm a (resolve a c) t e ||
   match e with
   | ERef k id [] =>
       backwards_compatible a t &&
       match resolve a c k id default_out with
       | Some tn => (tid_map tn =? 0)%N && exists_tid a tn && asg_g sm a t tn
       | None => false
       end
   | _ => false
   end).

(* ------------------------------------------------ locations and results *)

(* (pipeline id, call id / "return" / "in", parameter id); empty = the whole *)
Definition loc := (bytes * bytes * bytes)%type.

Record chk := mk_chk { ck_unsup : bool; ck_errs : list loc }.
Definition ck_ok : chk := mk_chk false [].
Definition ck_err (l : loc) : chk := mk_chk false [l].
Definition ck_unsupported : chk := mk_chk true [].
Definition ck_app (x y : chk) : chk := mk_chk (ck_unsup x || ck_unsup y) (ck_errs x ++ ck_errs y).
Definition ck_concat (l : list chk) : chk := fold_right ck_app ck_ok l.
Definition ck_clean (x : chk) : bool := negb (ck_unsup x) && match ck_errs x with [] => true | _ => false end.

(* ------------------------------------------------ bindings of one call *)

(* Params.GetParam: name and type *)
Definition params := list (bytes * type_id).
Fixpoint find_param (id : bytes) (ps : params) : option type_id :=
  match ps with
  | [] => None
  | (k, t) :: r => if bytes_eqb k id then Some t else find_param id r
  end.

Definition in_params (l : list in_param) : params := map (fun p => (ip_id p, ip_tname p)) l.
Definition out_params (l : list out_param) : params := map (fun p => (sm_id p, sm_tname p)) l.

(* addBinding: duplicate, unknown parameter, type; returns the errors at
   [where_] and the new table (ids bound so far) *)
Definition add_binding (sm : bool) (a : ast) (c : bctx) (ps : params) (where_ : loc)
           (table : list bytes) (id : bytes) (e : exp) : list loc * list bytes :=
  let dup := if mem id table then [where_] else [] in
  let bad := match find_param id ps with
             | None => [where_]                               (* ArgumentError *)
             | Some t => if check_param sm a c t e then [] else [where_]
             end in
  (dup ++ bad, id :: table).

Definition join_path (o f : bytes) : bytes :=
  match o with [] => f | _ => o ++ [x2e] ++ f end.

(* compileWildcard: the bindings `* = ref` expands to *)
Definition wildcard_bindings (a : ast) (c : bctx) (ps : params) (e : exp)
  : option (list (bytes * exp)) :=
  match e with
  | ERef RefSelf [] _ =>
      match bc_pipe c with
      | None => None
      | Some p =>
        Some (map (fun ip => (ip_id ip, ERef RefSelf (ip_id ip) []))
                  (List.filter (fun ip => is_some (find_param (ip_id ip) ps)) (pl_ins p)))
      end
  | ERef k id out =>
      match resolve a c k id out with
      | None => None
      | Some tn =>
        match shape_of a (tid0 (tid_name tn)) with
        | ShStruct ms =>
            Some (map (fun m : struct_member => (sm_id m, ERef k id (join_path out (sm_id m))))
                      (List.filter (fun m : struct_member => is_some (find_param (sm_id m) ps)) ms))
        | _ => None
        end
      end
  | _ => None
  end.

(* compileGeneric: returns errors, the table, and the expanded binding list
   (what BindStms.List is afterwards) *)
Fixpoint compile_generic (sm : bool) (a : ast) (c : bctx) (ps : params) (mkloc : bytes -> loc)
         (bs : list bind_stm) (table : list bytes) : list loc * list bytes * list (bytes * exp) :=
  match bs with
  | [] => ([], table, [])
  | b :: r =>
    if bytes_eqb (b_id b) star_id then
      (* the wildcard binding is always last *)
      match wildcard_bindings a c ps (b_exp b) with
      | None => ([mkloc star_id], table, [(b_id b, b_exp b)])
      | Some fakes =>
        let '(errs, table') :=
          fold_left (fun (acc : list loc * list bytes) (f : bytes * exp) =>
                       let '(e1, t1) := add_binding sm a c ps (mkloc star_id) (snd acc) (fst f) (snd f) in
                       (fst acc ++ e1, t1))
                    fakes ([], table) in
        (errs, table', (b_id b, b_exp b) :: fakes)
      end
    else
      let '(e1, t1) := add_binding sm a c ps (mkloc (b_id b)) table (b_id b) (b_exp b) in
      let '(e2, t2, l2) := compile_generic sm a c ps mkloc r t1 in
      (e1 ++ e2, t2, (b_id b, b_exp b) :: l2)
  end.

(* ArgumentNotSuppliedError, reported at the BindStms node (the call) *)
Definition missing_params (ps : params) (table : list bytes) (where_ : loc) : list loc :=
  flat_map (fun p : bytes * type_id => if mem (fst p) table then [] else [where_]) ps.

(* ------------------------------------------------ checkMappings *)

(* what MergeMapCallSources keeps of a source: mode and known length / keys *)
Inductive known := KUnknown | KLen (n : nat) | KKeys (ks : list bytes).
Inductive minfo :=
| MIPlaceholder                              (* parser placeholder: mode not known yet *)
| MI (array : bool) (k : known) (shared : bool).
   (* shared: the mapping object is a set inherited from another call *)

Definition same_keys (x y : list bytes) : bool :=
  (length x =? length y)%nat && forallb (fun k => mem k y) x.

(* merge a further source (array?, known) into the call's mapping:
   None = InconsistentMapCallError *)
Definition merge_info (m : minfo) (arr : bool) (k : known) : option minfo :=
  match m with
  | MIPlaceholder => Some (MI arr k false)
  | MI arr0 k0 sh =>
      if negb (Bool.eqb arr0 arr) then None
      else match k0, k with
           | KUnknown, _ => Some (MI arr0 k sh)
           | _, KUnknown => Some (MI arr0 k0 sh)
           | KLen n0, KLen n => if (n0 =? n)%nat then Some m else None
           | KKeys k0', KKeys k' => if same_keys k0' k' then Some m else None
           | _, _ => None
           end
  end.

Definition known_is (k : known) : bool := match k with KUnknown => false | _ => true end.

(* the state of the calls of a pipeline compiled so far *)
Definition minfos := list (bytes * option minfo).     (* None: not a map call *)
Fixpoint minfo_of (id : bytes) (l : minfos) : option (option minfo) :=
  match l with
  | [] => None
  | (k, m) :: r => if bytes_eqb k id then Some m else minfo_of id r
  end.

Definition mode_of_info (m : minfo) : call_mode :=
  match m with
  | MIPlaceholder => ModeUnknownMapCall
  | MI true _ _ => ModeArrayCall
  | MI false _ _ => ModeMapCall
  end.

(* one split binding (checkBindingMap).  Result: the errors, the new info,
   and whether the model's abstraction of shared sets is exceeded. *)
Definition check_binding_map (a : ast) (c : bctx) (infos : minfos)
           (call_loc bind_loc : loc) (cur : minfo) (inner : exp) : list loc * minfo * bool :=
  match inner with
  | EArray items =>
      match merge_info cur true (KLen (length items)) with
      | None => ([call_loc], cur, false)
      | Some m' => ([], m', match cur with MI _ KUnknown true => true | _ => false end)
      end
  | EMap _ kvs =>
      match merge_info cur false (KKeys (map fst kvs)) with
      | None => ([call_loc], cur, false)
      | Some m' => ([], m', match cur with MI _ KUnknown true => true | _ => false end)
      end
  | ERef k id out =>
      match resolve a c k id out with
      | None => ([bind_loc], cur, false)
      | Some tn =>
        let src := match k with
                   | RefCall => match minfo_of id infos with
                                | Some (Some m) => Some m
                                | _ => None
                                end
                   | RefSelf => None
                   end in
        match src with
        | Some MIPlaceholder => ([], cur, true)      (* a map call whose mapping was not resolved *)
        | Some (MI arr kn _) =>
            (* a reference to a mapped call: merge with that call's mapping *)
            match merge_info cur arr kn with
            | None => ([call_loc], cur, false)
            | Some (MI arr' k' _) =>
                let unsup := match kn, cur with
                             | KUnknown, MI _ (KLen _ | KKeys _) _ => true
                             | (KLen _ | KKeys _), MI _ KUnknown true => true
                             | _, _ => false
                             end in
                ([], MI arr' k' (negb (known_is kn)), unsup)
            | Some MIPlaceholder => ([], cur, true)
            end
        | None =>
            if (1 <=? tid_arr tn)%N || (1 <=? tid_map tn)%N then
              match merge_info cur (1 <=? tid_arr tn)%N KUnknown with
              | None => ([call_loc], cur, false)
              | Some m' => ([], m', false)
              end
            else ([bind_loc], cur, false)                 (* SplitTypeMismatch *)
        end
      end
  | _ => ([], cur, false)
  end.

Fixpoint check_mappings (a : ast) (c : bctx) (infos : minfos) (call_loc : loc) (mkloc : bytes -> loc)
         (bs : list (bytes * exp)) (cur : minfo) : list loc * minfo * bool :=
  match bs with
  | [] => ([], cur, false)
  | (id, e) :: r =>
    match e with
    | ESplit inner =>
        let '(e1, m1, u1) := check_binding_map a c infos call_loc (mkloc id) cur inner in
        let '(e2, m2, u2) := check_mappings a c infos call_loc mkloc r m1 in
        (e1 ++ e2, m2, u1 || u2)
    | _ => check_mappings a c infos call_loc mkloc r cur
    end
  end.

(* ------------------------------------------------ one call *)

Definition is_map_call (cs : call_stm) : bool :=
  match c_mode cs with ModeSingleCall => false | _ => true end.

Definition bool_tid : type_id := tid0 n_bool.

Definition mods_supported (cs : call_stm) : bool :=
  match c_mods cs with
  | None => false
  | Some m => negb (m_preflight m) &&
              forallb (fun b => bytes_eqb (b_id b) disabled_id) (m_bindings m) &&
              (length (m_bindings m) <=? 1)%nat
  end.

(* Modifiers.compile (the disabled binding), Bindings.compile, checkMappings. *)
Record call_res := mk_cres {
  cr_unsup : bool;
  cr_mods : list loc;       (* errors of the modifier bindings *)
  cr_binds : list loc;      (* errors of the argument bindings, missing arguments *)
  cr_maps : list loc;       (* errors of checkMappings *)
  cr_info : option minfo    (* the mapping of a map call *)
}.

Definition check_call (sm : bool) (a : ast) (c : bctx) (infos : minfos) (pid : bytes) (cs : call_stm)
  : call_res :=
  match find_callable (c_dec_id cs) (a_callables a) with
  | None => mk_cres false [] [(pid, c_id cs, [])] [] None       (* ScopeNameError *)
  | Some callee =>
    let mkloc := fun id : bytes => (pid, c_id cs, id) in
    let call_loc := (pid, c_id cs, []) in
    let mod_errs :=
      match c_mods cs with
      | Some m =>
          flat_map (fun b => if check_param sm a c bool_tid (b_exp b) then [] else [mkloc (b_id b)])
                   (m_bindings m)
      | None => []
      end in
    let ps := in_params (callable_ins callee) in
    let '(errs, table, expanded) := compile_generic sm a c ps mkloc (c_bindings cs) [] in
    let miss := missing_params ps table call_loc in
    let '(merrs, info, unsup) :=
      if is_map_call cs then check_mappings a c infos call_loc mkloc expanded MIPlaceholder
      else ([], MIPlaceholder, false) in
    let unresolved :=
      if is_map_call cs then
        match merrs, info with [], MIPlaceholder => [call_loc] | _, _ => [] end
      else [] in
    mk_cres (unsup || negb (mods_supported cs)) mod_errs (errs ++ miss) (merrs ++ unresolved)
            (if is_map_call cs then Some info else None)
  end.

(* inside a pipeline the errors of a call accumulate *)
Definition call_chk (r : call_res) : chk :=
  mk_chk (cr_unsup r) (cr_mods r ++ cr_binds r ++ cr_maps r).
Definition call_mode_of (r : call_res) : call_mode :=
  match cr_info r with Some m => mode_of_info m | None => ModeSingleCall end.

(* the calls of a pipeline, in order *)
Fixpoint check_calls (sm : bool) (a : ast) (p : pipeline) (pid : bytes) (cs : list call_stm)
         (modes : list (bytes * call_mode)) (infos : minfos) : chk :=
  match cs with
  | [] => ck_ok
  | c :: r =>
    let r0 := check_call sm a (mk_bctx (Some p) modes) infos pid c in
    ck_app (call_chk r0)
           (check_calls sm a p pid r ((c_id c, call_mode_of r0) :: modes) ((c_id c, cr_info r0) :: infos))
  end.

(* the final call modes of a pipeline (needed again for the return bindings) *)
Fixpoint final_modes (sm : bool) (a : ast) (p : pipeline) (pid : bytes) (cs : list call_stm)
         (modes : list (bytes * call_mode)) (infos : minfos) : list (bytes * call_mode) :=
  match cs with
  | [] => modes
  | c :: r =>
    let r0 := check_call sm a (mk_bctx (Some p) modes) infos pid c in
    final_modes sm a p pid r ((c_id c, call_mode_of r0) :: modes) ((c_id c, cr_info r0) :: infos)
  end.

(* ------------------------------------------------ declaration-level scope *)

Fixpoint nodup_bytes (l : list bytes) : bool :=
  match l with [] => true | x :: r => negb (mem x r) && nodup_bytes r end.

Fixpoint refs_of (e : exp) : list (ref_kind * bytes) :=
  match e with
  | ERef k id _ => [(k, id)]
  | EArray l => flat_map refs_of l
  | EMap _ kvs => flat_map (fun kv => refs_of (snd kv)) kvs
  | ESplit x => refs_of x
  | _ => []
  end.

Definition call_exps (c : call_stm) : list exp :=
  map b_exp (c_bindings c) ++ match c_mods c with Some m => map b_exp (m_bindings m) | None => [] end.

(* every call reference of a call names an earlier call or no call at all:
   the stable topological sort leaves the list as it is *)
Fixpoint calls_ordered (cs : list call_stm) : bool :=
  match cs with
  | [] => true
  | c :: r =>
    forallb (fun kr : ref_kind * bytes =>
               match fst kr with
               | RefCall => negb (mem (snd kr) (c_id c :: map c_id r))
               | RefSelf => true
               end) (flat_map refs_of (call_exps c))
    && calls_ordered r
  end.

(* parameter types name builtins, file types or declared structs *)
Definition declared_base (a : ast) (n : bytes) : bool :=
  is_builtin n || mem n (a_user_types a) || is_some (find_struct n (a_struct_types a)).

Fixpoint structs_ok (a : ast) (earlier : list bytes) (l : list struct_type) : bool :=
  match l with
  | [] => true
  | s :: r =>
    negb (match sd_members s with [] => true | _ => false end)
    && nodup_bytes (map sm_id (sd_members s))
    && forallb (fun m : struct_member =>
                  let n := tid_name (sm_tname m) in
                  is_builtin n || mem n (a_user_types a) || mem n earlier) (sd_members s)
    && structs_ok a (sd_id s :: earlier) r
  end.

Definition callable_ok (a : ast) (c : callable) : bool :=
  nodup_bytes (map ip_id (callable_ins c)) && nodup_bytes (map sm_id (callable_outs c))
  && forallb (fun p => declared_base a (tid_name (ip_tname p))) (callable_ins c)
  && forallb (fun p : out_param => declared_base a (tid_name (sm_tname p))) (callable_outs c)
  && match c with
     | CStage s =>
         nodup_bytes (map ip_id (st_ins s ++ st_chunk_ins s))
         && nodup_bytes (map sm_id (st_outs s ++ st_chunk_outs s))
         && forallb (fun p => declared_base a (tid_name (ip_tname p))) (st_chunk_ins s)
         && forallb (fun p : out_param => declared_base a (tid_name (sm_tname p))) (st_chunk_outs s)
         && match st_retain s with [] => true | _ => false end
     | CPipeline p =>
         nodup_bytes (map c_id (pl_calls p))
         && forallb (fun cs => is_some (find_callable (c_dec_id cs) (a_callables a))
                               && negb (bytes_eqb (c_dec_id cs) (pl_id p))) (pl_calls p)
         && calls_ordered (pl_calls p)
         && is_some (pl_ret p)
         && match pl_retain p with [] => true | _ => false end
     end.

Definition decls_ok (a : ast) : bool :=
  let names := a_user_types a ++ map sd_id (a_struct_types a) ++ map callable_id (a_callables a) in
  nodup_bytes names
  && forallb (fun n => negb (is_builtin n)) names
  && structs_ok a [] (a_struct_types a)
  && forallb (callable_ok a) (a_callables a).

(* ------------------------------------------------ the phases of Ast.compile *)

Definition pipelines_of (a : ast) : list pipeline :=
  flat_map (fun c => match c with CPipeline p => [p] | _ => [] end) (a_callables a).

(* compilePipelineDecs: every call of every pipeline; errors accumulate *)
Definition phase_decs (sm : bool) (a : ast) : chk :=
  ck_concat (map (fun p => check_calls sm a p (pl_id p) (pl_calls p) [] []) (pipelines_of a)).

(* getBoundParamIds *)
Fixpoint bound_ids (e : exp) : list bytes :=
  match e with
  | ERef RefSelf id _ => [id]
  | EArray l => flat_map bound_ids l
  | EMap _ kvs => flat_map (fun kv => bound_ids (snd kv)) kvs
  | ESplit x => bound_ids x
  | _ => []
  end.

(* the ids a `* = self` wildcard binds are the pipeline inputs the callee has *)
Definition call_bound_ids (a : ast) (p : pipeline) (c : call_stm) : list bytes :=
  flat_map (fun b => bound_ids (b_exp b)) (c_bindings c)
  ++ (if existsb (fun b => bytes_eqb (b_id b) star_id &&
                           match b_exp b with ERef RefSelf [] _ => true | _ => false end) (c_bindings c)
      then match find_callable (c_dec_id c) (a_callables a) with
           | Some callee => List.filter (fun id => is_some (find_in id (callable_ins callee))) (map ip_id (pl_ins p))
           | None => []
           end
      else [])
  ++ match c_mods c with
     | Some m => flat_map (fun b => match b_exp b with ERef _ id _ => [id] | _ => [] end) (m_bindings m)
     | None => []
     end.

(* compilePipelineArgs for one pipeline: the first failing step *)
Definition check_pipeline_args (sm : bool) (a : ast) (p : pipeline) : chk :=
  let ret := match pl_ret p with Some l => l | None => [] end in
  let bound := flat_map (call_bound_ids a p) (pl_calls p) ++ flat_map (fun b => bound_ids (b_exp b)) ret in
  match List.filter (fun ip => negb (mem (ip_id ip) bound)) (pl_ins p) with
  | ip :: _ => ck_err (pl_id p, [x69; x6e], ip_id ip)                  (* UnusedInputError *)
  | [] =>
    let modes := final_modes sm a p (pl_id p) (pl_calls p) [] [] in
    let c := mk_bctx (Some p) modes in
    let ps := out_params (pl_outs p) in
    let mkloc := fun id : bytes => (pl_id p, [x72; x65; x74; x75; x72; x6e], id) in
    let '(errs, table, _) := compile_generic sm a c ps mkloc ret [] in
    mk_chk false (errs ++ missing_params ps table (mkloc []))
  end.

Fixpoint phase_args (sm : bool) (a : ast) (ps : list pipeline) : chk :=
  match ps with
  | [] => ck_ok
  | p :: r =>
    let k := check_pipeline_args sm a p in
    if ck_clean k then phase_args sm a r else k
  end.

(* compileCall *)
Definition phase_call (sm : bool) (a : ast) : chk :=
  match a_call a with
  | None => ck_ok
  | Some cs =>
      (* bindings, then modifiers, then mappings: the first failing step *)
      let r := check_call sm a (mk_bctx None []) [] [] cs in
      mk_chk (cr_unsup r)
             (match cr_binds r, cr_mods r with
              | _ :: _, _ => cr_binds r
              | [], _ :: _ => cr_mods r
              | [], [] => cr_maps r
              end)
  end.

Inductive result := RAccept | RReject (locs : list loc) | RUnsupported.

Definition result_of (k : chk) (next : result) : result :=
  if ck_unsup k then RUnsupported
  else match ck_errs k with [] => next | l => RReject l end.

Definition typecheck_g (sm : bool) (a : ast) : result :=
  if negb (decls_ok a) then RUnsupported
  else result_of (phase_decs sm a)
         (result_of (phase_args sm a (pipelines_of a))
            (result_of (phase_call sm a) RAccept)).

(* MRO does not require the calls of a pipeline to be written in dependency
   order: Pipeline.topoSort puts every call after the calls it references,
   keeping the source order otherwise, before anything is type-checked (the
   dimension a map call adds to its outputs is only known once that call has
   been checked).  The judgement above is for calls in dependency order; this
   is the sort: repeatedly take the first remaining call all of whose call
   references (to calls of this pipeline) have been taken.  A cycle leaves the
   list unsorted, which calls_ordered then reports as unsupported. *)
Definition call_ready (ids done : list bytes) (c : call_stm) : bool :=
  forallb (fun kr : ref_kind * bytes =>
             match fst kr with
             | RefCall => negb (mem (snd kr) ids) || mem (snd kr) done
             | RefSelf => true
             end) (flat_map refs_of (call_exps c)).

Fixpoint take_ready (ids done : list bytes) (cs : list call_stm) : option (call_stm * list call_stm) :=
  match cs with
  | [] => None
  | c :: r =>
      if call_ready ids done c then Some (c, r)
      else match take_ready ids done r with
           | Some (x, r') => Some (x, c :: r')
           | None => None
           end
  end.

Fixpoint topo_calls (fuel : nat) (ids done : list bytes) (cs : list call_stm) : list call_stm :=
  match fuel, cs with
  | S f, _ :: _ =>
      match take_ready ids done cs with
      | Some (x, r) => x :: topo_calls f ids (c_id x :: done) r
      | None => cs
      end
  | _, _ => cs
  end.

Definition sort_pipeline (p : pipeline) : pipeline :=
  mk_pipeline (pl_id p) (pl_ins p) (pl_outs p)
              (topo_calls (List.length (pl_calls p)) (map c_id (pl_calls p)) [] (pl_calls p))
              (pl_ret p) (pl_retain p).

Definition sort_ast (a : ast) : ast :=
  mk_ast (a_user_types a) (a_struct_types a)
         (map (fun c => match c with CPipeline p => CPipeline (sort_pipeline p) | _ => c end) (a_callables a))
         (a_compiled a) (a_call a).

Definition typecheck (a : ast) : result := typecheck_g true (sort_ast a).

(* ------------------------------------------------ evaluation of literals *)

(* the JSON value of a reference-free expression *)
Fixpoint eval_lit (e : exp) : json :=
  match e with
  | EArray l => JArr (map eval_lit l)
  | EMap _ kvs => JObj (map (fun kv => (fst kv, eval_lit (snd kv))) kvs)
  | EString s => JStr s
  | EBool b => JBool b
  | EInt z => JNum z 0
  | EFloat m e => let '(m', e') := float_decimal m e in JNum m' e'
  | ENull => JNull
  | ERef _ _ _ => JNull
  | ESplit x => eval_lit x
  end.

(* the numeric literals are int64 values and finite float64 values *)
Fixpoint nums_ok (e : exp) : bool :=
  match e with
  | EInt z => in_int64 z
  | EFloat m x => let '(m', e') := float_decimal m x in negb (f64_overflow m' e')
  | EArray l => forallb nums_ok l
  | EMap _ kvs => forallb (fun kv => nums_ok (snd kv)) kvs
  | ESplit x => nums_ok x
  | _ => true
  end.
