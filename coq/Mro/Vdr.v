(* Volatile data removal (VDR): the file-liveness bookkeeping of martian/core
   (storage.go, stage.go, node.go) as an executable state machine.

   Per producer fork the runtime keeps
     fileArgs      : output argument -> set of holders (a consumer node, or nil
                     for the top-level pipeline / a retain declaration)
     filePostNodes : consumer node -> set of arguments it keeps alive
     fileParamMap  : file -> arguments that still reference it (strict kill)
   Go's map-of-sets are modelled as finite sets of pairs (lists); a key whose
   set is empty never exists in the implementation (removeFileArg and
   removeFilePostNodes delete a key when its set becomes empty, and
   attachToFileParents/setupRetains only create non-empty sets), which the
   correspondence check observes on every dumped state.

   Files are an abstract set: path, owner (which job directory and whether
   tmp/ or files/), size, and the arguments whose value names the file
   (the result of getArgsToFilesMap + anyOverlap for that file, which the
   harness computes from real paths and the implementation's own functions).
   Every locked method of Fork is one atomic step.  Not modelled: the
   goroutines that run these steps asynchronously (the steps may occur in any
   order and at any time here), os.RemoveAll / walk errors, symlink name
   expansion beyond what the harness puts into [f_names], force-volatile
   overrides, failed forks (partialVdrKill does nothing for them). *)
From Martian Require Import Lib.Bytes.
Local Open Scope N_scope.

Definition arg := N.
Definition node := N.
Definition path := N.
Definition holder := option node.   (* None = top-level pipeline or retain *)

Inductive mode := Rolling | Post | Strict | Disable.

Inductive owner := SplitTmp | ChunkTmp | JoinTmp | SplitFiles | ChunkFiles | JoinFiles.

Definition owner_eqb (a b : owner) : bool :=
  match a, b with
  | SplitTmp, SplitTmp | ChunkTmp, ChunkTmp | JoinTmp, JoinTmp
  | SplitFiles, SplitFiles | ChunkFiles, ChunkFiles | JoinFiles, JoinFiles => true
  | _, _ => false
  end.

Definition is_tmp (o : owner) : bool :=
  match o with SplitTmp | ChunkTmp | JoinTmp => true | _ => false end.

Record file := mkFile { f_path : path; f_own : owner; f_size : N; f_names : list arg }.

Definition memN (x : N) (l : list N) : bool := existsb (N.eqb x) l.

Definition holder_eqb (a b : holder) : bool :=
  match a, b with
  | None, None => true
  | Some x, Some y => N.eqb x y
  | _, _ => false
  end.

Definition fargs := list (arg * holder).     (* fileArgs as a set of pairs *)
Definition fpost := list (node * arg).       (* filePostNodes as a set of pairs *)

Definition has_key (a : N) {B} (m : list (N * B)) : bool := existsb (fun e => N.eqb a (fst e)) m.
Definition mem_fa (a : arg) (h : holder) (fa : fargs) : bool :=
  existsb (fun e => N.eqb a (fst e) && holder_eqb h (snd e)) fa.
Definition mem_fp (n : node) (a : arg) (fp : fpost) : bool :=
  existsb (fun e => N.eqb n (fst e) && N.eqb a (snd e)) fp.

(* stage.go removeFileArg: drop the argument, and drop it from the argument
   set of every node that held it *)
Definition remove_file_arg (a : arg) (st : fargs * fpost) : fargs * fpost :=
  let '(fa, fp) := st in
  (filter (fun e => negb (N.eqb a (fst e))) fa,
   filter (fun e => negb (N.eqb a (snd e) && mem_fa a (Some (fst e)) fa)) fp).

Definition remove_file_args (l : list arg) (st : fargs * fpost) : fargs * fpost :=
  fold_left (fun st a => remove_file_arg a st) l st.

(* stage.go removeFilePostNodes, one node: drop the node, and drop it from the
   holder set of every argument it kept alive *)
Definition remove_post_node (n : node) (st : fargs * fpost) : fargs * fpost :=
  let '(fa, fp) := st in
  (filter (fun e => negb (holder_eqb (snd e) (Some n) && mem_fp n (fst e) fp)) fa,
   filter (fun e => negb (N.eqb n (fst e))) fp).

Definition remove_post_nodes (l : list node) (st : fargs * fpost) : fargs * fpost :=
  fold_left (fun st n => remove_post_node n st) l st.

(* ------------------------------------------------------------------ reports *)
Record report := mkReport { r_paths : list path; r_count : N; r_size : N }.
Definition empty_report := mkReport [] 0 0.

(* storage.go mergeVDRKillReports (paths, count, size; events and timestamps
   are not part of the property) *)
Definition merge_reports (l : list report) : report :=
  fold_left (fun acc r => mkReport (r_paths acc ++ r_paths r) (r_count acc + r_count r) (r_size acc + r_size r))
            l empty_report.

Record preport := mkP { p_rep : report; p_split : bool; p_chunks : bool; p_join : bool }.
Definition empty_preport := mkP empty_report false false false.

Definition sum_sizes (l : list file) : N := fold_right (fun f acc => f_size f + acc) 0 l.
Definition count_files (l : list file) : N := N.of_nat (length l).

Inductive phase := PRun | PSplitDone | PChunksDone | PJoinDone | PComplete.
Definition phase_idx (p : phase) : N :=
  match p with PRun => 0 | PSplitDone => 1 | PChunksDone => 2 | PJoinDone => 3 | PComplete => 4 end.
Definition next_phase (p : phase) : phase :=
  match p with PRun => PSplitDone | PSplitDone => PChunksDone | PChunksDone => PJoinDone | _ => PComplete end.

Record fork := mkFork {
  k_split : bool;          (* the stage has a split *)
  k_vol : bool;            (* call modifier volatile *)
  k_sv : bool;             (* stage declares volatile = strict *)
  k_decl : bool;           (* stage declares volatile at all (VolatileNode != nil) *)
  files0 : list file;      (* everything the fork's jobs write *)
  valued : list arg;       (* arguments whose output value contains a path *)
  init_fa : fargs;         (* as built by attachToFileParents / retains *)
  init_fp : fpost;
  fa : fargs;
  fp : fpost;
  fpm : option (list (file * list arg));
  disk : list file;
  removed : list file;     (* ghost: what has left the disk *)
  partial : option preport;   (* _vdrkill.partial *)
  final : option report;      (* _vdrkill *)
  ph : phase
}.

Definition set_books (k : fork) (b : fargs * fpost) : fork :=
  mkFork (k_split k) (k_vol k) (k_sv k) (k_decl k) (files0 k) (valued k) (init_fa k) (init_fp k)
         (fst b) (snd b) (fpm k) (disk k) (removed k) (partial k) (final k) (ph k).
Definition set_fpm (k : fork) (m : option (list (file * list arg))) : fork :=
  mkFork (k_split k) (k_vol k) (k_sv k) (k_decl k) (files0 k) (valued k) (init_fa k) (init_fp k)
         (fa k) (fp k) m (disk k) (removed k) (partial k) (final k) (ph k).
Definition set_disk (k : fork) (d r : list file) : fork :=
  mkFork (k_split k) (k_vol k) (k_sv k) (k_decl k) (files0 k) (valued k) (init_fa k) (init_fp k)
         (fa k) (fp k) (fpm k) d r (partial k) (final k) (ph k).
Definition set_reports (k : fork) (p : option preport) (f : option report) : fork :=
  mkFork (k_split k) (k_vol k) (k_sv k) (k_decl k) (files0 k) (valued k) (init_fa k) (init_fp k)
         (fa k) (fp k) (fpm k) (disk k) (removed k) p f (ph k).
Definition set_ph (k : fork) (p : phase) : fork :=
  mkFork (k_split k) (k_vol k) (k_sv k) (k_decl k) (files0 k) (valued k) (init_fa k) (init_fp k)
         (fa k) (fp k) (fpm k) (disk k) (removed k) (partial k) (final k) p.

Definition mode_disabled (m : mode) : bool := match m with Disable => true | _ => false end.
Definition mode_strict (m : mode) : bool := match m with Strict => true | _ => false end.

(* storage.go isStrictVolatile / isVolatile (no overrides) *)
Definition is_strict (m : mode) (k : fork) : bool :=
  negb (mode_disabled m) && (k_sv k || (mode_strict m && negb (k_decl k))).
Definition is_volatile (m : mode) (k : fork) : bool :=
  negb (mode_disabled m) && (is_strict m k || k_vol k).

(* storage.go cacheParamFileMap: every file under a files/ directory of the
   fork with the current arguments that name it; arguments naming no such file
   are dropped from the books *)
Definition cache_entries (k : fork) : list (file * list arg) :=
  map (fun f => (f, filter (fun a => has_key a (fa k)) (f_names f)))
      (filter (fun f => negb (is_tmp (f_own f))) (disk k)).

Definition named_in (es : list (file * list arg)) (a : arg) : bool :=
  existsb (fun e => memN a (snd e)) es.

Fixpoint dedupN (l : list N) : list N :=
  match l with
  | [] => []
  | x :: r => if memN x r then dedupN r else x :: dedupN r
  end.

Definition cache (k : fork) : fork :=
  let es := cache_entries k in
  let dead := filter (fun a => negb (named_in es a)) (dedupN (map fst (fa k))) in
  set_fpm (set_books k (remove_file_args dead (fa k, fp k))) (Some es).

(* storage.go updateParamFileCache *)
Definition update_cache (k : fork) : fork :=
  match fpm k with
  | None => k
  | Some es => set_fpm k (Some (map (fun e => (fst e, filter (fun a => has_key a (fa k)) (snd e))) es))
  end.

Definition is_nil {A} (l : list A) : bool := match l with [] => true | _ => false end.

Definition add_kill (p : preport) (paths : list path) (cnt sz : N) : preport :=
  mkP (mkReport (r_paths (p_rep p) ++ paths) (r_count (p_rep p) + cnt) (r_size (p_rep p) + sz))
      (p_split p) (p_chunks p) (p_join p).

Definition rm_paths (ps : list path) (d : list file) : list file :=
  filter (fun f => negb (memN (f_path f) ps)) d.
Definition sel_paths (ps : list path) (d : list file) : list file :=
  filter (fun f => memN (f_path f) ps) d.

(* storage.go vdrKillSome.  Result: new fork, returned report, returned flag.
   (The flag for "nothing to kill, done" is the repaired one: done.) *)
Definition kill_some (m : mode) (k0 : fork) (done : bool) : fork * option report * bool :=
  let k := match fpm k0 with None => cache k0 | Some _ => update_cache k0 end in
  let ret := option_map p_rep (partial k) in
  if mode_disabled m then (k, ret, false) else
  let es := match fpm k with Some es => es | None => [] end in
  let kills := filter (fun e => is_nil (snd e)) es in
  if is_nil kills then
    if done then
      (set_reports k None (Some (match partial k with Some p => p_rep p | None => empty_report end)), ret, true)
    else (k, ret, false)
  else
    let p := match partial k with Some p => p | None => empty_preport end in
    let kf := map fst kills in
    let ps := map f_path kf in
    let p' := add_kill p ps (count_files kf) (sum_sizes kf) in
    let es' := filter (fun e => negb (is_nil (snd e))) es in
    let k1 := set_fpm (set_disk k (rm_paths ps (disk k)) (removed k ++ sel_paths ps (disk k))) (Some es') in
    if is_nil es' || done || is_nil (fp k) then
      (set_reports k1 None (Some (p_rep p')), Some (p_rep p'), true)
    else
      (set_reports k1 (Some p') None, Some (p_rep p'), false).

(* storage.go vdrKill: everything the books allow for a volatile stage, the
   chunk files of a splitting stage otherwise *)
Definition full_kill (m : mode) (k : fork) : fork * option report :=
  if mode_disabled m then (k, None) else
  match final k with
  | Some r => (k, Some r)
  | None =>
    if is_volatile m k then
      let '(k', r, _) := kill_some m k true in (k', r)
    else
      let kf := if k_split k then filter (fun f => owner_eqb (f_own f) ChunkFiles) (disk k) else [] in
      let ps := map f_path kf in
      let r0 := mkReport ps (count_files kf) (sum_sizes kf) in
      let r := match partial k with Some p => merge_reports [r0; p_rep p] | None => r0 end in
      (set_reports (set_disk k (rm_paths ps (disk k)) (removed k ++ sel_paths ps (disk k))) None (Some r), Some r)
  end.

(* storage.go cleanSplitTemp / cleanChunkTemp / cleanJoinTemp *)
Definition set_flag (o : owner) (p : preport) : preport :=
  match o with
  | SplitTmp => mkP (p_rep p) true (p_chunks p) (p_join p)
  | ChunkTmp => mkP (p_rep p) (p_split p) true (p_join p)
  | _ => mkP (p_rep p) (p_split p) (p_chunks p) true
  end.
Definition get_flag (o : owner) (p : option preport) : bool :=
  match p with
  | None => false
  | Some p => match o with SplitTmp => p_split p | ChunkTmp => p_chunks p | _ => p_join p end
  end.

Definition clean_temp (o : owner) (k : fork) (p0 : option preport) : fork :=
  let p := match p0 with Some p => p | None => empty_preport end in
  let kf := filter (fun f => owner_eqb (f_own f) o) (disk k) in
  let ps := map f_path kf in
  let sz := sum_sizes kf in
  let p' := set_flag o (add_kill p (if (sz =? 0)%N then [] else ps) (count_files kf) sz) in
  set_reports (set_disk k (rm_paths ps (disk k)) (removed k ++ sel_paths ps (disk k))) (Some p') (final k).

Definition phase_geb (a b : phase) : bool := (phase_idx b <=? phase_idx a)%N.

(* storage.go partialVdrKill; [done_nodes] are the consumers whose state is
   complete or disabled *)
Definition partial_kill (m : mode) (done_nodes : list node) (k : fork) : fork * option report * bool :=
  match final k with
  | Some r => (k, Some r, true)
  | None =>
    let k1 := if k_split k && negb (get_flag SplitTmp (partial k)) && phase_geb (ph k) PSplitDone
              then clean_temp SplitTmp k (partial k) else k in
    let k2 := if negb (get_flag ChunkTmp (partial k1)) && phase_geb (ph k1) PChunksDone
              then clean_temp ChunkTmp k1 (partial k1) else k1 in
    let k3 := if negb (get_flag JoinTmp (partial k2)) && phase_geb (ph k2) PJoinDone
              then clean_temp JoinTmp k2 (partial k2) else k2 in
    match ph k3 with
    | PComplete =>
      let dn := filter (fun n => memN n done_nodes) (dedupN (map fst (fp k3))) in
      let k4 := set_books k3 (remove_post_nodes dn (fa k3, fp k3)) in
      if is_nil (fp k4) then
        if is_strict m k4 then kill_some m k4 true
        else let '(k5, r) := full_kill m k4 in (k5, r, true)
      else if is_strict m k4 then kill_some m k4 false
      else (k4, option_map p_rep (partial k4), false)
    | _ => (k3, option_map p_rep (partial k3), false)
    end
  end.

(* ------------------------------------------------------------------ system *)
Record sys := mkSys {
  s_mode : mode;
  s_forks : list (N * fork);
  s_done : list node;            (* consumers that finished (complete or disabled) *)
  s_total : option report        (* the pipestance's _vdrkill *)
}.

Inductive op :=
| ConsumerFinished (n : node)
| Advance (f : N)          (* the fork's jobs reach the next phase *)
| Cache (f : N)            (* the asynchronous cacheParamFileMap after completion *)
| PartialKill (f : N)      (* an asynchronous or cachePerf-triggered partialVdrKill *)
| FinalSweep               (* Pipestance.VDRKill at completion *)
| CloneFork (src new : N) (files : list file) (vals : list arg)   (* node.go cloneFork *)
| Restart.                 (* mrp restarts: books rebuilt, reports and disk durable *)

Fixpoint upd_fork (id : N) (g : fork -> fork) (l : list (N * fork)) : list (N * fork) :=
  match l with
  | [] => []
  | (i, k) :: r => if N.eqb id i then (i, g k) :: r else (i, k) :: upd_fork id g r
  end.
Fixpoint get_fork (id : N) (l : list (N * fork)) : option fork :=
  match l with
  | [] => None
  | (i, k) :: r => if N.eqb id i then Some k else get_fork id r
  end.

(* stage.go removeEmptyFileArgs: arguments whose value holds no path at all *)
Definition remove_empty (k : fork) : fork :=
  set_books k (remove_file_args (filter (fun a => negb (memN a (valued k))) (dedupN (map fst (fa k)))) (fa k, fp k)).

(* stage.go doChunks / doJoin / doComplete as far as VDR is concerned *)
Definition advance (m : mode) (dn : list node) (k : fork) : fork :=
  match ph k with
  | PRun =>
      let k' := set_ph k PSplitDone in
      if is_volatile m k then clean_temp SplitTmp k' None else k'
  | PSplitDone => set_ph k PChunksDone
  | PChunksDone => set_ph k PJoinDone
  | PJoinDone =>
      match m with
      | Post => remove_empty (set_ph (fst (fst (partial_kill m dn (cache k)))) PComplete)
      | _ => remove_empty (set_ph k PComplete)
      end
  | PComplete => k
  end.

(* what the property's quantifier assumes of the files a fork writes (the
   stage contract): distinct paths; temporary files and - for a splitting
   stage - chunk files are not named by the fork's outputs; an argument that
   names a file has a value containing a path *)
Fixpoint nodupb (l : list N) : bool :=
  match l with [] => true | x :: r => negb (memN x r) && nodupb r end.

Definition files_ok (split : bool) (files : list file) (vals : list arg) : bool :=
  nodupb (map f_path files) &&
  forallb (fun f => (if is_tmp (f_own f) then is_nil (f_names f) else true) &&
                    (if split && owner_eqb (f_own f) ChunkFiles then is_nil (f_names f) else true) &&
                    (if negb split && (owner_eqb (f_own f) SplitTmp || owner_eqb (f_own f) SplitFiles)
                     then false else true) &&
                    forallb (fun a => memN a vals) (f_names f)) files.

Definition consistentb (fa : fargs) (fp : fpost) : bool :=
  forallb (fun e => match snd e with Some n => mem_fp n (fst e) fp | None => true end) fa &&
  forallb (fun e => mem_fa (snd e) (Some (fst e)) fa) fp.

Definition static_ok (k : fork) : bool :=
  files_ok (k_split k) (files0 k) (valued k) && consistentb (init_fa k) (init_fp k).

Definition fresh_clone (src : fork) (files : list file) (vals : list arg) : fork :=
  mkFork (k_split src) (k_vol src) (k_sv src) (k_decl src) files vals (fa src) (fp src)
         (fa src) (fp src) None files [] None None PRun.

Definition restart_fork (k : fork) : fork :=
  set_fpm (set_books k (init_fa k, init_fp k)) None.

Definition sweep (m : mode) (dn : list node) (l : list (N * fork)) : list (N * fork) * list report :=
  fold_right (fun e acc =>
                let '(k', r, d) := partial_kill m dn (snd e) in
                ((fst e, k') :: fst acc,
                 match r with Some r => if d then r :: snd acc else snd acc | None => snd acc end))
             ([], []) l.

Definition step (s : sys) (o : op) : sys :=
  match o with
  | ConsumerFinished n => mkSys (s_mode s) (s_forks s) (n :: s_done s) (s_total s)
  | Advance f => mkSys (s_mode s) (upd_fork f (advance (s_mode s) (s_done s)) (s_forks s)) (s_done s) (s_total s)
  | Cache f => mkSys (s_mode s)
                 (upd_fork f (fun k => match ph k with PComplete => cache k | _ => k end) (s_forks s))
                 (s_done s) (s_total s)
  | PartialKill f => mkSys (s_mode s)
                       (upd_fork f (fun k => fst (fst (partial_kill (s_mode s) (s_done s) k))) (s_forks s))
                       (s_done s) (s_total s)
  | FinalSweep =>
      if mode_disabled (s_mode s) then s else
      let '(l, rs) := sweep (s_mode s) (s_done s) (s_forks s) in
      mkSys (s_mode s) l (s_done s) (Some (merge_reports rs))
  | CloneFork src new files vals =>
      match get_fork src (s_forks s), get_fork new (s_forks s) with
      | Some k, None =>
          match ph k with
          | PRun =>
              if files_ok (k_split k) files vals
              then mkSys (s_mode s) (s_forks s ++ [(new, fresh_clone k files vals)]) (s_done s) (s_total s)
              else s
          | _ => s
          end
      | _, _ => s
      end
  | Restart => mkSys (s_mode s) (map (fun e => (fst e, restart_fork (snd e))) (s_forks s)) (s_done s) (s_total s)
  end.

Definition run (s : sys) (ops : list op) : sys := fold_left step ops s.

(* ------------------------------------------------------------------ pure helpers tied separately *)
(* storage.go pathIsInside on cleaned absolute paths given as component lists *)
Fixpoint comp_prefix (p t : list bytes) : bool :=
  match p, t with
  | [], _ => true
  | x :: p', y :: t' => bytes_eqb x y && comp_prefix p' t'
  | _ :: _, [] => false
  end.
Definition path_is_inside (test parent : list bytes) : bool := comp_prefix parent test.

(* storage.go anyOverlap: some name equals, contains or is contained in some file *)
Definition any_overlap (names files : list (list bytes)) : bool :=
  existsb (fun n => existsb (fun f => comp_prefix n f || comp_prefix f n) files) names.

(* the collapsing of sorted kill paths in vdrKillSome: a path inside the last
   kept one is dropped *)
Fixpoint collapse (last : option (list bytes)) (l : list (list bytes)) : list (list bytes) :=
  match l with
  | [] => []
  | p :: r =>
      match last with
      | Some q => if path_is_inside p q then collapse last r else p :: collapse (Some p) r
      | None => p :: collapse (Some p) r
      end
  end.
