(* The behaviour language of the harness's stage executable (cmd/vh stage.go)
   and its interpretation as a Sem.oracle. *)
From Martian Require Import Lib.Bytes Json.Json Mro.Sem.

Inductive sexp :=
| SLit (j : json)
| SArg (n : bytes)                 (* args[n] (chunk phase: merged with the chunk definition) *)
| SArr (l : list sexp)
| SObj (kvs : list (bytes * sexp))
| SChunkOuts (k : bytes).          (* join: [chunk_outs[i][k] for every chunk i] *)

Inductive chunk_src :=
| ChunksFrom (arg : bytes) (chunk_in : bytes)   (* one chunk per element of args[arg] *)
| ChunksConst (defs : list json).

Record stage_beh := {
  sb_outs : list (bytes * sexp);       (* outs (main, or join for a splitting stage) *)
  sb_chunks : chunk_src;
  sb_chunk_outs : list (bytes * sexp);
}.

Definition spec := list (bytes * stage_beh).

Fixpoint eval_sexp (args : json) (couts : list json) (e : sexp) : json :=
  match e with
  | SLit j => j
  | SArg n => obj_get n args
  | SArr l => JArr (map (eval_sexp args couts) l)
  | SObj kvs => JObj (map (fun kv => (fst kv, eval_sexp args couts (snd kv))) kvs)
  | SChunkOuts k => JArr (map (obj_get k) couts)
  end.

Definition eval_outs (args : json) (couts : list json) (os : list (bytes * sexp)) : json :=
  JObj (map (fun oe => (fst oe, eval_sexp args couts (snd oe))) os).

Definition empty_beh : stage_beh :=
  {| sb_outs := []; sb_chunks := ChunksConst []; sb_chunk_outs := [] |}.

Definition beh (sp : spec) (name : bytes) : stage_beh :=
  match assoc_get name sp with Some b => b | None => empty_beh end.

Definition spec_oracle_pol (pol : list bytes -> bool) (sp : spec) : oracle :=
  {| o_nulls := pol;
     o_main := fun name args => eval_outs args [] (sb_outs (beh sp name));
     o_split := fun name args =>
       match sb_chunks (beh sp name) with
       | ChunksFrom a ci =>
           match obj_get a args with
           | JArr l => map (fun x => JObj [(ci, x)]) l
           | _ => []
           end
       | ChunksConst l => l
       end;
     o_chunk := fun name merged => eval_outs merged [] (sb_chunk_outs (beh sp name));
     o_join := fun name args defs couts => eval_outs args couts (sb_outs (beh sp name)) |}.

(* the canonical reading: a disabled call is null *)
Definition spec_oracle (sp : spec) : oracle := spec_oracle_pol (fun _ => false) sp.
