(* An operational model of pipestance scheduling: jobs with dependencies, the
   durable per-job state (idle / running / done / failed), starts, completions,
   failures, and resets (what an mrp crash + restart, or a restart after a
   failure, may do: only jobs that are not done can be reset).

   [valid_trace] is executable: the correspondence check replays the history
   observed from real mrp runs through it (trace acceptance).  The theorems in
   Proofs/Sched.v hold for every valid trace over every dependency relation. *)
From Martian Require Import Lib.Bytes.

Section Sched.
  Variable job : Type.
  Variable jeqb : job -> job -> bool.
  Variable deps : job -> list job.       (* must be done before the job starts *)

  Inductive jstate := Idle | Running | Done | Failed.

  Definition jstate_eqb (a b : jstate) : bool :=
    match a, b with
    | Idle, Idle | Running, Running | Done, Done | Failed, Failed => true
    | _, _ => false
    end.

  (* durable state: association list, absent = Idle *)
  Definition state := list (job * jstate).

  Fixpoint get (s : state) (j : job) : jstate :=
    match s with
    | [] => Idle
    | (k, v) :: r => if jeqb j k then v else get r j
    end.

  Definition set (s : state) (j : job) (v : jstate) : state := (j, v) :: s.

  Inductive event :=
  | EStart (j : job)          (* a job process starts *)
  | EDone (j : job)           (* it completes successfully (completion recorded) *)
  | EFail (j : job)           (* it fails in any manifestation *)
  | EReset (j : job).         (* restart resets a failed or orphaned/killed job *)

  Definition is_done (s : state) (j : job) : bool := jstate_eqb (get s j) Done.

  Definition enabled (s : state) (e : event) : bool :=
    match e with
    | EStart j => jstate_eqb (get s j) Idle && forallb (is_done s) (deps j)
    | EDone j => jstate_eqb (get s j) Running
    | EFail j => jstate_eqb (get s j) Running
    | EReset j => jstate_eqb (get s j) Running || jstate_eqb (get s j) Failed
    end.

  Definition apply (s : state) (e : event) : state :=
    match e with
    | EStart j => set s j Running
    | EDone j => set s j Done
    | EFail j => set s j Failed
    | EReset j => set s j Idle
    end.

  (* run a trace from a state; None at the first event that is not enabled *)
  Fixpoint run (s : state) (tr : list event) : option state :=
    match tr with
    | [] => Some s
    | e :: r => if enabled s e then run (apply s e) r else None
    end.

  Definition valid_trace (tr : list event) : bool :=
    match run [] tr with Some _ => true | None => false end.

  (* index of the first event that is not enabled (for replay reports) *)
  Fixpoint first_bad (s : state) (tr : list event) (i : nat) : option nat :=
    match tr with
    | [] => None
    | e :: r => if enabled s e then first_bad (apply s e) r (S i) else Some i
    end.

  Definition is_start (j : job) (e : event) : bool :=
    match e with EStart k => jeqb j k | _ => false end.
  Definition is_reset_or_fail (e : event) : bool :=
    match e with EReset _ | EFail _ => true | _ => false end.
  Definition count_starts (j : job) (tr : list event) : nat :=
    length (filter (is_start j) tr).
End Sched.

Arguments EStart {job}. Arguments EDone {job}. Arguments EFail {job}. Arguments EReset {job}.
