(* Mro/Ast.v - the Gallina representation of a COMPILED MRO program, mirroring
   the exported structure of martian/syntax (ast.go, call.go, bindings.go,
   callable.go, params.go, struct_type.go, types.go, expression.go,
   ref_expression.go, split_expression.go).

   Values of these types are produced from the implementation's own compiled
   syntax.Ast by harness/internal/astdump (never by a parser of ours), either
   as a Coq term (cases.v) or as a transport line read by ocaml/src/ast.ml.

   What is NOT represented: AstNode (source location, comments), the Files /
   Includes tables (include structure), string interning, and the two
   expression kinds that only exist in a resolved call graph (MergeExp,
   DisabledExp, RefExp.Forks).  Go nil pointers to containers (BindStms,
   InParams, OutParams) are represented by the empty list: no clause of the
   code modelled so far distinguishes nil from empty.  Lookup tables
   (Callables.Table, BindStms.Table, Params.Table) are derived from the lists
   by first-match search; the compiler rejects duplicate names, see the
   well-formedness predicates in K/Equiv.v.

   This file contains definitions only (no proofs). *)
From Martian Require Import Lib.Bytes.

(* ------------------------------------------------------------------ types *)

(* syntax.FileKind (types.go): what a value of a type means for the output
   directory and for VDR. *)
Inductive file_kind :=
| KindIsNotFile         (* int, float, bool, structs of those *)
| KindMayContainPaths   (* string, map, structs containing those *)
| KindIsFile            (* file, path, a user file type (scalar) *)
| KindIsDirectory.      (* arrays / typed maps / structs containing files *)

(* syntax.TypeId: base name, array dimension, and map dimension.
   tid_map = 0: not a typed map; tid_map = k+1: map<name[]^k>; then tid_arr
   counts the arrays around the map. *)
Record type_id := mk_tid { tid_name : bytes; tid_arr : N; tid_map : N }.

(* syntax.StructMember (also the payload of OutParam). *)
Record struct_member := mk_member {
  sm_id : bytes;           (* Id: the json key *)
  sm_tname : type_id;      (* Tname *)
  sm_outname : bytes;      (* OutName: explicit output file name, or empty *)
  sm_help : bytes;         (* Help *)
  sm_isfile : file_kind;   (* cached IsFile() of the resolved type *)
  sm_complex : bool;       (* cached isComplex: not a builtin / user file type *)
  sm_basefile : bool       (* cached: the base (element) type is a file type *)
}.

(* syntax.StructType. *)
Record struct_type := mk_struct {
  sd_id : bytes;
  sd_members : list struct_member;
  sd_isfile : file_kind
}.

(* ------------------------------------------------------------ expressions *)

Inductive map_kind := MapKindMap | MapKindStruct.   (* MapExp.Kind *)
Inductive ref_kind := RefSelf | RefCall.            (* RefExp.Kind *)

(* syntax.Exp as it occurs in a compiled Ast.
   EFloat m e is the float64 value m * 2^e, exactly (canonical form: m odd,
   or m = 0 and e = 0); [float_decimal] below converts it to an exact decimal.
   EMap entries are listed in bytewise key order (the Go value is a map). *)
Inductive exp :=
| EArray (items : list exp)                         (* ArrayExp *)
| EMap (k : map_kind) (entries : list (bytes * exp))(* MapExp *)
| EString (s : bytes)                               (* StringExp *)
| EBool (b : bool)                                  (* BoolExp *)
| EInt (z : Z)                                      (* IntExp, int64 *)
| EFloat (m e : Z)                                  (* FloatExp, float64 *)
| ENull                                             (* NullExp *)
| ERef (k : ref_kind) (id : bytes) (output_id : bytes)
                                                    (* RefExp: self.id.output_id
                                                       or CALL.output_id;
                                                       output_id may be empty *)
| ESplit (inner : exp).                             (* SplitExp.Value *)

(* exact decimal (m, e) with value m * 10^e of the float m2 * 2^e2 *)
Definition float_decimal (m2 e2 : Z) : Z * Z :=
  if (0 <=? e2)%Z then (m2 * 2 ^ e2, 0)%Z
  else (m2 * 5 ^ (- e2), e2)%Z.

(* --------------------------------------------------- bindings, calls *)

(* syntax.BindStm.  The wildcard binding of `call F(x = 1, * = self)` stays in
   the list with b_id = "*" (its expression is the reference being expanded),
   followed by the bindings it expanded to. *)
Record bind_stm := mk_bind {
  b_id : bytes;
  b_exp : exp;
  b_tname : type_id        (* type of the bound parameter; zero for modifiers *)
}.

(* syntax.CallMode of CallStm.Mapping (map_call_source.go). *)
Inductive call_mode :=
| ModeSingleCall | ModeArrayCall | ModeMapCall | ModeUnknownMapCall | ModeNullMapCall.

(* syntax.Modifiers.  m_bindings holds the `using (...)` bindings that are
   expressions or carry comments; only the entry named disabled matters at
   run time. *)
Record modifiers := mk_mods {
  m_bindings : list bind_stm;
  m_local : bool;
  m_preflight : bool;
  m_volatile : bool
}.

(* syntax.CallStm. *)
Record call_stm := mk_call {
  c_id : bytes;                 (* Id: the (possibly aliased) name *)
  c_dec_id : bytes;             (* DecId: the callable being called *)
  c_mods : option modifiers;    (* Modifiers (a pointer; the parser never leaves it nil) *)
  c_bindings : list bind_stm;   (* Bindings.List *)
  c_mode : call_mode            (* Mapping.CallMode(), ModeSingleCall if Mapping is nil *)
}.

(* --------------------------------------------------------- callables *)

(* syntax.InParam. *)
Record in_param := mk_in {
  ip_id : bytes;
  ip_tname : type_id;
  ip_help : bytes;
  ip_isfile : file_kind;   (* cached IsFile() of the resolved type *)
  ip_basefile : bool       (* cached: the base (element) type is a file type *)
}.

(* syntax.OutParam is a StructMember. *)
Definition out_param := struct_member.

(* syntax.SrcParam: stage code. *)
Inductive stage_lang := LangUnknown | LangPython | LangExec | LangCompiled.
Record src_param := mk_src {
  src_lang : stage_lang;
  src_path : bytes;
  src_args : list bytes
}.

(* syntax.Resources; the float32 quantities are exact dyadics (m, e). *)
Record resources := mk_res {
  r_special : bytes;
  r_threads : Z * Z;
  r_mem_gb : Z * Z;
  r_vmem_gb : Z * Z;
  r_strict_volatile : bool
}.

(* syntax.Stage. *)
Record stage := mk_stage {
  st_id : bytes;
  st_ins : list in_param;
  st_outs : list out_param;
  st_split : bool;              (* Split: has a `split using` section *)
  st_chunk_ins : list in_param;
  st_chunk_outs : list out_param;
  st_retain : list bytes;       (* Retain.Params ids *)
  st_src : src_param;
  st_resources : option resources
}.

(* syntax.Pipeline. *)
Record pipeline := mk_pipeline {
  pl_id : bytes;
  pl_ins : list in_param;
  pl_outs : list out_param;
  pl_calls : list call_stm;
  pl_ret : option (list bind_stm);   (* Ret.Bindings.List; None if Ret is nil *)
  pl_retain : list exp               (* Retain.Refs *)
}.

Inductive callable := CStage (s : stage) | CPipeline (p : pipeline).

Definition callable_id (c : callable) : bytes :=
  match c with CStage s => st_id s | CPipeline p => pl_id p end.
Definition callable_ins (c : callable) : list in_param :=
  match c with CStage s => st_ins s | CPipeline p => pl_ins p end.
Definition callable_outs (c : callable) : list out_param :=
  match c with CStage s => st_outs s | CPipeline p => pl_outs p end.

(* syntax.Ast after compile(). *)
Record ast := mk_ast {
  a_user_types : list bytes;          (* UserTypes ids (filetype declarations) *)
  a_struct_types : list struct_type;  (* StructTypes *)
  a_callables : list callable;        (* Callables.List, in source order *)
  a_compiled : bool;                  (* Callables and Callables.Table non-nil *)
  a_call : option call_stm            (* Call *)
}.

(* ----------------------------------------------------------- lookups *)

Fixpoint find_callable (id : bytes) (l : list callable) : option callable :=
  match l with
  | [] => None
  | c :: r => if bytes_eqb (callable_id c) id then Some c else find_callable id r
  end.

Fixpoint find_bind (id : bytes) (l : list bind_stm) : option bind_stm :=
  match l with
  | [] => None
  | b :: r => if bytes_eqb (b_id b) id then Some b else find_bind id r
  end.

Fixpoint find_in (id : bytes) (l : list in_param) : option in_param :=
  match l with
  | [] => None
  | p :: r => if bytes_eqb (ip_id p) id then Some p else find_in id r
  end.

Fixpoint find_member (id : bytes) (l : list struct_member) : option struct_member :=
  match l with
  | [] => None
  | p :: r => if bytes_eqb (sm_id p) id then Some p else find_member id r
  end.

Fixpoint find_call (id : bytes) (l : list call_stm) : option call_stm :=
  match l with
  | [] => None
  | c :: r => if bytes_eqb (c_id c) id then Some c else find_call id r
  end.

Fixpoint find_struct (id : bytes) (l : list struct_type) : option struct_type :=
  match l with
  | [] => None
  | s :: r => if bytes_eqb (sd_id s) id then Some s else find_struct id r
  end.

Fixpoint assoc_exp (k : bytes) (l : list (bytes * exp)) : option exp :=
  match l with
  | [] => None
  | (k', v) :: r => if bytes_eqb k' k then Some v else assoc_exp k r
  end.

(* the wildcard binding id "*" and the modifier name "disabled" *)
Definition star_id : bytes := [x2a].
Definition disabled_id : bytes := [x64; x69; x73; x61; x62; x6c; x65; x64].

(* BindStms.Table: every entry of the list except the wildcard itself *)
Definition bind_table (l : list bind_stm) : list bind_stm :=
  filter (fun b => negb (bytes_eqb (b_id b) star_id)) l.

(* ------------------------------------------------- decidable equalities *)

Definition file_kind_eqb (a b : file_kind) : bool :=
  match a, b with
  | KindIsNotFile, KindIsNotFile | KindMayContainPaths, KindMayContainPaths
  | KindIsFile, KindIsFile | KindIsDirectory, KindIsDirectory => true
  | _, _ => false
  end.

Definition type_id_eqb (a b : type_id) : bool :=
  bytes_eqb (tid_name a) (tid_name b) && (tid_arr a =? tid_arr b)%N && (tid_map a =? tid_map b)%N.

Definition ref_kind_eqb (a b : ref_kind) : bool :=
  match a, b with RefSelf, RefSelf | RefCall, RefCall => true | _, _ => false end.

(* ---------------------------------------- the kind of a type (types.go) *)

(* builtin type names *)
Definition n_string : bytes := [x73; x74; x72; x69; x6e; x67].
Definition n_int : bytes := [x69; x6e; x74].
Definition n_float : bytes := [x66; x6c; x6f; x61; x74].
Definition n_bool : bytes := [x62; x6f; x6f; x6c].
Definition n_path : bytes := [x70; x61; x74; x68].
Definition n_file : bytes := [x66; x69; x6c; x65].
Definition n_map : bytes := [x6d; x61; x70].

Definition is_builtin (n : bytes) : bool :=
  existsb (bytes_eqb n) [n_string; n_int; n_float; n_bool; n_path; n_file; n_map].

(* the base type is file / path / a declared user file type *)
Definition base_is_file (a : ast) (n : bytes) : bool :=
  bytes_eqb n n_file || bytes_eqb n n_path ||
  (negb (is_builtin n) && existsb (bytes_eqb n) (a_user_types a)).

(* BuiltinType.IsFile / UserType.IsFile / StructType.IsFile of the base type *)
Definition base_kind (a : ast) (n : bytes) : file_kind :=
  if base_is_file a n then KindIsFile
  else if bytes_eqb n n_string || bytes_eqb n n_map then KindMayContainPaths
  else if is_builtin n then KindIsNotFile
  else match find_struct n (a_struct_types a) with
       | Some s => sd_isfile s
       | None => KindIsNotFile
       end.

(* ArrayType.IsFile and TypedMapType.IsFile applied over TypeId:
   TypeLookup.Get builds array(map(array(base))) from the dimensions. *)
Definition array_kind (k : file_kind) : file_kind :=
  match k with KindIsFile => KindIsDirectory | _ => k end.
Definition typed_map_kind (k : file_kind) : file_kind :=
  match k with
  | KindIsNotFile => KindIsNotFile
  | KindIsDirectory | KindIsFile => KindIsDirectory
  | KindMayContainPaths => KindMayContainPaths
  end.
Definition type_kind (a : ast) (t : type_id) : file_kind :=
  let k0 := base_kind a (tid_name t) in
  let k1 := if (tid_map t =? 0)%N then k0
            else typed_map_kind (if (1 <? tid_map t)%N then array_kind k0 else k0) in
  if (tid_arr t =? 0)%N then k1 else array_kind k1.
