(* Source-level dependencies of a program: for every stage call (by call
   path) the stage calls whose outputs it consumes - as argument data, as its
   disabling condition (its own or an enclosing call's), or as the collection
   it is mapped over - through pipeline inputs and return bindings. *)
From Martian Require Import Lib.Bytes Json.Json Mro.Sem Mro.Obs.

Definition dset := list bytes.        (* joined stage-call paths *)

Fixpoint dedup (l : dset) : dset :=
  match l with
  | [] => []
  | x :: r => if existsb (bytes_eqb x) r then dedup r else x :: dedup r
  end.

Definition lookup_d {A} (k : bytes) (l : list (bytes * A)) (d : A) : A :=
  match assoc_get k l with Some v => v | None => d end.

Fixpoint exp_deps (self : list (bytes * dset)) (calls : list (bytes * list (bytes * dset)))
  (e : exp) : dset :=
  match e with
  | ELit _ => []
  | EArr l => List.concat (map (exp_deps self calls) l)
  | EObj kvs => List.concat (map (fun kv => exp_deps self calls (snd kv)) kvs)
  | ERef (RSelf n) _ => lookup_d n self []
  | ERef (RCall id (Some o)) _ => lookup_d o (lookup_d id calls []) []
  | ERef (RCall id None) _ => List.concat (map snd (lookup_d id calls []))
  end.

Section Deps.
  Variable P : program.

  (* returns (dependencies of each output, list of (stage call, its dependencies)) *)
  Fixpoint deps_callable (fuel : nat) (name : bytes) (path : list bytes)
    (ins : list (bytes * dset)) (ctl : dset) : list (bytes * dset) * list (bytes * dset) :=
    match fuel with
    | O => ([], [])
    | S f =>
        match assoc_get name (pr_callables P) with
        | None => ([], [])
        | Some (CStage s) =>
            let me := join_path path in
            (map (fun o => (fst o, [me])) (st_outs s),
             [(me, dedup (ctl ++ List.concat (map snd ins)))])
        | Some (CPipe p) =>
            let step (acc : list (bytes * list (bytes * dset)) * list (bytes * dset)) (c : call) :=
              let (calls, entries) := acc in
              let cdis := match c_disabled c with
                          | Some e => exp_deps ins calls e
                          | None => []
                          end in
              let bdeps := map (fun b : bytes * (bool * exp) => (fst b, exp_deps ins calls (snd (snd b)))) (c_binds c) in
              (* the number of results of a mapped call is known only when the
                 collection it maps over is: a reference must be resolved first
                 (a literal collection has a static size; its elements matter
                 only to the callee parameters they are bound to) *)
              let sdeps := List.concat (map (fun b : bytes * (bool * exp) =>
                                               match snd b with
                                               | (true, ERef _ _ as e) => exp_deps ins calls e
                                               | _ => []
                                               end) (c_binds c)) in
              let r := deps_callable f (c_callee c) (path ++ [c_id c]) bdeps (ctl ++ cdis) in
              (calls ++ [(c_id c, map (fun od : bytes * dset => (fst od, dedup (cdis ++ sdeps ++ snd od))) (fst r))],
               entries ++ snd r) in
            let (calls, entries) := fold_left step (p_calls p) ([], []) in
            (map (fun o => (fst o,
                            match assoc_get (fst o) (p_ret p) with
                            | Some e => dedup (exp_deps ins calls e)
                            | None => []
                            end)) (p_outs p),
             entries)
        end
    end.

  Definition deps_program (fuel : nat) : list (bytes * dset) :=
    let c := pr_top P in
    snd (deps_callable fuel (c_callee c) [c_id c] (map (fun b => (fst b, [])) (c_binds c)) []).
End Deps.

(* ---- job-level dependencies for trace acceptance ---- *)

Inductive jkind := KMain | KSplit | KChunk | KJoin.
Record jobinfo := { ji_id : bytes; ji_path : bytes; ji_fork : bytes; ji_kind : jkind }.

Definition is_last (k : jkind) : bool := match k with KMain | KJoin => true | _ => false end.
Definition is_first (k : jkind) : bool := match k with KMain | KSplit => true | _ => false end.

Definition job_deps (nd : list (bytes * dset)) (jobs : list jobinfo) (j : bytes) : list bytes :=
  match filter (fun x => bytes_eqb (ji_id x) j) jobs with
  | [] => []
  | me :: _ =>
      let same_fork := filter (fun x => bytes_eqb (ji_path x) (ji_path me)
                                        && bytes_eqb (ji_fork x) (ji_fork me)) jobs in
      let upstream :=
        if is_first (ji_kind me) then
          let ds := lookup_d (ji_path me) nd [] in
          map ji_id (filter (fun x => is_last (ji_kind x) && existsb (bytes_eqb (ji_path x)) ds) jobs)
        else [] in
      match ji_kind me with
      | KMain | KSplit => upstream
      | KChunk => map ji_id (filter (fun x => match ji_kind x with KSplit => true | _ => false end) same_fork)
      | KJoin => map ji_id (filter (fun x => match ji_kind x with KSplit | KChunk => true | _ => false end) same_fork)
      end
  end.
