(* Source-level dependencies of a program: for every stage call (by call
   path) the stage calls whose outputs it consumes - as argument data, as its
   disabling condition (its own or an enclosing call's), or as the collection
   it is mapped over - through pipeline inputs and return bindings. *)
From Martian Require Import Lib.Bytes Json.Json Mro.Sem Mro.Obs.

Definition dset := list bytes.        (* joined stage-call paths *)

Fixpoint dedup (l : dset) : dset :=
  match l with
  | [] => []
  | x :: r => if existsb (bytes_eqb x) r then dedup r else x :: dedup r
  end.

Definition lookup_d {A} (k : bytes) (l : list (bytes * A)) (d : A) : A :=
  match assoc_get k l with Some v => v | None => d end.

(* What a value depends on, keeping the structure of literals so that a
   projection selects the dependencies of the projected part only (the
   compiler resolves references through struct/array/map literals and
   pipeline boundaries statically; demanding more than that would make the
   relation stricter than what a job really consumes). *)
Inductive rexp :=
| RLeaf (d : dset)
| RArr (l : list rexp)
| RObj (kvs : list (bytes * rexp))     (* struct or typed-map literal *)
| REach (r : rexp)                     (* results of a mapped call, per fork *)
| RWith (d : dset) (r : rexp)          (* r, and additionally d whatever is projected *)
| RAny (l : list rexp).                (* one of these (an element of a split literal) *)

Fixpoint rproj (r : rexp) (k : bytes) : rexp :=
  match r with
  | RLeaf d => RLeaf d
  | RArr l => RArr (map (fun x => rproj x k) l)
  | RObj kvs =>
      match (fix find (l : list (bytes * rexp)) : option rexp :=
               match l with
               | [] => None
               | kv :: t => if bytes_eqb k (fst kv) then Some (snd kv) else find t
               end) kvs with
      | Some v => v                                   (* struct field *)
      | None => RObj (map (fun kv => (fst kv, rproj (snd kv) k)) kvs)   (* through a typed map *)
      end
  | REach r' => REach (rproj r' k)
  | RWith d r' => RWith d (rproj r' k)
  | RAny l => RAny (map (fun x => rproj x k) l)
  end.

Fixpoint rflat (r : rexp) : dset :=
  match r with
  | RLeaf d => d
  | RArr l => List.concat (map rflat l)
  | RObj kvs => List.concat (map (fun kv => rflat (snd kv)) kvs)
  | REach r' => rflat r'
  | RWith d r' => d ++ rflat r'
  | RAny l => List.concat (map rflat l)
  end.

(* what one element of a collection depends on (the argument of a mapped call) *)
Fixpoint relem (r : rexp) : rexp :=
  match r with
  | RArr l => RAny l
  | RObj kvs => RAny (map snd kvs)
  | REach r' => r'
  | RWith d r' => RWith d (relem r')
  | _ => r
  end.

Definition rpath (r : rexp) (path : list bytes) : rexp := fold_left rproj path r.

Fixpoint exp_r (self : list (bytes * rexp)) (calls : list (bytes * list (bytes * rexp)))
  (e : exp) : rexp :=
  match e with
  | ELit _ => RLeaf []
  | EArr l => RArr (map (exp_r self calls) l)
  | EObj kvs => RObj (map (fun kv => (fst kv, exp_r self calls (snd kv))) kvs)
  | ERef (RSelf n) path => rpath (lookup_d n self (RLeaf [])) path
  | ERef (RCall id (Some o)) path => rpath (lookup_d o (lookup_d id calls []) (RLeaf [])) path
  | ERef (RCall id None) path => rpath (RObj (lookup_d id calls [])) path
  end.

Definition exp_deps self calls e : dset := rflat (exp_r self calls e).

(* Conversion to a declared type drops undeclared struct fields (statically,
   for literals): what is dropped is not depended upon. *)
Fixpoint rprune (ss : structs) (fuel : nat) (t : ty) (r : rexp) : rexp :=
  match fuel with
  | O => r
  | S f =>
      match r with
      | RWith d r' => RWith d (rprune ss f t r')
      | RAny l => RAny (map (rprune ss f t) l)
      | _ =>
          match t with
          | TStruct n =>
              match r, assoc_get n ss with
              | RObj kvs, Some fs =>
                  RObj (List.concat (map (fun ft : bytes * ty =>
                                            match assoc_get (fst ft) kvs with
                                            | Some x => [(fst ft, rprune ss f (snd ft) x)]
                                            | None => []
                                            end) fs))
              | _, _ => r
              end
          | TArr t' =>
              match r with
              | RArr l => RArr (map (rprune ss f t') l)
              | REach x => REach (rprune ss f t' x)
              | _ => r
              end
          | TMap t' =>
              match r with
              | RObj kvs => RObj (map (fun kv => (fst kv, rprune ss f t' (snd kv))) kvs)
              | REach x => REach (rprune ss f t' x)
              | _ => r
              end
          | _ => r
          end
      end
  end.

Section Deps.
  Variable P : program.
  Let ss : structs :=
    pr_structs P ++ map (fun nc => (fst nc, callable_outs (snd nc))) (pr_callables P).
  Definition prune_fields (fs : fields) (ins : list (bytes * rexp)) : list (bytes * rexp) :=
    map (fun i => (fst i, match assoc_get (fst i) fs with
                          | Some t => rprune ss fuel_default t (snd i)
                          | None => snd i
                          end)) ins.

  (* returns (what each output depends on, list of (stage call, its dependencies)) *)
  Fixpoint deps_callable (fuel : nat) (name : bytes) (path : list bytes)
    (ins : list (bytes * rexp)) (ctl : dset) : list (bytes * rexp) * list (bytes * dset) :=
    match fuel with
    | O => ([], [])
    | S f =>
        match assoc_get name (pr_callables P) with
        | None => ([], [])
        | Some (CStage s) =>
            let me := join_path path in
            let ins := prune_fields (st_ins s) ins in
            (map (fun o => (fst o, RLeaf [me])) (st_outs s),
             [(me, dedup (ctl ++ List.concat (map (fun i => rflat (snd i)) ins)))])
        | Some (CPipe p) =>
            let ins := prune_fields (p_ins p) ins in
            (* the preflight calls of this pipeline: every other call of the
               pipeline, and everything nested in it (preflight calls of
               sub-pipelines included), waits for them *)
            let pfl := map (fun c => join_path (path ++ [c_id c])) (filter c_preflight (p_calls p)) in
            let step (acc : list (bytes * list (bytes * rexp)) * list (bytes * dset)) (c : call) :=
              let (calls, entries) := acc in
              let cdis := match c_disabled c with
                          | Some e => exp_deps ins calls e
                          | None => []
                          end in
              let binds := map (fun b : bytes * (bool * exp) =>
                                  let r := exp_r ins calls (snd (snd b)) in
                                  (* a split argument delivers one element *)
                                  (fst b, if fst (snd b) then relem r else r)) (c_binds c) in
              (* the number of results of a mapped call is known only when the
                 collection it maps over is: a reference must be resolved first
                 (a literal collection has a static size; its elements matter
                 only to the callee parameters they are bound to) *)
              let sdeps := List.concat (map (fun b : bytes * (bool * exp) =>
                                               match snd b with
                                               | (true, ERef _ _ as e) => exp_deps ins calls e
                                               | _ => []
                                               end) (c_binds c)) in
              let r := deps_callable f (c_callee c) (path ++ [c_id c]) binds
                         (ctl ++ cdis ++ (if c_preflight c then [] else pfl)) in
              (* a call that carries a disabling condition may turn out
                 disabled, and then its results (null) are known without the
                 size of the collection: only for a call without one is the
                 collection a lower bound on what its consumers wait for *)
              let sdeps_c := match c_disabled c with Some _ => [] | None => sdeps end in
              let wrap (x : rexp) : rexp :=
                RWith (dedup (cdis ++ sdeps_c)) (match c_mapped c with Some _ => REach x | None => x end) in
              (calls ++ [(c_id c, map (fun od : bytes * rexp => (fst od, wrap (snd od))) (fst r))],
               entries ++ snd r) in
            let (calls, entries) := fold_left step (p_calls p) ([], []) in
            (map (fun o => (fst o,
                            match assoc_get (fst o) (p_ret p) with
                            | Some e => rprune ss fuel_default (snd o) (exp_r ins calls e)
                            | None => RLeaf []
                            end)) (p_outs p),
             entries)
        end
    end.

  Definition deps_program (fuel : nat) : list (bytes * dset) :=
    let c := pr_top P in
    snd (deps_callable fuel (c_callee c) [c_id c] (map (fun b => (fst b, RLeaf [])) (c_binds c)) []).
End Deps.

(* ---- job-level dependencies for trace acceptance ---- *)

Inductive jkind := KMain | KSplit | KChunk | KJoin.
Record jobinfo := { ji_id : bytes; ji_path : bytes; ji_fork : bytes; ji_kind : jkind }.

Definition is_last (k : jkind) : bool := match k with KMain | KJoin => true | _ => false end.
Definition is_first (k : jkind) : bool := match k with KMain | KSplit => true | _ => false end.

Definition job_deps (nd : list (bytes * dset)) (jobs : list jobinfo) (j : bytes) : list bytes :=
  match filter (fun x => bytes_eqb (ji_id x) j) jobs with
  | [] => []
  | me :: _ =>
      let same_fork := filter (fun x => bytes_eqb (ji_path x) (ji_path me)
                                        && bytes_eqb (ji_fork x) (ji_fork me)) jobs in
      let upstream :=
        if is_first (ji_kind me) then
          let ds := lookup_d (ji_path me) nd [] in
          map ji_id (filter (fun x => is_last (ji_kind x) && existsb (bytes_eqb (ji_path x)) ds) jobs)
        else [] in
      match ji_kind me with
      | KMain | KSplit => upstream
      | KChunk => map ji_id (filter (fun x => match ji_kind x with KSplit => true | _ => false end) same_fork)
      | KJoin => map ji_id (filter (fun x => match ji_kind x with KSplit | KChunk => true | _ => false end) same_fork)
      end
  end.
