(* Trace acceptance: an observed history of a real mrp run (job starts and
   completions as recorded by the stage processes, resets inserted by the
   driver at mrp restarts) is replayed through Mro/Sched.v with the job-level
   dependencies derived from the program (Mro/Deps.v). *)
From Martian Require Import Lib.Bytes Json.Json Mro.Sem Mro.Obs Mro.Deps Mro.Sched.

Definition ev := event bytes.

Record trace_verdict := {
  tv_valid : bool;                 (* every event was enabled *)
  tv_first_bad : option nat;       (* index of the first event that was not *)
  tv_once : bool;                  (* every job started exactly once *)
  tv_all_done : bool;              (* every job that ever started ended done *)
}.

Definition trace_deps (P : program) (jobs : list jobinfo) : bytes -> list bytes :=
  job_deps (deps_program P fuel_default) jobs.

Definition check_trace (P : program) (jobs : list jobinfo) (evs : list ev) : trace_verdict :=
  let d := trace_deps P jobs in
  {| tv_valid := valid_trace bytes bytes_eqb d evs;
     tv_first_bad := first_bad bytes bytes_eqb d [] evs 0;
     tv_once := forallb (fun j => Nat.eqb (count_starts bytes bytes_eqb (ji_id j) evs) 1) jobs;
     tv_all_done :=
       match run bytes bytes_eqb d [] evs with
       | Some s => forallb (fun j => is_done bytes bytes_eqb s (ji_id j)) jobs
       | None => false
       end |}.
