(* Comparison of what a real mrp run was observed to do with Sem.eval_program:
   observations are (call path, phase, what the stage process read) and the
   final top-level outs.  Used by the C01/C03 correspondence (cases.v). *)
From Martian Require Import Lib.Bytes Json.Json Json.Enc Mro.Sem Mro.StageSpec.

Definition norm (j : json) : json := nullify (json_canon j).

(* decimal rendering of small naturals *)
Definition digit (n : nat) : byte := n2b (48 + N.of_nat n).
Fixpoint dec_fuel (fuel n : nat) (acc : bytes) : bytes :=
  match fuel with
  | O => acc
  | S f => let acc' := digit (Nat.modulo n 10) :: acc in
           if Nat.ltb n 10 then acc' else dec_fuel f (Nat.div n 10) acc'
  end.
Definition dec (n : nat) : bytes := dec_fuel (S n) n [].

Definition phase_name (p : phase) : bytes :=
  match p with
  | PhMain => [x6d; x61; x69; x6e]
  | PhSplit => [x73; x70; x6c; x69; x74]
  | PhJoin => [x6a; x6f; x69; x6e]
  | PhChunk i => [x63; x68; x75; x6e; x6b] ++ dec i
  end.

Fixpoint join_path (p : list bytes) : bytes :=
  match p with
  | [] => []
  | [x] => x
  | x :: r => x ++ x2e :: join_path r
  end.

Definition obs := (bytes * bytes * json)%type.   (* path, phase, args *)

Definition inv_obs (i : inv) : obs :=
  (join_path (i_path i), phase_name (i_phase i), norm (i_args i)).

Definition obs_eqb (a b : obs) : bool :=
  bytes_eqb (fst (fst a)) (fst (fst b)) && bytes_eqb (snd (fst a)) (snd (fst b))
  && json_eqb (snd a) (snd b).

Definition obs_mem (x : obs) (l : list obs) : bool := existsb (obs_eqb x) l.
Definition obs_count (x : obs) (l : list obs) : nat := List.length (filter (obs_eqb x) l).

(* The runtime forks a stage only over the mapped-call dimensions its own
   arguments depend on, so several source-level invocations with identical
   arguments may be served by one job.  The comparison is therefore:
   every invocation of the semantics was executed (as a set), nothing else
   was executed, and nothing was executed more often than the semantics has it. *)
Definition ms_diff (model seen : list obs) : list obs * list obs :=
  (filter (fun x => negb (obs_mem x seen)) model,
   filter (fun x => negb (obs_mem x model) || Nat.ltb (obs_count x model) (obs_count x seen)) seen).

Record verdict := {
  v_missing : list obs;     (* the semantics has them, the run did not *)
  v_extra : list obs;       (* the run executed them, the semantics has not *)
  v_outs_ok : bool;
  v_model_outs : json;
}.

Definition fuel_default : nat := 40.

Definition check_run_pol (pol : list bytes -> bool) (P : program) (sp : spec)
    (seen : list obs) (outs : option json) : verdict :=
  let r := eval_program P (spec_oracle_pol pol sp) fuel_default fuel_default in
  let model := map inv_obs (snd r) in
  let seen' := map (fun o => (fst o, norm (snd o))) seen in
  let (m, e) := ms_diff model seen' in
  {| v_missing := m; v_extra := e;
     v_outs_ok := match outs with
                  | Some o => json_eqb (norm (fst r)) (norm o)
                  | None => false
                  end;
     v_model_outs := norm (fst r) |}.

Definition run_ok (v : verdict) : bool :=
  match v_missing v, v_extra v with
  | [], [] => v_outs_ok v
  | _, _ => false
  end.

(* The latitude for disabled mapped calls (Sem.o_nulls) is resolved per call:
   the run is accepted when some assignment, to the calls of the program that
   are mapped and carry a disabled modifier, of [null] or [collection of
   nulls] makes the semantics equal to what was observed. *)
Fixpoint dm_paths (fuel : nat) (P : program) (path : list bytes) (c : call) : list (list bytes) :=
  match fuel with
  | O => []
  | S f =>
      let here := path ++ [c_id c] in
      (match c_mapped c, c_disabled c with Some _, Some _ => [here] | _, _ => [] end) ++
      match assoc_get (c_callee c) (pr_callables P) with
      | Some (CPipe p) => flat_map (dm_paths f P here) (p_calls p)
      | _ => []
      end
  end.

Fixpoint path_eqb (a b : list bytes) : bool :=
  match a, b with
  | [], [] => true
  | x :: a', y :: b' => bytes_eqb x y && path_eqb a' b'
  | _, _ => false
  end.

Fixpoint subsets {A : Type} (l : list A) : list (list A) :=
  match l with
  | [] => [[]]
  | x :: r => let s := subsets r in s ++ map (cons x) s
  end.

Definition policies (cands : list (list bytes)) : list (list (list bytes)) :=
  if Nat.leb (List.length cands) 6 then subsets cands
  else [] :: cands :: map (fun c => [c]) cands.

Definition pol_of (chosen : list (list bytes)) (p : list bytes) : bool :=
  existsb (path_eqb p) chosen.

Definition check_run (P : program) (sp : spec) (seen : list obs) (outs : option json) : verdict :=
  let v0 := check_run_pol (fun _ => false) P sp seen outs in
  if run_ok v0 then v0
  else
    match filter run_ok
            (map (fun ch => check_run_pol (pol_of ch) P sp seen outs)
                 (policies (dm_paths fuel_default P [] (pr_top P)))) with
    | v :: _ => v
    | [] => v0
    end.
