(* Source-level dataflow semantics of (core) MRO: what every stage invocation
   receives and what the top-level pipeline returns, as a function of the
   program, the top-level arguments and a stage oracle.  No schedule appears
   anywhere in it: the runtime must realise this function under every order
   of job completion (C01), run exactly these jobs (C03), and the typing
   judgement is about these values (C07).

   The program representation is the harness generator's own (it prints the
   same program as MRO text for the real compiler); see harness/internal/pgen. *)
From Martian Require Import Lib.Bytes Json.Json.

Inductive ty :=
| TInt | TFloat | TBool | TStr | TFile   (* TFile: any file type / path *)
| TMapU                                  (* untyped map *)
| TStruct (name : bytes)
| TArr (t : ty)
| TMap (t : ty).

Definition fields := list (bytes * ty).
Definition structs := list (bytes * fields).

Inductive refsrc :=
| RSelf (name : bytes)                   (* self.name *)
| RCall (id : bytes) (out : option bytes). (* CALL.out, or CALL (all outputs) *)

Inductive exp :=
| ELit (j : json)                        (* null / number / string / bool *)
| EArr (l : list exp)
| EObj (kvs : list (bytes * exp))        (* typed-map or struct literal *)
| ERef (src : refsrc) (path : list bytes).

Inductive mapkind := MArr | MMap.

Record call := {
  c_id : bytes;                          (* alias or callable name *)
  c_callee : bytes;
  c_mapped : option mapkind;             (* map call over arrays / typed maps *)
  c_binds : list (bytes * (bool * exp)); (* param, (split?, expression) *)
  c_disabled : option exp;               (* a reference of type bool *)
  c_preflight : bool;                    (* using (preflight = true) *)
}.

Record stage := {
  st_ins : fields;
  st_outs : fields;
  st_split : option (fields * fields);   (* chunk ins, chunk outs *)
}.

Record pipeline := {
  p_ins : fields;
  p_outs : fields;
  p_calls : list call;
  p_ret : list (bytes * exp);
}.

Inductive callable := CStage (s : stage) | CPipe (p : pipeline).

Record program := {
  pr_structs : structs;
  pr_callables : list (bytes * callable);
  pr_top : call;                         (* the top-level call (bindings are literals) *)
}.

(* The stage oracle: arbitrary functions.  Theorems quantify over all of them. *)
Record oracle := {
  o_main : bytes -> json -> json;
  o_split : bytes -> json -> list json;                (* chunk definitions *)
  o_chunk : bytes -> json -> json;                     (* merged args -> chunk outs *)
  o_join : bytes -> json -> list json -> list json -> json;
  (* The latitude of the property for disabled mapped calls: does the
     disabled mapped call at this path appear as a collection of nulls (one
     per element it would have ranged over) rather than as null.  Not a
     stage behaviour, but resolved by the environment in the same way. *)
  o_nulls : list bytes -> bool;
}.

(* A job the runtime must execute: call path from the top, phase, what the
   stage process reads. *)
Inductive phase := PhMain | PhSplit | PhChunk (i : nat) | PhJoin.
Record inv := { i_path : list bytes; i_phase : phase; i_args : json }.

Definition bs_args : bytes := [x61; x72; x67; x73].        (* args *)
Definition bs_defs : bytes := [x63; x68; x75; x6e; x6b; x5f; x64; x65; x66; x73].  (* chunk_defs *)
Definition bs_outs : bytes := [x63; x68; x75; x6e; x6b; x5f; x6f; x75; x74; x73].  (* chunk_outs *)

(* ---------------------------------------------------------------- values *)

Definition obj_get (k : bytes) (j : json) : json :=
  match j with
  | JObj kvs => match assoc_get k kvs with Some v => v | None => JNull end
  | _ => JNull
  end.

Definition callable_outs (c : callable) : fields :=
  match c with CStage s => st_outs s | CPipe p => p_outs p end.
Definition callable_ins (c : callable) : fields :=
  match c with CStage s => st_ins s | CPipe p => p_ins p end.

Section WithStructs.
  Variable ss : structs.

  (* type-directed projection of one field name: through arrays and typed
     maps elementwise, into structs by field.  Returns the projected value
     and its type. *)
  Fixpoint proj_field (fuel : nat) (t : ty) (v : json) (k : bytes) : json * ty :=
    match fuel with
    | O => (JNull, TMapU)
    | S f =>
        match t with
        | TArr t' =>
            match v with
            | JArr l => (JArr (map (fun x => fst (proj_field f t' x k)) l),
                         TArr (snd (proj_field f t' JNull k)))
            | _ => (JNull, TArr (snd (proj_field f t' JNull k)))
            end
        | TMap t' =>
            match v with
            | JObj kvs => (JObj (map (fun kv => (fst kv, fst (proj_field f t' (snd kv) k))) kvs),
                           TMap (snd (proj_field f t' JNull k)))
            | _ => (JNull, TMap (snd (proj_field f t' JNull k)))
            end
        | TStruct n =>
            match assoc_get n ss with
            | Some fs =>
                match assoc_get k fs with
                | Some ft => (obj_get k v, ft)
                | None => (JNull, TMapU)
                end
            | None => (JNull, TMapU)
            end
        | _ => (JNull, TMapU)
        end
    end.

  Fixpoint proj_path (fuel : nat) (t : ty) (v : json) (path : list bytes) : json * ty :=
    match path with
    | [] => (v, t)
    | k :: r => let (v', t') := proj_field fuel t v k in proj_path fuel t' v' r
    end.

  (* conversion of a value to a declared type: undeclared struct fields are
     dropped, missing ones are null; collections elementwise. *)
  Fixpoint coerce (fuel : nat) (t : ty) (v : json) : json :=
    match fuel with
    | O => v
    | S f =>
        match t, v with
        | TArr t', JArr l => JArr (map (coerce f t') l)
        | TMap t', JObj kvs => JObj (map (fun kv => (fst kv, coerce f t' (snd kv))) kvs)
        | TStruct n, JObj _ =>
            match assoc_get n ss with
            | Some fs => JObj (map (fun ft => (fst ft, coerce f (snd ft) (obj_get (fst ft) v))) fs)
            | None => v
            end
        | _, _ => v
        end
    end.

  Definition coerce_fields (fuel : nat) (fs : fields) (v : json) : json :=
    JObj (map (fun ft => (fst ft, coerce fuel (snd ft) (obj_get (fst ft) v))) fs).
End WithStructs.

(* The latitude the property grants: a disabled or empty mapped call may
   appear as null, an empty collection or a collection of nulls.  Both sides
   are normalised by collapsing collections that contain nothing but nulls. *)
Fixpoint nullify (j : json) : json :=
  match j with
  | JArr l =>
      let l' := map nullify l in
      if forallb is_null l' then JNull else JArr l'
  | JObj kvs =>
      let kvs' := map (fun kv => (fst kv, nullify (snd kv))) kvs in
      if forallb (fun kv => is_null (snd kv)) kvs' then JNull else JObj kvs'
  | _ => j
  end.

(* ---------------------------------------------------------------- evaluation *)

(* Environment of a pipeline body: its own arguments (with the declared
   types) and the result of every earlier call: value and type of the struct
   of its outputs (wrapped in the map-call dimension for a mapped call). *)
Record env := {
  e_self : json; e_self_t : fields;
  e_calls : list (bytes * (json * ty));
}.

Definition out_struct_name (callee : bytes) : bytes := callee.

Section Eval.
  Variable P : program.
  Variable Orc : oracle.
  Let ss : structs :=
    (* every callable's outputs are also available as a struct type named
       after the callable (MRO: a call can be referenced as a whole) *)
    pr_structs P ++ map (fun nc => (fst nc, callable_outs (snd nc))) (pr_callables P).
  Variable pf : nat.   (* fuel for type-directed traversals (>= type depth) *)

  Fixpoint eval_exp (E : env) (e : exp) : json :=
    match e with
    | ELit j => j
    | EArr l => JArr (map (eval_exp E) l)
    | EObj kvs => JObj (map (fun kv => (fst kv, eval_exp E (snd kv))) kvs)
    | ERef (RSelf n) path =>
        match assoc_get n (e_self_t E) with
        | Some t => fst (proj_path ss pf t (obj_get n (e_self E)) path)
        | None => JNull
        end
    | ERef (RCall id o) path =>
        match assoc_get id (e_calls E) with
        | Some (v, t) =>
            fst (proj_path ss pf t v (match o with Some k => k :: path | None => path end))
        | None => JNull
        end
    end.

  Definition merge_obj (a b : json) : json :=
    match a, b with
    | JObj x, JObj y => JObj (x ++ y)
    | _, _ => a
    end.

  Definition eval_stage (name : bytes) (s : stage) (path : list bytes) (args : json)
    : json * list inv :=
    match st_split s with
    | None =>
        (o_main Orc name args, [{| i_path := path; i_phase := PhMain; i_args := args |}])
    | Some (cins, couts) =>
        let defs := o_split Orc name args in
        let merged := map (merge_obj args) defs in
        let couts := map (o_chunk Orc name) merged in
        let jargs := JObj [(bs_args, args); (bs_defs, JArr defs); (bs_outs, JArr couts)] in
        (o_join Orc name args defs couts,
         {| i_path := path; i_phase := PhSplit; i_args := args |}
         :: map (fun im => {| i_path := path; i_phase := PhChunk (fst im); i_args := snd im |})
                (combine (seq 0 (length merged)) merged)
         ++ [{| i_path := path; i_phase := PhJoin; i_args := jargs |}])
    end.

  (* elements of the collection a mapped call ranges over: (key, element) *)
  Definition split_elems (k : mapkind) (v : json) : list (json * json) :=
    match k, v with
    | MArr, JArr l => map (fun x => (JNull, x)) l
    | MMap, JObj kvs => map (fun kv => (JStr (fst kv), snd kv)) kvs
    | _, _ => []
    end.

  (* the i-th element/key of every split argument, the unsplit ones unchanged *)
  Definition fork_args (k : mapkind) (vals : list (bytes * (bool * json))) (i : nat) (key : json)
    : list (bytes * json) :=
    map (fun b : bytes * (bool * json) =>
           let n := fst b in let sp := fst (snd b) in let v := snd (snd b) in
           (n, if sp then
                 match k, v, key with
                 | MArr, JArr l, _ => nth i l JNull
                 | MMap, JObj kvs, JStr s => match assoc_get s kvs with Some x => x | None => JNull end
                 | _, _, _ => JNull
                 end
               else v)) vals.

  Definition first_split (vals : list (bytes * (bool * json))) : json :=
    match filter (fun b => fst (snd b)) vals with
    | (_, (_, v)) :: _ => v
    | [] => JNull
    end.

  Definition collect (k : mapkind) (keys : list (json * json)) (outs : list json) : json :=
    match k with
    | MArr => JArr outs
    | MMap => JObj (map (fun ko => (match fst (fst ko) with JStr s => s | _ => [] end, snd ko))
                        (combine keys outs))
    end.

  Fixpoint eval_callable (fuel : nat) (name : bytes) (path : list bytes) (args : json)
    : json * list inv :=
    match fuel with
    | O => (JNull, [])
    | S f =>
        match assoc_get name (pr_callables P) with
        | None => (JNull, [])
        | Some (CStage s) => eval_stage name s path (coerce_fields ss pf (st_ins s) args)
        | Some (CPipe p) =>
            let self := coerce_fields ss pf (p_ins p) args in
            let step (acc : env * list inv) (c : call) : env * list inv :=
              let (E, invs) := acc in
              let r := eval_call f E path c in
              ({| e_self := e_self E; e_self_t := e_self_t E;
                  e_calls := e_calls E ++ [(c_id c, fst r)] |}, invs ++ snd r) in
            let (E, invs) := fold_left step (p_calls p)
                               ({| e_self := self; e_self_t := p_ins p; e_calls := [] |}, []) in
            (JObj (map (fun ot =>
                          (fst ot, coerce ss pf (snd ot)
                                     (match assoc_get (fst ot) (p_ret p) with
                                      | Some e => eval_exp E e
                                      | None => JNull
                                      end))) (p_outs p)),
             invs)
        end
    end
  with eval_call (fuel : nat) (E : env) (path : list bytes) (c : call)
    : (json * ty) * list inv :=
    match fuel with
    | O => ((JNull, TMapU), [])
    | S f =>
    let out_t := TStruct (c_callee c) in
    let res_t := match c_mapped c with
                 | None => out_t | Some MArr => TArr out_t | Some MMap => TMap out_t end in
    let disabled := match c_disabled c with
                    | Some e => match eval_exp E e with JBool true => true | _ => false end
                    | None => false
                    end in
    let vals := map (fun b => (fst b, (fst (snd b), eval_exp E (snd (snd b))))) (c_binds c) in
    if disabled then
      match c_mapped c with
      | Some k =>
          if o_nulls Orc (path ++ [c_id c]) then
            let elems := split_elems k (first_split vals) in
            ((collect k elems (map (fun _ => JNull) elems), res_t), [])
          else ((JNull, res_t), [])
      | None => ((JNull, res_t), [])
      end
    else
      match c_mapped c with
      | None =>
          let r := eval_callable f (c_callee c) (path ++ [c_id c])
                     (JObj (map (fun b => (fst b, snd (snd b))) vals)) in
          ((fst r, res_t), snd r)
      | Some k =>
          let elems := split_elems k (first_split vals) in
          let rs := map (fun ie =>
                           eval_callable f (c_callee c) (path ++ [c_id c])
                             (JObj (fork_args k vals (fst ie) (fst (snd ie)))))
                        (combine (seq 0 (length elems)) elems) in
          ((collect k elems (map fst rs), res_t), List.concat (map snd rs))
      end
    end.

  Definition eval_program (fuel : nat) : json * list inv :=
    let E0 := {| e_self := JObj []; e_self_t := []; e_calls := [] |} in
    let r := eval_call fuel E0 [] (pr_top P) in
    (fst (fst r), snd r).
End Eval.
