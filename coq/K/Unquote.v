(* Model of martian/syntax/string_intern.go unquoteBytes (with parseHexByte /
   unhex of parsenum.go).  None is a panic (explicit, index out of range, or
   unhex on a non-hex byte).  No proofs here. *)
From Martian Require Import Lib.Bytes Lib.Utf8.
Local Open Scope N_scope.

Definition c_dquote : byte := n2b 34.
Definition c_backslash : byte := n2b 92.

Definition is_octal (b : byte) : bool := (48 <=? b2n b) && (b2n b <=? 55).

(* unhex of parsenum.go *)
Definition unhex_digit (c : byte) : option N :=
  let n := b2n c in
  if (48 <=? n) && (n <=? 57) then Some (n - 48)
  else if (97 <=? n) && (n <=? 102) then Some (n - 97 + 10)
  else if (65 <=? n) && (n <=? 70) then Some (n - 65 + 10)
  else None.

(* parseHexByte: (unhex(c0) << 4) + unhex(c1) *)
Definition hex_byte (c0 c1 : byte) : option N :=
  match unhex_digit c0, unhex_digit c1 with
  | Some a, Some b => Some (a * 16 + b)
  | _, _ => None
  end.

Definition rune_error : bytes := [n2b 239; n2b 191; n2b 189].

Definition opt_cons (b : byte) (o : option bytes) : option bytes :=
  match o with Some l => Some (b :: l) | None => None end.
Definition opt_app (p : bytes) (o : option bytes) : option bytes :=
  match o with Some l => Some (p ++ l) | None => None end.

(* The loop of unquoteBytes over the text between the quotes.  A byte >= 0x80
   is copied (the code copies the whole rune at once, which appends the same
   bytes). *)
Fixpoint unquote_loop (s : bytes) : option bytes :=
  match s with
  | [] => Some []
  | c :: r =>
      if 128 <=? b2n c then opt_cons c (unquote_loop r)
      else if negb (beq c c_backslash) then opt_cons c (unquote_loop r)
      else
        match r with
        | [] => None                                  (* value[1]: index out of range *)
        | c2 :: v =>
            let n2 := b2n c2 in
            if n2 =? 97 then opt_cons (n2b 7) (unquote_loop v)          (* \a *)
            else if n2 =? 98 then opt_cons (n2b 8) (unquote_loop v)     (* \b *)
            else if n2 =? 102 then opt_cons (n2b 12) (unquote_loop v)   (* \f *)
            else if n2 =? 110 then opt_cons (n2b 10) (unquote_loop v)   (* \n *)
            else if n2 =? 114 then opt_cons (n2b 13) (unquote_loop v)   (* \r *)
            else if n2 =? 116 then opt_cons (n2b 9) (unquote_loop v)    (* \t *)
            else if n2 =? 118 then opt_cons (n2b 11) (unquote_loop v)   (* \v *)
            else if n2 =? 120 then                                       (* \x *)
              match v with
              | h0 :: h1 :: v' =>
                  match hex_byte h0 h1 with
                  | Some x => opt_cons (n2b x) (unquote_loop v')
                  | None => None
                  end
              | _ => None                             (* index out of range *)
              end
            else if n2 =? 117 then                                       (* \u *)
              match v with
              | h0 :: h1 :: h2 :: h3 :: v' =>
                  match hex_byte h2 h3, hex_byte h0 h1 with
                  | Some lo, Some hi => opt_app (utf8_encode (lo + hi * 256)) (unquote_loop v')
                  | _, _ => None
                  end
              | _ => Some rune_error                  (* len(value) < 4 *)
              end
            else if n2 =? 85 then                                        (* \U *)
              match v with
              | h0 :: h1 :: h2 :: h3 :: h4 :: h5 :: h6 :: h7 :: v' =>
                  match hex_byte h6 h7, hex_byte h4 h5, hex_byte h2 h3, hex_byte h0 h1 with
                  | Some b0, Some b1, Some b2, Some b3 =>
                      (* rune is an int32: a value with the top bit set is
                         negative, which EncodeRune turns into U+FFFD; so does
                         utf8_encode for anything above U+10FFFF *)
                      opt_app (utf8_encode (b0 + b1 * 256 + b2 * 65536 + b3 * 16777216))
                              (unquote_loop v')
                  | _, _, _, _ => None
                  end
              | _ => Some rune_error                  (* len(value) < 8 *)
              end
            else if is_octal c2 then                                     (* \ooo *)
              match v with
              | o1 :: o2 :: v' =>
                  if is_octal o1 && is_octal o2 then
                    (* byte arithmetic: ((c2-'0')<<6) wraps modulo 256 *)
                    opt_cons (n2b (((n2 - 48) * 64 + (b2n o1 - 48) * 8 + (b2n o2 - 48)) mod 256))
                             (unquote_loop v')
                  else Some rune_error
              | _ => None                             (* value[1]: index out of range *)
              end
            else opt_cons c2 (unquote_loop v)                            (* backslash, quote etc. *)
        end
  end.

Definition has_escape_or_quote (s : bytes) : bool :=
  existsb (fun c => beq c c_backslash || beq c c_dquote) s.

Definition unquote (value : bytes) : option bytes :=
  match value with
  | q :: rest =>
      match rev rest with
      | q2 :: rinner =>
          if beq q c_dquote && beq q2 c_dquote then
            let inner := rev rinner in
            if negb (has_escape_or_quote inner) then Some inner
            else unquote_loop inner
          else None
      | [] => None     (* n < 2 *)
      end
  | [] => None
  end.
