(* Model of martian/core/resource_semaphore.go (ResourceSemaphore).

   Every Go method holds self.mu for its whole body, so one method call is one
   atomic [step].  A blocked Acquire is an entry of [s_wait]; the closing of
   its channel is an [EGrantQ] event.  Amounts are int64 in Go and Z here
   (no overflow modelled: stated in the trusted base of the check). *)
From Coq Require Export List ZArith NArith Bool Lia.
Export ListNotations.
Local Open Scope Z_scope.

Record sem := mkSem {
  s_max : Z;                 (* maxSize *)
  s_cur : Z;                 (* curSize *)
  s_res : Z;                 (* reserved *)
  s_wait : list (N * Z)      (* waiters, oldest first: (request id, amount) *)
}.

Definition sem_init (size : Z) : sem := mkSem size size 0 [].

Inductive op :=
| Acquire (id : N) (n : Z)
| Release (n : Z)
| UpdateActual (n : Z)
| UpdateSize (n : Z)
| UpdateFreeUsed (free used : Z).

Inductive event :=
| EGrantNow (id : N) (n : Z)   (* Acquire returned nil on the fast path *)
| EEnqueue (id : N) (n : Z)    (* Acquire appended a waiter and blocks *)
| EError (id : N)              (* Acquire returned an error *)
| EGrantQ (id : N) (n : Z)     (* runJobs closed the channel of a waiter *)
| ERet (z : Z)                 (* return value of an Update method *)
| EPanic.                      (* Release panicked: bad release *)

(* runJobs: grant from the head while it fits. Returns the new reserved
   amount, the remaining queue and the grants in order. *)
Fixpoint run_jobs (cur res : Z) (ws : list (N * Z)) : Z * list (N * Z) * list event :=
  match ws with
  | [] => (res, [], [])
  | (id, a) :: tl =>
      if cur - res <? a then (res, ws, [])
      else
        let '(r, w, g) := run_jobs cur (res + a) tl in
        (r, w, EGrantQ id a :: g)
  end.

Definition with_run_jobs (mx cur res : Z) (ws : list (N * Z)) (ev : list event)
  : sem * list event :=
  let '(r, w, g) := run_jobs cur res ws in (mkSem mx cur r w, ev ++ g).

(* the tail common to the three Update methods: runJobs only if the size grew *)
Definition resize (s : sem) (newcur : Z) (ret : Z) : sem * list event :=
  if s_cur s <? newcur
  then with_run_jobs (s_max s) newcur (s_res s) (s_wait s) [ERet ret]
  else (mkSem (s_max s) newcur (s_res s) (s_wait s), [ERet ret]).

Definition is_nil {A} (l : list A) : bool := match l with [] => true | _ => false end.

Definition step (s : sem) (o : op) : sem * list event :=
  match o with
  | Acquire id n =>
      if (n <=? s_cur s - s_res s) && is_nil (s_wait s)
      then (mkSem (s_max s) (s_cur s) (s_res s + n) (s_wait s), [EGrantNow id n])
      else if s_max s <? n then (s, [EError id])
      else (mkSem (s_max s) (s_cur s) (s_res s) (s_wait s ++ [(id, n)]), [EEnqueue id n])
  | Release n =>
      let r := s_res s - n in
      if r <? 0 then (mkSem (s_max s) (s_cur s) r (s_wait s), [EPanic])
      else with_run_jobs (s_max s) (s_cur s) r (s_wait s) []
  | UpdateActual n =>
      let actual := n + s_res s in
      resize s (if s_max s <? actual then s_max s else actual) (actual - s_max s)
  | UpdateSize n =>
      if s_cur s <? n
      then with_run_jobs (s_max s) n (s_res s) (s_wait s) []
      else (mkSem (s_max s) n (s_res s) (s_wait s), [])
  | UpdateFreeUsed free used =>
      let actual := free + used in
      let newcur :=
        if used <=? s_res s then
          (if s_max s <? actual then s_max s else actual)
        else
          let adjust := used - s_res s in
          (if s_max s - adjust <? actual then s_max s - adjust else actual - adjust) in
      resize s newcur (actual - s_max s)
  end.

(* A whole history: the state after, and every event in order. *)
Fixpoint run (s : sem) (ops : list op) : sem * list event :=
  match ops with
  | [] => (s, [])
  | o :: tl =>
      let '(s1, e1) := step s o in
      let '(s2, e2) := run s1 tl in
      (s2, e1 ++ e2)
  end.

(* What Acquire would be if the decision to wait and the insertion into the
   queue were two critical sections (the mutex released in between): the
   second half alone.  Used only to show that the two halves must be one
   atomic step (Proofs/Semaphore.v, enqueue_must_be_atomic_lemma). *)
Definition enqueue_only (s : sem) (id : N) (n : Z) : sem :=
  mkSem (s_max s) (s_cur s) (s_res s) (s_wait s ++ [(id, n)]).

(* Read-only accessors of the Go type. *)
Definition in_use (s : sem) : Z := s_max s - s_cur s + s_res s.
Definition available (s : sem) : Z := s_cur s - s_res s.
Definition queue_length (s : sem) : Z := Z.of_nat (length (s_wait s)).

(* ------------------------------------------------------------------ *)
(* Projections of an event history used by the theorems. *)

Definition is_panic (e : event) : bool := match e with EPanic => true | _ => false end.

(* every request that was accepted (not refused with an error), in order *)
Fixpoint requests (ev : list event) : list (N * Z) :=
  match ev with
  | [] => []
  | EGrantNow id n :: tl => (id, n) :: requests tl
  | EEnqueue id n :: tl => (id, n) :: requests tl
  | _ :: tl => requests tl
  end.

(* every grant, in order *)
Fixpoint grants (ev : list event) : list (N * Z) :=
  match ev with
  | [] => []
  | EGrantNow id n :: tl => (id, n) :: grants tl
  | EGrantQ id n :: tl => (id, n) :: grants tl
  | _ :: tl => grants tl
  end.

(* ------------------------------------------------------------------ *)
(* A client that releases exactly what it was granted (what Enqueue in
   jobmanager_local.go does with its deferred Release calls).  [c_held] is
   ghost state: the amounts granted and not yet released, per request id. *)

Inductive cop :=
| CAcquire (id : N) (n : Z)
| CRelease (id : N)            (* release what request [id] holds; no-op if it holds nothing *)
| CUpdateActual (n : Z)
| CUpdateSize (n : Z)
| CUpdateFreeUsed (free used : Z)
| CRawRelease (n : Z).         (* undisciplined Release(n), only for the malformed stream *)

Record client := mkClient {
  c_sem : sem;
  c_held : list (N * Z);
  c_dead : bool                (* a Release panicked: the process is gone *)
}.

Definition client_init (size : Z) : client := mkClient (sem_init size) [] false.

Fixpoint remove_held (id : N) (h : list (N * Z)) : option (Z * list (N * Z)) :=
  match h with
  | [] => None
  | (i, a) :: tl =>
      if N.eqb i id then Some (a, tl)
      else match remove_held id tl with
           | Some (x, tl') => Some (x, (i, a) :: tl')
           | None => None
           end
  end.

Definition has_panic (ev : list event) : bool := existsb is_panic ev.

Definition cfinish (c : client) (r : sem * list event) (held : list (N * Z)) : client * list event :=
  let '(s, ev) := r in
  (mkClient s (held ++ grants ev) (has_panic ev), ev).

Definition cstep (c : client) (o : cop) : client * list event :=
  if c_dead c then (c, []) else
  match o with
  | CAcquire id n => cfinish c (step (c_sem c) (Acquire id n)) (c_held c)
  | CRelease id =>
      match remove_held id (c_held c) with
      | Some (a, h') => cfinish c (step (c_sem c) (Release a)) h'
      | None => (c, [])
      end
  | CUpdateActual n => cfinish c (step (c_sem c) (UpdateActual n)) (c_held c)
  | CUpdateSize n => cfinish c (step (c_sem c) (UpdateSize n)) (c_held c)
  | CUpdateFreeUsed f u => cfinish c (step (c_sem c) (UpdateFreeUsed f u)) (c_held c)
  | CRawRelease n => cfinish c (step (c_sem c) (Release n)) (c_held c)
  end.

Fixpoint crun (c : client) (ops : list cop) : client * list event :=
  match ops with
  | [] => (c, [])
  | o :: tl =>
      let '(c1, e1) := cstep c o in
      let '(c2, e2) := crun c1 tl in
      (c2, e1 ++ e2)
  end.

Definition sum_held (h : list (N * Z)) : Z := fold_right (fun p acc => snd p + acc) 0 h.

(* The observation compared with the implementation after every operation:
   events of the step and the five read-only accessors. *)
Record obs := mkObs {
  o_dead : bool;             (* the client was already dead: nothing happens *)
  o_events : list event;
  o_reserved : Z; o_cur : Z; o_avail : Z; o_inuse : Z; o_qlen : Z
}.

Fixpoint cobserve (c : client) (ops : list cop) : list obs :=
  match ops with
  | [] => []
  | o :: tl =>
      let '(c1, e1) := cstep c o in
      let s := c_sem c1 in
      mkObs (c_dead c) e1 (s_res s) (s_cur s) (available s) (in_use s) (queue_length s)
        :: cobserve c1 tl
  end.
