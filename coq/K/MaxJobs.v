(* Model of martian/core/maxjobs_semaphore.go (MaxJobsSemaphore) together with
   the state of the metadata objects it consults (Metadata.getState).

   Every pass of Acquire between two cond.Wait calls holds the lock, so it is
   one atomic step.  Blocked callers are kept in the order in which they
   called cond.Wait; cond.Signal wakes the oldest (what the Go runtime's
   notifyList does; sync.Cond does not promise it, and the safety theorem
   does not depend on it).  cond.Broadcast with several blocked callers lets
   them compete for the lock: the model serves them oldest first and flags the
   step with [MNondet] (the check stops comparing identities there). *)
From Coq Require Export List ZArith NArith Bool Lia.
Export ListNotations.
Local Open Scope Z_scope.

Inductive mstate := MWaiting | MQueued | MRunning | MComplete | MFailed | MDisabled.

(* st, ok := getState(); ok && st != Queued && st != Waiting  (Waiting has ok = false) *)
Definition refuses (st : mstate) : bool :=
  match st with MWaiting | MQueued => false | _ => true end.

(* FindDone: ok && st != Running && st != Queued *)
Definition finished (st : mstate) : bool :=
  match st with MWaiting | MQueued | MRunning => false | _ => true end.

Record mj := mkMj {
  mj_limit : Z;                       (* Limit *)
  mj_running : list N;                (* the running set (map keys) *)
  mj_states : list (N * mstate);      (* the world: state of every metadata object *)
  mj_blocked : list (N * bool)        (* callers parked in cond.Wait, oldest first; (metadata, always false = blocking) *)
}.

Definition mj_init (limit : Z) : mj := mkMj limit [] [] [].

Fixpoint state_of (md : N) (l : list (N * mstate)) : mstate :=
  match l with
  | [] => MWaiting
  | (k, s) :: tl => if N.eqb k md then s else state_of md tl
  end.

Fixpoint set_state (md : N) (s : mstate) (l : list (N * mstate)) : list (N * mstate) :=
  match l with
  | [] => [(md, s)]
  | (k, x) :: tl => if N.eqb k md then (k, s) :: tl else (k, x) :: set_state md s tl
  end.

Definition mem (md : N) (l : list N) : bool := existsb (N.eqb md) l.
Definition remove_md (md : N) (l : list N) : list N := filter (fun k => negb (N.eqb k md)) l.
Definition len (l : list N) : Z := Z.of_nat (length l).

Inductive mop :=
| MSet (md : N) (s : mstate)
| MAcquire (md : N) (nonblocking : bool)
| MRelease (md : N)
| MFindDone
| MClear.

Inductive mevent :=
| MRet (md : N) (r : bool)     (* an Acquire call returned r *)
| MBlock (md : N)              (* an Acquire call parked in cond.Wait *)
| MNondet.                     (* a Broadcast woke several callers *)

Inductive pass_result := PTrue | PFalse | PBlock.

(* one pass of the body of Acquire with the lock held *)
Definition pass (m : mj) (md : N) (nonblocking : bool) : mj * pass_result :=
  let st := state_of md (mj_states m) in
  if mj_limit m <=? len (mj_running m) then
    if mj_limit m <=? 0 then (m, PFalse)
    else if refuses st then (m, PFalse)
    else if mem md (mj_running m) then (m, PTrue)
    else if nonblocking then (m, PFalse)
    else (m, PBlock)
  else if refuses st then (m, PFalse)
  else if mem md (mj_running m)
       then (m, PTrue)   (* running[metadata] = struct{}{} on a key that is present *)
       else (mkMj (mj_limit m) (mj_running m ++ [md]) (mj_states m) (mj_blocked m), PTrue).

(* cond.Signal: wake the oldest parked caller; if its pass returns, its
   deferred Signal wakes the next one; if it parks again the chain ends. *)
Fixpoint signal (fuel : nat) (m : mj) : mj * list mevent :=
  match fuel with
  | O => (m, [])
  | S f =>
      match mj_blocked m with
      | [] => (m, [])
      | (md, nb) :: tl =>
          let m0 := mkMj (mj_limit m) (mj_running m) (mj_states m) tl in
          let '(m1, r) := pass m0 md nb in
          match r with
          | PBlock => (mkMj (mj_limit m1) (mj_running m1) (mj_states m1) (mj_blocked m1 ++ [(md, nb)]), [])
          | PTrue => let '(m2, ev) := signal f m1 in (m2, MRet md true :: ev)
          | PFalse => let '(m2, ev) := signal f m1 in (m2, MRet md false :: ev)
          end
      end
  end.

Definition do_signal (m : mj) : mj * list mevent := signal (S (length (mj_blocked m))) m.

(* cond.Broadcast: every parked caller runs one pass (oldest first in the
   model); those that return signal on their way out. *)
Fixpoint broadcast (woken : list (N * bool)) (m : mj) : mj * list mevent :=
  match woken with
  | [] => (m, [])
  | (md, nb) :: tl =>
      let '(m1, r) := pass m md nb in
      match r with
      | PBlock =>
          broadcast tl (mkMj (mj_limit m1) (mj_running m1) (mj_states m1) (mj_blocked m1 ++ [(md, nb)]))
      | PTrue => let '(m2, ev) := broadcast tl m1 in (m2, MRet md true :: ev)
      | PFalse => let '(m2, ev) := broadcast tl m1 in (m2, MRet md false :: ev)
      end
  end.

Definition do_broadcast (m : mj) : mj * list mevent :=
  let woken := mj_blocked m in
  let '(m1, ev) := broadcast woken (mkMj (mj_limit m) (mj_running m) (mj_states m) []) in
  (* the deferred Signals of the returning callers reach whoever parked again *)
  let '(m2, ev2) := if match ev with [] => true | _ => false end then (m1, []) else do_signal m1 in
  (m2, ev ++ ev2).

Definition mstep (m : mj) (o : mop) : mj * list mevent :=
  match o with
  | MSet md s => (mkMj (mj_limit m) (mj_running m) (set_state md s (mj_states m)) (mj_blocked m), [])
  | MAcquire md nb =>
      if refuses (state_of md (mj_states m)) then (m, [MRet md false])   (* before the deferred Signal is registered *)
      else
        let '(m1, r) := pass m md nb in
        match r with
        | PBlock => (mkMj (mj_limit m1) (mj_running m1) (mj_states m1) (mj_blocked m1 ++ [(md, nb)]), [MBlock md])
        | PTrue => let '(m2, ev) := do_signal m1 in (m2, MRet md true :: ev)
        | PFalse => let '(m2, ev) := do_signal m1 in (m2, MRet md false :: ev)
        end
  | MRelease md =>
      if mem md (mj_running m)
      then do_signal (mkMj (mj_limit m) (remove_md md (mj_running m)) (mj_states m) (mj_blocked m))
      else (m, [])
  | MFindDone =>
      let keep := filter (fun k => negb (finished (state_of k (mj_states m)))) (mj_running m) in
      if (length keep =? length (mj_running m))%nat then (m, [])
      else
        let m1 := mkMj (mj_limit m) keep (mj_states m) (mj_blocked m) in
        let spare := mj_limit m - len keep in
        if 1 <? spare then
          match mj_blocked m with
          | _ :: _ :: _ => let '(m2, ev) := do_broadcast m1 in (m2, MNondet :: ev)
          | _ => do_broadcast m1
          end
        else if spare =? 1 then do_signal m1
        else (m1, [])
  | MClear =>
      do_broadcast (mkMj 0 (mj_running m) (mj_states m) (mj_blocked m))
  end.

Fixpoint mrun (m : mj) (ops : list mop) : mj * list mevent :=
  match ops with
  | [] => (m, [])
  | o :: tl =>
      let '(m1, e1) := mstep m o in
      let '(m2, e2) := mrun m1 tl in
      (m2, e1 ++ e2)
  end.

(* per-op observation: events, Current(), number of parked callers *)
Fixpoint mobserve (m : mj) (ops : list mop) : list (list mevent * Z * Z) :=
  match ops with
  | [] => []
  | o :: tl =>
      let '(m1, e1) := mstep m o in
      (e1, len (mj_running m1), Z.of_nat (length (mj_blocked m1))) :: mobserve m1 tl
  end.
