(* C10 - models of every place where Martian turns an unordered collection
   (a Go map) into bytes, an ordered list, or a choice:

     syntax/format_exp.go       MapExp.format, ArrayExp.format, RefExp.format,
                                quoteString
     syntax/format_exp_json.go  MapExp/ArrayExp/... EncodeJSON,
                                ResolvedBindingMap.encodeJSON,
                                encodeMapSourceJson (MapExp case)
     core/argument_map.go       LazyArgumentMap.encodeJSON, MarshalerMap.encodeJSON
     core/fork.go               makeForkIdParts, ForkIdSet.MakeForkIds,
                                expandForkFromObj (key enumeration)
     syntax/resolve_stage.go    sortedSplitList.Less, unifyMapSources
     syntax/merge_exp.go        findMergeForkNode (sorted search)

   A Go map is modelled as an association list in *some* insertion order (the
   order in which the harness happens to see the entries when it ranges over
   the map, which Go randomises).  Every emitter sorts by key before it emits,
   exactly where the Go code calls sort.Strings / sort.Slice / sort.Sort.
   No proofs here. *)
From Coq Require Import String.
From Martian Require Import Lib.Bytes Lib.Utf8 Json.Json.
From Coq Require Decimal.
Local Open Scope N_scope.

(* byte-string literals are evaluated where they are written, so that the
   extracted program contains no Coq [string] *)
Notation lit s := ltac:(let x := eval vm_compute in (bs s) in exact x) (only parsing).

(* ------------------------------------------------------------------ text *)
Definition c_quote : byte := n2b 34.
Definition c_bsl : byte := n2b 92.
Definition c_space : byte := n2b 32.
Definition c_nl : byte := n2b 10.
Definition c_comma : byte := n2b 44.
Definition c_colon : byte := n2b 58.
Definition c_dot : byte := n2b 46.
Definition c_minus : byte := n2b 45.

Fixpoint uint_bytes (u : Decimal.uint) : bytes :=
  match u with
  | Decimal.Nil => []
  | Decimal.D0 r => n2b 48 :: uint_bytes r
  | Decimal.D1 r => n2b 49 :: uint_bytes r
  | Decimal.D2 r => n2b 50 :: uint_bytes r
  | Decimal.D3 r => n2b 51 :: uint_bytes r
  | Decimal.D4 r => n2b 52 :: uint_bytes r
  | Decimal.D5 r => n2b 53 :: uint_bytes r
  | Decimal.D6 r => n2b 54 :: uint_bytes r
  | Decimal.D7 r => n2b 55 :: uint_bytes r
  | Decimal.D8 r => n2b 56 :: uint_bytes r
  | Decimal.D9 r => n2b 57 :: uint_bytes r
  end.

(* strconv.Itoa / FormatInt(_, 10) *)
Definition n_dec (n : N) : bytes := uint_bytes (N.to_uint n).
Definition z_dec (z : Z) : bytes :=
  match z with
  | Z0 => [n2b 48]
  | Zpos p => n_dec (Npos p)
  | Zneg p => c_minus :: n_dec (Npos p)
  end.

(* transport only: decimal text -> Z (used by the OCaml driver) *)
Definition parse_dec (s : bytes) : Z :=
  let digits (l : bytes) :=
    fold_left (fun acc b => (acc * 10 + Z.of_N (b2n b - 48))%Z) l 0%Z in
  match s with
  | b :: r => if beq b c_minus then Z.opp (digits r) else digits s
  | [] => 0%Z
  end.

Definition hexdig (n : N) : byte := n2b (if n <? 10 then 48 + n else 87 + n).

Fixpoint join (sep : bytes) (l : list bytes) : bytes :=
  match l with
  | [] => []
  | [x] => x
  | x :: r => x ++ sep ++ join sep r
  end.

Definition blen (s : bytes) : N := N.of_nat (length s).

(* syntax.quoteString (html = false) and encoding/json string encoding as
   used by json.Marshal(key) (html = true: the characters less-than,
   greater-than and ampersand are also escaped).
   [skip]/[copy]: remaining continuation bytes of the rune being handled, and
   whether they are copied (ordinary rune) or dropped (U+2028/U+2029, which
   are replaced by an escape). *)
Definition esc_u00 (b : byte) : bytes :=
  lit "\u00" ++ [hexdig (b2n b / 16); hexdig (b2n b mod 16)].

Definition quote_ascii (html : bool) (b : byte) : bytes :=
  let n := b2n b in
  if (n =? 92) || (n =? 34) then [c_bsl; b]
  else if n =? 8 then lit "\b"
  else if n =? 12 then lit "\f"
  else if n =? 10 then lit "\n"
  else if n =? 13 then lit "\r"
  else if n =? 9 then lit "\t"
  else if n <? 32 then esc_u00 b
  else if html && ((n =? 60) || (n =? 62) || (n =? 38)) then esc_u00 b
  else [b].

Fixpoint quote_body (html : bool) (skip : nat) (copy : bool) (s : bytes) : bytes :=
  match s with
  | [] => []
  | b :: r =>
      match skip with
      | S k => (if copy then [b] else []) ++ quote_body html k copy r
      | O =>
          match utf8_len s with
          | O => lit "\ufffd" ++ quote_body html 0 true r
          | 1%nat => quote_ascii html b ++ quote_body html 0 true r
          | S (S k) =>
              let c := utf8_rune s in
              if (c =? 8232) || (c =? 8233) then
                lit "\u202" ++ [hexdig (c mod 16)] ++ quote_body html (S k) false r
              else b :: quote_body html (S k) true r
          end
      end
  end.

Definition quote_string (s : bytes) : bytes :=
  c_quote :: quote_body false 0 true s ++ [c_quote].
Definition go_json_string (s : bytes) : bytes :=
  c_quote :: quote_body true 0 true s ++ [c_quote].

(* ------------------------------------------------------------ expressions *)
(* Value expressions as the parser builds them.  EFloat carries the text that
   strconv prints for the value (float printing is not modelled).  A MapExp is
   an association list in some insertion order; [st] = KindStruct. *)
Inductive exp :=
| ENull
| EBool (b : bool)
| EInt (z : Z)
| EFloat (txt : bytes)
| EStr (s : bytes)
| ERef (self : bool) (id out : bytes)
| ESplit (e : exp)
| EArr (l : list exp)
| EMap (st : bool) (kvs : list (bytes * exp)).

(* singleLineFormat(v) *)
Fixpoint single_line (e : exp) : bool :=
  match e with
  | EArr l => match l with [] => true | [x] => single_line x | _ => false end
  | EMap _ kvs => match kvs with [] => true | _ => false end
  | _ => true
  end.

Definition indent : bytes := lit "    ".

(* RefExp.format *)
Definition format_ref (self : bool) (id out : bytes) : bytes :=
  if self then
    match id with
    | [] => lit "self"
    | _ => lit "self." ++ id ++ match out with [] => [] | _ => c_dot :: out end
    end
  else id ++ match out with [] => [] | _ => c_dot :: out end.

(* One formatted entry of a map/struct literal: key, whether the value is
   single-line, the formatted value. *)
Definition fitem := (bytes * (bool * bytes))%type.

(* maxKeyLen of MapExp.format: computed while ranging over the map *)
Definition max_key_len (st : bool) (items : list fitem) : N :=
  if st then
    fold_right (fun (it : fitem) acc => if fst (snd it) then N.max (blen (fst it)) acc else acc) 0 items
  else 0.

Definition pad (n : N) : bytes := repeat c_space (N.to_nat n).

Definition emit_item (st : bool) (vindent : bytes) (maxlen : N) (it : fitem) : bytes :=
  let k := fst it in
  vindent ++ (if st then k else quote_string k) ++ lit ": "
  ++ (if st && fst (snd it) then pad (maxlen - blen k) else [])
  ++ snd (snd it) ++ [c_comma; c_nl].

(* MapExp.format after the range loop: sort.Strings(keys), then one line per key *)
Definition emit_map (st : bool) (prefix : bytes) (items : list fitem) : bytes :=
  match items with
  | [] => lit "{}"
  | _ =>
      let vindent := prefix ++ indent in
      lit "{" ++ [c_nl]
      ++ concat (map (emit_item st vindent (max_key_len st items)) (sort_keys items))
      ++ prefix ++ lit "}"
  end.

Fixpoint format (e : exp) (prefix : bytes) {struct e} : bytes :=
  match e with
  | ENull => lit "null"
  | EBool b => if b then lit "true" else lit "false"
  | EInt z => z_dec z
  | EFloat t => t
  | EStr s => quote_string s
  | ERef self id out => format_ref self id out
  | ESplit v => lit "split " ++ format v prefix
  | EArr l =>
      match l with
      | [] => lit "[]"
      | v :: r =>
          if (match r with [] => single_line v | _ => false end)
          then lit "[" ++ format v prefix ++ lit "]"
          else
            let vindent := prefix ++ indent in
            lit "[" ++ [c_nl]
            ++ (fix go (l : list exp) : bytes :=
                  match l with
                  | [] => []
                  | x :: t => vindent ++ format x vindent ++ [c_comma; c_nl] ++ go t
                  end) l
            ++ prefix ++ lit "]"
      end
  | EMap st kvs =>
      let vindent := prefix ++ indent in
      emit_map st prefix
        ((fix go (l : list (bytes * exp)) : list fitem :=
            match l with
            | [] => []
            | kv :: t => (fst kv, (single_line (snd kv), format (snd kv) vindent)) :: go t
            end) kvs)
  end.

(* ------------------------------------------------------------------ JSON *)
(* encodeJSON of an object whose keys were sorted: used by MapExp.encodeJSON,
   ResolvedBindingMap.encodeJSON (keys through quoteString) and by
   LazyArgumentMap/MarshalerMap.encodeJSON (keys through json.Marshal). *)
Definition encode_obj (qk : bytes -> bytes) (l : list (bytes * bytes)) : bytes :=
  match l with
  | [] => lit "{}"
  | _ => lit "{" ++ join [c_comma]
           (map (fun kv => qk (fst kv) ++ c_colon :: snd kv) (sort_keys l)) ++ lit "}"
  end.

Definition encode_ref (self : bool) (id out : bytes) : bytes :=
  lit "{""__reference__"":""" ++ (if self then lit "self." else []) ++ id
  ++ match out with [] => [] | _ => c_dot :: out end ++ lit """}".

Fixpoint encode_json (e : exp) : bytes :=
  match e with
  | ENull => lit "null"
  | EBool b => if b then lit "true" else lit "false"
  | EInt z => z_dec z
  | EFloat t => t
  | EStr s => quote_string s
  | ERef self id out => encode_ref self id out
  | ESplit v => lit "{""split"":" ++ encode_json v ++ lit "}"
  | EArr l =>
      match l with
      | [] => lit "[]"
      | _ => lit "[" ++ join [c_comma]
               ((fix go (l : list exp) : list bytes :=
                   match l with [] => [] | x :: t => encode_json x :: go t end) l)
             ++ lit "]"
      end
  | EMap _ kvs =>
      encode_obj quote_string
        ((fix go (l : list (bytes * exp)) : list (bytes * bytes) :=
            match l with
            | [] => []
            | kv :: t => (fst kv, encode_json (snd kv)) :: go t
            end) kvs)
  end.

(* core.LazyArgumentMap.encodeJSON / MarshalerMap.encodeJSON: values are raw
   JSON, a nil value is null, keys go through json.Marshal *)
Definition encode_lazy_args (l : list (bytes * option bytes)) : bytes :=
  encode_obj go_json_string
    (map (fun kv => (fst kv, match snd kv with Some v => v | None => lit "null" end)) l).

(* syntax.ResolvedBindingMap.encodeJSON: values already encoded *)
Definition encode_binding_map (l : list (bytes * bytes)) : bytes :=
  encode_obj quote_string l.

(* encodeMapSourceJson, *MapExp case *)
Definition map_source_json (keys : list (bytes * unit)) : bytes :=
  lit "{""type"":""map"",""keys"":[" ++
  join [c_comma] (map (fun kv => quote_string (fst kv)) (sort_keys keys)) ++ lit "]}".

(* Canonical form: every map literal sorted by key, recursively. *)
Fixpoint canon (e : exp) : exp :=
  match e with
  | ESplit v => ESplit (canon v)
  | EArr l => EArr ((fix go (l : list exp) : list exp :=
                       match l with [] => [] | x :: t => canon x :: go t end) l)
  | EMap st kvs =>
      EMap st (sort_keys
        ((fix go (l : list (bytes * exp)) : list (bytes * exp) :=
            match l with [] => [] | kv :: t => (fst kv, canon (snd kv)) :: go t end) kvs))
  | _ => e
  end.

(* keys of every map literal are pairwise distinct (true of any Go map) *)
Fixpoint nodup_keys (l : list bytes) : bool :=
  match l with
  | [] => true
  | k :: r => negb (existsb (bytes_eqb k) r) && nodup_keys r
  end.

Fixpoint exp_wf (e : exp) : bool :=
  match e with
  | ESplit v => exp_wf v
  | EArr l => (fix go (l : list exp) : bool :=
                 match l with [] => true | x :: t => exp_wf x && go t end) l
  | EMap _ kvs =>
      nodup_keys (map fst kvs) &&
      (fix go (l : list (bytes * exp)) : bool :=
         match l with [] => true | kv :: t => exp_wf (snd kv) && go t end) kvs
  | _ => true
  end.

(* ------------------------------------------------------------- fork ids *)
(* One fork dimension: a split over an array of known length, or over a map
   with a known key set (Go: split.Source.Keys(), a map). *)
Inductive dim := DArr (n : N) | DMap (keys : list bytes).
Inductive part := PIdx (i : N) | PKey (k : bytes).

(* core.makeForkIdParts: array indices in order; map keys collected by
   ranging over the map, then sort.Slice by key. *)
Definition parts_of (d : dim) : list part :=
  match d with
  | DArr n => map (fun i => PIdx (N.of_nat i)) (seq 0 (N.to_nat n))
  | DMap ks => map PKey (isort bytes_leb ks)
  end.

(* ForkIdSet.MakeForkIds: cartesian product, the first source varies fastest *)
Fixpoint fork_product (dims : list dim) : list (list part) :=
  match dims with
  | [] => [[]]
  | d :: rest =>
      flat_map (fun tail => map (fun p => p :: tail) (parts_of d)) (fork_product rest)
  end.
Definition make_fork_ids (dims : list dim) : list (list part) :=
  match dims with [] => [] | _ => fork_product dims end.

(* expandForkFromObj / getUnknownKeys: the keys of a JSON object read at run
   time, enumerated in sorted order *)
Definition expand_fork_keys (obj : list (bytes * unit)) : list bytes :=
  map fst (sort_keys obj).

(* --------------------------------------------------- merging map sources *)
(* Source location of a split expression: file name (nil file = None),
   (line, column) *)
Definition loc := (option bytes * (N * N))%type.

Definition pos_ltb (a b : N * N) : bool :=
  (fst a <? fst b) || ((fst a =? fst b) && (snd a <? snd b)).

(* sortedSplitList.Less: file name, then line, then column *)
Definition loc_ltb (a b : loc) : bool :=
  match fst a, fst b with
  | Some f1, Some f2 =>
      if bytes_ltb f1 f2 then true
      else if bytes_ltb f2 f1 then false
      else pos_ltb (snd a) (snd b)
  | Some _, None => true
  | None, Some _ => false
  | None, None => pos_ltb (snd a) (snd b)
  end.

Definition sort_splits {A} (l : list (loc * A)) : list (loc * A) :=
  isort (fun a b => negb (loc_ltb (fst b) (fst a))) l.

(* unifyMapSources: the set of splits (a Go map used as a set) is sorted by
   location and folded with mergeSplitSource; the first split is returned.
   [step] is mergeSplitSource on an abstract state (root, errors). *)
Section Unify.
  Context {S St : Type} (step : St -> S -> St) (init : St).
  Definition unify_map_sources (splits : list (loc * S)) : St * option S :=
    let sl := sort_splits splits in
    (fold_left (fun st x => step st (snd x)) sl init,
     match sl with [] => None | x :: _ => Some (snd x) end).
End Unify.

(* A concrete instance of the fold step, enough to show that order matters:
   MergeMapCallSources on two array sources of known length reports
   "array length mismatch la vs lb" and keeps the old root. *)
Definition merge_len_step (st : option N * list (N * N)) (n : N) : option N * list (N * N) :=
  match fst st with
  | None => (Some n, snd st)
  | Some r => if r =? n then st else (Some r, snd st ++ [(r, n)])
  end.

(* findMergeForkNode over call.Inputs: keys sorted, first hit returned *)
Definition find_first_sorted {A B} (f : A -> option B) (l : list (bytes * A)) : option B :=
  (fix go (l : list (bytes * A)) : option B :=
     match l with
     | [] => None
     | kv :: t => match f (snd kv) with Some r => Some r | None => go t end
     end) (sort_keys l).

(* MergeMapCallSources, both sources maps of known keys: the Go code ranges
   over ka (unsorted) and reports the first key missing from kb.  Model of the
   code as it is: the reported key is the first missing one in iteration
   order. *)
Definition first_missing_key (ka : list (bytes * unit)) (kb : list bytes) : option bytes :=
  (fix go (l : list (bytes * unit)) : option bytes :=
     match l with
     | [] => None
     | kv :: t => if existsb (bytes_eqb (fst kv)) kb then go t else Some (fst kv)
     end) ka.
(* the repaired form: keys sorted first *)
Definition first_missing_key_sorted (ka : list (bytes * unit)) (kb : list bytes) : option bytes :=
  first_missing_key (sort_keys ka) kb.

(* ------------------------------------------------- error accumulation *)
(* The compile-time checks of a map / struct literal (TypedMapType and
   StructType IsValidExpression, isValidSplit, MapExp.resolveRefs /
   BindingPath / filter, ...) visit the entries and append one error per
   failing entry to an ErrorList, whose text is the messages in that order.
   [collect_errors] is the loop as it was (entries in iteration order);
   [collect_errors_sorted] is the loop after the repair (sortedKeys). *)
Definition collect_errors {A E} (chk : bytes -> A -> option E) (l : list (bytes * A)) : list E :=
  flat_map (fun kv => match chk (fst kv) (snd kv) with Some e => [e] | None => [] end) l.
Definition collect_errors_sorted {A E} (chk : bytes -> A -> option E) (l : list (bytes * A)) : list E :=
  collect_errors chk (sort_keys l).
