(* K/Refactor.v - C19: the semantic edits of martian/syntax/refactoring
   (mro edit) as functions on the compiled Ast, the call-tree denotation they
   have to preserve, and the validators that are run on every (before, after)
   pair of compiled Asts dumped from the implementation.

   Renames.  A [renaming] lists the identifiers an edit changes: callable
   names, call ids (per enclosing pipeline), input and output parameter names
   (per callable).  [rename_ast] is the reference implementation: it rewrites
   every syntactic occurrence - declarations, DecIds, call ids, binding ids,
   return ids, stage retains, and inside every expression (bindings,
   modifiers, returns, retains, wildcard sources) the self / call references,
   where an output name is the first component of RefExp.OutputId (the rest is
   a struct projection).  [go_renaming] computes the renaming the Go code
   chooses for a request (rename_callable.go renameCallsToCallable: a call
   keeps its id - i.e. gets or keeps an alias - when it is already aliased or
   when the new name is already a call id of the pipeline).

   Removals.  A [removed] set lists dropped input parameters, output
   parameters and calls; [restrict_ast] drops them together with the bindings
   that supplied / returned them; [unused_ok] says nothing that survives
   refers to a dropped element (and a dropped call was droppable).

   Denotation.  [denote a] unfolds the top-level call into its resolved call
   tree: every call statement paired with the DEFINITION its DecId resolves to
   (first match in Callables, as Callables.Table), recursively through
   pipelines.  [rename_tree] / [restrict_tree] are the renaming / restriction
   read on that tree.  Proofs/Refactor.v shows that the syntactic functions
   commute with the denotation, which is the soundness of the validators.

   Definitions only. *)
From Martian Require Import Lib.Bytes Mro.Ast.

(* ------------------------------------------------------------ renamings *)

Record renaming := mk_ren {
  rn_callable : list (bytes * bytes);        (* callable: old -> new *)
  rn_call : list (bytes * bytes * bytes);    (* (pipeline, call id): old -> new; pipeline [] = top level *)
  rn_in : list (bytes * bytes * bytes);      (* (callable, input): old -> new *)
  rn_out : list (bytes * bytes * bytes)      (* (callable, output): old -> new *)
}.
(* pipeline / callable names in rn_call, rn_in, rn_out are the names BEFORE the edit *)

Definition ren_none : renaming := mk_ren [] [] [] [].

Fixpoint ren1 (l : list (bytes * bytes)) (x : bytes) : bytes :=
  match l with
  | [] => x
  | (o, n) :: r => if bytes_eqb o x then n else ren1 r x
  end.

Fixpoint ren2 (l : list (bytes * bytes * bytes)) (c x : bytes) : bytes :=
  match l with
  | [] => x
  | (c', o, n) :: r => if bytes_eqb c' c && bytes_eqb o x then n else ren2 r c x
  end.

(* call id -> DecId of the calls of the enclosing pipeline *)
Definition scope := list (bytes * bytes).
Definition scope_of_calls (l : list call_stm) : scope := map (fun c => (c_id c, c_dec_id c)) l.

Fixpoint scope_find (s : scope) (id : bytes) : option bytes :=
  match s with
  | [] => None
  | (i, d) :: r => if bytes_eqb i id then Some d else scope_find r id
  end.

(* RefExp.OutputId = output name, then optional .field projections *)
Definition dot : byte := x2e.
Fixpoint split_dot (s : bytes) : bytes * bytes :=
  match s with
  | [] => ([], [])
  | c :: r => if beq c dot then ([], s) else let (h, t) := split_dot r in (c :: h, t)
  end.
Definition on_head (f : bytes -> bytes) (o : bytes) : bytes :=
  match o with
  | [] => []
  | _ => let (h, t) := split_dot o in f h ++ t
  end.

(* compile_stages.go RetainParams.compile sorts the retained ids bytewise *)
Fixpoint insert_sorted (x : bytes) (l : list bytes) : list bytes :=
  match l with
  | [] => [x]
  | y :: r => if bytes_ltb y x then y :: insert_sorted x r else x :: l
  end.
Definition sort_bytes (l : list bytes) : list bytes := fold_right insert_sorted [] l.

Section Rename.
Variable rho : renaming.

(* inside pipeline P whose calls have scope sg *)
Fixpoint rename_exp (P : bytes) (sg : scope) (e : exp) : exp :=
  match e with
  | EArray xs => EArray (map (rename_exp P sg) xs)
  | EMap k es => EMap k (map (fun kv => (fst kv, rename_exp P sg (snd kv))) es)
  | ESplit x => ESplit (rename_exp P sg x)
  | ERef RefSelf id o => ERef RefSelf (ren2 (rn_in rho) P id) o
  | ERef RefCall id o =>
      ERef RefCall (ren2 (rn_call rho) P id)
           (match scope_find sg id with
            | Some C => on_head (ren2 (rn_out rho) C) o
            | None => o
            end)
  | _ => e
  end.

(* a binding of a call to callable C *)
Definition rename_bind (C P : bytes) (sg : scope) (b : bind_stm) : bind_stm :=
  mk_bind (ren2 (rn_in rho) C (b_id b)) (rename_exp P sg (b_exp b)) (b_tname b).
(* a modifier binding (disabled = ...): the id is a keyword *)
Definition rename_mod_bind (P : bytes) (sg : scope) (b : bind_stm) : bind_stm :=
  mk_bind (b_id b) (rename_exp P sg (b_exp b)) (b_tname b).
Definition rename_mods (P : bytes) (sg : scope) (m : modifiers) : modifiers :=
  mk_mods (map (rename_mod_bind P sg) (m_bindings m)) (m_local m) (m_preflight m) (m_volatile m).
(* a return binding of pipeline P *)
Definition rename_ret_bind (P : bytes) (sg : scope) (b : bind_stm) : bind_stm :=
  mk_bind (ren2 (rn_out rho) P (b_id b)) (rename_exp P sg (b_exp b)) (b_tname b).

Definition rename_call (P : bytes) (sg : scope) (c : call_stm) : call_stm :=
  mk_call (ren2 (rn_call rho) P (c_id c)) (ren1 (rn_callable rho) (c_dec_id c))
          (option_map (rename_mods P sg) (c_mods c))
          (map (rename_bind (c_dec_id c) P sg) (c_bindings c))
          (c_mode c).

Definition rename_in_param (C : bytes) (p : in_param) : in_param :=
  mk_in (ren2 (rn_in rho) C (ip_id p)) (ip_tname p) (ip_help p) (ip_isfile p) (ip_basefile p).
Definition rename_out_param (C : bytes) (m : out_param) : out_param :=
  mk_member (ren2 (rn_out rho) C (sm_id m)) (sm_tname m) (sm_outname m) (sm_help m)
            (sm_isfile m) (sm_complex m) (sm_basefile m).

Definition rename_stage (s : stage) : stage :=
  let C := st_id s in
  mk_stage (ren1 (rn_callable rho) C) (map (rename_in_param C) (st_ins s))
           (map (rename_out_param C) (st_outs s)) (st_split s) (st_chunk_ins s) (st_chunk_outs s)
           (sort_bytes (map (ren2 (rn_out rho) C) (st_retain s))) (st_src s) (st_resources s).

Definition rename_pipeline (p : pipeline) : pipeline :=
  let P := pl_id p in
  let sg := scope_of_calls (pl_calls p) in
  mk_pipeline (ren1 (rn_callable rho) P) (map (rename_in_param P) (pl_ins p))
              (map (rename_out_param P) (pl_outs p)) (map (rename_call P sg) (pl_calls p))
              (option_map (map (rename_ret_bind P sg)) (pl_ret p))
              (map (rename_exp P sg) (pl_retain p)).

Definition rename_callable (d : callable) : callable :=
  match d with
  | CStage s => CStage (rename_stage s)
  | CPipeline p => CPipeline (rename_pipeline p)
  end.

Definition rename_ast (a : ast) : ast :=
  mk_ast (a_user_types a) (a_struct_types a) (map rename_callable (a_callables a)) (a_compiled a)
         (option_map (rename_call [] []) (a_call a)).
End Rename.

(* ------------------------------------------------------------ removals *)

Record removed := mk_removed {
  rm_in : list (bytes * bytes);       (* (callable, input) *)
  rm_out : list (bytes * bytes);      (* (callable, output) *)
  rm_call : list (bytes * bytes)      (* (pipeline, call id) *)
}.
Definition removed_none : removed := mk_removed [] [] [].

Definition mem2 (l : list (bytes * bytes)) (c x : bytes) : bool :=
  existsb (fun p => bytes_eqb (fst p) c && bytes_eqb (snd p) x) l.

Section Restrict.
Variable d : removed.

Definition restrict_call (c : call_stm) : call_stm :=
  mk_call (c_id c) (c_dec_id c) (c_mods c)
          (filter (fun b => negb (mem2 (rm_in d) (c_dec_id c) (b_id b))) (c_bindings c))
          (c_mode c).

Definition restrict_stage (s : stage) : stage :=
  let C := st_id s in
  mk_stage C (filter (fun p => negb (mem2 (rm_in d) C (ip_id p))) (st_ins s))
           (filter (fun m => negb (mem2 (rm_out d) C (sm_id m))) (st_outs s))
           (st_split s) (st_chunk_ins s) (st_chunk_outs s)
           (filter (fun r => negb (mem2 (rm_out d) C r)) (st_retain s)) (st_src s) (st_resources s).

Definition restrict_pipeline (p : pipeline) : pipeline :=
  let P := pl_id p in
  mk_pipeline P (filter (fun q => negb (mem2 (rm_in d) P (ip_id q))) (pl_ins p))
              (filter (fun m => negb (mem2 (rm_out d) P (sm_id m))) (pl_outs p))
              (map restrict_call (filter (fun c => negb (mem2 (rm_call d) P (c_id c))) (pl_calls p)))
              (option_map (filter (fun b => negb (mem2 (rm_out d) P (b_id b)))) (pl_ret p))
              (pl_retain p).

Definition restrict_callable (c : callable) : callable :=
  match c with
  | CStage s => CStage (restrict_stage s)
  | CPipeline p => CPipeline (restrict_pipeline p)
  end.

Definition restrict_ast (a : ast) : ast :=
  mk_ast (a_user_types a) (a_struct_types a) (map restrict_callable (a_callables a)) (a_compiled a)
         (option_map restrict_call (a_call a)).
End Restrict.

(* -- nothing that survives refers to a removed element *)

Fixpoint exp_refs (e : exp) : list (ref_kind * bytes * bytes) :=
  match e with
  | EArray xs => flat_map exp_refs xs
  | EMap _ es => flat_map (fun kv => exp_refs (snd kv)) es
  | ESplit x => exp_refs x
  | ERef k id o => [(k, id, o)]
  | _ => []
  end.

(* does a reference inside pipeline P (scope sg) touch a removed element *)
Definition ref_removed (d : removed) (P : bytes) (sg : scope) (r : ref_kind * bytes * bytes) : bool :=
  let '(k, id, o) := r in
  match k with
  | RefSelf => mem2 (rm_in d) P id
  | RefCall =>
      mem2 (rm_call d) P id ||
      match scope_find sg id with
      | Some C => match o with
                  | [] => existsb (fun p => bytes_eqb (fst p) C) (rm_out d)   (* the whole call as a struct *)
                  | _ => mem2 (rm_out d) C (fst (split_dot o))
                  end
      | None => false
      end
  end.

Definition exp_clean (d : removed) (P : bytes) (sg : scope) (e : exp) : bool :=
  negb (existsb (ref_removed d P sg) (exp_refs e)).

Definition mods_clean (d : removed) (P : bytes) (sg : scope) (m : option modifiers) : bool :=
  match m with
  | Some m => forallb (fun b => exp_clean d P sg (b_exp b)) (m_bindings m)
  | None => true
  end.

(* a call that was removed must be one the implementation may remove: it is
   not a preflight call *)
Definition is_nil {A} (l : list A) : bool := match l with [] => true | _ => false end.
(* remove_calls.go removeUnusedCalls / hasSideEffects / hasOutputs: a
   preflight call, a call without outputs, and a call of a stage or pipeline
   that retains files are kept even when nothing refers to them *)
Definition call_droppable (t : list callable) (c : call_stm) : bool :=
  match c_mods c with Some m => negb (m_preflight m) | None => true end &&
  match find_callable (c_dec_id c) t with
  | Some (CStage s) => is_nil (st_retain s) && negb (is_nil (st_outs s))
  | Some (CPipeline p) => is_nil (pl_retain p) && negb (is_nil (pl_outs p))
  | None => false
  end.

Definition pipeline_clean (d : removed) (t : list callable) (p : pipeline) : bool :=
  let P := pl_id p in
  let sg := scope_of_calls (pl_calls p) in
  forallb (fun c =>
    if mem2 (rm_call d) P (c_id c) then call_droppable t c
    else forallb (fun b => mem2 (rm_in d) (c_dec_id c) (b_id b) || exp_clean d P sg (b_exp b)) (c_bindings c)
         && mods_clean d P sg (c_mods c)) (pl_calls p) &&
  match pl_ret p with
  | Some l => forallb (fun b => mem2 (rm_out d) P (b_id b) || exp_clean d P sg (b_exp b)) l
  | None => true
  end &&
  forallb (exp_clean d P sg) (pl_retain p).

Definition unused_ok (d : removed) (a : ast) : bool :=
  forallb (fun c => match c with CPipeline p => pipeline_clean d (a_callables a) p | CStage _ => true end) (a_callables a).

(* the removed set read off a (before, after) pair: whatever is declared
   before and no longer after *)
Definition has_in (l : list in_param) (x : bytes) := existsb (fun p => bytes_eqb (ip_id p) x) l.
Definition has_out (l : list out_param) (x : bytes) := existsb (fun p => bytes_eqb (sm_id p) x) l.
Definition has_call (l : list call_stm) (x : bytes) := existsb (fun c => bytes_eqb (c_id c) x) l.

Definition diff_removed (a b : ast) : removed :=
  let per (f : callable -> callable -> list (bytes * bytes)) :=
    flat_map (fun c => match find_callable (callable_id c) (a_callables b) with
                       | Some c' => f c c'
                       | None => []
                       end) (a_callables a) in
  mk_removed
    (per (fun c c' => map (fun p => (callable_id c, ip_id p))
                          (filter (fun p => negb (has_in (callable_ins c') (ip_id p))) (callable_ins c))))
    (per (fun c c' => map (fun p => (callable_id c, sm_id p))
                          (filter (fun p => negb (has_out (callable_outs c') (sm_id p))) (callable_outs c))))
    (per (fun c c' => match c, c' with
                      | CPipeline p, CPipeline p' =>
                          map (fun k => (pl_id p, c_id k))
                              (filter (fun k => negb (has_call (pl_calls p') (c_id k))) (pl_calls p))
                      | _, _ => []
                      end)).

(* ------------------------------------------------------------ denotation *)

(* the resolved call tree: a call, the definition it resolves to, and the
   trees of that definition's calls *)
Inductive tree := Tree (c : call_stm) (d : callable) (kids : list tree).

Fixpoint map_opt {A B} (f : A -> option B) (l : list A) : option (list B) :=
  match l with
  | [] => Some []
  | x :: r => match f x, map_opt f r with
              | Some y, Some ys => Some (y :: ys)
              | _, _ => None
              end
  end.

Fixpoint denote_call (fuel : nat) (t : list callable) (c : call_stm) : option tree :=
  match fuel with
  | O => None
  | S f =>
      match find_callable (c_dec_id c) t with
      | None => None
      | Some (CStage s) => Some (Tree c (CStage s) [])
      | Some (CPipeline p) =>
          match map_opt (denote_call f t) (pl_calls p) with
          | Some kids => Some (Tree c (CPipeline p) kids)
          | None => None
          end
      end
  end.

(* a call chain longer than the number of callables repeats a callable *)
Definition fuel_of (a : ast) : nat := S (length (a_callables a)).

Definition denote (a : ast) : option tree :=
  match a_call a with
  | Some c => denote_call (fuel_of a) (a_callables a) c
  | None => None
  end.

Definition callable_scope (d : callable) : scope :=
  match d with CPipeline p => scope_of_calls (pl_calls p) | CStage _ => [] end.

(* the renaming read on the tree: the call in the scope of its parent, the
   definition in its own scope, the children in the definition's scope *)
Fixpoint rename_tree (rho : renaming) (P : bytes) (sg : scope) (t : tree) : tree :=
  match t with
  | Tree c d kids =>
      Tree (rename_call rho P sg c) (rename_callable rho d)
           (map (rename_tree rho (callable_id d) (callable_scope d)) kids)
  end.

Definition tree_call (t : tree) : call_stm := match t with Tree c _ _ => c end.

(* the restriction read on the tree *)
Fixpoint restrict_tree (d : removed) (t : tree) : tree :=
  match t with
  | Tree c def kids =>
      Tree (restrict_call d c) (restrict_callable d def)
           ((fix go (l : list tree) : list tree :=
               match l with
               | [] => []
               | k :: r =>
                   if negb (mem2 (rm_call d) (callable_id def) (c_id (tree_call k)))
                   then restrict_tree d k :: go r else go r
               end) kids)
  end.

(* the fully qualified names: the tree of call ids *)
Inductive idtree := IdTree (id : bytes) (kids : list idtree).
Fixpoint tree_ids (t : tree) : idtree :=
  match t with Tree c _ kids => IdTree (c_id c) (map tree_ids kids) end.

(* ------------------------------------------------------------ what Go chooses *)

Definition callable_names (a : ast) : list bytes := map callable_id (a_callables a).

(* rename_callable.go RenameCallable / renameCallsToCallable *)
Definition go_call_renames (X Y : bytes) (a : ast) : list (bytes * bytes * bytes) :=
  flat_map (fun d =>
    match d with
    | CPipeline p =>
        if bytes_eqb (pl_id p) X then []
        else if has_call (pl_calls p) Y then []
        else if existsb (fun c => bytes_eqb (c_dec_id c) X && bytes_eqb (c_id c) X) (pl_calls p)
             then [(pl_id p, X, Y)] else []
    | CStage _ => []
    end) (a_callables a) ++
  match a_call a with
  | Some c => if bytes_eqb (c_dec_id c) X && bytes_eqb (c_id c) X then [([], X, Y)] else []
  | None => []
  end.

Inductive edit :=
| RenameCallable (X Y : bytes)
| RenameInput (C x y : bytes)
| RenameOutput (C x y : bytes).

Definition go_renaming (e : edit) (a : ast) : renaming :=
  match e with
  | RenameCallable X Y => mk_ren [(X, Y)] (go_call_renames X Y a) [] []
  | RenameInput C x y => mk_ren [] [] [(C, x, y)] []
  | RenameOutput C x y => mk_ren [] [] [] [(C, x, y)]
  end.

Definition inverse (e : edit) : edit :=
  match e with
  | RenameCallable X Y => RenameCallable Y X
  | RenameInput C x y => RenameInput C y x
  | RenameOutput C x y => RenameOutput C y x
  end.

(* ------------------------------------------------------------ boolean equality *)

Fixpoint list_eqb {A} (f : A -> A -> bool) (a b : list A) : bool :=
  match a, b with
  | [], [] => true
  | x :: a', y :: b' => f x y && list_eqb f a' b'
  | _, _ => false
  end.
Definition opt_eqb {A} (f : A -> A -> bool) (a b : option A) : bool :=
  match a, b with
  | None, None => true
  | Some x, Some y => f x y
  | _, _ => false
  end.
Definition zz_eqb (a b : Z * Z) : bool := ((fst a =? fst b) && (snd a =? snd b))%Z.
Definition map_kind_eqb (a b : map_kind) : bool :=
  match a, b with MapKindMap, MapKindMap | MapKindStruct, MapKindStruct => true | _, _ => false end.
Definition call_mode_eqb (a b : call_mode) : bool :=
  match a, b with
  | ModeSingleCall, ModeSingleCall | ModeArrayCall, ModeArrayCall | ModeMapCall, ModeMapCall
  | ModeUnknownMapCall, ModeUnknownMapCall | ModeNullMapCall, ModeNullMapCall => true
  | _, _ => false
  end.
Definition lang_eqb (a b : stage_lang) : bool :=
  match a, b with
  | LangUnknown, LangUnknown | LangPython, LangPython | LangExec, LangExec | LangCompiled, LangCompiled => true
  | _, _ => false
  end.

Fixpoint exp_eqb (a b : exp) {struct a} : bool :=
  match a, b with
  | EArray xs, EArray ys =>
      (fix go (xs ys : list exp) : bool :=
         match xs, ys with
         | [], [] => true
         | x :: xs', y :: ys' => exp_eqb x y && go xs' ys'
         | _, _ => false
         end) xs ys
  | EMap k es, EMap k' fs =>
      map_kind_eqb k k' &&
      (fix go (es fs : list (bytes * exp)) : bool :=
         match es, fs with
         | [], [] => true
         | (ka, x) :: es', (kb, y) :: fs' => bytes_eqb ka kb && exp_eqb x y && go es' fs'
         | _, _ => false
         end) es fs
  | EString s, EString t => bytes_eqb s t
  | EBool x, EBool y => Bool.eqb x y
  | EInt x, EInt y => (x =? y)%Z
  | EFloat m e, EFloat m' e' => ((m =? m') && (e =? e'))%Z
  | ENull, ENull => true
  | ERef k i o, ERef k' i' o' => ref_kind_eqb k k' && bytes_eqb i i' && bytes_eqb o o'
  | ESplit x, ESplit y => exp_eqb x y
  | _, _ => false
  end.

Definition bind_eqb (a b : bind_stm) : bool :=
  bytes_eqb (b_id a) (b_id b) && exp_eqb (b_exp a) (b_exp b) && type_id_eqb (b_tname a) (b_tname b).
Definition mods_eqb (a b : modifiers) : bool :=
  list_eqb bind_eqb (m_bindings a) (m_bindings b) && Bool.eqb (m_local a) (m_local b) &&
  Bool.eqb (m_preflight a) (m_preflight b) && Bool.eqb (m_volatile a) (m_volatile b).
Definition call_eqb (a b : call_stm) : bool :=
  bytes_eqb (c_id a) (c_id b) && bytes_eqb (c_dec_id a) (c_dec_id b) &&
  opt_eqb mods_eqb (c_mods a) (c_mods b) && list_eqb bind_eqb (c_bindings a) (c_bindings b) &&
  call_mode_eqb (c_mode a) (c_mode b).
Definition member_eqb (a b : struct_member) : bool :=
  bytes_eqb (sm_id a) (sm_id b) && type_id_eqb (sm_tname a) (sm_tname b) &&
  bytes_eqb (sm_outname a) (sm_outname b) && bytes_eqb (sm_help a) (sm_help b) &&
  file_kind_eqb (sm_isfile a) (sm_isfile b) && Bool.eqb (sm_complex a) (sm_complex b) &&
  Bool.eqb (sm_basefile a) (sm_basefile b).
Definition struct_eqb (a b : struct_type) : bool :=
  bytes_eqb (sd_id a) (sd_id b) && list_eqb member_eqb (sd_members a) (sd_members b) &&
  file_kind_eqb (sd_isfile a) (sd_isfile b).
Definition in_eqb (a b : in_param) : bool :=
  bytes_eqb (ip_id a) (ip_id b) && type_id_eqb (ip_tname a) (ip_tname b) &&
  bytes_eqb (ip_help a) (ip_help b) && file_kind_eqb (ip_isfile a) (ip_isfile b) &&
  Bool.eqb (ip_basefile a) (ip_basefile b).
Definition src_eqb (a b : src_param) : bool :=
  lang_eqb (src_lang a) (src_lang b) && bytes_eqb (src_path a) (src_path b) &&
  list_eqb bytes_eqb (src_args a) (src_args b).
Definition res_eqb (a b : resources) : bool :=
  bytes_eqb (r_special a) (r_special b) && zz_eqb (r_threads a) (r_threads b) &&
  zz_eqb (r_mem_gb a) (r_mem_gb b) && zz_eqb (r_vmem_gb a) (r_vmem_gb b) &&
  Bool.eqb (r_strict_volatile a) (r_strict_volatile b).
Definition stage_eqb (a b : stage) : bool :=
  bytes_eqb (st_id a) (st_id b) && list_eqb in_eqb (st_ins a) (st_ins b) &&
  list_eqb member_eqb (st_outs a) (st_outs b) && Bool.eqb (st_split a) (st_split b) &&
  list_eqb in_eqb (st_chunk_ins a) (st_chunk_ins b) &&
  list_eqb member_eqb (st_chunk_outs a) (st_chunk_outs b) &&
  list_eqb bytes_eqb (st_retain a) (st_retain b) && src_eqb (st_src a) (st_src b) &&
  opt_eqb res_eqb (st_resources a) (st_resources b).
Definition pipeline_eqb (a b : pipeline) : bool :=
  bytes_eqb (pl_id a) (pl_id b) && list_eqb in_eqb (pl_ins a) (pl_ins b) &&
  list_eqb member_eqb (pl_outs a) (pl_outs b) && list_eqb call_eqb (pl_calls a) (pl_calls b) &&
  opt_eqb (list_eqb bind_eqb) (pl_ret a) (pl_ret b) && list_eqb exp_eqb (pl_retain a) (pl_retain b).
Definition callable_eqb (a b : callable) : bool :=
  match a, b with
  | CStage s, CStage t => stage_eqb s t
  | CPipeline p, CPipeline q => pipeline_eqb p q
  | _, _ => false
  end.
Definition ast_eqb (a b : ast) : bool :=
  list_eqb bytes_eqb (a_user_types a) (a_user_types b) &&
  list_eqb struct_eqb (a_struct_types a) (a_struct_types b) &&
  list_eqb callable_eqb (a_callables a) (a_callables b) &&
  Bool.eqb (a_compiled a) (a_compiled b) && opt_eqb call_eqb (a_call a) (a_call b).

(* ------------------------------------------------------------ validators *)

Fixpoint nodupb (l : list bytes) : bool :=
  match l with
  | [] => true
  | x :: r => negb (existsb (bytes_eqb x) r) && nodupb r
  end.

(* the renaming keeps callable names distinct, so every DecId still resolves
   to (the renamed version of) the same definition *)
Definition ren_ok (rho : renaming) (a : ast) : bool :=
  nodupb (map (ren1 (rn_callable rho)) (callable_names a)).

(* the translation validator: b is a with the identifiers of rho renamed and
   the elements of d, which nothing refers to, removed *)
Definition same_up_to (rho : renaming) (d : removed) (a b : ast) : bool :=
  ren_ok rho a && unused_ok d a && ast_eqb (rename_ast rho (restrict_ast d a)) b.

(* verdict codes for the correspondence run: 0 valid, 1 callable names
   collide, 2 a survivor refers to a removed element, 3 the result is not the
   reference result *)
Definition verdict (rho : renaming) (d : removed) (a b : ast) : N :=
  if negb (ren_ok rho a) then 1%N
  else if negb (unused_ok d a) then 2%N
  else if ast_eqb (rename_ast rho (restrict_ast d a)) b then 0%N else 3%N.

Definition check_rename (e : edit) (a b : ast) : N := verdict (go_renaming e a) removed_none a b.
Definition check_removal (a b : ast) : N := verdict ren_none (diff_removed a b) a b.
(* the round trip restores the original program exactly *)
Definition check_roundtrip (a c : ast) : N := if ast_eqb a c then 0%N else 3%N.

(* ------------------------------------------------------------ several edits in one invocation *)

(* refactor.go Refactor performs the renames of one request one after the
   other, each on the Asts the earlier ones already modified (so a later edit
   names a callable by its new name), then the removals.  The reference result
   of the renames is the composition of the single reference renames, each
   with the renaming Go chooses on the intermediate program. *)
Fixpoint apply_edits (es : list edit) (a : ast) : option ast :=
  match es with
  | [] => Some a
  | e :: r =>
      let rho := go_renaming e a in
      if ren_ok rho a then apply_edits r (rename_ast rho a) else None
  end.

(* the same composition read on the call tree *)
Fixpoint apply_edits_tree (es : list edit) (a : ast) (t : tree) : tree :=
  match es with
  | [] => t
  | e :: r =>
      let rho := go_renaming e a in
      apply_edits_tree r (rename_ast rho a) (rename_tree rho [] [] t)
  end.

(* b is a after the renames es and then (rm) the removal of elements nothing
   refers to *)
Definition check_combo (es : list edit) (rm : bool) (a b : ast) : N :=
  match apply_edits es a with
  | None => 1%N
  | Some a' => if rm then check_removal a' b else if ast_eqb a' b then 0%N else 3%N
  end.
