(* Model of the attempt lifecycle of one job (a chunk, split or join
   Metadata object): martian/core/metadata.go uniquify / makeUniquifier /
   uncheckedReset / journalFile / cache, the job process writing journal
   entries under the prefix it was launched with, and Node.refreshState
   applying them.  No proofs here.

   Uniquifiers are abstract labels.  makeUniquifier is modelled as a counter
   (the process-wide count it adds to the time makes successive values
   strictly increasing); [reuse = true] is a reset that keeps the old
   uniquifier instead of minting one. *)
From Martian Require Import Lib.Bytes.
Local Open Scope N_scope.

Inductive aop :=
| OStart                       (* mrp prepares the job: Metadata.uniquify *)
| OReset                       (* mrp gives up on the attempt: uncheckedReset *)
| OWrite (k : nat) (f : bytes) (* the process of attempt k notifies file f *)
| ORefresh.                    (* mrp reads the journal *)

Record jstate := mkS {
  s_next : N;                          (* next value of makeUniquifier *)
  s_cur : option N;                    (* Metadata.uniquifier, None = empty *)
  s_atts : list N;                     (* uniquifier of attempt 0, 1, ... *)
  s_contents : list (nat * bytes);     (* recorded files, with the attempt that wrote them (ghost) *)
  (* journal directory: uniquifier, writer (ghost), file *)
  s_pending : list (N * nat * bytes) }.

Definition s_init : jstate := mkS 0 None [] [] [].

Definition astep (reuse : bool) (s : jstate) (o : aop) : jstate :=
  match o with
  | OStart =>
      match s_cur s with
      | Some _ => s
      | None =>
          mkS (s_next s + 1) (Some (s_next s)) (s_atts s ++ [s_next s])
              (s_contents s) (s_pending s)
      end
  | OReset =>
      match s_cur s with
      | None => mkS (s_next s) None (s_atts s) [] (s_pending s)
      | Some l =>
          let l' := if reuse then l else s_next s in
          (* journal files of the current prefix are removed *)
          mkS (s_next s + 1) (Some l') (s_atts s ++ [l']) []
              (filter (fun e => negb (fst (fst e) =? l)) (s_pending s))
      end
  | OWrite k f =>
      match nth_error (s_atts s) k with
      | Some l => mkS (s_next s) (s_cur s) (s_atts s) (s_contents s)
                      (s_pending s ++ [(l, k, f)])
      | None => s
      end
  | ORefresh =>
      let acc := filter (fun e => match s_cur s with
                                  | Some l => fst (fst e) =? l
                                  | None => false
                                  end) (s_pending s) in
      mkS (s_next s) (s_cur s) (s_atts s)
          (s_contents s ++ map (fun e => (snd (fst e), snd e)) acc) []
  end.

Definition arun (reuse : bool) (ops : list aop) : jstate :=
  fold_left (astep reuse) ops s_init.

(* Observables: which earlier attempt (first one) has the uniquifier of the
   current attempt, and the set of recorded file names. *)
Fixpoint first_index (l : N) (atts : list N) (i : nat) : option nat :=
  match atts with
  | [] => None
  | x :: r => if x =? l then Some i else first_index l r (S i)
  end.

Definition cur_class (s : jstate) : option nat :=
  match s_cur s with
  | Some l => first_index l (s_atts s) 0
  | None => None
  end.

Definition content_names (s : jstate) : list bytes :=
  isort bytes_leb
    (fold_right (fun f acc => if existsb (bytes_eqb f) acc then acc else f :: acc) []
       (map snd (s_contents s))).

(* per-op trace of observables *)
Fixpoint atrace (reuse : bool) (s : jstate) (ops : list aop)
  : list (option nat * nat * list bytes) :=
  match ops with
  | [] => []
  | o :: r =>
      let s' := astep reuse s o in
      (cur_class s', length (s_atts s'), content_names s') :: atrace reuse s' r
  end.
