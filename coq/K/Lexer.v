(* Model of martian/syntax/tokenizer.go (nextToken, keywordToken, the four
   token regular expressions as hand-written recognisers, leadingSpace,
   tokCommentRule) and of the scanner loop mmLexInfo.Lex of lexer.go with its
   line/column bookkeeping.  The dispatch classes and the keyword table come
   from the source (Extracted.Lexer).  No proofs here. *)
From Martian Require Import Lib.Bytes Lib.Utf8 K.ParseNum K.Unquote Extracted.Lexer.
Local Open Scope N_scope.

Inductive tok :=
| TSkip | TComment | TInvalid
| TPunct (c : byte)
| TKw (name : bytes)          (* a keyword token, by the name of its token constant *)
| TId | TStr | TFloat | TInt.

(* ------------------------------------------------------------ character classes *)

Definition in_class (cls : list N) (b : byte) : bool := existsb (N.eqb (b2n b)) cls.

Definition is_upper (b : byte) : bool := (65 <=? b2n b) && (b2n b <=? 90).
Definition is_lower (b : byte) : bool := (97 <=? b2n b) && (b2n b <=? 122).
Definition is_alpha (b : byte) : bool := is_upper b || is_lower b.          (* [[:alpha:]] *)
Definition is_word (b : byte) : bool := is_alpha b || is_digit b || (b2n b =? 95).  (* \w *)
Definition is_xdigit (b : byte) : bool :=
  is_digit b || ((97 <=? b2n b) && (b2n b <=? 102)) || ((65 <=? b2n b) && (b2n b <=? 70)).

(* a word boundary after a word character: end of input or a non-word byte *)
Definition boundary_after_word (s : bytes) : bool :=
  match s with [] => true | c :: _ => negb (is_word c) end.

Fixpoint span (p : byte -> bool) (s : bytes) : nat :=
  match s with
  | c :: r => if p c then S (span p r) else O
  | [] => O
  end.

(* ------------------------------------------------------------ bytesPrefixString *)

Definition prefix_keyword (b s : bytes) : nat :=
  if is_prefix s b then
    match skipn (length s) b with
    | c :: _ => if is_word c then O else length s
    | [] => length s
    end
  else O.

(* the keyword clauses of keywordToken: first literal that matches wins *)
Fixpoint find_keyword (tbl : list (list N * list N)) (b : bytes) : option (bytes * nat) :=
  match tbl with
  | [] => None
  | (text, name) :: rest =>
      match prefix_keyword b (map n2b text) with
      | O => find_keyword rest b
      | n => Some (map n2b name, n)
      end
  end.

(* ------------------------------------------------------------ leadingSpace *)

(* unicode.IsSpace for runes above 0x7f *)
Definition is_space_rune (r : N) : bool :=
  (r =? 133) || (r =? 160) || (r =? 5760) || ((8192 <=? r) && (r <=? 8202))
  || (r =? 8232) || (r =? 8233) || (r =? 8239) || (r =? 8287) || (r =? 12288).

Fixpoint leading_space (skip : nat) (s : bytes) : nat :=
  match s with
  | [] => O
  | b :: r =>
      match skip with
      | S k => S (leading_space k r)
      | O =>
          if b2n b <? 128 then
            if in_class lexer_space b then S (leading_space 0 r) else O
          else
            match utf8_len s with
            | O => O                                   (* RuneError *)
            | S k => if is_space_rune (utf8_rune s) then S (leading_space k r) else O
            end
      end
  end.

(* ------------------------------------------------------------ tokCommentRule *)

Fixpoint comment_body (skip : nat) (s : bytes) : nat :=
  match s with
  | [] => O
  | b :: r =>
      match skip with
      | S k => S (comment_body k r)
      | O =>
          match utf8_len s with
          | O => O                                     (* invalid UTF-8 ends the comment *)
          | S k =>
              if utf8_rune s =? 65533 then O          (* so does an encoded U+FFFD *)
              else if b2n b =? 10 then 1%nat
              else S (comment_body k r)
          end
      end
  end.

Definition tok_comment (b : bytes) : nat :=
  match b with
  | c :: r => if in_class lexer_comment_start c then S (comment_body 0 r) else O
  | [] => O
  end.

(* ------------------------------------------------------------ tokStringRule *)

Definition is_simple_escape (c : byte) : bool :=     (* [abfnrtv] backslash quote *)
  in_class [97; 98; 102; 110; 114; 116; 118; 92; 34] c.

Definition opt_add (k : nat) (o : option nat) : option nat :=
  match o with Some n => Some (k + n)%nat | None => None end.

(* after the opening quote: the number of bytes up to and including the
   closing quote *)
Fixpoint str_body (s : bytes) : option nat :=
  match s with
  | [] => None
  | c :: r =>
      if beq c c_dquote then Some 1%nat
      else if beq c c_backslash then
        match r with
        | [] => None
        | c2 :: v =>
            if is_simple_escape c2 then opt_add 2 (str_body v)
            else if is_octal c2 then
              match v with
              | o1 :: o2 :: v' => if is_octal o1 && is_octal o2 then opt_add 4 (str_body v') else None
              | _ => None
              end
            else if b2n c2 =? 120 then
              match v with
              | h0 :: h1 :: v' => if is_xdigit h0 && is_xdigit h1 then opt_add 4 (str_body v') else None
              | _ => None
              end
            else if b2n c2 =? 117 then
              match v with
              | h0 :: h1 :: h2 :: h3 :: v' =>
                  if is_xdigit h0 && is_xdigit h1 && is_xdigit h2 && is_xdigit h3
                  then opt_add 6 (str_body v') else None
              | _ => None
              end
            else if b2n c2 =? 85 then
              match v with
              | h0 :: h1 :: h2 :: h3 :: h4 :: h5 :: h6 :: h7 :: v' =>
                  if is_xdigit h0 && is_xdigit h1 && is_xdigit h2 && is_xdigit h3
                     && is_xdigit h4 && is_xdigit h5 && is_xdigit h6 && is_xdigit h7
                  then opt_add 10 (str_body v') else None
              | _ => None
              end
            else None
        end
      else opt_add 1 (str_body r)
  end.

Definition tok_string (b : bytes) : nat :=
  match b with
  | c :: r =>
      if beq c c_dquote then match str_body r with Some n => S n | None => O end else O
  | [] => O
  end.

(* ------------------------------------------------------------ numeric rules *)

Definition opt_minus (s : bytes) : nat * bytes :=
  match s with
  | c :: r => if beq c c_minus then (1%nat, r) else (O, s)
  | [] => (O, s)
  end.

(* digits followed by a word boundary: \d+\b *)
Definition digits_boundary (s : bytes) : option nat :=
  let d := span is_digit s in
  if Nat.eqb d 0 then None
  else if boundary_after_word (skipn d s) then Some d else None.

(* The float rule.  [colon = false]:
     ^-?\d+(?:(?:\.\d+)?[eE][+-]?|\.)\d+\b
   [colon = true] is the rule as it was before the repair, (:?(?:\.\d+)?...  *)
Definition tok_float_gen (colon : bool) (b : bytes) : nat :=
  let '(sg, s0) := opt_minus b in
  let d1 := span is_digit s0 in
  if Nat.eqb d1 0 then O
  else
    let s1 := skipn d1 s0 in
    (* first alternative *)
    let '(k0, s1c) :=
      match s1 with
      | c :: r => if colon && beq c c_colon then (1%nat, r) else (O, s1)
      | [] => (O, s1)
      end in
    let '(k1, s2) :=
      match s1c with
      | c :: r =>
          if beq c c_dot then
            let d := span is_digit r in
            if Nat.eqb d 0 then (O, s1c) else (S d, skipn d r)
          else (O, s1c)
      | [] => (O, s1c)
      end in
    let alt1 :=
      match s2 with
      | c :: r =>
          if is_e c then
            let '(k2, s3) :=
              match r with
              | c2 :: r2 => if beq c2 c_plus || beq c2 c_minus then (1%nat, r2) else (O, r)
              | [] => (O, r)
              end in
            match digits_boundary s3 with
            | Some d3 => Some (sg + d1 + k0 + k1 + 1 + k2 + d3)%nat
            | None => None
            end
          else None
      | [] => None
      end in
    match alt1 with
    | Some n => n
    | None =>
        (* second alternative: \. *)
        match s1 with
        | c :: r =>
            if beq c c_dot then
              match digits_boundary r with
              | Some d => (sg + d1 + 1 + d)%nat
              | None => O
              end
            else O
        | [] => O
        end
    end.

Definition tok_float : bytes -> nat := tok_float_gen false.

(* ^-?0*\d{1,19}\b *)
Definition tok_int (b : bytes) : nat :=
  let '(sg, s0) := opt_minus b in
  let d := span is_digit s0 in
  let z := span (fun c => beq c c_zero) s0 in
  if Nat.eqb d 0 then O
  else if Nat.leb (d - z) 19 && boundary_after_word (skipn d s0) then (sg + d)%nat
  else O.

(* ^_?[[:alpha:]]\w*\b *)
Definition tok_id (b : bytes) : nat :=
  let '(u, s0) :=
    match b with
    | c :: r => if b2n c =? 95 then (1%nat, r) else (O, b)
    | [] => (O, b)
    end in
  match s0 with
  | c :: r => if is_alpha c then (u + 1 + span is_word r)%nat else O
  | [] => O
  end.

(* ------------------------------------------------------------ keywordToken / nextToken *)

Definition keyword_token (float_rule : bytes -> nat) (b : bytes) : tok * nat :=
  match b with
  | [] => (TInvalid, O)
  | r :: _ =>
      if in_class lexer_punct r then (TPunct r, 1%nat)
      else if in_class lexer_string_start r then (TStr, tok_string b)
      else if in_class lexer_comment_start r then (TComment, tok_comment b)
      else if in_class lexer_space r then (TSkip, leading_space 0 b)
      else if in_class lexer_num_start r then
        match float_rule b with
        | O => (TInt, tok_int b)
        | n => (TFloat, n)
        end
      else if in_class lexer_id_start r then (TId, tok_id b)
      else
        match find_keyword lexer_keywords b with
        | Some (name, n) => (TKw name, n)
        | None => if 128 <? b2n r then (TSkip, leading_space 0 b) else (TInvalid, O)
        end
  end.

(* nextToken without the range checks (the code before the repair, given the
   float rule) *)
Definition next_token_unchecked (float_rule : bytes -> nat) (b : bytes) : tok * nat :=
  match keyword_token float_rule b with
  | (t, S n) => (t, S n)
  | (_, O) =>
      match tok_id b with
      | O => (TInvalid, O)
      | n => (TId, n)
      end
  end.

(* nextToken *)
Definition next_token (b : bytes) : tok * nat :=
  match next_token_unchecked tok_float b with
  | (TInt, n) => if int_token_in_range (firstn n b) then (TInt, n) else (TInvalid, n)
  | (TFloat, n) => if float_parses (firstn n b) then (TFloat, n) else (TInvalid, n)
  | x => x
  end.

(* What the grammar action does with the token text. *)
Inductive action_result :=
| AInt (z : Z) | AFloat | AStr (v : bytes) | ANone | APanic.

Definition token_action (t : tok) (v : bytes) : action_result :=
  match t with
  | TInt => match parse_int v with IOk z => AInt z | IPanic => APanic end
  | TFloat => match parse_float v with FOk => AFloat | FPanic => APanic end
  | TStr => match unquote v with Some u => AStr u | None => APanic end
  | _ => ANone
  end.

(* ------------------------------------------------------------ mmLexInfo.Lex *)

Record lexst := {
  l_src : bytes;          (* src[pos:] *)
  l_line : Z; l_col : Z;  (* loc *)
  l_toklen : Z;           (* len(token) *)
  l_inc : bool            (* incCol *)
}.

Record tokrec := { t_tok : tok; t_len : nat; t_line : Z; t_col : Z }.

Definition skip_loc (val : bytes) (line col : Z) : Z * Z :=
  fold_left (fun '(l, c) b => if b2n b =? 10 then (l + 1, 1)%Z else (l, c + 1)%Z) val (line, col).

(* All tokens the parser is handed, up to end of input or the first INVALID;
   comments are recorded too (kind TComment, at the location the comment block
   gets).  None: out of fuel. *)
Fixpoint lex_all (fuel : nat) (st : lexst) : option (list tokrec) :=
  match fuel with
  | O => None
  | S f =>
      match l_src st with
      | [] => Some []
      | _ =>
          let '(t, n) := next_token (l_src st) in
          let col1 := if l_inc st then (l_col st + l_toklen st)%Z else l_col st in
          let rest := skipn n (l_src st) in
          match t with
          | TSkip =>
              let '(line', col') := skip_loc (firstn n (l_src st)) (l_line st) col1 in
              lex_all f {| l_src := rest; l_line := line'; l_col := col';
                           l_toklen := l_toklen st; l_inc := false |}
          | TComment =>
              match lex_all f {| l_src := rest; l_line := (l_line st + 1)%Z; l_col := 1%Z;
                                 l_toklen := l_toklen st; l_inc := false |} with
              | Some l => Some ({| t_tok := TComment; t_len := n; t_line := l_line st; t_col := col1 |} :: l)
              | None => None
              end
          | TInvalid =>
              Some [{| t_tok := TInvalid; t_len := n; t_line := l_line st; t_col := col1 |}]
          | _ =>
              match lex_all f {| l_src := rest; l_line := l_line st; l_col := col1;
                                 l_toklen := Z.of_nat n; l_inc := true |} with
              | Some l => Some ({| t_tok := t; t_len := n; t_line := l_line st; t_col := col1 |} :: l)
              | None => None
              end
          end
      end
  end.

Definition lex_init (src : bytes) : lexst :=
  {| l_src := src; l_line := 1; l_col := 1; l_toklen := 0; l_inc := false |}.

Definition lex_source (src : bytes) : option (list tokrec) :=
  lex_all (S (length src)) (lex_init src).

(* ------------------------------------------------------------ src_stm action *)

(* strings.Fields / strings.TrimSpace split on unicode.IsSpace *)
Definition is_space_at (s : bytes) : nat :=        (* width of the space rune at the head, 0 if none *)
  match s with
  | [] => O
  | b :: _ =>
      if b2n b <? 128 then (if in_class [9; 10; 11; 12; 13; 32] b then 1%nat else O)
      else match utf8_len s with
           | O => O
           | S k => if is_space_rune (utf8_rune s) then S k else O
           end
  end.

(* fields: cur is the current field reversed; skip counts continuation bytes
   of a space rune still to drop *)
Fixpoint fields_aux (skip : nat) (cur : bytes) (s : bytes) : list bytes :=
  match s with
  | [] => match cur with [] => [] | _ => [rev cur] end
  | b :: r =>
      match skip with
      | S k => fields_aux k cur r
      | O =>
          match is_space_at s with
          | O => fields_aux 0 (b :: cur) r
          | S k => match cur with
                   | [] => fields_aux k [] r
                   | _ => rev cur :: fields_aux k [] r
                   end
          end
      end
  end.
Definition fields (s : bytes) : list bytes := fields_aux 0 [] s.

(* the src_stm action: Path = parts[0], Args = parts[1:]; None is the located
   error the action reports for an empty command *)
Definition src_action (cmd : bytes) : option (bytes * list bytes) :=
  match fields cmd with
  | [] => None
  | p :: args => Some (p, args)
  end.

(* the action before the repair indexed parts[0] unconditionally *)
Inductive src_result := SrcOk (path : bytes) (args : list bytes) | SrcPanic.
Definition src_action_unrepaired (cmd : bytes) : src_result :=
  match fields cmd with
  | [] => SrcPanic
  | p :: args => SrcOk p args
  end.

(* ------------------------------------------------------------ observations *)

(* what one nextToken call followed by the grammar action's converter yields *)
Definition token_observation (b : bytes) : tok * nat * action_result :=
  let '(t, n) := next_token b in (t, n, token_action t (firstn n b)).

(* decimal digits of a number (for printing observations) *)
Fixpoint dec_of_N_aux (fuel : nat) (n : N) (acc : bytes) : bytes :=
  match fuel with
  | O => acc
  | S f =>
      let acc' := n2b (48 + n mod 10) :: acc in
      if n / 10 =? 0 then acc' else dec_of_N_aux f (n / 10) acc'
  end.
Definition dec_of_N (n : N) : bytes := dec_of_N_aux (S (N.to_nat (N.log2 n))) n [].
Definition dec_of_Z (z : Z) : bytes :=
  match z with
  | Zneg p => c_minus :: dec_of_N (Npos p)
  | _ => dec_of_N (Z.to_N z)
  end.
