(* Model of fork naming in martian/core/fork.go (makeKeySafe = url.PathEscape,
   ForkSourcePart.ForkIdString, ForkId.ForkIdString / forkId, writeForkIndex,
   writePaddedIndex, util.WidthForInt) and of encodeJournalName
   (martian/core/stage.go).  No proofs here. *)
From Martian Require Import Lib.Bytes Extracted.Journal.
Local Open Scope N_scope.

(* ------------------------------------------------------------ byte codes *)
Definition c_pct : byte := n2b 37.
Definition c_dot : byte := n2b 46.
Definition c_slash : byte := n2b 47.
Definition c_us : byte := n2b 95.
Definition c_0 : byte := n2b 48.

(* Concatenation of a per-byte code: both url.PathEscape and the byte-wise
   strings.Replacer are of this form. *)
Definition encode_with (code : byte -> bytes) (s : bytes) : bytes :=
  flat_map code s.

(* ------------------------------------------------ url.PathEscape (Go 1.23) *)
Definition upperhex (n : N) : byte :=
  n2b (if n <? 10 then 48 + n else 55 + n).

(* shouldEscape(c, encodePathSegment) *)
Definition should_escape (b : byte) : bool :=
  let n := b2n b in
  if ((97 <=? n) && (n <=? 122)) || ((65 <=? n) && (n <=? 90))
     || ((48 <=? n) && (n <=? 57)) then false
  else if (n =? 45) || (n =? 95) || (n =? 46) || (n =? 126) then false
  else if (n =? 36) || (n =? 38) || (n =? 43) || (n =? 58) || (n =? 61)
          || (n =? 64) then false
  else true.

Definition esc_code (b : byte) : bytes :=
  if should_escape b then [c_pct; upperhex (b2n b / 16); upperhex (b2n b mod 16)]
  else [b].

Definition path_escape (k : bytes) : bytes := encode_with esc_code k.

(* --------------------------------------- encodeJournalName (byte replacer) *)
(* Go builds a byte-wise replacer when every old string is one byte; the
   first pair for a byte wins.  The pairs come from the source. *)
Fixpoint jlookup (olds news : list (list N)) (n : N) : option (list N) :=
  match olds, news with
  | [o] :: olds', nw :: news' => if o =? n then Some nw else jlookup olds' news' n
  | _ :: olds', _ :: news' => jlookup olds' news' n
  | _, _ => None
  end.

Definition jcode (b : byte) : bytes :=
  match jlookup journal_replacer_old journal_replacer_new (b2n b) with
  | Some nw => map n2b nw
  | None => [b]
  end.

Definition journal_encode (s : bytes) : bytes := encode_with jcode s.

(* ---------------------------------------------------------------- decimals *)
Definition digit (n : N) : byte := n2b (48 + n).
Definition is_digit (b : byte) : bool := (48 <=? b2n b) && (b2n b <=? 57).

Fixpoint dec_aux (fuel : nat) (n : N) (acc : bytes) : bytes :=
  match fuel with
  | O => acc
  | S f =>
      let acc' := digit (n mod 10) :: acc in
      if n <? 10 then acc' else dec_aux f (n / 10) acc'
  end.

(* strconv.Itoa for a non-negative int *)
Definition print_dec (n : N) : bytes := dec_aux (S (N.to_nat (N.size n))) n [].

(* value of a digit string (leading zeros allowed) *)
Definition dec_val (s : bytes) : N :=
  fold_left (fun a b => 10 * a + (b2n b - 48)) s 0.

(* util.WidthForInt for max >= 0: the number of decimal digits *)
Definition width_for_int (n : N) : nat := length (print_dec n).

(* writePaddedIndex(forkDim, forkIndex) *)
Definition padded_index (dim idx : N) : bytes :=
  let id := print_dec idx in
  repeat c_0 (width_for_int (dim - 1) - length id) ++ id.

Definition s_fork : bytes := map n2b [102; 111; 114; 107].
Definition fork0 : bytes := s_fork ++ [c_0].            (* defaultFork *)
Definition s_fork_us : bytes := s_fork ++ [c_us].       (* prefix of a key fork *)

(* writeForkIndex *)
Definition write_fork_index (dim idx : N) : bytes :=
  if (dim <? 10) && (idx =? 0) then fork0 else s_fork ++ padded_index dim idx.

(* ------------------------------------------------------------- fork parts *)
Inductive fid := IArr (i : N) | IKey (k : bytes) | IEmpty | IUndet.
Inductive smode := MSingle | MArray | MMap.
Inductive frange := RNone | RArr (n : N) | RKeys (ks : list bytes).

(* What a ForkSourcePart answers through its interfaces: the source's call
   mode, KnownLength, ArrayLength / Keys, the explicit Range, the id. *)
Record part := mkPart {
  p_mode : smode; p_known : bool; p_srclen : N; p_srckeys : list bytes;
  p_range : frange; p_id : fid }.

Definition smode_eqb (a b : smode) : bool :=
  match a, b with
  | MSingle, MSingle | MArray, MArray | MMap, MMap => true
  | _, _ => false
  end.

Definition mem_bytes (k : bytes) (ks : list bytes) : bool := existsb (bytes_eqb k) ks.

(* ForkSourcePart.ForkIdString: the one-part special case.  None = error. *)
Definition part_id_string (p : part) : option bytes :=
  match p_mode p with
  | MSingle => Some fork0
  | m =>
      match p_id p with
      | IUndet | IEmpty => Some fork0
      | IArr i =>
          if negb (smode_eqb m MArray) then None
          else if p_known p && (p_srclen p <=? i) then None
          else if i =? 0 then Some fork0
          else Some (s_fork ++ print_dec i)
      | IKey k =>
          if negb (smode_eqb m MMap) then None
          else if p_known p && negb (mem_bytes k (p_srckeys p)) then None
          else Some (s_fork_us ++ path_escape k)
      end
  end.

(* GetRange().Length(); None = panic (unknown range) *)
Definition range_len (p : part) : option N :=
  if p_known p then
    Some (match p_mode p with
          | MArray => p_srclen p
          | MMap => N.of_nat (length (p_srckeys p))
          | MSingle => 1
          end)
  else
    match p_range p with
    | RNone => None
    | RArr n => Some n
    | RKeys ks => Some (N.of_nat (length ks))
    end.

(* GetRange().Allow(id), for an id that is IArr / IKey / IEmpty.
   false covers both a returned error and a panic. *)
Definition allow (p : part) : bool :=
  if p_known p then
    match p_id p, p_mode p with
    | IArr i, MArray => i <? p_srclen p
    | IKey k, MMap => mem_bytes k (p_srckeys p)
    | _, _ => false
    end
  else
    match p_id p, p_range p with
    | IArr i, RArr n => i <? n
    | IKey k, RKeys ks => mem_bytes k ks
    | _, _ => false
    end.

(* Source.ArrayLength() differs from the range length and the range has more
   than one element: a variable-length source. *)
Definition variable_len (p : part) (alen : N) : bool :=
  negb (p_known p && smode_eqb (p_mode p) MArray) && (1 <? alen).

(* ForkId.forkId(buf, start) as a function of the remaining parts.
   i0: this is the first part seen by the current invocation (i == 0);
   bufne: buf.Len() != 0 on entry of the current position;
   idx, dim: forkIndex, forkDim.
   Result: (isDefault, bytes appended to buf); None = error or panic.
   legacy = true is the code before the fix of the map-after-array case,
   which continued behind the key instead of at it. *)
Definition key_tail (r : option (bool * bytes)) : option bytes :=
  match r with
  | None => None
  | Some (true, s) => Some (c_slash :: s ++ fork0)
  | Some (false, s) => Some (c_slash :: s)
  end.

Fixpoint fork_go (legacy i0 bufne : bool) (idx dim : N) (ps : list part)
  : option (bool * bytes) :=
  match ps with
  | [] =>
      if (idx =? 0) && negb bufne then Some (true, [])
      else Some (false, write_fork_index dim idx)
  | p :: rest =>
      match p_id p with
      | IUndet => fork_go legacy false bufne idx dim rest
      | _ =>
          match range_len p with
          | None => None
          | Some alen =>
              if alen =? 0 then
                (* an empty inner collection: identified by the enclosing
                   indices (before the repairs: an empty id whenever idx <> 0,
                   i.e. the stage directory itself, shared by all such forks;
                   then the default id whenever idx = 0, even behind an
                   already written enclosing index, shared by all of those) *)
                if (idx =? 0) && negb bufne then Some (true, []) else Some (false, write_fork_index dim idx)
              else if negb (allow p) then None
              else
                match p_id p with
                | IArr a =>
                    if variable_len p alen && negb i0 then
                      match fork_go legacy false true a alen rest with
                      | None => None
                      | Some (d, s) =>
                          Some (d, write_fork_index dim idx ++ c_us :: s)
                      end
                    else fork_go legacy false bufne (idx + dim * a) (dim * alen) rest
                | IKey k =>
                    let seg :=
                      match rest with
                      | [] => Some (s_fork_us ++ path_escape k)
                      | _ =>
                          match key_tail (fork_go legacy true true 0 1 rest) with
                          | None => None
                          | Some t => Some (s_fork_us ++ path_escape k ++ t)
                          end
                      end in
                    if i0 then
                      match seg with None => None | Some s => Some (false, s) end
                    else if legacy then
                      match fork_go legacy true true 0 1 rest with
                      | None => None
                      | Some (d, s) =>
                          Some (d, write_fork_index dim idx ++ c_slash :: s)
                      end
                    else
                      match seg with
                      | None => None
                      | Some s =>
                          Some (false, write_fork_index dim idx ++ c_slash :: s)
                      end
                | _ => None
                end
          end
      end
  end.

(* ForkId.ForkIdString *)
Definition fork_id_gen (legacy : bool) (ps : list part) : option bytes :=
  match ps with
  | [] => Some fork0
  | [p] => part_id_string p
  | _ =>
      match fork_go legacy true false 0 1 ps with
      | None => None
      | Some (true, _) => Some fork0
      | Some (false, s) => Some s
      end
  end.

Definition fork_id : list part -> option bytes := fork_id_gen false.
Definition fork_id_legacy : list part -> option bytes := fork_id_gen true.

(* The journal token of a fork: what follows the node name in Fork.fqname. *)
Definition fork_journal_token (id : bytes) : bytes := journal_encode id.
