(* Model of the acquisition path of LocalJobManager.Enqueue
   (martian/core/jobmanager_local.go): every job takes the semaphores
   0 .. k-1 in this fixed order (cores, memory, virtual memory, processes:
   Extracted.Resources.enqueue_acquire_order), blocking in each one's FIFO
   queue, runs, and releases them in reverse order (the deferred Release
   calls).  Each Acquire / Release / Update call is one atomic step of the
   corresponding K/Semaphore client; the scheduler picks which job (or which
   availability update) moves next. *)
From Martian Require Import K.Semaphore.
Local Open Scope Z_scope.

Inductive pc :=
| Acq (i : nat)     (* holds semaphores < i; next: Acquire on i (i = k: the job process is running) *)
| Wait (i : nat)    (* holds semaphores < i; parked in the queue of i *)
| Rel (i : nat)     (* holds semaphores < i; next: Release of i-1 *)
| Done.

Record sys := mkSys {
  sy_sem : nat -> client;   (* semaphore i (with the ghost list of holders) *)
  sy_pc : nat -> pc         (* job j *)
}.

Definition upd {A} (f : nat -> A) (x : nat) (v : A) : nat -> A :=
  fun y => if Nat.eqb y x then v else f y.

Definition is_granted (j : nat) (ev : list event) : bool :=
  existsb (fun p => N.eqb (fst p) (N.of_nat j)) (grants ev).

(* the waiters whose channel was closed continue behind the semaphore *)
Definition wake (i : nat) (ev : list event) (pcs : nat -> pc) : nat -> pc :=
  fun j => if is_granted j ev then Acq (S i) else pcs j.

Section Jobs.
  Variable k : nat.                   (* number of semaphores *)
  Variable req : nat -> nat -> Z.     (* req j i: what job j acquires from semaphore i *)

  Definition job_step (st : sys) (j : nat) : sys :=
    match sy_pc st j with
    | Acq i =>
        if (i <? k)%nat then
          let '(c', ev) := cstep (sy_sem st i) (CAcquire (N.of_nat j) (req j i)) in
          let p' := match ev with
                    | EGrantNow _ _ :: _ => Acq (S i)
                    | EEnqueue _ _ :: _ => Wait i
                    | _ => Rel i            (* refused: the deferred releases run *)
                    end in
          mkSys (upd (sy_sem st) i c') (upd (sy_pc st) j p')
        else mkSys (sy_sem st) (upd (sy_pc st) j (Rel k))   (* the job process exits *)
    | Rel (S i) =>
        let '(c', ev) := cstep (sy_sem st i) (CRelease (N.of_nat j)) in
        mkSys (upd (sy_sem st) i c') (upd (wake i ev (sy_pc st)) j (Rel i))
    | Rel O => mkSys (sy_sem st) (upd (sy_pc st) j Done)
    | Wait _ => st
    | Done => st
    end.

  (* an availability update of semaphore i *)
  Definition upd_step (st : sys) (i : nat) (o : cop) : sys :=
    let '(c', ev) := cstep (sy_sem st i) o in
    mkSys (upd (sy_sem st) i c') (wake i ev (sy_pc st)).

  Inductive move := MJob (j : nat) | MUpd (i : nat) (o : cop).

  Definition sys_step (st : sys) (m : move) : sys :=
    match m with
    | MJob j => job_step st j
    | MUpd i o => upd_step st i o
    end.

  Definition sys_run (st : sys) (ms : list move) : sys := fold_left sys_step ms st.

  Definition enabled (st : sys) (j : nat) : bool :=
    match sy_pc st j with Acq _ | Rel _ => true | _ => false end.

  Definition is_done (p : pc) : bool := match p with Done => true | _ => false end.

  (* how many more steps job j can take at most *)
  Definition pc_measure (p : pc) : nat :=
    match p with
    | Done => 0
    | Rel i => S i
    | Wait i => k + 1 + 2 * (k - i)
    | Acq i => k + 2 + 2 * (k - i)
    end.

  Fixpoint measure_upto (n : nat) (pcs : nat -> pc) : nat :=
    match n with
    | O => O
    | S m => pc_measure (pcs m) + measure_upto m pcs
    end.

  Definition all_done (n : nat) (st : sys) : bool :=
    forallb (fun j => is_done (sy_pc st j)) (seq 0 n).

End Jobs.

Definition sys_init (sizes : nat -> Z) (n : nat) : sys :=
  mkSys (fun i => client_init (sizes i)) (fun j => if (j <? n)%nat then Acq 0 else Done).
