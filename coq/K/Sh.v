(* A model of the fragment of the POSIX shell command language that Martian's
   job scripts put values into: a simple command made of assignment words and
   words, each built from unquoted safe characters and double-quoted
   segments, separated by blanks and backslash-newline continuations.
   (POSIX.1-2017 Shell Command Language 2.2.1, 2.2.3, 2.3, 2.9.1.) *)
From Martian Require Import Lib.Bytes K.ShellQuote.
Local Open Scope N_scope.

Inductive shres (A : Type) :=
| Lit (v : A)          (* evaluation yields exactly this *)
| Expansion            (* the shell would perform an expansion/substitution *)
| Malformed.           (* outside the modelled fragment / syntax error *)
Arguments Lit {A}. Arguments Expansion {A}. Arguments Malformed {A}.

(* Inside double quotes (2.2.3): backslash keeps its special meaning only
   before dollar, backtick, double quote, backslash and newline; dollar and backtick introduce expansions. *)
Definition dq_special (d : byte) : bool :=
  beq d c_dollar || beq d c_btick || beq d c_dq || beq d c_bslash.

(* Scan the body of a double-quoted segment; returns the literal contents
   (reversed accumulator) and the rest of the input after the closing quote. *)
Fixpoint dq_scan (s : bytes) (acc : bytes) : shres (bytes * bytes) :=
  match s with
  | [] => Malformed
  | c :: r =>
      if beq c c_dq then Lit (rev acc, r)
      else if beq c c_bslash then
        match r with
        | [] => Malformed
        | d :: r' =>
            if dq_special d then dq_scan r' (d :: acc)
            else if beq d c_nl then dq_scan r' acc
            else dq_scan r' (d :: c :: acc)
        end
      else if beq c c_dollar || beq c c_btick then Expansion
      else dq_scan r (c :: acc)
  end.

(* Evaluation of a single word that is exactly one double-quoted segment. *)
Definition sh_dquote (w : bytes) : shres bytes :=
  match w with
  | c :: r =>
      if beq c c_dq then
        match dq_scan r [] with
        | Lit (v, []) => Lit v
        | Lit (_, _ :: _) => Malformed
        | Expansion => Expansion
        | Malformed => Malformed
        end
      else Malformed
  | [] => Malformed
  end.

Definition is_alpha_ (b : byte) : bool :=
  let n := b2n b in
  ((65 <=? n) && (n <=? 90)) || ((97 <=? n) && (n <=? 122)) || (n =? 95).
Definition is_digit (b : byte) : bool :=
  let n := b2n b in (48 <=? n) && (n <=? 57).
Definition is_name_char (b : byte) : bool := is_alpha_ b || is_digit b.
Definition is_name (s : bytes) : bool :=
  match s with
  | [] => false
  | c :: r => is_alpha_ c && forallb is_name_char r
  end.

(* Unquoted characters the model accepts inside a word: name characters and
   '='.  Everything else unquoted is outside the fragment. *)
Definition is_plain (b : byte) : bool := is_name_char b || beq b c_eq.

Definition is_blank (b : byte) : bool := beq b c_sp || beq b (n2b 9).

(* Tokeniser.  A word under construction records, for assignment recognition
   (POSIX 2.9.1 / 2.10.2 rule 7: a word is an assignment when the characters
   before the first unquoted '=' form a name), the unquoted prefix seen so far. *)
Record word := { w_name : option bytes;  (* Some n: saw unquoted  n=  at the start *)
                 w_pre : bytes;          (* unquoted prefix (reversed) while no '=' / quote seen *)
                 w_inpre : bool;
                 w_val : bytes }.        (* value so far, reversed *)

Definition w_empty : word :=
  {| w_name := None; w_pre := []; w_inpre := true; w_val := [] |}.

Definition w_push_plain (w : word) (c : byte) : word :=
  if w_inpre w then
    if beq c c_eq then
      if is_name (rev (w_pre w))
      then {| w_name := Some (rev (w_pre w)); w_pre := []; w_inpre := false; w_val := [] |}
      else {| w_name := None; w_pre := []; w_inpre := false; w_val := c :: w_val w |}
    else {| w_name := None; w_pre := c :: w_pre w; w_inpre := true; w_val := c :: w_val w |}
  else {| w_name := w_name w; w_pre := []; w_inpre := false; w_val := c :: w_val w |}.

(* a character contributed by a quoted segment *)
Definition w_push_q (w : word) (c : byte) : word :=
  {| w_name := w_name w; w_pre := []; w_inpre := false; w_val := c :: w_val w |}.
(* opening a quote: the word exists from here on even if the segment is empty *)
Definition w_open_q (w : word) : word :=
  {| w_name := w_name w; w_pre := []; w_inpre := false; w_val := w_val w |}.

Definition w_finish (w : word) : option bytes * bytes := (w_name w, rev (w_val w)).
Definition w_or_empty (cur : option word) : word :=
  match cur with Some w => w | None => w_empty end.
Definition flush (cur : option word) (acc : list (option bytes * bytes)) :=
  match cur with None => acc | Some w => w_finish w :: acc end.

Inductive mode :=
| MU    (* unquoted *)
| MUB   (* unquoted, after a backslash *)
| MQ    (* inside double quotes *)
| MQB.  (* inside double quotes, after a backslash *)

(* One byte per step, structurally recursive. *)
Fixpoint sh_run (s : bytes) (m : mode) (cur : option word)
  (acc : list (option bytes * bytes)) : shres (list (option bytes * bytes)) :=
  match s with
  | [] => match m with MU => Lit (rev (flush cur acc)) | _ => Malformed end
  | c :: r =>
      match m with
      | MU =>
          if is_blank c then sh_run r MU None (flush cur acc)
          else if beq c c_nl then
            (* an unescaped newline ends the command; nothing may follow *)
            match r with [] => Lit (rev (flush cur acc)) | _ => Malformed end
          else if beq c c_bslash then sh_run r MUB cur acc
          else if beq c c_dq then sh_run r MQ (Some (w_open_q (w_or_empty cur))) acc
          else if is_plain c then sh_run r MU (Some (w_push_plain (w_or_empty cur) c)) acc
          else Malformed
      | MUB =>
          (* only the line continuation (2.2.1) is inside the fragment *)
          if beq c c_nl then sh_run r MU cur acc else Malformed
      | MQ =>
          if beq c c_dq then sh_run r MU cur acc
          else if beq c c_bslash then sh_run r MQB cur acc
          else if beq c c_dollar || beq c c_btick then Expansion
          else sh_run r MQ (Some (w_push_q (w_or_empty cur) c)) acc
      | MQB =>
          if dq_special c then sh_run r MQ (Some (w_push_q (w_or_empty cur) c)) acc
          else if beq c c_nl then sh_run r MQ cur acc
          else sh_run r MQ
                 (Some (w_push_q (w_push_q (w_or_empty cur) c_bslash) c)) acc
      end
  end.

(* Split leading assignment words from the command words. *)
Fixpoint split_assign (ws : list (option bytes * bytes))
  : list (bytes * bytes) * list bytes :=
  match ws with
  | (Some n, v) :: r => let (a, c) := split_assign r in ((n, v) :: a, c)
  | _ => ([], map (fun w => match fst w with
                            | Some n => n ++ c_eq :: snd w
                            | None => snd w end) ws)
  end.

Definition sh_simple_command (s : bytes)
  : shres (list (bytes * bytes) * list bytes) :=
  match sh_run s MU None [] with
  | Lit ws => Lit (split_assign ws)
  | Expansion => Expansion
  | Malformed => Malformed
  end.
