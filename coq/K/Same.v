(* K/Same.v - the translation validator of property C09 and its specification.

   [ast_same a b] is run on every pair (compiled Ast of a source text, compiled
   Ast of what the formatter printed for it) dumped from the implementation by
   harness/internal/astdump.  It is STRICTER than Ast.EquivalentCall
   (K/Equiv.v): declarations, parameters with types / help / outname strings,
   stage src, resources, retains, bindings, literal VALUES (exactly, no
   tolerance), modifiers, call modes and the top-level call all have to agree.
   What may differ is exactly what the formatter is documented to change:

     - the order of the calls of a pipeline, as long as both orders respect the
       dependencies ([dep_ordered]: no call refers to itself or a later call);
     - the spelling of a number: a float literal whose value is an integer may
       come back as an int literal (1.0 is printed as 1), see [canon_exp];
     - the spelling of modifiers: [call local F()] and
       [call F() using (local = true)] - only the resulting flags and the
       disabled binding are compared, see [canon_mods].

   [same_ast] is the specification (a Prop); Proofs/Same.v proves
   ast_same a b = true -> same_ast a b.  Definitions only. *)
From Coq Require Import Permutation.
From Martian Require Import Lib.Bytes Mro.Ast.

(* ------------------------------------------------------------ canonical forms *)

(* the value of a literal: an integral dyadic m * 2^e (e >= 0; astdump keeps m
   odd, so e < 0 is never integral) is the integer *)
Fixpoint canon_exp (e : exp) : exp :=
  match e with
  | EArray xs => EArray (map canon_exp xs)
  | EMap k es => EMap k (map (fun kv => (fst kv, canon_exp (snd kv))) es)
  | EFloat m x => if (0 <=? x)%Z then EInt (m * 2 ^ x) else EFloat m x
  | ESplit x => ESplit (canon_exp x)
  | _ => e
  end.

Definition canon_bind (b : bind_stm) : bind_stm :=
  mk_bind (b_id b) (canon_exp (b_exp b)) (b_tname b).

(* what the modifiers of a call amount to after compilation *)
Record cmods := mk_cmods {
  cm_local : bool;
  cm_preflight : bool;
  cm_volatile : bool;
  cm_disabled : option bind_stm
}.
Definition canon_mods (m : modifiers) : cmods :=
  mk_cmods (m_local m) (m_preflight m) (m_volatile m)
           (option_map canon_bind (find_bind disabled_id (m_bindings m))).

Record ccall := mk_ccall {
  cc_id : bytes;
  cc_dec_id : bytes;
  cc_mods : option cmods;
  cc_bindings : list bind_stm;
  cc_mode : call_mode
}.
Definition canon_call (c : call_stm) : ccall :=
  mk_ccall (c_id c) (c_dec_id c) (option_map canon_mods (c_mods c))
           (map canon_bind (c_bindings c)) (c_mode c).

(* ------------------------------------------------------------ dependencies *)

(* the calls an expression refers to (directDepsMap/findDeps) *)
Fixpoint exp_call_refs (e : exp) : list bytes :=
  match e with
  | ERef RefCall id _ => [id]
  | EArray xs => flat_map exp_call_refs xs
  | EMap _ es => flat_map (fun kv => exp_call_refs (snd kv)) es
  | ESplit x => exp_call_refs x
  | _ => []
  end.

Definition binds_call_refs (l : list bind_stm) : list bytes :=
  flat_map (fun b => exp_call_refs (b_exp b)) l.

Definition call_refs (c : call_stm) : list bytes :=
  binds_call_refs (c_bindings c) ++
  match c_mods c with Some m => binds_call_refs (m_bindings m) | None => [] end.

Definition has_call (id : bytes) (l : list call_stm) : bool :=
  existsb (fun d => bytes_eqb (c_id d) id) l.

(* no call refers to itself or to a call that comes later *)
Fixpoint dep_ordered (calls : list call_stm) : bool :=
  match calls with
  | [] => true
  | c :: r => forallb (fun id => negb (has_call id (c :: r))) (call_refs c) && dep_ordered r
  end.

(* ------------------------------------------------------------ the specification *)

Definition same_pipeline (p q : pipeline) : Prop :=
  pl_id p = pl_id q /\ pl_ins p = pl_ins q /\ pl_outs p = pl_outs q /\
  option_map (map canon_bind) (pl_ret p) = option_map (map canon_bind) (pl_ret q) /\
  map canon_exp (pl_retain p) = map canon_exp (pl_retain q) /\
  Permutation (map canon_call (pl_calls p)) (map canon_call (pl_calls q)) /\
  dep_ordered (pl_calls p) = true /\ dep_ordered (pl_calls q) = true.

Definition same_callable (c d : callable) : Prop :=
  match c, d with
  | CStage s, CStage t => s = t
  | CPipeline p, CPipeline q => same_pipeline p q
  | _, _ => False
  end.

Definition same_ast (a b : ast) : Prop :=
  a_user_types a = a_user_types b /\
  a_struct_types a = a_struct_types b /\
  Forall2 same_callable (a_callables a) (a_callables b) /\
  a_compiled a = a_compiled b /\
  option_map canon_call (a_call a) = option_map canon_call (a_call b).

(* ------------------------------------------------------------ boolean equalities *)

Fixpoint list_eqb {A} (f : A -> A -> bool) (a b : list A) : bool :=
  match a, b with
  | [], [] => true
  | x :: a', y :: b' => f x y && list_eqb f a' b'
  | _, _ => false
  end.

Definition opt_eqb {A} (f : A -> A -> bool) (a b : option A) : bool :=
  match a, b with
  | None, None => true
  | Some x, Some y => f x y
  | _, _ => false
  end.

Definition dy_eqb (a b : Z * Z) : bool := ((fst a =? fst b) && (snd a =? snd b))%Z.

Definition map_kind_eqb (a b : map_kind) : bool :=
  match a, b with MapKindMap, MapKindMap | MapKindStruct, MapKindStruct => true | _, _ => false end.

Definition call_mode_eqb (a b : call_mode) : bool :=
  match a, b with
  | ModeSingleCall, ModeSingleCall | ModeArrayCall, ModeArrayCall | ModeMapCall, ModeMapCall
  | ModeUnknownMapCall, ModeUnknownMapCall | ModeNullMapCall, ModeNullMapCall => true
  | _, _ => false
  end.

Definition lang_eqb (a b : stage_lang) : bool :=
  match a, b with
  | LangUnknown, LangUnknown | LangPython, LangPython | LangExec, LangExec
  | LangCompiled, LangCompiled => true
  | _, _ => false
  end.

(* structural equality of expressions *)
Fixpoint exp_eqb (a b : exp) {struct a} : bool :=
  match a, b with
  | EArray xs, EArray ys =>
      (fix go (xs ys : list exp) : bool :=
         match xs, ys with
         | [], [] => true
         | x :: xs', y :: ys' => exp_eqb x y && go xs' ys'
         | _, _ => false
         end) xs ys
  | EMap k es, EMap k' fs =>
      map_kind_eqb k k' &&
      (fix go (es fs : list (bytes * exp)) : bool :=
         match es, fs with
         | [], [] => true
         | kv :: es', kw :: fs' => bytes_eqb (fst kv) (fst kw) && exp_eqb (snd kv) (snd kw) && go es' fs'
         | _, _ => false
         end) es fs
  | EString s, EString t => bytes_eqb s t
  | EBool x, EBool y => Bool.eqb x y
  | EInt x, EInt y => (x =? y)%Z
  | EFloat m e, EFloat m' e' => ((m =? m') && (e =? e'))%Z
  | ENull, ENull => true
  | ERef k i o, ERef k' i' o' => ref_kind_eqb k k' && bytes_eqb i i' && bytes_eqb o o'
  | ESplit x, ESplit y => exp_eqb x y
  | _, _ => false
  end.

(* same literal value / same reference *)
Definition exp_same (a b : exp) : bool := exp_eqb (canon_exp a) (canon_exp b).

Definition bind_same (a b : bind_stm) : bool :=
  bytes_eqb (b_id a) (b_id b) && exp_same (b_exp a) (b_exp b) && type_id_eqb (b_tname a) (b_tname b).

Definition mods_same (a b : modifiers) : bool :=
  Bool.eqb (m_local a) (m_local b) && Bool.eqb (m_preflight a) (m_preflight b) &&
  Bool.eqb (m_volatile a) (m_volatile b) &&
  opt_eqb bind_same (find_bind disabled_id (m_bindings a)) (find_bind disabled_id (m_bindings b)).

Definition call_same (a b : call_stm) : bool :=
  bytes_eqb (c_id a) (c_id b) && bytes_eqb (c_dec_id a) (c_dec_id b) &&
  opt_eqb mods_same (c_mods a) (c_mods b) &&
  list_eqb bind_same (c_bindings a) (c_bindings b) &&
  call_mode_eqb (c_mode a) (c_mode b).

Definition member_eqb (a b : struct_member) : bool :=
  bytes_eqb (sm_id a) (sm_id b) && type_id_eqb (sm_tname a) (sm_tname b) &&
  bytes_eqb (sm_outname a) (sm_outname b) && bytes_eqb (sm_help a) (sm_help b) &&
  file_kind_eqb (sm_isfile a) (sm_isfile b) && Bool.eqb (sm_complex a) (sm_complex b) &&
  Bool.eqb (sm_basefile a) (sm_basefile b).

Definition struct_eqb (a b : struct_type) : bool :=
  bytes_eqb (sd_id a) (sd_id b) && list_eqb member_eqb (sd_members a) (sd_members b) &&
  file_kind_eqb (sd_isfile a) (sd_isfile b).

Definition in_eqb (a b : in_param) : bool :=
  bytes_eqb (ip_id a) (ip_id b) && type_id_eqb (ip_tname a) (ip_tname b) &&
  bytes_eqb (ip_help a) (ip_help b) && file_kind_eqb (ip_isfile a) (ip_isfile b) &&
  Bool.eqb (ip_basefile a) (ip_basefile b).

Definition src_eqb (a b : src_param) : bool :=
  lang_eqb (src_lang a) (src_lang b) && bytes_eqb (src_path a) (src_path b) &&
  list_eqb bytes_eqb (src_args a) (src_args b).

Definition res_eqb (a b : resources) : bool :=
  bytes_eqb (r_special a) (r_special b) && dy_eqb (r_threads a) (r_threads b) &&
  dy_eqb (r_mem_gb a) (r_mem_gb b) && dy_eqb (r_vmem_gb a) (r_vmem_gb b) &&
  Bool.eqb (r_strict_volatile a) (r_strict_volatile b).

Definition stage_eqb (a b : stage) : bool :=
  bytes_eqb (st_id a) (st_id b) && list_eqb in_eqb (st_ins a) (st_ins b) &&
  list_eqb member_eqb (st_outs a) (st_outs b) && Bool.eqb (st_split a) (st_split b) &&
  list_eqb in_eqb (st_chunk_ins a) (st_chunk_ins b) &&
  list_eqb member_eqb (st_chunk_outs a) (st_chunk_outs b) &&
  list_eqb bytes_eqb (st_retain a) (st_retain b) && src_eqb (st_src a) (st_src b) &&
  opt_eqb res_eqb (st_resources a) (st_resources b).

(* l2 without the first element that satisfies f; None if there is none *)
Fixpoint remove_match {A} (f : A -> bool) (l : list A) : option (list A) :=
  match l with
  | [] => None
  | y :: r => if f y then Some r
              else match remove_match f r with Some r' => Some (y :: r') | None => None end
  end.

(* l1 is a rearrangement of l2, elements matched by [same] *)
Fixpoint perm_check {A} (same : A -> A -> bool) (l1 l2 : list A) : bool :=
  match l1 with
  | [] => match l2 with [] => true | _ => false end
  | x :: r => match remove_match (same x) l2 with
              | Some l2' => perm_check same r l2'
              | None => false
              end
  end.

Definition pipeline_same (p q : pipeline) : bool :=
  bytes_eqb (pl_id p) (pl_id q) && list_eqb in_eqb (pl_ins p) (pl_ins q) &&
  list_eqb member_eqb (pl_outs p) (pl_outs q) &&
  opt_eqb (list_eqb bind_same) (pl_ret p) (pl_ret q) &&
  list_eqb exp_same (pl_retain p) (pl_retain q) &&
  perm_check call_same (pl_calls p) (pl_calls q) &&
  dep_ordered (pl_calls p) && dep_ordered (pl_calls q).

Definition callable_same (c d : callable) : bool :=
  match c, d with
  | CStage s, CStage t => stage_eqb s t
  | CPipeline p, CPipeline q => pipeline_same p q
  | _, _ => false
  end.

(* the validator *)
Definition ast_same (a b : ast) : bool :=
  list_eqb bytes_eqb (a_user_types a) (a_user_types b) &&
  list_eqb struct_eqb (a_struct_types a) (a_struct_types b) &&
  list_eqb callable_same (a_callables a) (a_callables b) &&
  Bool.eqb (a_compiled a) (a_compiled b) &&
  opt_eqb call_same (a_call a) (a_call b).

(* the calls of every pipeline in the order they are in: used to tie the
   implementation's sort to K/TopoSort *)
Definition call_ids (p : pipeline) : list bytes := map c_id (pl_calls p).
