(* K/Equiv.v - model of martian/syntax/equivalence.go (what decides whether a
   re-attach is refused), clause by clause, on Mro/Ast.v values, and the
   specification it is measured against: [norm] erases exactly what property
   C15 calls cosmetic, [call_sim] says two normalised programs have the same
   content.  Definitions only; proofs are in Proofs/Equiv.v.

   Correspondence (checked on every run by checks/c15.py):
     Ast.EquivalentCall       ~ equiv_call
     CallStm.EquivalentTo     ~ call_equiv
     BindStms.Equals          ~ binds_equal
     BindStm.Equals/Exp.equal ~ bind_equals / exp_equal
     Modifiers.EquivalentTo   ~ mods_equiv
     InParams/OutParams.Equals~ in_params_equal / out_params_equal
     Pipeline/Stage.EquivalentTo ~ pipeline/stage clauses of call_equiv
   The constants (modifier name, wildcard id, float tolerance) come from
   Extracted/Equiv.v, regenerated from the Go AST.

   [*_v0] definitions are the two clauses as they were before the fix: commits
   (kept so that the refutation lemmas document the defects). *)
From Martian Require Import Lib.Bytes Mro.Ast Extracted.Equiv.

Definition star : bytes := map n2b equiv_star_id.
Definition disabled : bytes := map n2b equiv_disabled_name.

(* ------------------------------------------------------------------ *)
(* float64 arithmetic on exact dyadics (m, e) = m * 2^e, as far as     *)
(* IntExp.equal / FloatExp.equal need it: conversion int64 -> float64, *)
(* subtraction, multiplication, absolute value, comparison; round to   *)
(* nearest even, 53 bits, gradual underflow at 2^-1074.  Overflow is   *)
(* not clamped to +Inf: the exact rounded value is kept, which orders  *)
(* the same way against every finite float.                            *)
(* ------------------------------------------------------------------ *)
Definition dy := (Z * Z)%type.

Fixpoint pos_strip (p : positive) (e : Z) : positive * Z :=
  match p with
  | xO q => pos_strip q (e + 1)%Z
  | _ => (p, e)
  end.

(* canonical form: odd mantissa, or (0,0) *)
Definition dy_norm (m e : Z) : dy :=
  match m with
  | Z0 => (0, 0)%Z
  | Zpos p => let '(q, e') := pos_strip p e in (Zpos q, e')
  | Zneg p => let '(q, e') := pos_strip p e in (Zneg q, e')
  end.

Definition fround (m e : Z) : dy :=
  let a := Z.abs m in
  if (a =? 0)%Z then (0, 0)%Z else
  let n := (Z.log2 a + 1)%Z in
  let sh := Z.max (n - 53) (-1074 - e) in
  if (sh <=? 0)%Z then dy_norm m e else
  let q := (a / 2 ^ sh)%Z in
  let r := (a mod 2 ^ sh)%Z in
  let half := (2 ^ (sh - 1))%Z in
  let q' := if (half <? r)%Z || ((r =? half)%Z && Z.odd q) then (q + 1)%Z else q in
  dy_norm (Z.sgn m * q') (e + sh).

Definition dy_align (a b : dy) : Z * Z :=
  let em := Z.min (snd a) (snd b) in
  (fst a * 2 ^ (snd a - em), fst b * 2 ^ (snd b - em))%Z.

Definition fsub (a b : dy) : dy :=
  let '(x, y) := dy_align a b in fround (x - y) (Z.min (snd a) (snd b)).
Definition fmul (a b : dy) : dy := fround (fst a * fst b) (snd a + snd b).
Definition fabs (a : dy) : dy := (Z.abs (fst a), snd a).
Definition fleb (a b : dy) : bool := let '(x, y) := dy_align a b in (x <=? y)%Z.
Definition feqb (a b : dy) : bool := let '(x, y) := dy_align a b in (x =? y)%Z.

(* float64(int64) *)
Definition float_of_int (z : Z) : dy := fround z 0.

(* the tolerance literal of FloatExp.equal as the float64 the compiler makes *)
Definition tol : dy := (Z.of_N equiv_tol_m, - Z.of_N equiv_tol_negexp)%Z.

(* FloatExp.equal: math.Abs(other-exp) <= math.Abs(exp)*tol *)
Definition float_close (exp other : dy) : bool :=
  fleb (fabs (fsub other exp)) (fmul (fabs exp) tol).

(* ------------------------------------------------------------------ *)
(* Exp.equal                                                            *)
(* ------------------------------------------------------------------ *)
Fixpoint exp_equal (a b : exp) {struct a} : bool :=
  match a, b with
  | EString s, EString t => bytes_eqb s t
  | EBool x, EBool y => Bool.eqb x y
  | EInt x, EInt y => (x =? y)%Z
  | EInt x, EFloat m e => feqb (m, e) (float_of_int x)
  | EFloat m e, EInt y => feqb (float_of_int y) (m, e)
  | EFloat m e, EFloat m' e' => float_close (m, e) (m', e')
  | ENull, ENull => true
  | EMap _ es, EMap _ fs =>
      Nat.eqb (length es) (length fs) &&
      (fix go (es : list (bytes * exp)) : bool :=
         match es with
         | [] => true
         | (k, v) :: r =>
             match assoc_exp k fs with
             | Some v' => exp_equal v v'
             | None => false
             end && go r
         end) es
  | EArray xs, EArray ys =>
      Nat.eqb (length xs) (length ys) &&
      (fix go (xs ys : list exp) : bool :=
         match xs, ys with
         | x :: xs', y :: ys' => exp_equal x y && go xs' ys'
         | _, _ => true
         end) xs ys
  | ESplit x, ESplit y => exp_equal x y
  | ERef k i o, ERef k' i' o' => ref_kind_eqb k k' && bytes_eqb i i' && bytes_eqb o o'
  | _, _ => false
  end.

(* BindStm.Equals (Exp is never nil in a compiled Ast) *)
Definition bind_equals (a b : bind_stm) : bool :=
  bytes_eqb (b_id a) (b_id b) && exp_equal (b_exp a) (b_exp b).

(* BindStms.Equals.  other.Table[b.Id] is a lookup in the list: the table
   holds every entry but the wildcard, and the wildcard is never looked up. *)
Definition bind_in (other : list bind_stm) (b : bind_stm) : bool :=
  if bytes_eqb (b_id b) star then true
  else match find_bind (b_id b) other with
       | Some ob => bind_equals b ob
       | None => false
       end.

Definition binds_equal (mine other : list bind_stm) : bool :=
  match mine with
  | [] => match other with [] => true | _ => false end
  | _ => Nat.eqb (length other) (length mine) && forallb (bind_in other) mine
  end.

(* ------------------------------------------------------------------ *)
(* Modifiers.EquivalentTo                                               *)
(* ------------------------------------------------------------------ *)
Definition disabled_bind (m : modifiers) : option bind_stm :=
  find_bind disabled (m_bindings m).

(* other == nil *)
Definition mods_equiv_nil (m : modifiers) : bool :=
  if m_local m || m_preflight m then false
  else match disabled_bind m with None => true | Some _ => false end.

Definition mods_equiv_some (m o : modifiers) : bool :=
  if negb (Bool.eqb (m_local m) (m_local o)) || negb (Bool.eqb (m_preflight m) (m_preflight o))
  then false
  else match disabled_bind m with
       | Some b =>
           match m_bindings o with
           | [] => false
           | _ => match disabled_bind o with
                  | None => false
                  | Some ob => bind_equals b ob
                  end
           end
       | None => match disabled_bind o with None => true | Some _ => false end
       end.

Definition mods_equiv (m o : option modifiers) : bool :=
  match m, o with
  | None, None => true
  | None, Some x => mods_equiv_nil x
  | Some x, None => mods_equiv_nil x
  | Some x, Some y => mods_equiv_some x y
  end.

(* before the fix: `ob := mods.Bindings.Table[disabled]` looked the binding up
   in the receiver again *)
Definition mods_equiv_some_v0 (m o : modifiers) : bool :=
  if negb (Bool.eqb (m_local m) (m_local o)) || negb (Bool.eqb (m_preflight m) (m_preflight o))
  then false
  else match disabled_bind m with
       | Some b =>
           match m_bindings o with
           | [] => false
           | _ => match disabled_bind m with
                  | None => false
                  | Some ob => bind_equals b ob
                  end
           end
       | None => match disabled_bind o with None => true | Some _ => false end
       end.

(* ------------------------------------------------------------------ *)
(* InParams.Equals / OutParams.Equals                                   *)
(* ------------------------------------------------------------------ *)
(* the per-parameter type test: array dimension, file kind, and the type name
   unless the base type is a file type (then only the map dimension) *)
Definition ptype_equal (t u : type_id) (tk uk : file_kind) (tb ub : bool) : bool :=
  (tid_arr t =? tid_arr u)%N && file_kind_eqb tk uk && Bool.eqb tb ub &&
  (if tb then (tid_map t =? tid_map u)%N else type_id_eqb t u).

(* before the fix: names were ignored only for KindIsFile, i.e. for scalars *)
Definition ptype_equal_v0 (t u : type_id) (tk uk : file_kind) : bool :=
  (tid_arr t =? tid_arr u)%N && file_kind_eqb tk uk &&
  (match tk with KindIsFile => true | _ => type_id_eqb t u end).

Definition in_param_in (other : list in_param) (p : in_param) : bool :=
  match find_in (ip_id p) other with
  | None => false
  | Some q => ptype_equal (ip_tname p) (ip_tname q) (ip_isfile p) (ip_isfile q)
                          (ip_basefile p) (ip_basefile q)
  end.

(* len(other.Table) is the list length: the compiler rejects duplicate names *)
Definition in_params_equal (mine other : list in_param) : bool :=
  match mine with
  | [] => match other with [] => true | _ => false end
  | _ => Nat.eqb (length other) (length mine) && forallb (in_param_in other) mine
  end.

Definition is_file_or_dir (k : file_kind) : bool :=
  match k with KindIsFile | KindIsDirectory => true | _ => false end.

Definition out_param_in (check_names : bool) (other : list out_param) (p : out_param) : bool :=
  match find_member (sm_id p) other with
  | None => false
  | Some q =>
      ptype_equal (sm_tname p) (sm_tname q) (sm_isfile p) (sm_isfile q)
                  (sm_basefile p) (sm_basefile q) &&
      negb (is_file_or_dir (sm_isfile p) && check_names &&
            negb (bytes_eqb (sm_outname p) (sm_outname q)))
  end.

Definition out_params_equal (check_names : bool) (mine other : list out_param) : bool :=
  match mine with
  | [] => match other with [] => true | _ => false end
  | _ => Nat.eqb (length other) (length mine) && forallb (out_param_in check_names other) mine
  end.

(* Stage.EquivalentTo *)
Definition stage_equiv (s t : stage) : bool :=
  Bool.eqb (st_split s) (st_split t) &&
  in_params_equal (st_ins s) (st_ins t) &&
  out_params_equal false (st_outs s) (st_outs t).

(* ------------------------------------------------------------------ *)
(* CallStm.EquivalentTo / Pipeline.EquivalentTo with explicit fuel      *)
(* (the recursion follows the call tree, which the compiler keeps       *)
(* acyclic).  None = out of fuel.                                       *)
(* ------------------------------------------------------------------ *)
(* short-circuit conjunction over a list, as the Go loops return early *)
Fixpoint all_opt {A} (f : A -> option bool) (l : list A) : option bool :=
  match l with
  | [] => Some true
  | x :: r => match f x with
              | None => None
              | Some false => Some false
              | Some true => all_opt f r
              end
  end.

Definition ret_equal (a b : option (list bind_stm)) : bool :=
  match a, b with
  | Some x, Some y => binds_equal x y
  | _, _ => false
  end.

Fixpoint call_equiv (fuel : nat) (ta tb : list callable) (c o : call_stm) : option bool :=
  match fuel with
  | O => None
  | S n =>
    if negb (bytes_eqb (c_id c) (c_id o)) then Some false
    else if negb (binds_equal (c_bindings c) (c_bindings o)) then Some false
    else if negb (mods_equiv (c_mods c) (c_mods o)) then Some false
    else match find_callable (c_dec_id c) ta, find_callable (c_dec_id o) tb with
         | None, None => Some true
         | None, Some _ => Some false
         | Some _, None => Some false
         | Some (CStage s), Some (CStage t) => Some (stage_equiv s t)
         | Some (CPipeline p), Some (CPipeline q) =>
             if negb (in_params_equal (pl_ins p) (pl_ins q)) then Some false
             else if negb (out_params_equal true (pl_outs p) (pl_outs q)) then Some false
             else if negb (Nat.eqb (length (pl_calls p)) (length (pl_calls q))) then Some false
             else if negb (ret_equal (pl_ret p) (pl_ret q)) then Some false
             else all_opt (fun call =>
                    match find_call (c_id call) (pl_calls q) with
                    | None => Some false
                    | Some oc => call_equiv n ta tb call oc
                    end) (pl_calls p)
         | Some _, Some _ => Some false
         end
  end.

Definition fuel_of (a b : ast) : nat := S (length (a_callables a) + length (a_callables b)).

(* Ast.EquivalentCall: ast is the receiver (the newly supplied invocation),
   other the program the pipestance was started with.  A nil top-level call on
   both sides is equivalent (CallStm.EquivalentTo on nil receivers). *)
Definition equiv_call_opt (a b : ast) : option bool :=
  if negb (a_compiled a && a_compiled b) then Some false
  else match a_call a, a_call b with
       | None, None => Some true
       | None, Some _ => Some false
       | Some _, None => Some false
       | Some c, Some o => call_equiv (fuel_of a b) (a_callables a) (a_callables b) c o
       end.

Definition equiv_call (a b : ast) : bool :=
  match equiv_call_opt a b with Some r => r | None => false end.

(* ================================================================== *)
(* Specification                                                        *)
(* ================================================================== *)
(* [norm] keeps: call names (the possibly aliased Id), argument bindings and
   their values, whether a wildcard was written, local / preflight, the
   disabled binding, parameter names with array/map dimensions, file kind and
   (for non-file base types) the type name, the split flag, return bindings,
   output names of pipeline file outputs.
   [norm] erases: the name of the callable behind an alias (DecId), map-vs-
   struct literal syntax, the type recorded on bindings, volatile, help
   strings, stage output names, the NAME of a file type (file, path, user
   file types) keeping that it is one, stage src / resources / retain / chunk
   parameters, pipeline retain, parameter and call order, and everything the
   Ast does not contain (formatting, comments, include structure). *)

Fixpoint norm_exp (e : exp) : exp :=
  match e with
  | EArray xs => EArray (map norm_exp xs)
  | EMap _ es => EMap MapKindMap (map (fun kv => (fst kv, norm_exp (snd kv))) es)
  | ESplit x => ESplit (norm_exp x)
  | _ => e
  end.

Record ntype := mk_ntype {
  nt_name : option bytes;   (* None: some file type *)
  nt_arr : N;
  nt_map : N;
  nt_kind : file_kind
}.
Definition norm_type (t : type_id) (k : file_kind) (basefile : bool) : ntype :=
  mk_ntype (if basefile then None else Some (tid_name t)) (tid_arr t) (tid_map t) k.

Record nparam := mk_nparam {
  np_id : bytes;
  np_type : ntype;
  np_outname : option bytes   (* kept for file / directory outputs of pipelines *)
}.
Definition norm_in (p : in_param) : nparam :=
  mk_nparam (ip_id p) (norm_type (ip_tname p) (ip_isfile p) (ip_basefile p)) None.
Definition norm_out (keep_names : bool) (p : out_param) : nparam :=
  mk_nparam (sm_id p) (norm_type (sm_tname p) (sm_isfile p) (sm_basefile p))
    (if keep_names && is_file_or_dir (sm_isfile p) then Some (sm_outname p) else None).

Definition has_star (l : list bind_stm) : bool :=
  existsb (fun b => bytes_eqb (b_id b) star) l.
Definition norm_binds (l : list bind_stm) : list (bytes * exp) :=
  map (fun b => (b_id b, norm_exp (b_exp b))) (bind_table l).

Record ncall_head := mk_nhead {
  nh_id : bytes;
  nh_star : bool;
  nh_binds : list (bytes * exp);
  nh_local : bool;
  nh_preflight : bool;
  nh_disabled : option exp
}.

Inductive ncallee :=
| NMissing
| NStage (split : bool) (ins outs : list nparam)
| NPipeline (ins outs : list nparam) (ret_star : bool) (ret : list (bytes * exp)).

(* a call with the callable it refers to inlined; [calls] is empty unless
   the callee is a pipeline *)
Inductive ncall := NCall (h : ncall_head) (callee : ncallee) (calls : list ncall).

Definition norm_head (c : call_stm) : ncall_head :=
  let m := match c_mods c with Some m => m | None => mk_mods [] false false false end in
  mk_nhead (c_id c) (has_star (c_bindings c)) (norm_binds (c_bindings c))
           (m_local m) (m_preflight m)
           (match disabled_bind m with Some b => Some (norm_exp (b_exp b)) | None => None end).

Fixpoint map_opt {A B} (f : A -> option B) (l : list A) : option (list B) :=
  match l with
  | [] => Some []
  | x :: r => match f x, map_opt f r with
              | Some y, Some ys => Some (y :: ys)
              | _, _ => None
              end
  end.

(* None: out of fuel, or a pipeline without return statement *)
Fixpoint norm_call (fuel : nat) (t : list callable) (c : call_stm) : option ncall :=
  match fuel with
  | O => None
  | S n =>
    match find_callable (c_dec_id c) t with
    | None => Some (NCall (norm_head c) NMissing [])
    | Some (CStage s) =>
        Some (NCall (norm_head c)
                (NStage (st_split s) (map norm_in (st_ins s)) (map (norm_out false) (st_outs s))) [])
    | Some (CPipeline p) =>
        match pl_ret p, map_opt (norm_call n t) (pl_calls p) with
        | Some ret, Some calls =>
            Some (NCall (norm_head c)
                    (NPipeline (map norm_in (pl_ins p)) (map (norm_out true) (pl_outs p))
                               (has_star ret) (norm_binds ret))
                    calls)
        | _, _ => None
        end
    end
  end.

Definition norm (fuel : nat) (a : ast) : option ncall :=
  match a_call a with
  | Some c => norm_call fuel (a_callables a) c
  | None => None
  end.

(* ---- same content ---- *)

(* numeric leaves: exactly the tolerance of IntExp.equal / FloatExp.equal.
   This is the one place where the specification is the implementation's own
   rule: a float literal may move within the relative tolerance [tol]. *)
Definition num_sim (a b : exp) : Prop :=
  match a, b with
  | EInt x, EInt y => x = y
  | EInt x, EFloat m e => feqb (m, e) (float_of_int x) = true
  | EFloat m e, EInt y => feqb (float_of_int y) (m, e) = true
  | EFloat m e, EFloat m' e' => float_close (m, e) (m', e') = true
  | _, _ => False
  end.

Definition is_num (e : exp) : bool :=
  match e with EInt _ | EFloat _ _ => true | _ => false end.

(* every element of l has a partner in l' *)
Fixpoint exp_sim (a b : exp) {struct a} : Prop :=
  match a, b with
  | EString s, EString t => s = t
  | EBool x, EBool y => x = y
  | ENull, ENull => True
  | EInt _, _ | EFloat _ _, _ => num_sim a b
  | ERef k i o, ERef k' i' o' => k = k' /\ i = i' /\ o = o'
  | ESplit x, ESplit y => exp_sim x y
  | EArray xs, EArray ys =>
      (fix go (xs ys : list exp) : Prop :=
         match xs, ys with
         | [], [] => True
         | x :: xs', y :: ys' => exp_sim x y /\ go xs' ys'
         | _, _ => False
         end) xs ys
  | EMap k es, EMap k' fs =>
      k = k' /\ length es = length fs /\
      (fix go (es : list (bytes * exp)) : Prop :=
         match es with
         | [] => True
         | (key, v) :: r => (exists v', In (key, v') fs /\ exp_sim v v') /\ go r
         end) es
  | _, _ => False
  end.

(* two finite maps given as lists with distinct names: same size and every
   entry of the first has a similar entry of the second *)
Definition binds_sim (l l' : list (bytes * exp)) : Prop :=
  length l = length l' /\
  forall k v, In (k, v) l -> exists v', In (k, v') l' /\ exp_sim v v'.

Definition params_sim (l l' : list nparam) : Prop :=
  length l = length l' /\ forall p, In p l -> In p l'.

Definition opt_sim (a b : option exp) : Prop :=
  match a, b with
  | None, None => True
  | Some x, Some y => exp_sim x y
  | _, _ => False
  end.

Definition head_sim (h h' : ncall_head) : Prop :=
  nh_id h = nh_id h' /\ nh_star h = nh_star h' /\ binds_sim (nh_binds h) (nh_binds h') /\
  nh_local h = nh_local h' /\ nh_preflight h = nh_preflight h' /\
  opt_sim (nh_disabled h) (nh_disabled h').

Definition callee_sim (c c' : ncallee) : Prop :=
  match c, c' with
  | NMissing, NMissing => True
  | NStage sp i o, NStage sp' i' o' => sp = sp' /\ params_sim i i' /\ params_sim o o'
  | NPipeline i o rs r, NPipeline i' o' rs' r' =>
      params_sim i i' /\ params_sim o o' /\ rs = rs' /\ binds_sim r r'
  | _, _ => False
  end.

Fixpoint call_sim (a b : ncall) {struct a} : Prop :=
  match a, b with
  | NCall h c calls, NCall h' c' calls' =>
      head_sim h h' /\ callee_sim c c' /\ length calls = length calls' /\
      (fix go (l : list ncall) : Prop :=
         match l with
         | [] => True
         | x :: r => (exists y, In y calls' /\ call_sim x y) /\ go r
         end) calls
  end.

(* ------------------------------------------------------------------ *)
(* Well-formedness: what the compiler guarantees and the theorems use.  *)
(* Checked (as a boolean) on every Ast the harness dumps.               *)
(* ------------------------------------------------------------------ *)
Fixpoint nodupb (l : list bytes) : bool :=
  match l with
  | [] => true
  | x :: r => negb (existsb (bytes_eqb x) r) && nodupb r
  end.

Fixpoint wf_exp (e : exp) : bool :=
  match e with
  | EArray xs => forallb wf_exp xs
  | EMap _ es => nodupb (map fst es) &&
                 (fix go (es : list (bytes * exp)) : bool :=
                    match es with [] => true | (_, v) :: r => wf_exp v && go r end) es
  | ESplit x => wf_exp x
  | _ => true
  end.

Definition wf_binds (l : list bind_stm) : bool :=
  nodupb (map b_id l) && forallb (fun b => wf_exp (b_exp b)) l.

(* bindings cover exactly the parameters of the callee (the compiler reports
   ArgumentNotSupplied / a duplicate / an unknown parameter otherwise); only
   the counts are needed *)
Definition wf_call (t : list callable) (c : call_stm) : bool :=
  wf_binds (c_bindings c) &&
  match c_mods c with
  | Some m => wf_binds (m_bindings m)
  | None => false
  end &&
  match find_callable (c_dec_id c) t with
  | Some callee => Nat.eqb (length (bind_table (c_bindings c))) (length (callable_ins callee))
  | None => false
  end.

Definition wf_callable (t : list callable) (c : callable) : bool :=
  nodupb (map ip_id (callable_ins c)) && nodupb (map sm_id (callable_outs c)) &&
  match c with
  | CStage _ => true
  | CPipeline p =>
      nodupb (map c_id (pl_calls p)) && forallb (wf_call t) (pl_calls p) &&
      match pl_ret p with
      | Some r => wf_binds r && Nat.eqb (length (bind_table r)) (length (pl_outs p))
      | None => false
      end
  end.

Definition wf_table (t : list callable) : bool := forallb (wf_callable t) t.

Definition wf_ast (a : ast) : bool :=
  a_compiled a && wf_table (a_callables a) &&
  match a_call a with Some c => wf_call (a_callables a) c | None => false end.

(* the cached per-parameter facts agree with the type table (not needed by
   the theorems; ties ip_isfile / ip_basefile to the declarations) *)
Definition cache_ok_in (a : ast) (p : in_param) : bool :=
  file_kind_eqb (ip_isfile p) (type_kind a (ip_tname p)) &&
  Bool.eqb (ip_basefile p) (base_is_file a (tid_name (ip_tname p))).
Definition cache_ok_out (a : ast) (p : out_param) : bool :=
  file_kind_eqb (sm_isfile p) (type_kind a (sm_tname p)) &&
  Bool.eqb (sm_basefile p) (base_is_file a (tid_name (sm_tname p))).
Definition cache_ok (a : ast) : bool :=
  forallb (fun c => forallb (cache_ok_in a) (callable_ins c) &&
                    forallb (cache_ok_out a) (callable_outs c)) (a_callables a).
