(* Model of martian/core/post_process.go (Fork.postProcess, processStructOuts,
   handleOuts, moveOutFiles, moveOutDir, moveOutArrayDir, moveOutFile,
   copyOutSymlink), martian/syntax/struct_type.go GetOutFilename and
   compile_params.go IsLegalUnixFilename, over an abstract file system.

   Abstractions (named in the check's assumptions):
   - a path is the list of its components (absolute, clean); a file-typed
     JSON leaf whose string is not of that form sets the [unm] flag
     (outside the modelled fragment);
   - the file system is a partial map from paths to nodes; no component of
     a path that is looked up is itself a symbolic link to a directory;
   - rename/symlink/mkdir have their POSIX meaning on that map; permissions,
     cross-device renames and I/O errors are not modelled.
   The model contains no proofs. *)
From Martian Require Import Lib.Bytes Json.Json Extracted.PostProcess.
Local Open Scope N_scope.

Definition path := list bytes.

Definition c_slash : byte := n2b 47.
Definition c_dot : byte := n2b 46.
Definition c_zero : byte := n2b 48.

(* ------------------------------------------------------------ path strings *)

Fixpoint path_eqb (a b : path) : bool :=
  match a, b with
  | [], [] => true
  | x :: a', y :: b' => bytes_eqb x y && path_eqb a' b'
  | _, _ => false
  end.

(* [is_pfx p q]: p is a (not necessarily strict) prefix of q, componentwise *)
Fixpoint is_pfx (p q : path) : bool :=
  match p, q with
  | [], _ => true
  | x :: p', y :: q' => bytes_eqb x y && is_pfx p' q'
  | _ :: _, [] => false
  end.

Definition render (p : path) : bytes := flat_map (fun c => c_slash :: c) p.

(* strings.Split(s, "/") *)
Fixpoint split_slash (cur : bytes) (s : bytes) : list bytes :=
  match s with
  | [] => [rev cur]
  | b :: r => if beq b c_slash then rev cur :: split_slash [] r
              else split_slash (b :: cur) r
  end.

Definition is_dot (c : bytes) : bool := bytes_eqb c [c_dot].
Definition is_dotdot (c : bytes) : bool := bytes_eqb c [c_dot; c_dot].

(* a component as it appears in a clean absolute path *)
Definition clean_comp (c : bytes) : bool :=
  negb (bytes_eqb c []) && negb (is_dot c) && negb (is_dotdot c)
  && negb (contains_byte c_slash c) && negb (contains_byte x00 c).

Definition is_abs (s : bytes) : bool :=
  match s with b :: _ => beq b c_slash | [] => false end.

Definition dirname (p : path) : path := removelast p.

(* filepath.Clean(filepath.Join(render base, rel)) for a clean base *)
Definition clean_step (acc : path) (c : bytes) : path :=
  if bytes_eqb c [] || is_dot c then acc
  else if is_dotdot c then removelast acc
  else acc ++ [c].
Definition clean_join (base : path) (rel : bytes) : path :=
  fold_left clean_step (split_slash [] rel) base.

(* the string is an absolute path; moveOutFile works on filepath.Clean of it
   (a trailing separator, empty and "." components dropped, ".." resolved
   lexically): "/" c1 "/" c2 ...; the root itself is not a file *)
Definition parse_abs (s : bytes) : option path :=
  match s with
  | b :: r =>
      if beq b c_slash then
        let cs := clean_join [] r in
        match cs with
        | [] => None
        | _ => if forallb clean_comp cs then Some cs else None
        end
      else None
  | [] => None
  end.

(* filepath.Rel(render base, render targ) for clean absolute paths *)
Fixpoint strip_common (a b : path) : path * path :=
  match a, b with
  | x :: a', y :: b' => if bytes_eqb x y then strip_common a' b' else (a, b)
  | _, _ => (a, b)
  end.
Fixpoint join_slash (l : list bytes) : bytes :=
  match l with
  | [] => []
  | [c] => c
  | c :: r => c ++ c_slash :: join_slash r
  end.
Definition rel_path (base targ : path) : bytes :=
  let (a, b) := strip_common base targ in
  match map (fun _ => [c_dot; c_dot]) a ++ b with
  | [] => [c_dot]
  | l => join_slash l
  end.

(* syntax.IsLegalUnixFilename; the limit, the reserved names and the
   forbidden characters are regenerated from the source *)
Definition legal_name (c : bytes) : bool :=
  (N.of_nat (length c) <=? legal_name_max_len)
  && negb (bytes_eqb c [])
  && negb (existsb (fun r => bytes_eqb c (map n2b r)) legal_name_reserved)
  && negb (existsb (fun b => existsb (N.eqb (b2n b)) legal_name_forbidden) c).

(* ------------------------------------------------------------ decimal *)

Fixpoint dec_fuel (fuel : nat) (n : N) (acc : bytes) : bytes :=
  match fuel with
  | O => acc
  | S f =>
      let d := n2b (48 + n mod 10) in
      if n <? 10 then d :: acc else dec_fuel f (n / 10) (d :: acc)
  end.
(* strconv.Itoa for non-negative numbers *)
Definition dec (n : N) : bytes := dec_fuel (S (N.to_nat (N.log2 n))) n [].
(* util.WidthForInt(n) for n >= 0: the number of decimal digits *)
Definition width_for (n : N) : nat := length (dec n).
(* fmt.Sprintf("%0*d", width, i) *)
Definition pad_dec (width : nat) (i : N) : bytes :=
  let d := dec i in repeat c_zero (width - length d) ++ d.

(* ------------------------------------------------------------ types *)

Inductive kind := KNot | KMay | KFile | KDir.

Definition kind_eqb (a b : kind) : bool :=
  match a, b with
  | KNot, KNot | KMay, KMay | KFile, KFile | KDir, KDir => true
  | _, _ => false
  end.

(* syntax.Type as the post-processing code sees it.
   TPlain KNot: int float bool;  TPlain KMay: string, untyped map;
   TFile None: file, path;  TFile (Some ext): a user file type;
   TArr elem: an array; ArrayType{Elem, Dim} is Dim nested TArr (its
   elements are handled as arrays of one dimension less);
   TMap elem: TypedMapType;  TStruct members: (id, type, explicit out name). *)
Inductive ty :=
| TPlain (k : kind)
| TFile (ext : option bytes)
| TArr (elem : ty)
| TMap (elem : ty)
| TStruct (members : list (bytes * ty * bytes)).

Definition member := (bytes * ty * bytes)%type.
Definition m_id (m : member) : bytes := fst (fst m).
Definition m_ty (m : member) : ty := snd (fst m).
Definition m_out (m : member) : bytes := snd m.

Definition is_fd (k : kind) : bool :=
  match k with KFile | KDir => true | _ => false end.

(* StructType.compile: the struct's kind accumulates over its members *)
Definition kind_join (acc k : kind) : kind :=
  match k with
  | KMay => match acc with KNot => KMay | _ => acc end
  | KFile | KDir => KDir
  | KNot => acc
  end.

Fixpoint kind_of (t : ty) : kind :=
  match t with
  | TPlain k => match k with KMay => KMay | _ => KNot end
  | TFile _ => KFile
  | TArr e => match kind_of e with KFile => KDir | k => k end
  | TMap e => match kind_of e with
              | KNot => KNot
              | KDir | KFile => KDir
              | KMay => KMay
              end
  | TStruct ms =>
      (fix go (l : list member) (acc : kind) : kind :=
         match l with
         | [] => acc
         | m :: r =>
             let k := kind_of (snd (fst m)) in
             go r (match acc with
                   | KDir => KDir
                   | _ => kind_join acc k
                   end)
         end) ms KNot
  end.

(* StructMember.GetOutFilename *)
Definition out_filename (id : bytes) (t : ty) (outname : bytes) : bytes :=
  if negb (is_fd (kind_of t)) then []
  else match outname with
       | _ :: _ => outname
       | [] => match t with
               | TFile (Some ext) => id ++ c_dot :: ext
               | _ => id
               end
       end.

(* ------------------------------------------------------------ file system *)

Inductive node := NFile (content : bytes) | NDir | NLink (target : bytes).

(* [dom] lists every path that may be present (for dumping the state) *)
Record fsys := { look : path -> option node; dom : list path }.

Definition fs_set (p : path) (n : node) (f : fsys) : fsys :=
  {| look := fun q => if path_eqb p q then Some n else look f q;
     dom := p :: dom f |}.

(* rename(src, dst): the whole subtree moves *)
Definition fs_rename (src dst : path) (f : fsys) : fsys :=
  {| look := fun q =>
       if is_pfx dst q then look f (src ++ skipn (length dst) q)
       else if is_pfx src q then None
       else look f q;
     dom := map (fun q => dst ++ skipn (length src) q)
                (filter (is_pfx src) (dom f)) ++ dom f |}.

Record st := { fs : fsys; err : bool; unm : bool }.
(* err: some step returned an error;  unm: left the modelled fragment
   (this includes the error paths of moveOutFile that return without writing
   a value, which leave a hole in the hand-assembled JSON text: they need a
   non-directory in the way of an out directory, i.e. a stale outs/ tree) *)

Definition with_fs (s : st) (f : fsys) : st :=
  {| fs := f; err := err s; unm := unm s |}.
Definition set_err (s : st) : st :=
  {| fs := fs s; err := true; unm := unm s |}.
Definition set_unm (s : st) : st :=
  {| fs := fs s; err := err s; unm := true |}.

Definition lk (s : st) (p : path) : option node := look (fs s) p.

(* Some proper prefix of the path is a symbolic link (e.g. a file inside a
   directory that an earlier output already moved to outs/ and linked back):
   the kernel follows it, the model's lookups are by exact path and do not -
   such a value is outside the modelled fragment. *)
Fixpoint through_link_from (s : st) (base rest : path) : bool :=
  match rest with
  | [] => false
  | c :: r =>
      match r with
      | [] => false
      | _ => match lk s (base ++ [c]) with
             | Some (NLink _) => true
             | _ => through_link_from s (base ++ [c]) r
             end
      end
  end.
Definition through_link (s : st) (p : path) : bool := through_link_from s [] p.

(* os.MkdirAll(render (base ++ rest)) where base exists and is a directory *)
Fixpoint mkdirs_from (base rest : path) (s : st) : st * bool :=
  match rest with
  | [] => (s, true)
  | c :: r =>
      let q := base ++ [c] in
      match lk s q with
      | None => mkdirs_from q r (with_fs s (fs_set q NDir (fs s)))
      | Some NDir => mkdirs_from q r s
      | Some (NFile _) => (set_err s, false)
      | Some (NLink _) => (set_unm s, false)
      end
  end.

(* os.Symlink(target, p) *)
Definition do_symlink (p : path) (target : bytes) (s : st) : st :=
  match lk s p with
  | None => with_fs s (fs_set p (NLink target) (fs s))
  | Some _ => set_err s
  end.

(* os.Stat(p) == nil: the final component is followed *)
Fixpoint stat_ok (fuel : nat) (s : st) (p : path) : bool :=
  match lk s p with
  | None => false
  | Some (NLink t) =>
      match fuel with
      | O => false
      | S f => stat_ok f s (if is_abs t then clean_join [] t
                            else clean_join (dirname p) t)
      end
  | Some _ => true
  end.
Definition stat_fuel : nat := 40.

(* the Readlink loop of copyOutSymlink: at most [fuel] links are followed,
   then the loop stops where it is (maxLinks in the source) *)
Fixpoint chase (fuel : nat) (s : st) (p : option path) (ap : path)
  : option (option path * bytes) :=
  match fuel with
  | O => Some (p, render ap)
  | S f =>
      match lk s ap with
      | Some (NLink rp) =>
          if is_abs rp then Some (Some ap, rp)
          else chase f s (Some ap) (clean_join (dirname ap) rp)
      | _ => Some (p, render ap)
      end
  end.
Definition chase_fuel : nat := N.to_nat max_links.

Section Move.
  (* the pipestance directory, and the outs directory below it *)
  Variable ps : path.

  (* strings.Contains(absFilePath, absPipestancePath) *)
  Definition inside (fp : path) : bool := is_infix (render ps) (render fp).

  (* every out directory is ps ++ rel *)
  Definition mkdirall (rel : path) (s : st) : st * bool := mkdirs_from ps rel s.

  (* copyOutSymlink, after MkdirAll(outsPath) succeeded *)
  Definition copy_symlink (outrel : path) (fname : bytes) (v : json)
             (fp : path) (tgt : bytes) (s : st) : json * st :=
    let outdir := ps ++ outrel in
    let outp := outdir ++ [fname] in
    if negb (inside fp) then (v, do_symlink outp (render fp) s)
    else if stat_ok stat_fuel s outp then (JStr (render outp), s)
    else if is_abs tgt then (JStr tgt, do_symlink outp tgt s)
    else
      let ap0 := clean_join (dirname fp) tgt in
      match chase chase_fuel s None ap0 with
      | None => (v, set_unm s)
      | Some (Some q, ap) => (JStr ap, do_symlink outp (render q) s)
      | Some (None, ap) => (JStr ap, do_symlink outp (rel_path outdir ap0) s)
      end.

  (* moveOutFile *)
  Definition move_file (outrel : path) (fname : bytes) (v : json) (s : st)
    : json * st :=
    match v with
    | JStr [] => (JNull, s)
    | JStr str =>
        match parse_abs str with
        | None => (v, set_unm s)
        | Some fp =>
            if through_link s fp then (v, set_unm s) else
            match lk s fp with
            | None =>
                (* the file is not there.  Either the stage did not create
                   it (null), or a post-processing run that was interrupted
                   after the rename and before the link back has already
                   moved it: then its place under outs/ is taken, and the
                   link back is made now *)
                let outp := (ps ++ outrel) ++ [fname] in
                match lk s outp with
                | None => (JNull, s)
                | Some _ =>
                    match lk s (dirname fp) with
                    | Some NDir =>
                        (JStr (render outp),
                         with_fs s (fs_set fp (NLink (rel_path (dirname fp) outp)) (fs s)))
                    | None => (JNull, s)
                    | Some _ => (JNull, set_unm s)
                    end
                end
            | Some (NLink tgt) =>
                let (s1, ok) := mkdirall outrel s in
                if ok then copy_symlink outrel fname v fp tgt s1
                else (v, set_unm s1)
            | Some _ =>
                let outdir := ps ++ outrel in
                let outp := outdir ++ [fname] in
                if negb (inside fp) then
                  let (s1, ok) := mkdirall outrel s in
                  if ok then (v, do_symlink outp (render fp) s1) else (v, s1)
                else if stat_ok stat_fuel s outp then (v, s)
                else
                  let (s1, ok) := mkdirall outrel s in
                  if negb ok then (v, set_unm s1)
                  else if is_pfx fp outp then (v, set_err s1)
                  else match lk s1 outp with
                       | Some _ => (v, set_unm s1)
                       | None =>
                           let f1 := fs_rename fp outp (fs s1) in
                           let f2 := fs_set fp (NLink (rel_path (dirname fp) outp)) f1 in
                           (JStr (render outp), with_fs s1 f2)
                       end
            end
        end
    | _ => (v, set_err s)
    end.

  (* json.Unmarshal into a map: the last binding of a key wins *)
  Fixpoint dedup_last (kvs : list (bytes * json)) : list (bytes * json) :=
    match kvs with
    | [] => []
    | (k, v) :: r =>
        match assoc_get k r with
        | Some _ => dedup_last r
        | None => (k, v) :: dedup_last r
        end
    end.

  Definition get_or_null (k : bytes) (m : list (bytes * json)) : json :=
    match assoc_get k m with Some v => v | None => JNull end.

  Definition mover := path -> json -> st -> json * st.
  Definition keep : mover := fun _ v s => (v, s).

  (* run a list of (key, mover, value) in order, threading the state *)
  Fixpoint run_keyed (outrel : path) (l : list (bytes * mover * json)) (s : st)
    : list (bytes * json) * st :=
    match l with
    | [] => ([], s)
    | (k, f, v) :: r =>
        let (v', s1) := f outrel v s in
        let (rest, s2) := run_keyed outrel r s1 in
        ((k, v') :: rest, s2)
    end.

  Fixpoint run_indexed (outrel : path) (f : bytes -> mover) (width : nat)
           (i : N) (l : list json) (s : st) : list json * st :=
    match l with
    | [] => ([], s)
    | v :: r =>
        let (v', s1) := f (pad_dec width i) outrel v s in
        let (rest, s2) := run_indexed outrel f width (i + 1) r s1 in
        (v' :: rest, s2)
    end.

  (* moveOutFiles for a member (id [key], type [t], explicit out name [on])
     whose value is [v], into the directory ps ++ outrel.
     TArr: moveOutArrayDir;  TMap / TStruct: moveOutDir.  A typed-map key
     that is not a legal file name keeps its value, nothing is moved. *)
  Fixpoint move_val (t : ty) (key on : bytes) (outrel : path) (v : json) (s : st)
    {struct t} : json * st :=
    if is_null v then (JNull, s)
    else
      let fname := out_filename key t on in
      match kind_of t with
      | KFile => move_file outrel fname v s
      | KDir =>
          match t with
          | TArr e =>
              match v with
              | JArr [] => (JArr [], s)
              | JArr l =>
                  let (l', s') :=
                    run_indexed (outrel ++ [fname])
                                (fun k => move_val e k [])
                                (width_for (N.of_nat (length l))) 0 l s in
                  (JArr l', s')
              | _ => (v, set_err s)
              end
          | TMap e =>
              match v with
              | JObj kvs =>
                  let m := dedup_last kvs in
                  match m with
                  | [] => (JObj [], s)
                  | _ =>
                      let keys := isort bytes_leb (map fst m) in
                      let (o, s') :=
                        run_keyed (outrel ++ [fname])
                                  (map (fun k => (k, (if legal_name k then move_val e k [] else keep),
                                                  get_or_null k m)) keys) s in
                      (JObj o, s')
                  end
              | _ => (v, set_err s)
              end
          | TStruct ms =>
              match v with
              | JObj kvs =>
                  let m := dedup_last kvs in
                  match m with
                  | [] => (JObj [], s)
                  | _ =>
                      let movers :=
                        (fix go (l : list member) : list (bytes * mover) :=
                           match l with
                           | [] => []
                           | mm :: r =>
                               (fst (fst mm), move_val (snd (fst mm)) (fst (fst mm)) (snd mm)) :: go r
                           end) ms in
                      let sorted := isort (fun a b => bytes_leb (fst a) (fst b)) movers in
                      let (o, s') :=
                        run_keyed (outrel ++ [fname])
                                  (map (fun kf => (fst kf, snd kf, get_or_null (fst kf) m)) sorted) s in
                      (JObj o, s')
                  end
              | _ => (v, set_err s)
              end
          | _ => (v, set_err s)
          end
      | _ => (v, s)
      end.

  (* handleOuts: parameters in declaration order; a parameter without a value
     stays absent; the result is marshalled with sorted keys *)
  Fixpoint handle_outs (params : list member) (m : list (bytes * json))
           (outrel : path) (s : st) : list (bytes * json) * st :=
    match params with
    | [] => ([], s)
    | p :: r =>
        match assoc_get (m_id p) m with
        | None => handle_outs r m outrel s
        | Some v =>
            let (v', s1) :=
              if is_fd (kind_of (m_ty p)) then move_val (m_ty p) (m_id p) (m_out p) outrel v s
              else (v, s) in
            let (rest, s2) := handle_outs r m outrel s1 in
            ((m_id p, v') :: rest, s2)
        end
    end.

  (* processStructOuts *)
  Definition process_struct (params : list member) (outrel : path) (v : json) (s : st)
    : json * st :=
    let s0 :=
      if existsb (fun p => is_fd (kind_of (m_ty p))) params
      then fst (mkdirall outrel s) else s in
    let '(m, s1) :=
      match v with
      | JObj kvs => (dedup_last kvs, s0)
      | JNull => ([], s0)
      | _ => ([], set_err s0)
      end in
    let (o, s2) := handle_outs params m outrel s1 in
    (JObj (sort_keys (dedup_last o)), s2).
End Move.

Definition outs_rel : path := [map n2b outs_dir_name].

(* How the top-level call was made: Fork.postProcess switches on the type of
   the resolved outputs. *)
Inductive mode := MSingle | MArray | MMap.

Fixpoint process_forks (ps : path) (params : list member) (i : N) (l : list json) (s : st)
  : list json * st :=
  match l with
  | [] => ([], s)
  | v :: r =>
      let (v', s1) := process_struct ps params (outs_rel ++ [dec i]) v s in
      let (rest, s2) := process_forks ps params (i + 1) r s1 in
      (v' :: rest, s2)
  end.

Fixpoint process_keys (ps : path) (params : list member) (l : list (bytes * json)) (s : st)
  : list (bytes * json) * st :=
  match l with
  | [] => ([], s)
  | (k, v) :: r =>
      if legal_name k then
        let (v', s1) := process_struct ps params (outs_rel ++ [k]) v s in
        let (rest, s2) := process_keys ps params r s1 in
        ((k, v') :: rest, s2)
      else ([], set_unm s)
  end.

Definition post_process (md : mode) (ps : path) (params : list member)
           (v : json) (s : st) : json * st :=
    match md with
    | MSingle => process_struct ps params outs_rel v s
    | MArray =>
        match v with
        | JArr l => let (l', s') := process_forks ps params 0 l s in (JArr l', s')
        | _ => (v, set_unm s)
        end
    | MMap =>
        match v with
        | JObj kvs =>
            (* Go iterates the map in random order; the model uses key order *)
            let (o, s') := process_keys ps params (sort_keys (dedup_last kvs)) s in
            (JObj o, s')
        | _ => (v, set_unm s)
        end
    end.

(* ------------------------------------------------------------ observation *)

Definition init_fs (entries : list (path * node)) : fsys :=
  fold_right (fun e f => fs_set (fst e) (snd e) f)
             {| look := fun _ => None; dom := [] |} entries.

Definition init_st (entries : list (path * node)) : st :=
  {| fs := init_fs entries; err := false; unm := false |}.

(* the present entries among [dom], each once *)
Fixpoint dump_paths (seen : list path) (l : list path) (f : fsys) : list (path * node) :=
  match l with
  | [] => []
  | p :: r =>
      if existsb (path_eqb p) seen then dump_paths seen r f
      else match look f p with
           | Some n => (p, n) :: dump_paths (p :: seen) r f
           | None => dump_paths (p :: seen) r f
           end
  end.
Definition dump (f : fsys) : list (path * node) := dump_paths [] (dom f) f.

(* StructType.compile: two members must not produce the same name under
   outs/ (members that are not files produce no name), ids are distinct *)
Fixpoint nodup_bytes (l : list bytes) : bool :=
  match l with
  | [] => true
  | x :: r => negb (existsb (bytes_eqb x) r) && nodup_bytes r
  end.
Definition member_names (ms : list member) : list bytes :=
  map (fun m => out_filename (m_id m) (m_ty m) (m_out m))
      (filter (fun m => is_fd (kind_of (m_ty m))) ms).
Definition names_distinct (ms : list member) : bool :=
  nodup_bytes (map m_id ms) && nodup_bytes (member_names ms).
