(* K/FormatExp.v - model of the literal printers of martian/syntax/format_exp.go:
   quoteString (used for string literals, map keys, help / outname strings and
   the special resource) and IntExp.format (strconv.FormatInt base 10).
   Definitions only; proofs are in Proofs/FormatExp.v.

   Correspondence (checked on every run by checks/c09.py):
     quoteString        ~ quote_string
     IntExp.format      ~ format_int
   FloatExp.format (strconv.AppendFloat 'g' -1 64) is not modelled: shortest
   round-trip float printing enters as an oracle checked on the implementation
   (cases f of the harness). *)
From Martian Require Import Lib.Bytes Lib.Utf8 K.ParseNum K.Unquote.
Local Open Scope N_scope.

(* the hex digit table 0123456789abcdef *)
Definition hexd (n : N) : byte := n2b (if n <? 10 then 48 + n else 87 + n).

Definition c_u : byte := n2b 117.

(* the switch over a byte below 0x80 that is not copied verbatim *)
Definition esc_byte (b : byte) : bytes :=
  let n := b2n b in
  if (n =? 92) || (n =? 34) then [c_backslash; b]
  else if n =? 8 then [c_backslash; n2b 98]
  else if n =? 12 then [c_backslash; n2b 102]
  else if n =? 10 then [c_backslash; n2b 110]
  else if n =? 13 then [c_backslash; n2b 114]
  else if n =? 9 then [c_backslash; n2b 116]
  else [c_backslash; c_u; c_zero; c_zero; hexd (n / 16); hexd (n mod 16)].

(* b >= space, b is not the double quote, b is not the backslash *)
Definition plain_ascii (b : byte) : bool :=
  let n := b2n b in (32 <=? n) && negb (n =? 34) && negb (n =? 92).

(* backslash u f f f d *)
Definition esc_fffd : bytes := [c_backslash; c_u; n2b 102; n2b 102; n2b 102; n2b 100].
(* backslash u 2 0 2 *)
Definition esc_202 : bytes := [c_backslash; c_u; n2b 50; n2b 48; n2b 50].

(* c == U+2028 || c == U+2029 on the decoded rune; their only encodings are
   E2 80 A8 and E2 80 A9.  Returns the last hex digit, hex[c&0xF]. *)
Definition ls_ps (s : bytes) : option byte :=
  match s with
  | b0 :: b1 :: b2 :: _ =>
      if (b2n b0 =? 226) && (b2n b1 =? 128) then
        if b2n b2 =? 168 then Some (hexd 8)
        else if b2n b2 =? 169 then Some (hexd 9)
        else None
      else None
  | _ => None
  end.

(* The loop of quoteString.  [skip]: remaining bytes of a valid multi-byte rune
   that is being copied (the code copies s[start:i] in one piece later, which
   appends the same bytes). *)
Fixpoint quote_loop (skip : nat) (s : bytes) : bytes :=
  match s with
  | [] => []
  | b :: r =>
      match skip with
      | S k => b :: quote_loop k r
      | O =>
          if b2n b <? 128 then
            (if plain_ascii b then [b] else esc_byte b) ++ quote_loop 0 r
          else
            match utf8_len s with
            | O => esc_fffd ++ quote_loop 0 r          (* RuneError, size 1 *)
            | S k =>
                match ls_ps s with
                | Some d =>
                    esc_202 ++ d ::
                    match r with
                    | _ :: _ :: r' => quote_loop 0 r'
                    | _ => []
                    end
                | None => b :: quote_loop k r
                end
            end
      end
  end.

Definition quote_string (s : bytes) : bytes := c_dquote :: quote_loop 0 s ++ [c_dquote].

(* ------------------------------------------------------------ integers *)

Definition digit (n : N) : byte := n2b (48 + n).

Fixpoint dec_aux (fuel : nat) (n : N) (acc : bytes) : bytes :=
  match fuel with
  | O => acc
  | S f =>
      let acc' := digit (n mod 10) :: acc in
      if n <? 10 then acc' else dec_aux f (n / 10) acc'
  end.

(* strconv.FormatUint base 10 *)
Definition print_dec (n : N) : bytes := dec_aux (S (N.to_nat (N.size n))) n [].

(* strconv.FormatInt(v, 10) *)
Definition format_int (z : Z) : bytes :=
  match z with
  | Zneg p => c_minus :: print_dec (Npos p)
  | _ => print_dec (Z.to_N z)
  end.
