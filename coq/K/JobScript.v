(* Model of the template substitution in RemoteJobManager.jobScript
   (strings.NewReplacer(args...).Replace(template)): a single left-to-right
   pass over the TEMPLATE; at each position the first pair (in argument order)
   whose old string is a prefix of the remaining template is replaced and the
   scan continues after it.  Substituted text is never scanned. *)
From Martian Require Import Lib.Bytes.

Definition nonempty (k : bytes) : bool := match k with [] => false | _ => true end.

(* index and length of the first key (in order) that is a prefix of s *)
Fixpoint first_key (keys : list bytes) (s : bytes) (i : nat) : option (nat * nat) :=
  match keys with
  | [] => None
  | k :: r => if nonempty k && is_prefix k s then Some (i, length k) else first_key r s (S i)
  end.

Inductive tok := TLit (b : byte) | TKey (i : nat).

(* the template cut into literal bytes and key occurrences: a function of the
   template and the keys only *)
Fixpoint scan (fuel : nat) (keys : list bytes) (s : bytes) : list tok :=
  match fuel with
  | O => map TLit s
  | S f =>
      match s with
      | [] => []
      | c :: r =>
          match first_key keys s 0 with
          | Some (i, n) => TKey i :: scan f keys (skipn n s)
          | None => TLit c :: scan f keys r
          end
      end
  end.

Definition render (vals : list bytes) (ts : list tok) : bytes :=
  List.concat (map (fun t => match t with TLit b => [b] | TKey i => nth i vals [] end) ts).

(* the replacer itself, on (old, new) pairs *)
Fixpoint first_pair (pairs : list (bytes * bytes)) (s : bytes) : option (bytes * bytes) :=
  match pairs with
  | [] => None
  | kv :: r => if nonempty (fst kv) && is_prefix (fst kv) s then Some kv else first_pair r s
  end.

Fixpoint replace_fuel (fuel : nat) (pairs : list (bytes * bytes)) (s : bytes) : bytes :=
  match fuel with
  | O => s
  | S f =>
      match s with
      | [] => []
      | c :: r =>
          match first_pair pairs s with
          | Some kv => snd kv ++ replace_fuel f pairs (skipn (length (fst kv)) s)
          | None => c :: replace_fuel f pairs r
          end
      end
  end.

Definition replace_all (pairs : list (bytes * bytes)) (s : bytes) : bytes :=
  replace_fuel (S (length s)) pairs s.
