(* K/Lock.v - the pipestance lock as the two-step protocol of
   martian/core/pipestance.go Pipestance.Lock (metadata.exists(Lock), then
   metadata.WriteTime(Lock)), Unlock (remove), and the read-only attach that
   never touches the lock (runtime.go instantiatePipeline: `if !readOnly`).
   One event = one file-system operation of one mrp instance; histories are
   arbitrary interleavings.  Definitions only. *)
From Martian Require Import Lib.Bytes.

Inductive lock_event :=
| LCheck (i : N)      (* instance i: metadata.exists(_lock) *)
| LWrite (i : N)      (* instance i: metadata.WriteTime(_lock), only after a check that saw no lock *)
| LUnlock (i : N)     (* instance i: metadata.remove(_lock) *)
| LAttachRO (i : N).  (* instance i attaches read-only (--inspect / mrstat) *)

Record lock_state := mk_lock {
  lock_file : bool;       (* _lock exists in the pipestance directory *)
  saw_free : list N;      (* instances between a successful check and their write *)
  holders : list N;       (* instances attached for writing *)
  refused : list N;       (* instances that got PipestanceLockedError *)
  readers : list N        (* instances attached read-only *)
}.

Definition lock_init : lock_state := mk_lock false [] [] [] [].

Definition mem (i : N) (l : list N) : bool := existsb (N.eqb i) l.
Definition remove_n (i : N) (l : list N) : list N := filter (fun j => negb (N.eqb i j)) l.

Definition lock_step (s : lock_state) (e : lock_event) : lock_state :=
  match e with
  | LCheck i =>
      if lock_file s
      then mk_lock (lock_file s) (saw_free s) (holders s) (i :: refused s) (readers s)
      else mk_lock (lock_file s) (i :: saw_free s) (holders s) (refused s) (readers s)
  | LWrite i =>
      if mem i (saw_free s)
      then mk_lock true (remove_n i (saw_free s)) (i :: holders s) (refused s) (readers s)
      else s
  | LUnlock i =>
      (* the file system removes the file whoever asks: that only a holder
         ever unlocks is a property of the callers of Pipestance.Unlock, not
         of the lock *)
      mk_lock false (saw_free s) (remove_n i (holders s)) (refused s) (readers s)
  | LAttachRO i => mk_lock (lock_file s) (saw_free s) (holders s) (refused s) (i :: readers s)
  end.

Definition lock_run (s : lock_state) (h : list lock_event) : lock_state := fold_left lock_step h s.

Definition is_unlock (e : lock_event) : bool := match e with LUnlock _ => true | _ => false end.
Definition is_check_of (j : N) (e : lock_event) : bool :=
  match e with LCheck k => N.eqb j k | _ => false end.
