(* Model of martian/core/shell_quote.go appendShellSafeQuote and
   martian/core/jobmanager_remote.go formatArgs. *)
From Martian Require Import Lib.Bytes Lib.Utf8 Extracted.Shell.
Local Open Scope N_scope.

Definition c_dq : byte := n2b 34.      (* double quote *)
Definition c_dollar : byte := n2b 36.  (* dollar *)
Definition c_bslash : byte := n2b 92.  (* backslash *)
Definition c_btick : byte := n2b 96.   (* backtick *)
Definition c_nl : byte := n2b 10.
Definition c_sp : byte := n2b 32.
Definition c_eq : byte := n2b 61.

Definition octal_escape (b : byte) : bytes :=
  let n := b2n b in
  [c_bslash; n2b (48 + n / 64); n2b (48 + (n / 8) mod 8); n2b (48 + n mod 8)].

(* The bytes that appendShellSafeQuote prefixes with a backslash: taken from
   the source (Extracted.shell_escaped_bytes), so the proofs are re-checked
   against the case labels the code has now. *)
Definition is_escaped (b : byte) : bool :=
  existsb (N.eqb (b2n b)) shell_escaped_bytes.

(* [skip]: remaining continuation bytes of a multi-byte rune being copied. *)
Fixpoint quote_body (skip : nat) (s : bytes) : bytes :=
  match s with
  | [] => []
  | b :: r =>
      match skip with
      | S k => b :: quote_body k r
      | O =>
          match utf8_len s with
          | O => octal_escape b ++ quote_body 0 r
          | 1%nat =>
              if is_escaped b then c_bslash :: b :: quote_body 0 r
              else b :: quote_body 0 r
          | S (S k) => b :: quote_body (S k) r
          end
      end
  end.

Definition quote (s : bytes) : bytes := c_dq :: quote_body 0 s ++ [c_dq].

Definition sep : bytes := map n2b format_args_sep.

Definition env_str (kv : bytes * bytes) : bytes :=
  fst kv ++ c_eq :: quote (snd kv).

Definition format_args (envs : list (bytes * bytes)) (cmd : bytes)
  (argv : list bytes) : bytes :=
  let es := isort bytes_leb (map env_str envs) in
  concat (map (fun e => e ++ sep) es)
  ++ quote cmd
  ++ concat (map (fun a => sep ++ quote a) argv).
