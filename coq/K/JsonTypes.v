(* C17 - executable model of martian/syntax IsValidJson / FilterJson /
   IsAssignableFrom (builtin_types.go, user_file_type.go, collection_types.go,
   struct_type.go) at the level of JSON values.

   Types.  Struct types must be declared before use (StructMember.compile looks
   the member type up while the table is being filled in declaration order), so
   every compiled Type is a finite tree; the harness dumps the real Type objects
   with struct members inlined.  [TArr e d] is ArrayType{Elem: e, Dim: d+1}.

   Numbers.  [JNum m 0] is a literal in integer syntax (-?digits) with value m;
   [JNum m e] with e <> 0 is any other literal, of value m * 10^e (the harness
   sends those with e < 0).  encoding/json gives an int64 destination exactly
   the in-range integer-syntax literals and a float64 destination every literal
   that does not round to an infinity.  The int filter respells a float-syntax
   literal whose nearest binary64 is an int64 integer; an integer-syntax
   literal outside the int64 range is a fatal error.

   Objects are association lists in source order; unmarshalling into a Go map
   keeps the last value of a repeated key ([dedup], [get_last]).

   The sameSlice fast path is modelled by the [ch] (changed) flag: a filter
   returns its input slice when nothing below changed.  No proofs here. *)
From Coq Require Import String.
From Martian Require Import Lib.Bytes Json.Json Extracted.JsonTypes.

Inductive kind := KString | KInt | KFloat | KBool | KPath | KFile | KMap.

Inductive ty :=
| TB (k : kind)
| TU (name : bytes)
| TArr (elem : ty) (d : nat)
| TMap (elem : ty)
| TS (name : bytes) (ms : list (bytes * ty)).

Inductive fkind := FNot | FMay | FFile | FDir.

Definition kind_eqb (a b : kind) : bool :=
  match a, b with
  | KString, KString | KInt, KInt | KFloat, KFloat | KBool, KBool
  | KPath, KPath | KFile, KFile | KMap, KMap => true
  | _, _ => false
  end.

(* the Kind* constants of expression.go, regenerated from the Go AST *)
Definition kind_name (k : kind) : bytes :=
  map n2b (match k with
           | KString => kind_string | KInt => kind_int | KFloat => kind_float
           | KBool => kind_bool | KPath => kind_path | KFile => kind_file
           | KMap => kind_map
           end).

(* ---------------------------------------------------------------- IsFile *)
(* StructMember.compile: how one member changes the struct's kind *)
Definition struct_step (st m : fkind) : fkind :=
  match m with
  | FMay => match st with FNot => FMay | _ => st end
  | FFile | FDir => match st with FNot | FMay => FDir | _ => st end
  | FNot => st
  end.

Fixpoint is_file (t : ty) : fkind :=
  match t with
  | TB KPath | TB KFile => FFile
  | TB KString | TB KMap => FMay
  | TB _ => FNot
  | TU _ => FFile
  | TArr e _ => match is_file e with FFile => FDir | k => k end
  | TMap e => match is_file e with FNot => FNot | FDir | FFile => FDir | FMay => FMay end
  | TS _ ms =>
      (fix go (ms : list (bytes * ty)) (st : fkind) : fkind :=
         match ms with
         | [] => st
         | (_, mt) :: r => go r (struct_step st (is_file mt))
         end) ms FNot
  end.

Definition is_dir (t : ty) : bool := match is_file t with FDir => true | _ => false end.

Fixpoint can_filter (t : ty) : bool :=
  match t with
  | TB KInt => true
  | TB _ => false
  | TU _ => false
  | TArr e _ => can_filter e
  | TMap e => can_filter e
  | TS _ _ => true
  end.

(* ---------------------------------------------------------------- TypeId *)
(* (Tname, ArrayDim, MapDim) as computed by the TypeId methods *)
Fixpoint tid (t : ty) : bytes * nat * nat :=
  match t with
  | TB k => (kind_name k, O, O)
  | TU n => (n, O, O)
  | TS n _ => (n, O, O)
  | TArr e d => let '(n, a, m) := tid e in (n, a + S d, m)
  | TMap e => let '(n, a, _) := tid e in (n, O, S a)
  end.
Definition tname (t : ty) : bytes := fst (fst (tid t)).
Definition adim (t : ty) : nat := snd (fst (tid t)).
Definition mdim (t : ty) : nat := snd (tid t).
(* member.Tname == o.Tname: the same TypeId, hence the same Type of the table *)
Definition tid_eqb (a b : ty) : bool :=
  bytes_eqb (tname a) (tname b) && (adim a =? adim b)%nat && (mdim a =? mdim b)%nat.

(* ---------------------------------------------------------------- objects *)
Fixpoint mem_key {A} (k : bytes) (l : list (bytes * A)) : bool :=
  match l with
  | [] => false
  | (k', _) :: r => bytes_eqb k k' || mem_key k r
  end.

(* Go map built from an object: one entry per key, the last value *)
Fixpoint dedup {A} (l : list (bytes * A)) : list (bytes * A) :=
  match l with
  | [] => []
  | (k, v) :: r => if mem_key k r then dedup r else (k, v) :: dedup r
  end.

Fixpoint get_last {A} (k : bytes) (l : list (bytes * A)) : option A :=
  match l with
  | [] => None
  | (k', v) :: r =>
      match get_last k r with
      | Some x => Some x
      | None => if bytes_eqb k k' then Some v else None
      end
  end.

(* IsLegalUnixFilename (compile_params.go); constants regenerated from the AST *)
Definition legal_filename (k : bytes) : bool :=
  (N.of_nat (length k) <=? legal_max_len)%N
  && negb (existsb (fun r => bytes_eqb k (map n2b r)) legal_reserved)
  && negb (existsb (fun c => existsb (fun f => (b2n c =? f)%N) legal_forbidden) k).

(* ---------------------------------------------------------------- numbers *)
Definition in_int64 (z : Z) : bool :=
  ((- 9223372036854775808 <=? z) && (z <=? 9223372036854775807))%Z.

(* an upper bound of the number of decimal digits of m *)
Definition digits_ub (m : Z) : Z := (Z.log2 (Z.abs m) / 3 + 1)%Z.

(* |m * 10^e| as a fraction a / b *)
Definition num_frac (m e : Z) : Z * Z :=
  if (0 <=? e)%Z then (Z.abs m * 10 ^ e, 1)%Z else (Z.abs m, 10 ^ (- e))%Z.

(* strconv.ParseFloat(.., 64) reports a range error: the nearest binary64
   would be an infinity, i.e. |v| >= 2^1024 - 2^970 *)
Definition f64_overflow (m e : Z) : bool :=
  if (m =? 0)%Z then false
  else if (310 <? e)%Z then true
  else if (digits_ub m + e <? 300)%Z then false
  else let '(a, b) := num_frac m e in
       ((2 ^ 1024 - 2 ^ 970) * b <=? a)%Z.

(* The binary64 nearest to m * 10^e (ties to even), when it is an integer
   inside the int64 range: what `i := int64(tmp); float64(i) == tmp` accepts
   (amd64: an out-of-range conversion yields MinInt64, which never compares
   equal to such a tmp). *)
Definition f64_mag (m e : Z) : option Z :=
  if (m =? 0)%Z then Some 0%Z
  else if (310 <? e)%Z then None
  else if (digits_ub m + e <? -330)%Z then Some 0%Z
  else
    let '(a, b) := num_frac m e in
    let n := (Z.log2 a - Z.log2 b)%Z in
    let s0 := Z.min (52 - n) 1074 in
    let scaled (s : Z) : Z * Z * Z :=
      if (0 <=? s)%Z then ((a * 2 ^ s) / b, (a * 2 ^ s) mod b, b)%Z
      else (a / (b * 2 ^ (- s)), a mod (b * 2 ^ (- s)), b * 2 ^ (- s))%Z in
    let s := if (fst (fst (scaled s0)) <? 2 ^ 52)%Z then Z.min (s0 + 1) 1074 else s0 in
    let '(t, r, den) := scaled s in
    let t' := if ((den <? 2 * r) || ((2 * r =? den) && Z.odd t))%Z then (t + 1)%Z else t in
    if (s <=? 0)%Z then Some (t' * 2 ^ (- s))%Z
    else if (t' mod 2 ^ s =? 0)%Z then Some (t' / 2 ^ s)%Z else None.

Definition f64_round_int (m e : Z) : option Z :=
  match f64_mag m e with
  | None => None
  | Some i => let i' := if (m <? 0)%Z then (- i)%Z else i in
              if in_int64 i' then Some i' else None
  end.

(* ---------------------------------------------------------------- IsValidJson *)
(* (error returned, alarm written) *)
Definition vres := (bool * bool)%type.
Definition vok : vres := (false, false).
Definition verr : vres := (true, false).
Definition valarm : vres := (false, true).
Definition vor (a b : vres) : vres := (fst a || fst b, snd a || snd b).
Definition vall {A} (f : A -> vres) (l : list A) : vres :=
  fold_right (fun x acc => vor (f x) acc) vok l.
Definition vbool (b : bool) : vres := if b then vok else verr.

Definition valid_builtin (k : kind) (v : json) : vres :=
  match v with
  | JNull => vok
  | _ =>
    match k with
    | KString | KPath | KFile => match v with JStr _ => vok | _ => verr end
    | KInt => match v with JNum m e => vbool ((e =? 0)%Z && in_int64 m) | _ => verr end
    | KFloat => match v with JNum m e => vbool (negb (f64_overflow m e)) | _ => verr end
    | KBool => match v with JBool _ => vok | _ => verr end
    | KMap => match v with JObj _ => vok | _ => verr end
    end
  end.

(* ArrayType{Elem, Dim: d+1}.IsValidJson, [ve] = the element type's validator *)
Fixpoint arr_valid (ve : json -> vres) (d : nat) (v : json) : vres :=
  match v with
  | JNull => vok
  | JArr l => vall (match d with O => ve | S d' => arr_valid ve d' end) l
  | _ => verr
  end.

(* [legal] is the rule applied to the keys of directory-like typed maps
   (IsLegalUnixFilename in the implementation) *)
Fixpoint valid_gen (legal : bytes -> bool) (t : ty) (v : json) : vres :=
  match t with
  | TB k => valid_builtin k v
  | TU _ => match v with JNull | JStr _ => vok | _ => valarm end
  | TArr e d => arr_valid (valid_gen legal e) d v
  | TMap e =>
      match v with
      | JNull => vok
      | JObj kvs =>
          let m := dedup kvs in
          vor (vall (fun kv => valid_gen legal e (snd kv)) m)
              (if is_dir (TMap e) then vall (fun kv => vbool (legal (fst kv))) m else vok)
      | _ => verr
      end
  | TS _ ms =>
      match v with
      | JNull => vok
      | JObj kvs =>
          (fix go (ms : list (bytes * ty)) : vres :=
             match ms with
             | [] => vok
             | (id, mt) :: r =>
                 vor (match get_last id kvs with
                      | None => verr
                      | Some x => valid_gen legal mt x
                      end) (go r)
             end) ms
      | _ => verr
      end
  end.

Definition valid : ty -> json -> vres := valid_gen legal_filename.

Definition clean (r : vres) : bool := negb (fst r) && negb (snd r).
Definition valid_clean (t : ty) (v : json) : bool := clean (valid t v).

(* ---------------------------------------------------------------- FilterJson *)
Record fres := FR { out : json; ch : bool; fatal : bool; ferr : bool }.

Definition unch (v : json) : fres := FR v false false false.
Definition ffail (v : json) : fres := FR v false true true.
(* data, err != nil, err *)
Definition fcheck (v : json) (ok : bool) : fres := FR v false (negb ok) (negb ok).

Definition filter_builtin (k : kind) (v : json) : fres :=
  match v with
  | JNull => unch v
  | _ =>
    match k with
    | KString | KPath | KFile => fcheck v (match v with JStr _ => true | _ => false end)
    | KFloat => fcheck v (match v with JNum m e => negb (f64_overflow m e) | _ => false end)
    | KBool => fcheck v (match v with JBool _ => true | _ => false end)
    | KMap => fcheck v (match v with JObj _ => true | _ => false end)
    | KInt =>
        match v with
        | JNum m e =>
            if (e =? 0)%Z then (if in_int64 m then unch v else ffail v)
            else if f64_overflow m e then ffail v
            else match f64_round_int m e with
                 | Some i => FR (JNum i 0) true false true
                 | None => ffail v
                 end
        | _ => ffail v
        end
    end
  end.

(* how the results of the components combine (errs / fatal / different) *)
Definition any_ch (rs : list fres) : bool := existsb ch rs.
Definition any_fatal (rs : list fres) : bool := existsb (fun r => ferr r && fatal r) rs.
Definition any_err (rs : list fres) : bool := existsb ferr rs.

Fixpoint arr_filter (fe : json -> fres) (d : nat) (v : json) : fres :=
  match v with
  | JNull => unch v
  | JArr [] => unch v
  | JArr l =>
      let rs := map (match d with O => fe | S d' => arr_filter fe d' end) l in
      FR (if any_ch rs then JArr (map out rs) else v) (any_ch rs) (any_fatal rs) (any_err rs)
  | _ => ffail v
  end.

Fixpoint filter (t : ty) (v : json) : fres :=
  match t with
  | TB k => filter_builtin k v
  | TU _ => FR v false false (match v with JNull | JStr _ => false | _ => true end)
  | TArr e d => if can_filter e then arr_filter (filter e) d v else unch v
  | TMap e =>
      if can_filter e then
        match v with
        | JNull => unch v
        | JObj kvs =>
            match dedup kvs with
            | [] => unch v
            | m =>
                let rs := map (fun kv => filter e (snd kv)) m in
                FR (if any_ch rs then JObj (combine (map fst m) (map out rs)) else v)
                   (any_ch rs) (any_fatal rs) (any_err rs)
            end
        | _ => ffail v
        end
      else unch v
  | TS _ ms =>
      match v with
      | JNull => unch v
      | JObj kvs =>
          let rs :=
            (fix go (ms : list (bytes * ty)) : list fres :=
               match ms with
               | [] => []
               | (id, mt) :: r =>
                   (match get_last id kvs with
                    | None => FR JNull false true true
                    | Some b => if can_filter mt then filter mt b else unch b
                    end) :: go r
               end) ms in
          let different := negb (length (dedup kvs) =? length ms)%nat || any_ch rs in
          FR (if different then JObj (combine (map fst ms) (map out rs)) else v)
             different (any_fatal rs) (any_err rs)
      | _ => ffail v
      end
  end.

(* ---------------------------------------------------------------- IsAssignableFrom *)
(* t.IsAssignableFrom(o).  The `s == other` pointer shortcuts are subsumed by
   the general clauses (assignable_refl).  StructType: corresponding members
   must agree in array and map dimension; then an equal base name (an equal
   TypeId, hence the same Type of the table) is accepted, otherwise the member
   types decide. *)
Fixpoint assignable_g (sm : bool) (t o : ty) : bool :=
  match t with
  | TB k =>
      match o with
      | TB k' =>
          kind_eqb k' k
          || (kind_eqb k' KString && (kind_eqb k KFile || kind_eqb k KPath))
          || (kind_eqb k' KInt && kind_eqb k KFloat)
      | TU _ => kind_eqb k KFile || kind_eqb k KString
      | TS _ _ => kind_eqb k KMap
      | TArr _ _ => false
      | TMap _ => kind_eqb k KMap
      end
  | TU n =>
      match o with
      | TB k' => kind_eqb k' KFile || kind_eqb k' KString
      | TU n' => bytes_eqb n n'
      | _ => false
      end
  | TArr e d =>
      match o with
      | TArr e' d' => assignable_g sm e e' && (d =? d')%nat
      | _ => false
      end
  | TMap e =>
      match o with
      | TMap e' => assignable_g sm e e'
      | TS _ ms' => sm && forallb (fun m => assignable_g sm e (snd m)) ms'
      | _ => false
      end
  | TS _ ms =>
      match o with
      | TS _ ms' =>
          (fix go (ms : list (bytes * ty)) : bool :=
             match ms with
             | [] => true
             | (id, mt) :: r =>
                 (match assoc_get id ms' with
                  | None => false
                  | Some ot =>
                      (adim mt =? adim ot)%nat && (mdim mt =? mdim ot)%nat
                      && (bytes_eqb (tname mt) (tname ot) || assignable_g sm mt ot)
                  end) && go r
             end) ms
      | _ => false
      end
  end.

(* [sm = false] leaves out the clause "a typed map accepts a struct whose
   members it accepts" (used to state the guarded theorem). *)
Definition assignable : ty -> ty -> bool := assignable_g true.

(* ---------------------------------------------------------------- observation *)
(* canonical form for comparison: last duplicate wins, keys sorted *)
Fixpoint canon (j : json) : json :=
  match j with
  | JArr l => JArr (map canon l)
  | JObj kvs => JObj (sort_keys (dedup (map (fun kv => (fst kv, canon (snd kv))) kvs)))
  | _ => j
  end.

Definition b2z (b : bool) : Z := if b then 1%Z else 0%Z.

(* one observation of a (type, value) case: validation error/alarm, filter
   fatal/err flags, canonical filtered value, and the same for the filter
   output fed back (idempotence and validity of the result) *)
Definition observe (t : ty) (v : json) : list Z * json :=
  let r := filter t v in
  let r2 := filter t (out r) in
  ([b2z (fst (valid t v)); b2z (snd (valid t v)); b2z (fatal r); b2z (ferr r);
    b2z (fst (valid t (out r))); b2z (snd (valid t (out r)));
    b2z (json_eqb (canon (out r2)) (canon (out r)))],
   canon (out r)).
