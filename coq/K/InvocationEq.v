(* K/InvocationEq.v - boolean comparison of the C16 model's results with the
   implementation's observations, used by the kernel (vm_compute)
   correspondence sample of checks/c16.py.  Definitions only. *)
From Martian Require Import Lib.Bytes Json.Json Mro.Ast K.Invocation.
Local Open Scope Z_scope.

Definition map_kind_eqb (a b : map_kind) : bool :=
  match a, b with MapKindMap, MapKindMap | MapKindStruct, MapKindStruct => true | _, _ => false end.
Definition ref_kind_eqb (a b : ref_kind) : bool :=
  match a, b with RefSelf, RefSelf | RefCall, RefCall => true | _, _ => false end.

Fixpoint exp_eqb (a b : exp) : bool :=
  match a, b with
  | EArray l, EArray l' =>
      (fix go (l l' : list exp) : bool :=
         match l, l' with
         | [], [] => true
         | x :: r, y :: r' => exp_eqb x y && go r r'
         | _, _ => false
         end) l l'
  | EMap k l, EMap k' l' =>
      map_kind_eqb k k' &&
      (fix go (l l' : list (bytes * exp)) : bool :=
         match l, l' with
         | [], [] => true
         | (kx, x) :: r, (ky, y) :: r' => bytes_eqb kx ky && exp_eqb x y && go r r'
         | _, _ => false
         end) l l'
  | EString s, EString t => bytes_eqb s t
  | EBool x, EBool y => Bool.eqb x y
  | EInt x, EInt y => x =? y
  | EFloat m e, EFloat m' e' => (m =? m') && (e =? e')
  | ENull, ENull => true
  | ERef k i o, ERef k' i' o' => ref_kind_eqb k k' && bytes_eqb i i' && bytes_eqb o o'
  | ESplit x, ESplit y => exp_eqb x y
  | _, _ => false
  end.

Fixpoint list_eqb {A} (eqb : A -> A -> bool) (l l' : list A) : bool :=
  match l, l' with
  | [], [] => true
  | x :: r, y :: r' => eqb x y && list_eqb eqb r r'
  | _, _ => false
  end.

Definition binds_eqb : list (bytes * exp) -> list (bytes * exp) -> bool :=
  list_eqb (fun a b => bytes_eqb (fst a) (fst b) && exp_eqb (snd a) (snd b)).

Definition inv_eqb (a b : invocation) : bool :=
  bytes_eqb (inv_call a) (inv_call b) && bytes_eqb (inv_include a) (inv_include b)
  && list_eqb bytes_eqb (inv_split a) (inv_split b)
  && list_eqb (fun x y : bytes * json => bytes_eqb (fst x) (fst y) && json_eqb (snd x) (snd y))
              (inv_args a) (inv_args b).

(* float tables of a case: the instantiation of fparse / fprint *)
Definition ftab := list ((Z * Z) * (Z * Z)).
Definition tab_get (t : ftab) (m e : Z) : Z * Z :=
  match find (fun x => (fst (fst x) =? m) && (snd (fst x) =? e)) t with
  | Some x => snd x
  | None => (0, 0)
  end.

Record c16_case := mk_c16 {
  cc_te : tenv;
  cc_params : list (bytes * type_id);
  cc_inv : invocation;
  cc_ptab : ftab;
  cc_ftab : ftab;
  cc_expected : option (list (bytes * exp) * invocation)   (* the implementation's observation *)
}.

Definition check_case (c : c16_case) : bool :=
  match build_call (tab_get (cc_ptab c)) (cc_te c) (cc_params c) (cc_inv c), cc_expected c with
  | None, None => true
  | Some r, Some (b, d) => binds_eqb (tc_binds r) b && inv_eqb (data_for_ast (tab_get (cc_ftab c)) r) d
  | _, _ => false
  end.

Fixpoint bad_cases (i : nat) (l : list c16_case) : list nat :=
  match l with
  | [] => []
  | c :: r => if check_case c then bad_cases (S i) r else i :: bad_cases (S i) r
  end.
