(* K/FormatGB.v - model of formatGB (martian/syntax/format_callable.go) on the
   number of megabytes: the value printed is mbt / 1024 GB.  The digit
   selection is modelled in the exact integer arithmetic the code uses; the
   additional float32 re-parse test the code applies before it drops a digit
   (gbRoundTrips) never vetoes below 256 GB and is not modelled - the
   correspondence check compares model and implementation below 256 GB and the
   implementation-side oracle covers every binade above.  Definitions only. *)
From Martian Require Import Lib.Bytes K.ParseNum K.FormatExp.
Local Open Scope N_scope.

(* the loop that finds how many digits are required:
   for digits > 0 && ((decFrac-decFrac%10)*1024+scale-1)/scale == mb *)
Fixpoint gb_digits (fuel : nat) (mb decfrac scale : N) (digits : nat) : N * nat :=
  match fuel with
  | O => (decfrac, digits)
  | S f =>
      match digits with
      | O => (decfrac, digits)
      | S d =>
          if ((decfrac - decfrac mod 10) * 1024 + scale - 1) / scale =? mb
          then gb_digits f mb (decfrac / 10) (scale / 10) d
          else (decfrac, digits)
      end
  end.

(* decfrac written with exactly [digits] digits, most significant first *)
Fixpoint frac_digits (digits : nat) (decfrac : N) (acc : bytes) : bytes :=
  match digits with
  | O => acc
  | S d => frac_digits d (decfrac / 10) (digit (decfrac mod 10) :: acc)
  end.

Fixpoint strip_trailing_zeros (rev_digits : bytes) : bytes :=
  match rev_digits with
  | c :: r => if beq c c_zero then strip_trailing_zeros r else rev_digits
  | [] => []
  end.

(* the text after the integer part, for 0 < mb < 1024 *)
Definition gb_frac (mb : N) : bytes :=
  let '(decfrac, digits) := gb_digits 4 mb (mb * 10000 / 1024) 10000 4 in
  match digits with
  | O => []
  | _ => c_dot :: rev (strip_trailing_zeros (rev (frac_digits digits decfrac [])))
  end.

(* formatGB of mbt/1024 GB, mbt >= 0 *)
Definition format_gb (mbt : N) : bytes :=
  if mbt =? 0 then [c_zero]
  else print_dec (mbt / 1024) ++ (if mbt mod 1024 =? 0 then [] else gb_frac (mbt mod 1024)).

(* reading a decimal fraction .d1..dk exactly: (numerator, 10^k) *)
Fixpoint frac_value (s : bytes) (num den : N) : N * N :=
  match s with
  | [] => (num, den)
  | c :: r => frac_value r (10 * num + digit_val c) (10 * den)
  end.

(* roundUpTo(x, 1024) in MB for the exact value whole + num/den *)
Definition mb_of (whole num den : N) : N :=
  whole * 1024 + (num * 1024 + den - 1) / den.

(* the MB count the printed fraction denotes *)
Definition gb_frac_mb (mb : N) : N :=
  match gb_frac mb with
  | [] => 0
  | _ :: ds => let '(num, den) := frac_value ds 0 1 in (num * 1024 + den - 1) / den
  end.
