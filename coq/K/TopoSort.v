(* K/TopoSort.v - model of Pipeline.topoSort (martian/syntax/compile_pipelines.go):
   directDepsMap, addNextDeps (transitive closure, cycle errors) and the stable
   move-behind-the-last-dependency loop, over an abstract call graph: calls are
   numbered, [snd] of a node lists the calls its bindings and modifiers refer
   to (possibly ids that are not calls of the pipeline).  Definitions only. *)
From Martian Require Import Lib.Bytes.
Local Open Scope N_scope.

Definition node := (N * list N)%type.
Definition graph := list node.

Definition memN (i : N) (l : list N) : bool := existsb (N.eqb i) l.

Fixpoint dedupe (l : list N) : list N :=
  match l with
  | [] => []
  | x :: r => if memN x r then dedupe r else x :: dedupe r
  end.

Definition deps_of (g : graph) (i : N) : list N :=
  match find (fun n => fst n =? i) g with
  | Some n => snd n
  | None => []          (* callMap[id] == nil: no dependencies of its own *)
  end.

(* one round of addNextDeps: every call also depends on what its dependencies
   depend on *)
Definition close_step (g : graph) : graph :=
  map (fun n => (fst n, dedupe (snd n ++ flat_map (deps_of g) (snd n)))) g.

Fixpoint iter {A} (k : nat) (f : A -> A) (x : A) : A :=
  match k with O => x | S k' => iter k' f (f x) end.

Definition closure (g : graph) : graph := iter (length g) close_step g.

(* CyclicDependencyError: a call that (transitively) depends on itself *)
Definition cyclic (g : graph) : bool := existsb (fun n => memN (fst n) (snd n)) g.

(* the largest index i such that tail[i] is one of deps *)
Fixpoint last_dep (deps : list N) (tail : graph) (i : nat) (acc : option nat) : option nat :=
  match tail with
  | [] => acc
  | n :: r => last_dep deps r (S i) (if memN (fst n) deps then Some i else acc)
  end.

(* the loop: [done] is Calls[:checkIndex] reversed, [rest] is Calls[checkIndex:] *)
Fixpoint sort_loop (fuel : nat) (done rest : graph) : option graph :=
  match rest with
  | [] => Some (rev done)
  | [c] => Some (rev done ++ [c])
  | c :: tail =>
      match fuel with
      | O => None
      | S f =>
          match last_dep (snd c) tail 0 None with
          | Some i => sort_loop f done (firstn (S i) tail ++ c :: skipn (S i) tail)
          | None => sort_loop f (c :: done) tail
          end
      end
  end.

Definition sort_fuel (g : graph) : nat := S (length g * length g + length g).

(* None: an error is returned (or the fuel ran out, which the correspondence
   check would show as a disagreement) *)
Definition topo_sort (g : graph) : option (list N) :=
  let c := closure g in
  if cyclic c then None
  else option_map (map fst) (sort_loop (sort_fuel c) [] c).

(* no call depends on itself or a later call *)
Fixpoint ordered (g : graph) : bool :=
  match g with
  | [] => true
  | c :: r => negb (memN (fst c) (snd c)) &&
              forallb (fun n => negb (memN (fst n) (snd c))) r && ordered r
  end.
