(* K/ExpComments.v - model of which comments the formatter prints inside a
   collection literal (martian/syntax/format_exp.go ArrayExp.formatNested,
   ArrayExp.singleLineFormat, singleLineFormat, MapExp.format with the mro
   printer).  A literal is a tree; every element of an array and every entry of
   a map carries the ids of the comments attached to its node (Comments and
   scopeComments together: AstNode.hasComments / printer.printComments treat
   them alike for this purpose).  [fmt] lists the comment ids in the order the
   formatter prints them.  Definitions only. *)
From Martian Require Import Lib.Bytes.

Inductive cexp :=
| CLeaf                                   (* a scalar or reference *)
| CArr (items : list (list N * cexp))     (* ArrayExp.Value, with each element's comments *)
| CMap (entries : list (list N * cexp)).  (* MapExp.Value in sorted key order *)

(* singleLineFormat: the expression is printed without a newline *)
Fixpoint slf (e : cexp) : bool :=
  match e with
  | CLeaf => true
  | CArr [] => true
  | CArr [(_, x)] => slf x
  | CArr _ => false
  | CMap [] => true
  | CMap _ => false
  end.

Definition no_comments (cs : list N) : bool := match cs with [] => true | _ => false end.

(* [single]: the caller has established that the array is printed on one line
   (formatNested's singleLine argument) *)
Fixpoint fmt (single : bool) (e : cexp) {struct e} : list N :=
  let each := fix go (l : list (list N * cexp)) : list N :=
    match l with
    | [] => []
    | (cs, x) :: r => cs ++ fmt false x ++ go r      (* printComments, then the element *)
    end in
  match e with
  | CLeaf => []
  | CArr [] => []
  | CArr ((cs, x) :: rest) =>
      if (single || slf e) && no_comments cs then
        (* a single-element array on one line: only values[0] is written *)
        match x with
        | CArr _ => fmt true x
        | _ => fmt false x
        end
      else each ((cs, x) :: rest)
  | CMap entries => each entries
  end.

(* the comments of the literal in source order (arrays) / key order (maps) *)
Fixpoint inorder (e : cexp) : list N :=
  let each := fix go (l : list (list N * cexp)) : list N :=
    match l with
    | [] => []
    | (cs, x) :: r => cs ++ inorder x ++ go r
    end in
  match e with
  | CLeaf => []
  | CArr items => each items
  | CMap entries => each entries
  end.

(* the printer as it would be with the has-comments test skipped once the
   caller said single line (the slip [singleLine || e.singleLineFormat() && ...]) *)
Fixpoint fmt_slip (single : bool) (e : cexp) {struct e} : list N :=
  let each := fix go (l : list (list N * cexp)) : list N :=
    match l with
    | [] => []
    | (cs, x) :: r => cs ++ fmt_slip false x ++ go r
    end in
  match e with
  | CLeaf => []
  | CArr [] => []
  | CArr ((cs, x) :: rest) =>
      if single || (slf e && no_comments cs) then
        match x with
        | CArr _ => fmt_slip true x
        | _ => fmt_slip false x
        end
      else each ((cs, x) :: rest)
  | CMap entries => each entries
  end.
