(* Model of LocalJobManager.GetSystemReqs and of the amounts Enqueue acquires
   (martian/core/jobmanager_local.go), in centi-core / MB integers.

   The Go code takes float64 requests.  The model takes the request as exact
   dyadic fractions: threads = t/64, mem = m/4096 GB, vmem = v/4096 GB, for
   which the float64 products threads*100 and mem*1024 are exact, so
   math.Ceil / math.Floor agree with integer ceiling / floor.  Requests that
   are not of this form (0.07, 1e19, ...) are covered by the
   implementation-side oracle of the check, not by this model. *)
From Coq Require Export ZArith Bool Lia List NArith.
From Martian Require Import Extracted.Resources.
Export ListNotations.
Local Open Scope Z_scope.

Record cfg := mkCfg {
  max_cores : Z;          (* self.maxCores *)
  max_mem_gb : Z;         (* self.maxMemGB *)
  max_vmem_mb : Z;        (* self.maxVmemMB; <= 0: no vmem semaphore *)
  threads_per_job : Z;    (* jobSettings.ThreadsPerJob *)
  mem_gb_per_job : Z;     (* jobSettings.MemGBPerJob *)
  extra_vmem_gb : Z       (* jobSettings.ExtraVmemGB *)
}.

Definition ceil_div (a b : Z) : Z := - ((- a) / b).

(* math.Floor for a negative request, math.Ceil otherwise *)
Definition round_away (num den : Z) : Z :=
  if num <? 0 then num / den else ceil_div num den.

Definition has_vmem (c : cfg) : bool := 0 <? max_vmem_mb c.

(* avail := sem.CurrentSize(); if avail < 1 || avail < -x { x = -x } else { x = avail } *)
Definition adaptive (avail x : Z) : Z :=
  if (avail <? 1) || (avail <? - x) then - x else avail.

Definition centi_cores (c : cfg) (t : Z) : Z :=
  let cc0 := round_away (t * centi_per_core) 64 in
  let cc1 := if cc0 =? 0 then threads_per_job c * 100
             else if cc0 <? 0 then max_cores c * 100 else cc0 in
  if max_cores c * 100 <? cc1 then max_cores c * 100 else cc1.

Definition mem_mb_unclamped (c : cfg) (mem_cur m : Z) : Z :=
  let m0 := round_away (m * mb_per_gb) 4096 in
  if m0 =? 0 then mem_gb_per_job c * 1024
  else if m0 <? 0 then adaptive mem_cur m0 else m0.

Definition mem_mb (c : cfg) (mem_cur m : Z) : Z :=
  let m1 := mem_mb_unclamped c mem_cur m in
  if max_mem_gb c * 1024 <? m1 then max_mem_gb c * 1024 else m1.

Definition vmem_mb (c : cfg) (mem_cur vmem_cur m v : Z) : Z :=
  let m1 := mem_mb_unclamped c mem_cur m in
  let m2 := mem_mb c mem_cur m in
  let v0 := round_away (v * mb_per_gb) 4096 in
  let v1 := if v0 =? 0 then m1 + extra_vmem_gb c * 1024 else v0 in
  let v2 := if v1 <? 0 then (if has_vmem c then adaptive vmem_cur v1 else v1) else v1 in
  let v3 := if (0 <? max_vmem_mb c) && (max_vmem_mb c <? v2) then max_vmem_mb c else v2 in
  if (0 <? v3) && (v3 <? m2) then m2 else v3.

(* GetSystemReqs: (centi-cores, MB, vmem MB); the Go result is
   Threads = cc/100, MemGB = mb/1024, VMemGB = vmb/1024. *)
Definition get_system_reqs (c : cfg) (mem_cur vmem_cur t m v : Z) : Z * Z * Z :=
  (centi_cores c t, mem_mb c mem_cur m, vmem_mb c mem_cur vmem_cur m v).

(* What Enqueue then acquires, in acquisition order:
     centiCores   = ceil(res.Threads*100)
     memMb        = ceil(res.MemGB*1024)
     vmem         = int64(res.VMemGB)*1024      (whole GB, truncated toward zero)
     procEstimate = procsPerJob + (centiCores+99)/100 *)
Definition enqueue_amounts (r : Z * Z * Z) : list Z :=
  let '(cc, mb, vmb) := r in
  [cc; mb; Z.quot vmb 1024 * 1024; Z.of_N procs_per_job + (cc + 99) / 100].
