(* K/Invocation.v - model of the conversion between a top-level MRO call and
   invocation data (C16).

   Go code modelled, clause by clause:
     martian/core/runtime.go   possibleStructType, fixExpressionTypes,
                               convertToExp (json.RawMessage branch, incl. the
                               split wrapper and splitSourceType),
                               BuildCallAst, BuildDataForAst
     martian/syntax/format_exp_json.go   EncodeJSON / MarshalJSON of the value
                               expressions and of SplitExp (Call == nil)
     martian/syntax/type_lookup.go       TypeLookup.Get (which type ids
                               resolve to a struct type)

   Level: VALUES.  A JSON text is represented by the value encoding/json
   decodes it to (Json.json, strings as decoded bytes, objects in source
   order with duplicates), an expression by Mro.Ast.exp (MapExp entries in
   bytewise key order, the Go value is a map).  The MRO text between
   BuildCallSource and InvocationDataFromSource (ast.Format / the parser) is
   not modelled here; the correspondence check compares what comes out of the
   implementation after the text round trip with this model.

   Numbers.  A number literal of integer syntax (NUM_INT token) is JNum z 0;
   a literal of float syntax (NUM_FLOAT: fraction and/or exponent) is
   JNum m e with e <> 0 (the transport denormalises m*10^0 to (10m)*10^-1).
   Floats are float64 values m2 * 2^e2 (Ast.EFloat).  Parsing and printing of
   floats (strconv.ParseFloat, strconv.AppendFloat 'g' -1) are the Section
   variables fparse / fprint; the proofs use two hypotheses about them (see
   Proofs/Invocation.v), the drivers instantiate them with tables computed by
   strconv itself on the numbers of each case.

   Not modelled: invalid UTF-8 in strings (quoteString replaces it by U+FFFD),
   the nil TypeLookup (every caller in the repository passes one), the
   json.Marshaler kinds other than json.RawMessage that mrp's resolver
   produces (LazyArgumentMap, MarshalerMap, marshallerArray: same decisions
   without the parse step; exercised end to end), RefExp.Forks.
   Definitions only, no proofs. *)
From Martian Require Import Lib.Bytes Json.Json Mro.Ast Extracted.Invocation.
Local Open Scope Z_scope.

(* constants regenerated from the Go sources (Extracted/Invocation.v) *)
Definition split_enc_key : bytes := map n2b split_enc_key_n.   (* SplitExp.encodeJSON *)
Definition split_dec_key : bytes := map n2b split_dec_key_n.   (* convertToExp struct tag *)
Definition bs_reference_key : bytes := map n2b reference_key_n.
Definition bs_self_dot : bytes := map n2b self_dot_n.

(* "call", "mode", "null": SplitExp.encodeJSON with Call set, ModeNullMapCall.String() *)
Definition bs_call : bytes := map n2b [99; 97; 108; 108]%N.
Definition bs_mode : bytes := map n2b [109; 111; 100; 101]%N.
Definition bs_null : bytes := map n2b [110; 117; 108; 108]%N.

(* ------------------------------------------------------------ type lookup *)

(* What BuildCallAst needs of a syntax.TypeLookup: the struct types and the
   names of all other base types (builtins and user file types). *)
Record tenv := mk_tenv {
  te_structs : list struct_type;
  te_known : list bytes
}.

Definition find_struct (te : tenv) (name : bytes) : option struct_type :=
  find (fun s => bytes_eqb (sd_id s) name) (te_structs te).

Definition is_some {A} (o : option A) : bool := match o with Some _ => true | None => false end.

Definition base_known (te : tenv) (name : bytes) : bool :=
  is_some (find_struct te name) || existsb (bytes_eqb name) (te_known te).

Fixpoint member_type (ms : list struct_member) (k : bytes) : option type_id :=
  match ms with
  | [] => None
  | m :: r => if bytes_eqb (sm_id m) k then Some (sm_tname m) else member_type r k
  end.

(* What fixExpressionTypes does with a MapExp met at type t. *)
Inductive obj_dec :=
| DTypedMap (elem : type_id)        (* tname.MapDim > 0: stays a map, values at the element type *)
| DStruct (ms : list struct_member) (* lookup.Get is a *StructType: struct literal, members recursed *)
| DStructOpaque                     (* lookup.Get is nil: possibleStructType says struct; no recursion *)
| DMap.                             (* any other known type: stays a map; no recursion *)

Definition decide (te : tenv) (t : type_id) : obj_dec :=
  if (0 <? tid_map t)%N then DTypedMap (mk_tid (tid_name t) (tid_map t - 1)%N 0%N)
  else if (tid_arr t =? 0)%N then
    match find_struct te (tid_name t) with
    | Some s => DStruct (sd_members s)
    | None => if base_known te (tid_name t) then DMap else DStructOpaque
    end
  else if base_known te (tid_name t) then DMap     (* an ArrayType: not a struct *)
  else DStructOpaque.

(* ArrayExp: if tname.ArrayDim > 0 { tname.ArrayDim-- } *)
Definition dec_arr (t : type_id) : type_id :=
  if (0 <? tid_arr t)%N then mk_tid (tid_name t) (tid_arr t - 1)%N (tid_map t) else t.

Definition dec_kind (d : obj_dec) : map_kind :=
  match d with
  | DStruct _ | DStructOpaque => MapKindStruct
  | _ => MapKindMap
  end.

Definition dec_child (d : obj_dec) (k : bytes) : option type_id :=
  match d with
  | DTypedMap el => Some el
  | DStruct ms => member_type ms k
  | _ => None
  end.

(* Go map built by the parser from a literal: a later duplicate of a key
   replaces the earlier one.  Keeps the last occurrence of every key. *)
Fixpoint dedup_last {A} (l : list (bytes * A)) : list (bytes * A) :=
  match l with
  | [] => []
  | kv :: r => if existsb (fun kv' => bytes_eqb (fst kv) (fst kv')) r
               then dedup_last r else kv :: dedup_last r
  end.

(* encoding/json matches the keys of an object to a struct field ignoring
   case (only the ASCII folding is modelled; the two non-ASCII code points
   that fold to s and k are not generated). *)
Definition ascii_lower (b : byte) : byte :=
  if (65 <=? b2n b)%N && (b2n b <=? 90)%N then n2b (b2n b + 32)%N else b.
Definition fold_eqb (a b : bytes) : bool := bytes_eqb (map ascii_lower a) (map ascii_lower b).

Fixpoint assoc_get_last_fold {A} (k : bytes) (l : list (bytes * A)) : option A :=
  match l with
  | [] => None
  | (k', v) :: r =>
      match assoc_get_last_fold k r with
      | Some x => Some x
      | None => if fold_eqb k k' then Some v else None
      end
  end.

Fixpoint assoc_get_last {A} (k : bytes) (l : list (bytes * A)) : option A :=
  match l with
  | [] => None
  | (k', v) :: r =>
      match assoc_get_last k r with
      | Some x => Some x
      | None => if bytes_eqb k k' then Some v else None
      end
  end.

(* ---------------------------------------------------------- ParseValExp ok *)

Definition int64_ok (z : Z) : bool := (-9223372036854775808 <=? z) && (z <=? 9223372036854775807).

(* ParseValExp succeeds on the JSON text: every integer literal fits int64
   (nextToken returns INVALID otherwise).  Float literals out of float64 range
   are not generated. *)
Fixpoint json_ok (j : json) : bool :=
  match j with
  | JNum m e => if e =? 0 then int64_ok m else true
  | JArr l => forallb json_ok l
  | JObj kvs => forallb (fun kv => json_ok (snd kv)) kvs
  | _ => true
  end.

Section Floats.
  (* strconv.ParseFloat on a float-syntax literal m*10^e: the float64 (m2, e2) *)
  Variable fparse : Z -> Z -> Z * Z.
  (* strconv.AppendFloat(x, 'g', -1, 64) read back as a literal: (z, 0) when
     the text is an integer literal, else (m, e) with e <> 0 *)
  Variable fprint : Z -> Z -> Z * Z.

  (* ------------------------------------------------ JSON -> expression *)

  (* parser.ParseValExp followed by fixExpressionTypes at type t (None: the
     value is below a point where fixExpressionTypes stops recursing, every
     object stays a map literal). *)
  Fixpoint json_to_exp (te : tenv) (t : option type_id) (j : json) : exp :=
    match j with
    | JNull => ENull
    | JBool b => EBool b
    | JStr s => EString s
    | JNum m e => if e =? 0 then EInt m else let (a, b) := fparse m e in EFloat a b
    | JArr l => EArray (map (json_to_exp te (option_map dec_arr t)) l)
    | JObj kvs =>
        let d := match t with Some t' => decide te t' | None => DMap end in
        EMap (dec_kind d)
             (sort_keys (dedup_last
                (map (fun kv : bytes * json =>
                        let (k, v) := kv in (k, json_to_exp te (dec_child d k) v)) kvs)))
    end.

  (* ------------------------------------------------ expression -> JSON *)

  Definition c_dot : byte := n2b 46.
  Definition ref_text (k : ref_kind) (id out : bytes) : bytes :=
    (match k with RefSelf => bs_self_dot ++ id | RefCall => id end)
    ++ (match out with [] => [] | _ => c_dot :: out end).

  (* EncodeJSON (SplitExp with Call == nil, as in an uncompiled or freshly
     built top-level call). *)
  Fixpoint exp_to_json (e : exp) : json :=
    match e with
    | EArray l => JArr (map exp_to_json l)
    | EMap _ kvs => JObj (map (fun kv : bytes * exp => let (k, v) := kv in (k, exp_to_json v)) kvs)
    | EString s => JStr s
    | EBool b => JBool b
    | EInt z => JNum z 0
    | EFloat m e => let (a, b) := fprint m e in JNum a b
    | ENull => JNull
    | ERef k id out => JObj [(bs_reference_key, JStr (ref_text k id out))]
    | ESplit x => JObj [(split_enc_key, exp_to_json x)]
    end.

  (* ------------------------------------------------ calls *)

  (* splitSourceType *)
  Definition split_source_type (t : type_id) (is_map : bool) : type_id :=
    if negb is_map then mk_tid (tid_name t) (tid_arr t + 1)%N (tid_map t)
    else if (tid_map t =? 0)%N then mk_tid (tid_name t) 0%N (tid_arr t + 1)%N
    else t.

  (* convertToExp(parser, split, json.RawMessage, tname, lookup) as used by
     BuildCallAst; None is an error return.  With split the value must be an
     object with the split key (json.Unmarshal into struct{Split}); anything
     else, and a missing key (empty input to the parser), is an error.
     BuildCallAst wraps a non-SplitExp result (the null case) itself, so every
     successful split conversion ends as a SplitExp. *)
  Definition convert_arg (te : tenv) (split : bool) (t : type_id) (j : json) : option exp :=
    if negb split then
      if json_ok j then Some (json_to_exp te (Some t) j) else None
    else
      match j with
      | JObj kvs =>
          match assoc_get_last_fold split_dec_key kvs with
          | None => None
          | Some v =>
              if negb (json_ok v) then None
              else
                let t' := match v with
                          | JArr _ => split_source_type t false
                          | JObj _ => split_source_type t true
                          | _ => t
                          end in
                Some (ESplit (json_to_exp te (Some t') v))
          end
      | _ => None
      end.

  (* InvocationData (jobinfo.go): call, args, splitargs, mro_file *)
  Record invocation := mk_inv {
    inv_call : bytes;
    inv_args : list (bytes * json);
    inv_split : list bytes;
    inv_include : bytes
  }.

  (* the top-level call of the Ast BuildCallAst returns: include, callable,
     one binding per input parameter in declaration order *)
  Record top_call := mk_top {
    tc_include : bytes;
    tc_dec_id : bytes;
    tc_binds : list (bytes * exp)
  }.

  Definition mem_bytes (k : bytes) (l : list bytes) : bool := existsb (bytes_eqb k) l.

  Fixpoint build_binds (te : tenv) (params : list (bytes * type_id))
           (args : list (bytes * json)) (splitargs : list bytes) : option (list (bytes * exp)) :=
    match params with
    | [] => Some []
    | (id, t) :: r =>
        let e := match assoc_get_last id args with
                 | None => Some ENull                     (* args[id] == nil: null *)
                 | Some j => convert_arg te (mem_bytes id splitargs) t j
                 end in
        match e, build_binds te r args splitargs with
        | Some e', Some r' => Some ((id, e') :: r')
        | _, _ => None
        end
    end.

  (* InvocationData.BuildCallAst for a callable with the given input
     parameters, found in file inv_include *)
  Definition build_call (te : tenv) (params : list (bytes * type_id)) (inv : invocation) : option top_call :=
    match build_binds te params (inv_args inv) (inv_split inv) with
    | Some b => Some (mk_top (inv_include inv) (inv_call inv) b)
    | None => None
    end.

  Definition is_split (e : exp) : bool := match e with ESplit _ => true | _ => false end.

  (* MarshalJSON of a top-level binding.  A SplitExp around a NullExp only
     comes from BuildCallAst wrapping the null it got for a split argument;
     that wrapper has Call set, so its json names the call and the (null)
     mode.  Such a call has no mro text (split null is not in the grammar). *)
  Definition bind_to_json (call_id : bytes) (e : exp) : json :=
    match e with
    | ESplit ENull => JObj [(bs_call, JStr call_id); (bs_mode, JStr bs_null); (split_enc_key, JNull)]
    | _ => exp_to_json e
    end.

  (* BuildDataForAst *)
  Definition data_for_ast (c : top_call) : invocation :=
    mk_inv (tc_dec_id c)
           (map (fun b : bytes * exp => (fst b, bind_to_json (tc_dec_id c) (snd b))) (tc_binds c))
           (map fst (filter (fun b : bytes * exp => is_split (snd b)) (tc_binds c)))
           (tc_include c).

End Floats.
