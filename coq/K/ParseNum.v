(* Model of martian/syntax/parsenum.go (parseInt, parseFloat via
   strconv.ParseFloat on the decimal-float alphabet) and of the range checks
   martian/syntax/tokenizer.go applies to numeric tokens
   (intTokenInRange, floatTokenInRange).  No proofs here. *)
From Martian Require Import Lib.Bytes.
Local Open Scope N_scope.

Definition c_plus : byte := n2b 43.
Definition c_minus : byte := n2b 45.
Definition c_dot : byte := n2b 46.
Definition c_zero : byte := n2b 48.
Definition c_colon : byte := n2b 58.

Definition is_digit (b : byte) : bool := (48 <=? b2n b) && (b2n b <=? 57).
Definition digit_val (b : byte) : N := b2n b - 48.

(* ------------------------------------------------------------ parseInt *)

Inductive int_result := IOk (z : Z) | IPanic.

Definition two64 : N := 18446744073709551616.
Definition int_cutoff : N := 9223372036854775808.   (* 1 << 63 *)

(* the loop of parseInt; n is a uint64 (arithmetic wraps modulo 2^64);
   None is a panic *)
Fixpoint parse_int_loop (neg : bool) (n : N) (s : bytes) : option N :=
  match s with
  | [] => Some n
  | c :: r =>
      if negb (is_digit c) then None
      else
        let n1 := (10 * n + digit_val c) mod two64 in
        if (n1 <? n) || (int_cutoff <? n1) || (negb neg && (n1 =? int_cutoff))
        then None
        else parse_int_loop neg n1 r
  end.

Definition parse_int (s : bytes) : int_result :=
  match s with
  | [] => IPanic
  | c :: r =>
      let neg := beq c c_minus in
      let s' := if beq c c_plus then r else if neg then r else s in
      match s' with
      | [] => IPanic
      | _ =>
          match parse_int_loop neg 0 s' with
          | None => IPanic
          | Some n => IOk (if neg then - Z.of_N n else Z.of_N n)%Z
          end
      end
  end.

(* the value a decimal digit string denotes *)
Fixpoint dec_value_acc (acc : N) (s : bytes) : N :=
  match s with
  | [] => acc
  | c :: r => dec_value_acc (10 * acc + digit_val c) r
  end.
Definition dec_value (s : bytes) : N := dec_value_acc 0 s.

(* ------------------------------------------------------------ intTokenInRange *)

Definition max_int64_digits : bytes := map n2b [57;50;50;51;51;55;50;48;51;54;56;53;52;55;55;53;56;48;55].
Definition min_int64_digits : bytes := map n2b [57;50;50;51;51;55;50;48;51;54;56;53;52;55;55;53;56;48;56].

(* for len(val) > len(limit) && val[0] == '0' { val = val[1:] } *)
Fixpoint strip_zeros_to (k : nat) (s : bytes) : bytes :=
  match s with
  | c :: r => if (Nat.ltb k (length s)) && beq c c_zero then strip_zeros_to k r else s
  | [] => []
  end.

Definition int_token_in_range (val : bytes) : bool :=
  match val with
  | [] => false   (* val[0] on an empty token: not reachable, the rule matches at least one digit *)
  | c :: r =>
      let neg := beq c c_minus in
      let limit := if neg then min_int64_digits else max_int64_digits in
      let v := strip_zeros_to (length limit) (if neg then r else val) in
      Nat.ltb (length v) (length limit)
      || (Nat.eqb (length v) (length limit) && bytes_leb v limit)
  end.

(* ------------------------------------------------------------ strconv.ParseFloat *)

(* readFloat of strconv/atof.go restricted to base 10 without underscores:
   the significant digits (leading zeros dropped), the position of the decimal
   point relative to them, and the rest of the input. *)
Record mant := { m_digits : bytes; m_nd : Z; m_dp : Z; m_sawdot : bool; m_sawdigits : bool }.

Fixpoint read_mant (st : mant) (s : bytes) : mant * bytes :=
  match s with
  | [] => (st, [])
  | c :: r =>
      if beq c c_dot then
        if m_sawdot st then (st, s)
        else read_mant {| m_digits := m_digits st; m_nd := m_nd st; m_dp := m_nd st;
                          m_sawdot := true; m_sawdigits := m_sawdigits st |} r
      else if is_digit c then
        if beq c c_zero && (m_nd st =? 0)%Z then
          read_mant {| m_digits := m_digits st; m_nd := m_nd st; m_dp := (m_dp st - 1)%Z;
                       m_sawdot := m_sawdot st; m_sawdigits := true |} r
        else
          read_mant {| m_digits := c :: m_digits st; m_nd := (m_nd st + 1)%Z; m_dp := m_dp st;
                       m_sawdot := m_sawdot st; m_sawdigits := true |} r
      else (st, s)
  end.

(* exponent digits: e = e*10 + d only while e < 10000; all digits consumed *)
Fixpoint read_exp_digits (e : Z) (s : bytes) : Z * bytes :=
  match s with
  | c :: r =>
      if is_digit c then
        read_exp_digits (if (e <? 10000)%Z then (e * 10 + Z.of_N (digit_val c))%Z else e) r
      else (e, s)
  | [] => (e, [])
  end.

Definition is_e (c : byte) : bool := (b2n c =? 101) || (b2n c =? 69).

(* Some (significant digits most significant first, dp): value = 0.d1d2... * 10^dp.
   None: strconv reports a syntax error. *)
Definition read_float (s : bytes) : option (bytes * Z) :=
  let s1 := match s with
            | c :: r => if beq c c_plus || beq c c_minus then r else s
            | [] => []
            end in
  match s with
  | [] => None
  | _ =>
    let '(st, rest) := read_mant {| m_digits := []; m_nd := 0; m_dp := 0;
                                    m_sawdot := false; m_sawdigits := false |} s1 in
    if negb (m_sawdigits st) then None
    else
      let dp := if m_sawdot st then m_dp st else m_nd st in
      match rest with
      | [] => Some (rev (m_digits st), dp)
      | c :: r =>
          if is_e c then
            match r with
            | [] => None
            | c2 :: r2 =>
                let '(esign, r3) :=
                  if beq c2 c_plus then (1%Z, r2)
                  else if beq c2 c_minus then ((-1)%Z, r2) else (1%Z, r) in
                match r3 with
                | d :: _ =>
                    if is_digit d then
                      let '(e, rest2) := read_exp_digits 0 r3 in
                      match rest2 with
                      | [] => Some (rev (m_digits st), (dp + e * esign)%Z)
                      | _ => None     (* trailing bytes: ParseFloat requires n == len(s) *)
                      end
                    else None
                | [] => None
                end
            end
          else None
      end
  end.

(* 2^1024 - 2^970: the smallest real that rounds (to nearest even) to +Inf *)
Definition float64_overflow_threshold : Z := (2 ^ 1024 - 2 ^ 970)%Z.

(* strconv reports a range error iff the correctly rounded value is infinite *)
Definition float_overflows (digits : bytes) (dp : Z) : bool :=
  match digits with
  | [] => false                                    (* mantissa 0 *)
  | _ =>
      if (310 <? dp)%Z then true                    (* decimal.floatBits: d.dp > 310 *)
      else if (dp <? 300)%Z then false              (* value < 10^dp *)
      else
        let m := Z.of_N (dec_value digits) in
        let e := (dp - Z.of_nat (length digits))%Z in
        if (0 <=? e)%Z then (float64_overflow_threshold <=? m * 10 ^ e)%Z
        else (float64_overflow_threshold * 10 ^ (- e) <=? m)%Z
  end.

(* strconv.ParseFloat(s, 64) returns err == nil *)
Definition float_parses (s : bytes) : bool :=
  match read_float s with
  | Some (d, dp) => negb (float_overflows d dp)
  | None => false
  end.

(* parseFloat of parsenum.go: panics iff ParseFloat returns an error *)
Inductive float_result := FOk | FPanic.
Definition parse_float (s : bytes) : float_result :=
  if float_parses s then FOk else FPanic.
