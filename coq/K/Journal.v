(* Model of journal file names (martian/core/metadata.go journalFile /
   UpdateJournal, stage.go NewChunk / Fork.updateId, cmd/mrjob) and of their
   parsing and routing (martian/core/node.go jobJournalRe, parseRunFilename,
   find, getFork; stage.go Fork.updateState / getChunk; metadata.go cache).
   No proofs here. *)
From Martian Require Import Lib.Bytes Extracted.Journal K.ForkName.
Local Open Scope N_scope.

Definition s_dot_fork : bytes := c_dot :: s_fork.
Definition s_dot_chnk : bytes := map n2b [46; 99; 104; 110; 107].
Definition s_dot_u : bytes := map n2b [46; 117].
Definition splitp : bytes := map n2b split_prefix.
Definition joinp : bytes := map n2b join_prefix.

(* The pattern the recogniser below was written for; Proofs/Journal.v checks
   that the source still says this. *)
Definition job_journal_re_expected : list N :=
  [40; 46; 42; 41; 92; 46; 102; 111; 114; 107; 40; 91; 94; 46; 93; 43; 41; 40;
   63; 58; 92; 46; 99; 104; 110; 107; 40; 92; 100; 43; 41; 41; 63; 40; 63; 58;
   92; 46; 117; 40; 91; 97; 45; 102; 48; 45; 57; 93; 123; 49; 48; 125; 41; 41;
   63; 92; 46; 40; 46; 42; 41; 36].

(* ------------------------------------------------------------- printing *)
(* fmt.Sprintf of chnk%0*d : the digits *)
Definition chunk_digits (width : nat) (index : N) : bytes :=
  let id := print_dec index in repeat c_0 (width - length id) ++ id.
Definition s_chnk : bytes := map n2b [99; 104; 110; 107].
Definition chunk_name (width : nat) (index : N) : bytes := s_chnk ++ chunk_digits width index.

Inductive runtype := RSplit | RJoin | RMain.

(* mrjob: journalPrefix = runType + _ unless the run type is main *)
Definition run_prefix (r : runtype) : bytes :=
  match r with
  | RSplit => map n2b [115; 112; 108; 105; 116; 95]
  | RJoin => map n2b [106; 111; 105; 110; 95]
  | RMain => []
  end.

(* Who writes a journal entry: the node (fqid relative to the pipestance),
   the fork id string, for a main job the chunk (index, number of chunks of
   the fork), the uniquifier of the attempt or [], the metadata file. *)
Record jowner := mkJ {
  jo_rel : bytes; jo_id : bytes; jo_run : runtype; jo_chunk : N; jo_nchunks : N;
  jo_uniq : bytes; jo_file : bytes }.

(* Fork.updateId / NewChunk: journal path; Metadata.journalFile: the
   uniquifier; mrjob + UpdateJournal: prefix and file name. *)
Definition journal_name (j : jowner) : bytes :=
  jo_rel j ++ c_dot :: journal_encode (jo_id j)
  ++ match jo_run j with
     | RMain => c_dot :: chunk_name (width_for_int (jo_nchunks j)) (jo_chunk j)
     | _ => []
     end
  ++ match jo_uniq j with [] => [] | u => s_dot_u ++ u end
  ++ c_dot :: run_prefix (jo_run j) ++ jo_file j.

(* The fork token getFork compares: Fork.fqname behind the node name and
   the five bytes .fork *)
Definition fork_tok (id : bytes) : bytes := skipn 4 (journal_encode id).

(* -------------------------------------------------------------- parsing *)
Definition is_hexlow (b : byte) : bool :=
  is_digit b || ((97 <=? b2n b) && (b2n b <=? 102)).

Fixpoint span (f : byte -> bool) (s : bytes) : bytes * bytes :=
  match s with
  | [] => ([], [])
  | b :: r => if f b then let (a, t) := span f r in (b :: a, t) else ([], s)
  end.

Record jparse := mkP {
  jp_fq : bytes; jp_idx : bytes; jp_chunk : option bytes; jp_uniq : bytes;
  jp_state : bytes }.

(* r starts at the dot behind the fork token.  Optional groups, each taken
   when it can be (leftmost-first), and each must be followed by a dot. *)
Definition parse_tail (fq idx r : bytes) : option jparse :=
  let '(chunk, r1) :=
    if is_prefix s_dot_chnk r then
      let (ds, t) := span is_digit (skipn 5 r) in
      match ds, t with
      | _ :: _, d :: _ => if beq d c_dot then (Some ds, t) else (None, r)
      | _, _ => (None, r)
      end
    else (None, r) in
  let '(uniq, r2) :=
    if is_prefix s_dot_u r1 then
      let h := firstn 10 (skipn 2 r1) in
      let t := skipn 12 r1 in
      if (Nat.eqb (length h) 10) && forallb is_hexlow h then
        match t with
        | d :: _ => if beq d c_dot then (h, t) else ([], r1)
        | [] => ([], r1)
        end
      else ([], r1)
    else ([], r1) in
  match r2 with
  | d :: st => if beq d c_dot then Some (mkP fq idx chunk uniq st) else None
  | [] => None
  end.

(* s starts with .fork : the fork token is the maximal run without a dot,
   must be non-empty and followed by a dot. *)
Definition parse_candidate (fq s : bytes) : option jparse :=
  let (idx, r) := span (fun b => negb (beq b c_dot)) (skipn 5 s) in
  match idx, r with
  | _ :: _, _ :: _ => parse_tail fq idx r
  | _, _ => None
  end.

(* The greedy first group: the last position where the rest matches. *)
Fixpoint parse_scan (pre_rev s : bytes) : option jparse :=
  match s with
  | [] => None
  | c :: r =>
      match parse_scan (c :: pre_rev) r with
      | Some x => Some x
      | None =>
          if is_prefix s_dot_fork s then parse_candidate (rev pre_rev) s else None
      end
  end.

Definition parse_journal (s : bytes) : option jparse := parse_scan [] s.

(* strconv.Atoi of a digit string (no sign); the model does not bound it *)
Definition chunk_index (p : jparse) : option N :=
  match jp_chunk p with Some ds => Some (dec_val ds) | None => None end.

(* ------------------------------------------------------------- routing *)
(* strconv.Atoi: optional sign, then digits only, at least one.  The result
   as N when it is >= 0 (a negative value fails the i >= 0 test). *)
Definition atoi_nonneg (s : bytes) : option N :=
  let body := match s with
              | b :: r => if (b2n b =? 43) then Some r
                          else if (b2n b =? 45) then
                            (* negative: only -0... is >= 0 *)
                            if forallb (fun d => beq d c_0) r then Some r else None
                          else Some s
              | [] => None
              end in
  match body with
  | Some (d :: r) => if forallb is_digit (d :: r) then Some (dec_val (d :: r)) else None
  | _ => None
  end.

Fixpoint find_index {A} (f : A -> bool) (l : list A) (i : nat) : option nat :=
  match l with
  | [] => None
  | x :: r => if f x then Some i else find_index f r (S i)
  end.

(* Node.getFork over the list of fork tokens (fqname behind node name and
   .fork), in the order of Node.forks.  legacy = the fast path without the
   name check.  A token of length 0 never matches (len(fqname) > l). *)
Definition tok_match (index tok : bytes) : bool :=
  match tok with [] => false | _ => bytes_eqb tok index end.

Definition get_fork (legacy : bool) (toks : list bytes) (index : bytes) : option nat :=
  let slow := find_index (tok_match index) toks 0 in
  match atoi_nonneg index with
  | Some i =>
      match nth_error toks (N.to_nat i) with
      | Some t => if legacy || tok_match index t then Some (N.to_nat i) else slow
      | None => slow
      end
  | None => slow
  end.

(* Node.find over the nodes in search order: fqid = top.rel or fqid = rel *)
Definition find_node (top : bytes) (fqids : list bytes) (rel : bytes) : option nat :=
  find_index (fun fq => bytes_eqb fq (top ++ c_dot :: rel) || bytes_eqb fq rel) fqids 0.

(* Which metadata object of the fork takes a fork-level update:
   0 fork, 1 split, 2 join (Fork.updateState); 3 = a chunk. *)
Definition fork_target (state : bytes) : N :=
  if is_prefix splitp state then 1 else if is_prefix joinp state then 2 else 0.

(* Metadata.cache: an update is recorded iff it carries the current
   uniquifier of the metadata object. *)
Definition uniq_accepts (current seen : bytes) : bool := bytes_eqb current seen.

(* A pipestance skeleton: nodes (relative fqid, forks in Node.forks order as
   (token, number of chunks)). *)
Definition jnode := (bytes * list (bytes * N))%type.

Record route := mkR {
  r_node : nat; r_fork : nat; r_chunk : option N; r_uniq : bytes;
  r_state : bytes; r_target : N }.

(* Node.refreshState for one file name. *)
Definition route_journal (legacy : bool) (top : bytes) (nodes : list jnode)
  (name : bytes) : option route :=
  match parse_journal name with
  | None => None
  | Some p =>
      match jp_fq p with
      | [] => None
      | fq =>
      match find_node top (map (fun n => top ++ c_dot :: fst n) nodes) fq with
      | None => None
      | Some ni =>
          match nth_error nodes ni with
          | None => None
          | Some nd =>
              match get_fork legacy (map fst (snd nd)) (jp_idx p) with
              | None => None
              | Some fi =>
                  match chunk_index p, nth_error (snd nd) fi with
                  | Some c, Some (_, nch) =>
                      if c <? nch then
                        Some (mkR ni fi (Some c) (jp_uniq p) (jp_state p) 3)
                      else None
                  | None, Some _ =>
                      Some (mkR ni fi None (jp_uniq p) (jp_state p)
                              (fork_target (jp_state p)))
                  | _, None => None
                  end
              end
          end
      end
      end
  end.
