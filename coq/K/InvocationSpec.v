(* K/InvocationSpec.v - the specification side of C16: what it means for a
   JSON value / an expression to have a declared type, stated independently
   of the conversion functions of K/Invocation.v, and the two hypotheses about
   float printing and parsing.  Definitions only, no proofs. *)
From Martian Require Import Lib.Bytes Json.Json Mro.Ast K.Invocation.
Local Open Scope Z_scope.

Section Spec.
  Variable fparse : Z -> Z -> Z * Z.
  Variable fprint : Z -> Z -> Z * Z.

  (* ---- the two float hypotheses (trusted base; sampled on every run) ---- *)

  (* parse (print x) = x: when the printed form of a float64 is a float
     literal, strconv.ParseFloat reads the same float64 back. *)
  Definition float_print_parse : Prop :=
    forall m2 e2 m e, fprint m2 e2 = (m, e) -> e <> 0 -> fparse m e = (m2, e2).

  (* print x matches the number token: when the printed form is an integer
     literal z, it is an int64 (an in-range NUM_INT token) and z is the value
     of the float. *)
  Definition float_print_token : Prop :=
    forall m2 e2 z, fprint m2 e2 = (z, 0) -> int64_ok z = true /\ 0 <= e2 /\ z = m2 * 2 ^ e2.

  (* ---- JSON values the round trip is claimed for ---- *)

  (* No duplicate keys; every float-syntax number is the printed form of a
     float64 (any other decimal is rounded by ParseFloat, which is not loss
     of a float value). *)
  Inductive jwf : json -> Prop :=
  | jwf_null : jwf JNull
  | jwf_bool b : jwf (JBool b)
  | jwf_str s : jwf (JStr s)
  | jwf_int z : jwf (JNum z 0)
  | jwf_float m e m2 e2 : e <> 0 -> fprint m2 e2 = (m, e) -> jwf (JNum m e)
  | jwf_arr l : Forall jwf l -> jwf (JArr l)
  | jwf_obj kvs : NoDup (map fst kvs) -> Forall (fun kv => jwf (snd kv)) kvs -> jwf (JObj kvs).

  (* ---- typing of JSON values (shape only: scalars are not constrained,
          no conversion decision depends on them) ---- *)

  Definition elem_of_arr (t : type_id) : type_id := mk_tid (tid_name t) (tid_arr t - 1)%N (tid_map t).
  Definition elem_of_map (t : type_id) : type_id := mk_tid (tid_name t) (tid_map t - 1)%N 0%N.

  Fixpoint no_object (j : json) : Prop :=
    match j with
    | JObj _ => False
    | JArr l => (fix go (l : list json) : Prop := match l with [] => True | x :: r => no_object x /\ go r end) l
    | _ => True
    end.

  (* wf_value te t j: j is a value of declared type t.
     null is a value of every type; an array type holds arrays; a typed map
     holds objects of element-typed values; a struct type holds objects
     whose keys are members, each at its member type; the untyped map type
     holds any object; every other (scalar) type holds no object. *)
  Inductive wf_value (te : tenv) : type_id -> json -> Prop :=
  | wv_null t : wf_value te t JNull
  | wv_arr t l : (0 < tid_arr t)%N -> Forall (wf_value te (elem_of_arr t)) l -> wf_value te t (JArr l)
  | wv_tmap t kvs : tid_arr t = 0%N -> (0 < tid_map t)%N ->
      Forall (fun kv => wf_value te (elem_of_map t) (snd kv)) kvs -> wf_value te t (JObj kvs)
  | wv_struct t s kvs : tid_arr t = 0%N -> tid_map t = 0%N -> find_struct te (tid_name t) = Some s ->
      Forall (fun kv => exists mt, member_type (sd_members s) (fst kv) = Some mt /\ wf_value te mt (snd kv)) kvs ->
      wf_value te t (JObj kvs)
  | wv_map t kvs : tid_arr t = 0%N -> tid_map t = 0%N -> find_struct te (tid_name t) = None ->
      base_known te (tid_name t) = true -> wf_value te t (JObj kvs)
  | wv_scalar t j : tid_arr t = 0%N -> tid_map t = 0%N ->
      match j with JArr _ | JObj _ => False | _ => True end -> wf_value te t j.

  (* ---- typing of expressions: where the struct literals are ---- *)

  Fixpoint no_struct_kind (e : exp) : Prop :=
    match e with
    | EArray l => (fix go (l : list exp) : Prop := match l with [] => True | x :: r => no_struct_kind x /\ go r end) l
    | EMap k kvs => k = MapKindMap /\
        (fix go (l : list (bytes * exp)) : Prop := match l with [] => True | kv :: r => no_struct_kind (snd kv) /\ go r end) kvs
    | ESplit x => no_struct_kind x
    | _ => True
    end.

  (* kinds_ok te t e: in e an object is a struct literal exactly where the
     declared type, followed through arrays, typed maps and struct members,
     is a struct; everything below an untyped map is a map literal. *)
  Inductive kinds_ok (te : tenv) : type_id -> exp -> Prop :=
  | ko_arr t l : (0 < tid_arr t)%N -> Forall (kinds_ok te (elem_of_arr t)) l -> kinds_ok te t (EArray l)
  | ko_tmap t kvs : tid_arr t = 0%N -> (0 < tid_map t)%N ->
      Forall (fun kv => kinds_ok te (elem_of_map t) (snd kv)) kvs -> kinds_ok te t (EMap MapKindMap kvs)
  | ko_struct t s kvs : tid_arr t = 0%N -> tid_map t = 0%N -> find_struct te (tid_name t) = Some s ->
      Forall (fun kv => exists mt, member_type (sd_members s) (fst kv) = Some mt /\ kinds_ok te mt (snd kv)) kvs ->
      kinds_ok te t (EMap MapKindStruct kvs)
  | ko_map t kvs : tid_arr t = 0%N -> tid_map t = 0%N -> find_struct te (tid_name t) = None ->
      base_known te (tid_name t) = true -> no_struct_kind (EMap MapKindMap kvs) -> kinds_ok te t (EMap MapKindMap kvs)
  | ko_leaf t e : match e with EArray _ | EMap _ _ | ESplit _ => False | _ => True end -> kinds_ok te t e.

  (* ---- expressions as the Go values are: map entries in key order ---- *)

  Fixpoint keys_sorted (l : list bytes) : Prop :=
    match l with
    | a :: ((b :: _) as r) => bytes_ltb a b = true /\ keys_sorted r
    | _ => True
    end.

  (* value expression (no reference, no nested split), entries of every map
     strictly sorted by key *)
  Inductive exp_wf : exp -> Prop :=
  | ew_arr l : Forall exp_wf l -> exp_wf (EArray l)
  | ew_map k kvs : keys_sorted (map fst kvs) -> NoDup (map fst kvs) ->
      Forall (fun kv => exp_wf (snd kv)) kvs -> exp_wf (EMap k kvs)
  | ew_str s : exp_wf (EString s)
  | ew_bool b : exp_wf (EBool b)
  | ew_int z : exp_wf (EInt z)
  | ew_float m e : exp_wf (EFloat m e)
  | ew_null : exp_wf ENull.

  (* equivalence of expressions after a round trip: a float that prints as an
     integer literal comes back as that integer *)
  Inductive exp_eqv : exp -> exp -> Prop :=
  | ee_arr l l' : Forall2 exp_eqv l l' -> exp_eqv (EArray l) (EArray l')
  | ee_map k kvs kvs' : Forall2 (fun a b => fst a = fst b /\ exp_eqv (snd a) (snd b)) kvs kvs' ->
      exp_eqv (EMap k kvs) (EMap k kvs')
  | ee_float_int m e z : fprint m e = (z, 0) -> exp_eqv (EFloat m e) (EInt z)
  | ee_refl e : exp_eqv e e.

  (* every integer of the expression is an int64 (IntExp.Value is one) *)
  Fixpoint exp_int64 (e : exp) : bool :=
    match e with
    | EArray l => forallb exp_int64 l
    | EMap _ kvs => forallb (fun kv : bytes * exp => exp_int64 (snd kv)) kvs
    | EInt z => int64_ok z
    | ESplit x => exp_int64 x
    | _ => true
    end.

  (* ---- calls ---- *)

  (* the arguments of an invocation have the declared types; a split argument
     is the wrapper around a non-empty array or object of such values (an
     empty or null split has no mro text: the grammar wants a non-empty
     collection after the split keyword) *)
  Definition arg_typed (te : tenv) (splitargs : list bytes) (p : bytes * type_id) (j : json) : Prop :=
    jwf j /\ json_ok j = true /\
    if mem_bytes (fst p) splitargs then
      exists v, j = JObj [(split_dec_key, v)] /\
        match v with
        | JArr (_ :: _) => wf_value te (split_source_type (snd p) false) v
        | JObj (_ :: _) => tid_map (snd p) = 0%N /\ wf_value te (split_source_type (snd p) true) v
        | _ => False
        end
    else wf_value te (snd p) j.

  (* every parameter is either not given (then it is not named as split) or
     given a typed argument *)
  Definition call_typed (te : tenv) (params : list (bytes * type_id)) (inv : invocation) : Prop :=
    Forall (fun p => match assoc_get_last (fst p) (inv_args inv) with
                     | None => mem_bytes (fst p) (inv_split inv) = false
                     | Some j => arg_typed te (inv_split inv) p j
                     end) params.

  (* the invocation data an equivalent call must give back: one argument per
     parameter (null when not given), values unchanged (objects as maps: keys
     in order), the same parameters split, same callable and include *)
  Definition expected_data (params : list (bytes * type_id)) (inv : invocation) : invocation :=
    mk_inv (inv_call inv)
           (map (fun p : bytes * type_id =>
                   (fst p, match assoc_get_last (fst p) (inv_args inv) with
                           | None => JNull
                           | Some j => json_canon j
                           end)) params)
           (filter (fun id => mem_bytes id (inv_split inv)) (map fst params))
           (inv_include inv).

  (* the struct-versus-map decision for a binding of a built call *)
  Definition bind_kinds_ok (te : tenv) (p : bytes * type_id) (b : bytes * exp) : Prop :=
    fst b = fst p /\
    match snd b with
    | ESplit x => exists is_map, kinds_ok te (split_source_type (snd p) is_map) x
    | e => kinds_ok te (snd p) e
    end.

End Spec.

(* ---- an instance of the float variables (non-vacuity of the hypotheses) ----
   A float m2*2^e2 with e2 >= 0 whose value is an int64 prints as that
   integer; one with e2 < 0 prints as its exact decimal expansion
   m2*5^(-e2) * 10^e2; the rest is given an arbitrary injective spelling.
   (Not strconv's shortest form: the drivers use strconv's own tables.) *)
Definition fprint_ex (m2 e2 : Z) : Z * Z :=
  if (0 <=? e2) && int64_ok (m2 * 2 ^ e2) then (m2 * 2 ^ e2, 0)
  else if e2 <? 0 then (m2 * 5 ^ (- e2), e2)
  else (m2, e2 + 1).
Definition fparse_ex (m e : Z) : Z * Z :=
  if e <? 0 then (m / 5 ^ (- e), e) else (m, e - 1).

