(* Extraction of the executable C10 models for the volume correspondence runs.
   ExtrOcamlBasic only. *)
From Coq Require Import Extraction ExtrOcamlBasic.
From Martian Require Import Lib.Bytes Lib.Utf8 Json.Json K.Determinism.
Extraction Language OCaml.
Extraction "model.ml"
  b2n n2b
  format encode_json encode_lazy_args make_fork_ids parse_dec n_dec.
