(* Extraction of the C09 models (quoteString, IntExp.format, formatGB,
   topoSort, the Ast validator) for the volume correspondence runs.
   ExtrOcamlBasic only. *)
From Coq Require Import Extraction ExtrOcamlBasic.
From Martian Require Import Lib.Bytes Lib.Utf8 Mro.Ast K.Unquote K.FormatExp K.FormatGB K.TopoSort K.Same K.ExpComments.
Extraction Language OCaml.
Extraction "model.ml"
  b2n n2b
  quote_string format_int format_gb topo_sort valid_utf8 unquote
  ast_same dep_ordered call_ids fmt inorder
  mk_ast.
