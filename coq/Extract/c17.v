(* Extraction of the C17 model (ExtrOcamlBasic only; Z, N, positive, byte and
   the json / ty inductives stay as extracted). *)
From Coq Require Import Extraction ExtrOcamlBasic.
From Martian Require Import Lib.Bytes Json.Json K.JsonTypes.
Extraction Language OCaml.
Extraction "model.ml"
  b2n n2b
  json_eqb observe assignable is_file can_filter valid filter canon.
