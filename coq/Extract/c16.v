(* Extraction of the C16 model (K/Invocation.v) for the volume correspondence
   runs.  ExtrOcamlBasic only.  The Section variables fparse / fprint become
   the first arguments of the extracted functions; the driver instantiates
   them with the strconv tables of each case. *)
From Coq Require Import Extraction ExtrOcamlBasic.
From Martian Require Import Lib.Bytes Json.Json Mro.Ast K.Invocation.
Extraction Language OCaml.
Extraction "model.ml"
  b2n n2b
  json_to_exp exp_to_json convert_arg build_call data_for_ast json_ok json_canon
  mk_tenv mk_inv mk_top mk_ast.
