(* Extraction of the VDR model (C04, C14) for the volume correspondence runs.
   ExtrOcamlBasic only; N, positive stay the extracted inductive types. *)
From Coq Require Import Extraction ExtrOcamlBasic.
From Martian Require Import Lib.Bytes Mro.Vdr.
Extraction Language OCaml.
Extraction "model.ml"
  b2n n2b
  step run mkSys mkFork mkFile
  path_is_inside any_overlap merge_reports collapse.
