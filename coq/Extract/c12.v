(* Extraction of the executable models of C12 for the volume correspondence
   runs.  ExtrOcamlBasic only; N, Z, positive stay the extracted inductive
   types. *)
From Coq Require Import Extraction ExtrOcamlBasic.
From Martian Require Import Lib.Bytes K.Semaphore K.SysReqs K.MaxJobs.
Extraction Language OCaml.
Extraction "model.ml"
  b2n n2b
  cobserve client_init
  get_system_reqs enqueue_amounts
  mobserve mj_init.
