(* Extraction of the executable models of C08 for the volume correspondence
   runs.  ExtrOcamlBasic only. *)
From Coq Require Import Extraction ExtrOcamlBasic.
From Martian Require Import Lib.Bytes Lib.Utf8 K.ParseNum K.Unquote K.Lexer.
Extraction Language OCaml.
Extraction "model.ml"
  b2n n2b
  token_observation parse_int float_parses unquote src_action lex_source dec_of_Z.
