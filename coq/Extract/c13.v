(* Extraction of the post-processing model for the volume correspondence
   runs.  ExtrOcamlBasic only. *)
From Coq Require Import Extraction ExtrOcamlBasic.
From Martian Require Import Lib.Bytes Json.Json K.PostProcess.
Extraction Language OCaml.
Extraction "model.ml"
  b2n n2b
  json_canon parse_abs render kind_of out_filename legal_name
  init_st post_process dump names_distinct.
