(* Extraction of the C15 models (equivalence.go, the lock protocol) for the
   volume correspondence runs.  ExtrOcamlBasic only. *)
From Coq Require Import Extraction ExtrOcamlBasic.
From Martian Require Import Lib.Bytes Mro.Ast K.Equiv.
Extraction Language OCaml.
Extraction "model.ml"
  b2n n2b
  equiv_call equiv_call_opt exp_equal bind_equals wf_ast cache_ok norm fuel_of
  mods_equiv_some_v0 ptype_equal_v0 float_close float_of_int feqb
  mk_ast.
