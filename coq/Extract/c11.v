(* Extraction of the executable models of C11 for the volume correspondence
   runs.  ExtrOcamlBasic only. *)
From Coq Require Import Extraction ExtrOcamlBasic.
From Martian Require Import Lib.Bytes K.ForkName K.Journal K.Attempt.
Extraction Language OCaml.
Extraction "model.ml"
  b2n n2b
  path_escape journal_encode fork_id fork_id_legacy parse_journal chunk_index
  uniq_accepts journal_name fork_tok route_journal s_fork_us
  atrace s_init.
