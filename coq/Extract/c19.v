(* Extraction of the C19 models (reference edits, validators, denotation) for
   the volume correspondence runs.  ExtrOcamlBasic only. *)
From Coq Require Import Extraction ExtrOcamlBasic.
From Martian Require Import Lib.Bytes Mro.Ast K.Refactor.
Extraction Language OCaml.
Extraction "model.ml"
  b2n n2b
  check_rename check_removal check_roundtrip check_combo denote diff_removed go_renaming rename_ast
  RenameCallable mk_ast.
