(* Extraction of the C07 model (binding type rules of the MRO compiler) for
   the volume correspondence runs.  ExtrOcamlBasic only. *)
From Coq Require Import Extraction ExtrOcamlBasic.
From Martian Require Import Lib.Bytes Json.Json Mro.Ast K.JsonTypes Mro.Typing.
Extraction Language OCaml.
Extraction "model.ml"
  b2n n2b
  typecheck typecheck_g decls_ok mk_ast.
