(* Extraction of the executable models for the volume correspondence runs.
   ExtrOcamlBasic only: no Extract Constant / Extract Inductive of our own;
   N, Z, positive, byte stay the extracted inductive types. *)
From Coq Require Import Extraction ExtrOcamlBasic.
From Martian Require Import Lib.Bytes Lib.Utf8 K.ShellQuote K.Sh K.JobScript.
Extraction Language OCaml.
Extraction "model.ml"
  b2n n2b
  quote format_args sh_dquote sh_simple_command valid_utf8 replace_all.
