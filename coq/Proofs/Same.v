(* Proofs about K/Same.v: the validator is sound for the specification. *)
From Coq Require Import Permutation.
From Martian Require Import Lib.Bytes Mro.Ast K.Same Proofs.BytesFacts.

Ltac split_and H :=
  repeat match type of H with
         | (_ && _ = true) => let H' := fresh H in apply andb_prop in H as [H H']
         end.

Lemma bytes_eqb_eq a b : bytes_eqb a b = true -> a = b.
Proof. apply bytes_eqb_spec. Qed.

Lemma bool_eqb_eq a b : Bool.eqb a b = true -> a = b.
Proof. apply Bool.eqb_prop. Qed.

(* ------------------------------------------------------------ containers *)

Lemma list_eqb_map {A B} (f : A -> A -> bool) (g : A -> B) :
  (forall x y, f x y = true -> g x = g y) ->
  forall a b, list_eqb f a b = true -> map g a = map g b.
Proof.
  intros Hf. induction a as [|x a IH]; destruct b as [|y b]; cbn; intros H; try discriminate; [reflexivity|].
  apply andb_prop in H as [H1 H2]. f_equal; auto.
Qed.

Lemma list_eqb_eq {A} (f : A -> A -> bool) :
  (forall x y, f x y = true -> x = y) ->
  forall a b, list_eqb f a b = true -> a = b.
Proof.
  intros Hf a b H. rewrite <- (map_id a), <- (map_id b).
  apply (list_eqb_map f (fun x => x)); assumption.
Qed.

Lemma list_eqb_forall2 {A} (f : A -> A -> bool) (R : A -> A -> Prop) :
  (forall x y, f x y = true -> R x y) ->
  forall a b, list_eqb f a b = true -> Forall2 R a b.
Proof.
  intros Hf. induction a as [|x a IH]; destruct b as [|y b]; cbn; intros H; try discriminate; [constructor|].
  apply andb_prop in H as [H1 H2]. constructor; auto.
Qed.

Lemma opt_eqb_map {A B} (f : A -> A -> bool) (g : A -> B) :
  (forall x y, f x y = true -> g x = g y) ->
  forall a b, opt_eqb f a b = true -> option_map g a = option_map g b.
Proof.
  intros Hf [x|] [y|]; cbn; intros H; try discriminate; [|reflexivity]. f_equal. auto.
Qed.

Lemma opt_eqb_eq {A} (f : A -> A -> bool) :
  (forall x y, f x y = true -> x = y) ->
  forall a b, opt_eqb f a b = true -> a = b.
Proof.
  intros Hf [x|] [y|]; cbn; intros H; try discriminate; [|reflexivity]. f_equal. auto.
Qed.

(* ------------------------------------------------------------ small types *)

Lemma type_id_eqb_eq a b : type_id_eqb a b = true -> a = b.
Proof.
  destruct a, b. unfold type_id_eqb. cbn. intros H. split_and H.
  apply bytes_eqb_eq in H. apply N.eqb_eq in H1. apply N.eqb_eq in H0. subst. reflexivity.
Qed.

Lemma file_kind_eqb_eq a b : file_kind_eqb a b = true -> a = b.
Proof. destruct a, b; cbn; intros H; try discriminate; reflexivity. Qed.

Lemma map_kind_eqb_eq a b : map_kind_eqb a b = true -> a = b.
Proof. destruct a, b; cbn; intros H; try discriminate; reflexivity. Qed.

Lemma ref_kind_eqb_eq a b : ref_kind_eqb a b = true -> a = b.
Proof. destruct a, b; cbn; intros H; try discriminate; reflexivity. Qed.

Lemma call_mode_eqb_eq a b : call_mode_eqb a b = true -> a = b.
Proof. destruct a, b; cbn; intros H; try discriminate; reflexivity. Qed.

Lemma lang_eqb_eq a b : lang_eqb a b = true -> a = b.
Proof. destruct a, b; cbn; intros H; try discriminate; reflexivity. Qed.

Lemma dy_eqb_eq a b : dy_eqb a b = true -> a = b.
Proof.
  destruct a, b. unfold dy_eqb. cbn. intros H. split_and H.
  apply Z.eqb_eq in H, H0. subst. reflexivity.
Qed.

(* ------------------------------------------------------------ expressions *)

Section ExpInd.
  Variable P : exp -> Prop.
  Hypothesis HA : forall l, Forall P l -> P (EArray l).
  Hypothesis HM : forall k es, Forall (fun kv => P (snd kv)) es -> P (EMap k es).
  Hypothesis HStr : forall s, P (EString s).
  Hypothesis HB : forall b, P (EBool b).
  Hypothesis HI : forall z, P (EInt z).
  Hypothesis HF : forall m e, P (EFloat m e).
  Hypothesis HN : P ENull.
  Hypothesis HR : forall k i o, P (ERef k i o).
  Hypothesis HSp : forall x, P x -> P (ESplit x).
  Fixpoint exp_ind2 (e : exp) : P e :=
    match e with
    | EArray l => HA l ((fix go (l : list exp) : Forall P l :=
                           match l with
                           | [] => Forall_nil _
                           | x :: r => Forall_cons x (exp_ind2 x) (go r)
                           end) l)
    | EMap k es => HM k es ((fix go (es : list (bytes * exp)) : Forall (fun kv => P (snd kv)) es :=
                               match es with
                               | [] => Forall_nil _
                               | kv :: r => Forall_cons kv (exp_ind2 (snd kv)) (go r)
                               end) es)
    | EString s => HStr s
    | EBool b => HB b
    | EInt z => HI z
    | EFloat m e => HF m e
    | ENull => HN
    | ERef k i o => HR k i o
    | ESplit x => HSp x (exp_ind2 x)
    end.
End ExpInd.

Fixpoint arr_eqb (xs ys : list exp) : bool :=
  match xs, ys with
  | [], [] => true
  | x :: xs', y :: ys' => exp_eqb x y && arr_eqb xs' ys'
  | _, _ => false
  end.
Fixpoint ents_eqb (es fs : list (bytes * exp)) : bool :=
  match es, fs with
  | [], [] => true
  | kv :: es', kw :: fs' => bytes_eqb (fst kv) (fst kw) && exp_eqb (snd kv) (snd kw) && ents_eqb es' fs'
  | _, _ => false
  end.

Lemma exp_eqb_array xs ys : exp_eqb (EArray xs) (EArray ys) = arr_eqb xs ys.
Proof. reflexivity. Qed.
Lemma exp_eqb_map k k' es fs :
  exp_eqb (EMap k es) (EMap k' fs) = map_kind_eqb k k' && ents_eqb es fs.
Proof.
  reflexivity.
Qed.

Lemma exp_eqb_eq : forall a b, exp_eqb a b = true -> a = b.
Proof.
  induction a as [l IH|k es IH|s|x|z|m e| |k i o|x IH] using exp_ind2; intros b H;
    destruct b as [l'|k' es'|s'|x'|z'|m' e'| |k' i' o'|x']; try discriminate H.
  - rewrite exp_eqb_array in H. f_equal.
    revert l' H. induction IH as [|x l Hx _ IHl]; intros [|y l'] H; cbn in H; try discriminate; [reflexivity|].
    apply andb_prop in H as [H1 H2]. f_equal; auto.
  - rewrite exp_eqb_map in H. apply andb_prop in H as [Hk H]. apply map_kind_eqb_eq in Hk. subst k'. f_equal.
    revert es' H. induction IH as [|[k1 v1] es Hx _ IHl]; intros [|[k2 v2] es'] H; cbn in H; try discriminate; [reflexivity|].
    split_and H. apply bytes_eqb_eq in H. cbn in Hx. apply Hx in H1. subst. f_equal. auto.
  - cbn in H. apply bytes_eqb_eq in H. congruence.
  - cbn in H. apply bool_eqb_eq in H. congruence.
  - cbn in H. apply Z.eqb_eq in H. congruence.
  - cbn in H. split_and H. apply Z.eqb_eq in H, H0. congruence.
  - reflexivity.
  - cbn in H. split_and H. apply ref_kind_eqb_eq in H. apply bytes_eqb_eq in H1, H0. congruence.
  - cbn in H. f_equal. auto.
Qed.

Lemma exp_same_sound a b : exp_same a b = true -> canon_exp a = canon_exp b.
Proof. apply exp_eqb_eq. Qed.

(* ------------------------------------------------------------ bindings, calls *)

Lemma bind_same_sound a b : bind_same a b = true -> canon_bind a = canon_bind b.
Proof.
  destruct a, b. unfold bind_same, canon_bind. cbn. intros H. split_and H.
  apply bytes_eqb_eq in H. apply exp_same_sound in H1. apply type_id_eqb_eq in H0. congruence.
Qed.

Lemma mods_same_sound a b : mods_same a b = true -> canon_mods a = canon_mods b.
Proof.
  unfold mods_same, canon_mods. intros H. split_and H.
  apply bool_eqb_eq in H, H2, H1.
  apply (opt_eqb_map bind_same canon_bind bind_same_sound) in H0. congruence.
Qed.

Lemma call_same_sound a b : call_same a b = true -> canon_call a = canon_call b.
Proof.
  unfold call_same, canon_call. intros H. split_and H.
  apply bytes_eqb_eq in H, H3.
  apply (opt_eqb_map mods_same canon_mods mods_same_sound) in H2.
  apply (list_eqb_map bind_same canon_bind bind_same_sound) in H1.
  apply call_mode_eqb_eq in H0. congruence.
Qed.

(* ------------------------------------------------------------ declarations *)

Lemma member_eqb_eq a b : member_eqb a b = true -> a = b.
Proof.
  destruct a, b. unfold member_eqb. cbn. intros H. split_and H.
  apply bytes_eqb_eq in H, H3, H4. apply type_id_eqb_eq in H5. apply file_kind_eqb_eq in H2.
  apply bool_eqb_eq in H1, H0. congruence.
Qed.

Lemma struct_eqb_eq a b : struct_eqb a b = true -> a = b.
Proof.
  destruct a, b. unfold struct_eqb. cbn. intros H. split_and H.
  apply bytes_eqb_eq in H. apply (list_eqb_eq _ member_eqb_eq) in H1. apply file_kind_eqb_eq in H0.
  congruence.
Qed.

Lemma in_eqb_eq a b : in_eqb a b = true -> a = b.
Proof.
  destruct a, b. unfold in_eqb. cbn. intros H. split_and H.
  apply bytes_eqb_eq in H, H2. apply type_id_eqb_eq in H3. apply file_kind_eqb_eq in H1.
  apply bool_eqb_eq in H0. congruence.
Qed.

Lemma src_eqb_eq a b : src_eqb a b = true -> a = b.
Proof.
  destruct a, b. unfold src_eqb. cbn. intros H. split_and H.
  apply lang_eqb_eq in H. apply bytes_eqb_eq in H1. apply (list_eqb_eq _ bytes_eqb_eq) in H0.
  congruence.
Qed.

Lemma res_eqb_eq a b : res_eqb a b = true -> a = b.
Proof.
  destruct a, b. unfold res_eqb. cbn. intros H. split_and H.
  apply bytes_eqb_eq in H. apply dy_eqb_eq in H3, H2, H1. apply bool_eqb_eq in H0. congruence.
Qed.

Lemma stage_eqb_eq a b : stage_eqb a b = true -> a = b.
Proof.
  destruct a, b. unfold stage_eqb. cbn. intros H. split_and H.
  apply bytes_eqb_eq in H.
  apply (list_eqb_eq _ in_eqb_eq) in H7, H4.
  apply (list_eqb_eq _ member_eqb_eq) in H6, H3.
  apply bool_eqb_eq in H5.
  apply (list_eqb_eq _ bytes_eqb_eq) in H2.
  apply src_eqb_eq in H1.
  apply (opt_eqb_eq _ res_eqb_eq) in H0.
  congruence.
Qed.

(* ------------------------------------------------------------ permutations *)

Lemma remove_match_perm {A} (f : A -> bool) : forall l l',
  remove_match f l = Some l' -> exists y, f y = true /\ Permutation (y :: l') l.
Proof.
  induction l as [|z l IH]; cbn; intros l' H; [discriminate|].
  destruct (f z) eqn:E.
  - injection H as <-. exists z. split; [exact E|apply Permutation_refl].
  - destruct (remove_match f l) as [r'|] eqn:Er; [|discriminate].
    injection H as <-. destruct (IH r' eq_refl) as (y & Hy & Hp).
    exists y. split; [exact Hy|].
    apply perm_trans with (z :: y :: r'); [apply perm_swap|apply perm_skip; exact Hp].
Qed.

Lemma perm_check_sound {A B} (same : A -> A -> bool) (g : A -> B) :
  (forall x y, same x y = true -> g x = g y) ->
  forall l1 l2, perm_check same l1 l2 = true -> Permutation (map g l1) (map g l2).
Proof.
  intros Hs. induction l1 as [|x r IH]; cbn; intros l2 H.
  - destruct l2; [apply perm_nil|discriminate].
  - destruct (remove_match (same x) l2) as [l2'|] eqn:E; [|discriminate].
    destruct (remove_match_perm _ _ _ E) as (y & Hy & Hp).
    apply perm_trans with (map g (y :: l2')).
    + cbn. rewrite (Hs _ _ Hy). apply perm_skip. apply IH. exact H.
    + apply Permutation_map. exact Hp.
Qed.

(* ------------------------------------------------------------ the validator *)

Lemma pipeline_same_sound p q : pipeline_same p q = true -> same_pipeline p q.
Proof.
  unfold pipeline_same, same_pipeline. intros H. split_and H.
  apply bytes_eqb_eq in H.
  apply (list_eqb_eq _ in_eqb_eq) in H6.
  apply (list_eqb_eq _ member_eqb_eq) in H5.
  apply (opt_eqb_map _ (map canon_bind) (list_eqb_map bind_same canon_bind bind_same_sound)) in H4.
  apply (list_eqb_map exp_same canon_exp exp_same_sound) in H3.
  apply (perm_check_sound call_same canon_call call_same_sound) in H2.
  repeat split; assumption.
Qed.

Lemma callable_same_sound c d : callable_same c d = true -> same_callable c d.
Proof.
  destruct c as [s|p], d as [t|q]; cbn; intros H; try discriminate.
  - apply stage_eqb_eq. exact H.
  - apply pipeline_same_sound. exact H.
Qed.

Lemma ast_same_sound_lemma : forall a b, ast_same a b = true -> same_ast a b.
Proof.
  intros a b H. unfold ast_same in H. unfold same_ast. split_and H.
  apply (list_eqb_eq _ bytes_eqb_eq) in H.
  apply (list_eqb_eq _ struct_eqb_eq) in H3.
  apply (list_eqb_forall2 _ _ callable_same_sound) in H2.
  apply bool_eqb_eq in H1.
  apply (opt_eqb_map _ canon_call call_same_sound) in H0.
  repeat split; assumption.
Qed.

(* ------------------------------------------------------------ what the specification gives *)

(* calls matched by the validator carry the same name, callee, mode and
   bindings with the same values: membership transfers along the permutation *)
Lemma same_pipeline_calls p q c :
  same_pipeline p q -> In c (pl_calls p) ->
  exists d, In d (pl_calls q) /\ canon_call c = canon_call d.
Proof.
  intros (_ & _ & _ & _ & _ & Hp & _) Hc.
  assert (Hin : In (canon_call c) (map canon_call (pl_calls q))).
  { eapply Permutation_in; [exact Hp|]. apply in_map. exact Hc. }
  apply in_map_iff in Hin as (d & Hd & Hdin). exists d. split; [exact Hdin|symmetry; exact Hd].
Qed.

Lemma same_pipeline_length p q :
  same_pipeline p q -> length (pl_calls p) = length (pl_calls q).
Proof.
  intros (_ & _ & _ & _ & _ & Hp & _).
  apply Permutation_length in Hp. rewrite !map_length in Hp. exact Hp.
Qed.

(* the numeric reading of canon_exp: an int literal and a float literal are
   identified exactly when the float's value m * 2^e is that integer *)
Lemma canon_int_float z m e :
  canon_exp (EInt z) = canon_exp (EFloat m e) <-> ((0 <= e)%Z /\ z = (m * 2 ^ e)%Z).
Proof.
  cbn. destruct (0 <=? e)%Z eqn:E.
  - apply Z.leb_le in E. split; [intros H; injection H as ->; auto|intros [_ ->]; reflexivity].
  - apply Z.leb_gt in E. split; [discriminate|intros [H _]; lia].
Qed.

Lemma canon_float_float m e m' e' :
  (e < 0)%Z -> (e' < 0)%Z ->
  canon_exp (EFloat m e) = canon_exp (EFloat m' e') <-> (m = m' /\ e = e').
Proof.
  intros H H'. cbn.
  destruct (0 <=? e)%Z eqn:E; [apply Z.leb_le in E; lia|].
  destruct (0 <=? e')%Z eqn:E'; [apply Z.leb_le in E'; lia|].
  split; [intros X; injection X; auto|intros [-> ->]; reflexivity].
Qed.

Lemma canon_string s e : canon_exp (EString s) = canon_exp e -> e = EString s.
Proof.
  destruct e; cbn; try discriminate; try congruence.
  destruct (0 <=? e)%Z; discriminate.
Qed.
