(* Proofs about K/LocalJobs.v: jobs that take the semaphores in a fixed order
   never deadlock and every schedule finishes. *)
From Martian Require Import K.Semaphore K.LocalJobs Proofs.Semaphore.
Local Open Scope Z_scope.

(* ------------------------------------------------------------ shapes of client steps *)

Lemma step_requests_nil : forall s o s' e,
  (forall id n, o <> Acquire id n) -> step s o = (s', e) -> requests e = [].
Proof.
  intros s o s' e Hna H.
  destruct o as [id n|n|n|n|free used]; cbn [step] in H.
  - exfalso. eapply Hna. reflexivity.
  - destruct (s_res s - n <? 0).
    + inversion H; subst. reflexivity.
    + apply with_run_jobs_fifo in H as [H _]. exact H.
  - apply resize_fifo in H as [H _]. exact H.
  - destruct (s_cur s <? n).
    + apply with_run_jobs_fifo in H as [H _]. exact H.
    + inversion H; subst. reflexivity.
  - apply resize_fifo in H as [H _]. exact H.
Qed.

Lemma step_release_cur : forall s n s' e,
  step s (Release n) = (s', e) -> s_cur s' = s_cur s.
Proof.
  intros s n s' e H. cbn [step] in H.
  destruct (s_res s - n <? 0).
  - inversion H; subst. reflexivity.
  - unfold with_run_jobs in H.
    destruct (run_jobs (s_cur s) (s_res s - n) (s_wait s)) as [[r w] g].
    inversion H; subst. reflexivity.
Qed.

Lemma nonacq_shape : forall c o base c' ev,
  (forall id n, o <> Acquire id n) ->
  cfinish c (step (c_sem c) o) base = (c', ev) ->
  c_held c' = base ++ grants ev /\
  s_wait (c_sem c) = grants ev ++ s_wait (c_sem c') /\
  c_dead c' = has_panic ev /\
  step (c_sem c) o = (c_sem c', ev).
Proof.
  intros c o base c' ev Hna H.
  destruct (step (c_sem c) o) as [s1 e1] eqn:S. unfold cfinish in H. inversion H; subst. cbn.
  pose proof (step_fifo _ _ _ _ S) as F.
  rewrite (step_requests_nil _ _ _ _ Hna S), app_nil_r in F. auto.
Qed.

Lemma acquire_shape : forall c id a c' ev,
  c_dead c = false ->
  cstep c (CAcquire id a) = (c', ev) ->
  s_cur (c_sem c') = s_cur (c_sem c) /\ c_dead c' = false /\
  ((ev = [EGrantNow id a] /\ s_wait (c_sem c) = [] /\ s_wait (c_sem c') = [] /\
      c_held c' = c_held c ++ [(id, a)]) \/
   (ev = [EEnqueue id a] /\ s_wait (c_sem c') = s_wait (c_sem c) ++ [(id, a)] /\
      c_held c' = c_held c /\ s_res (c_sem c') = s_res (c_sem c)) \/
   (ev = [EError id] /\ c_sem c' = c_sem c /\ c_held c' = c_held c)).
Proof.
  intros c id a c' ev Hd H. unfold cstep in H. rewrite Hd in H. cbn [step] in H.
  destruct ((a <=? s_cur (c_sem c) - s_res (c_sem c)) && is_nil (s_wait (c_sem c))) eqn:E.
  - unfold cfinish in H. inversion H; subst. cbn. split; [reflexivity|]. split; [reflexivity|].
    left. apply andb_prop in E as [_ E].
    destruct (s_wait (c_sem c)); [auto|discriminate].
  - destruct (s_max (c_sem c) <? a); unfold cfinish in H; inversion H; subst; cbn.
    + split; [reflexivity|]. split; [reflexivity|]. right. right. rewrite app_nil_r. auto.
    + split; [reflexivity|]. split; [reflexivity|]. right. left. rewrite app_nil_r. auto.
Qed.


Lemma cstep_head : forall c o c' ev,
  c_dead c = false -> head_blocked (c_sem c) -> cstep c o = (c', ev) ->
  c_dead c' = false -> head_blocked (c_sem c').
Proof.
  intros c o c' ev Hd Hb H Hd'. unfold cstep in H. rewrite Hd in H.
  assert (G : forall op base, cfinish c (step (c_sem c) op) base = (c', ev) -> head_blocked (c_sem c')).
  { intros op base F. destruct (step (c_sem c) op) as [s1 e1] eqn:S.
    unfold cfinish in F. inversion F; subst. cbn in *. eapply step_head; eauto. }
  destruct o as [id n|id|n|n|f u|n]; try (eapply G; exact H).
  destruct (remove_held id (c_held c)) as [[a h']|].
  - eapply G; exact H.
  - inversion H; subst. exact Hb.
Qed.

Lemma upd_same : forall A (f : nat -> A) x v, upd f x v x = v.
Proof. intros. unfold upd. rewrite Nat.eqb_refl. reflexivity. Qed.

Lemma upd_other : forall A (f : nat -> A) x v y, y <> x -> upd f x v y = f y.
Proof. intros A f x v y H. unfold upd. apply Nat.eqb_neq in H. rewrite H. reflexivity. Qed.

Lemma is_granted_true : forall j ev,
  is_granted j ev = true <-> exists a, In (N.of_nat j, a) (grants ev).
Proof.
  intros j ev. unfold is_granted. rewrite existsb_exists. split.
  - intros ([id a] & Hin & E). cbn in E. apply N.eqb_eq in E. subst. exists a. exact Hin.
  - intros (a & Hin). exists (N.of_nat j, a). split; auto. cbn. apply N.eqb_refl.
Qed.

Lemma is_granted_nil : forall j, is_granted j [] = false.
Proof. reflexivity. Qed.

Lemma in_map_fst : forall (l : list (N * Z)) id a, In (id, a) l -> In id (map fst l).
Proof. intros l id a H. apply (in_map fst) in H. exact H. Qed.

Lemma in_map_fst_ex : forall (l : list (N * Z)) id, In id (map fst l) -> exists a, In (id, a) l.
Proof.
  intros l id H. apply in_map_iff in H as ([i a] & E & Hin). cbn in E. subst. exists a. exact Hin.
Qed.

Lemma NoDup_fst_app_disjoint : forall (l1 l2 : list (N * Z)) id a b,
  NoDup (map fst (l1 ++ l2)) -> In (id, a) l1 -> In (id, b) l2 -> False.
Proof.
  intros l1 l2 id a b H H1 H2. rewrite map_app in H.
  induction l1 as [|[i x] tl IH]; [destruct H1|].
  cbn in H. inversion H as [|? ? Hn Hd]; subst. destruct H1 as [E|H1].
  - inversion E; subst. apply Hn. apply in_or_app. right. eapply in_map_fst; eauto.
  - apply IH; auto.
Qed.

Lemma NoDup_app_l : forall (l1 l2 : list N), NoDup (l1 ++ l2) -> NoDup l1.
Proof.
  induction l1 as [|x l1 IH]; intros l2 H; [constructor|].
  cbn in H. inversion H; subst. constructor.
  - intros X. apply H2. apply in_or_app. left. exact X.
  - eapply IH; eauto.
Qed.

Lemma NoDup_app_r : forall (l1 l2 : list N), NoDup (l1 ++ l2) -> NoDup l2.
Proof.
  induction l1 as [|x l1 IH]; intros l2 H; [exact H|].
  cbn in H. inversion H; subst. eapply IH; eauto.
Qed.

Lemma NoDup_app_intro : forall (l1 l2 : list N),
  NoDup l1 -> NoDup l2 -> (forall x, In x l1 -> In x l2 -> False) -> NoDup (l1 ++ l2).
Proof.
  induction l1 as [|x l1 IH]; intros l2 H1 H2 Hd; [exact H2|].
  inversion H1; subst. cbn. constructor.
  - intros X. apply in_app_or in X as [X|X]; [contradiction|].
    eapply Hd; [left; reflexivity|exact X].
  - apply IH; auto. intros y Y1 Y2. eapply Hd; [right; exact Y1|exact Y2].
Qed.

Lemma remove_held_props : forall id h a h',
  remove_held id h = Some (a, h') ->
  (forall x, In x h' -> In x h) /\
  (NoDup (map fst h) -> NoDup (map fst h') /\ ~ In id (map fst h')).
Proof.
  induction h as [|[i x] tl IH]; intros a h' H; cbn in H; [discriminate|].
  destruct (N.eqb i id) eqn:E.
  - inversion H; subst. apply N.eqb_eq in E. subst. split.
    + intros y Y. right. exact Y.
    + intros ND. cbn in ND. inversion ND; subst. auto.
  - destruct (remove_held id tl) as [[y tl']|] eqn:R; [|discriminate].
    inversion H; subst. destruct (IH _ _ eq_refl) as [I1 I2]. split.
    + intros z [Z|Z]; [left; exact Z|right; apply I1; exact Z].
    + intros ND. cbn in ND. inversion ND as [|? ? Hn Hd]; subst.
      destruct (I2 Hd) as [N1 N2]. split.
      * cbn. constructor; auto. intros X. apply Hn.
        apply in_map_fst_ex in X as (b & X). eapply in_map_fst. apply I1. exact X.
      * cbn. intros [X|X]; [apply N.eqb_neq in E; contradiction|contradiction].
Qed.

Lemma remove_held_none : forall id h, remove_held id h = None -> forall a, ~ In (id, a) h.
Proof.
  induction h as [|[i x] tl IH]; intros H a Hin; [destruct Hin|].
  cbn in H. destruct (N.eqb i id) eqn:E; [discriminate|].
  destruct (remove_held id tl) as [[y tl']|] eqn:R; [discriminate|].
  destruct Hin as [X|X].
  - inversion X; subst. rewrite N.eqb_refl in E. discriminate.
  - eapply IH; eauto.
Qed.

(* ------------------------------------------------------------ the invariant *)

Definition beyond (i : nat) (p : pc) : Prop :=
  match p with
  | Acq q => (i < q)%nat
  | Wait q => (i < q)%nat
  | Rel q => (i < q)%nat
  | Done => False
  end.

Section JobsProofs.
  Variable k : nat.
  Variable n : nat.
  Variable req : nat -> nat -> Z.
  Variable sizes : nat -> Z.
  Hypothesis req_nonneg : forall j i, 0 <= req j i.

  Definition pc_ok (p : pc) : Prop :=
    match p with
    | Acq i => (i <= k)%nat
    | Wait i => (i < k)%nat
    | Rel i => (i <= k)%nat
    | Done => True
    end.

  Definition queue_sound (i : nat) (w : list (N * Z)) (pcs : nat -> pc) : Prop :=
    forall id a, In (id, a) w -> exists j, id = N.of_nat j /\ pcs j = Wait i /\ a = req j i.
  Definition queue_complete (i : nat) (w : list (N * Z)) (pcs : nat -> pc) : Prop :=
    forall j, pcs j = Wait i -> In (N.of_nat j, req j i) w.
  Definition held_sound (i : nat) (h : list (N * Z)) (pcs : nat -> pc) : Prop :=
    forall id a, In (id, a) h -> exists j, id = N.of_nat j /\ beyond i (pcs j).

  Definition sinv (i : nat) (c : client) (pcs : nat -> pc) : Prop :=
    cinv (sizes i) c /\ head_blocked (c_sem c) /\
    (forall j, req j i <= s_cur (c_sem c)) /\
    queue_sound i (s_wait (c_sem c)) pcs /\
    queue_complete i (s_wait (c_sem c)) pcs /\
    NoDup (map fst (s_wait (c_sem c))) /\
    held_sound i (c_held c) pcs /\
    NoDup (map fst (c_held c)).

  Definition sem_inv (st : sys) (i : nat) : Prop := sinv i (sy_sem st i) (sy_pc st).

  Definition inv (st : sys) : Prop :=
    (forall i, (i < k)%nat -> sem_inv st i) /\
    (forall j, pc_ok (sy_pc st j)) /\
    (forall j, (n <= j)%nat -> sy_pc st j = Done).

  (* ---------------------------------------------------------- deadlock freedom *)

  Lemma sum_held_pos_nonempty : forall h, 0 < sum_held h -> exists id a, In (id, a) h.
  Proof.
    intros [|[id a] tl] H.
    - cbn in H. lia.
    - exists id, a. left. reflexivity.
  Qed.

  Lemma climb : forall st, inv st -> forall d j p,
    sy_pc st j = Wait p -> (k - p <= d)%nat -> exists j', enabled st j' = true.
  Proof.
    intros st (Hs & Hpc & _). induction d as [|d IH]; intros j p Hw Hd.
    - pose proof (Hpc j) as X. rewrite Hw in X. cbn in X. lia.
    - pose proof (Hpc j) as X. rewrite Hw in X. cbn in X.
      destruct (Hs p X) as (Hc & Hb & Hfit & Hqs & Hqc & _ & Hhs & _).
      pose proof (Hqc j Hw) as Hin.
      destruct (s_wait (c_sem (sy_sem st p))) as [|[hid ha] tl] eqn:W; [destruct Hin|].
      unfold head_blocked in Hb. rewrite W in Hb. cbn in Hb.
      destruct (Hqs hid ha (or_introl eq_refl)) as (jh & _ & _ & Ha).
      pose proof (Hfit jh) as Hf. rewrite <- Ha in Hf.
      destruct Hc as (_ & _ & Hres & _ & _).
      assert (Hpos : 0 < sum_held (c_held (sy_sem st p))) by lia.
      destruct (sum_held_pos_nonempty _ Hpos) as (id' & a' & Hin').
      destruct (Hhs id' a' Hin') as (j' & _ & Hbey).
      destruct (sy_pc st j') as [q|q|q|] eqn:P; cbn in Hbey.
      + exists j'. unfold enabled. rewrite P. reflexivity.
      + pose proof (Hpc j') as Y. rewrite P in Y. cbn in Y.
        eapply (IH j' q P). lia.
      + exists j'. unfold enabled. rewrite P. reflexivity.
      + contradiction.
  Qed.

  (* If some job has not finished, some job can move: no reachable state is a deadlock. *)
  Lemma progress : forall st, inv st ->
    (exists j, sy_pc st j <> Done) -> exists j, enabled st j = true.
  Proof.
    intros st Hi (j & Hj).
    destruct (sy_pc st j) as [q|q|q|] eqn:P.
    - exists j. unfold enabled. rewrite P. reflexivity.
    - eapply climb; eauto.
    - exists j. unfold enabled. rewrite P. reflexivity.
    - contradiction.
  Qed.


  (* ---------------------------------------------------------- preservation *)

  (* a semaphore that is not touched keeps its invariant when the program
     counters change in a way that neither creates nor removes waiters of it
     and keeps its holders behind it *)
  Lemma frame : forall i c pcs pcs',
    sinv i c pcs ->
    (forall j, pcs j = Wait i <-> pcs' j = Wait i) ->
    (forall j, beyond i (pcs j) -> beyond i (pcs' j)) ->
    sinv i c pcs'.
  Proof.
    intros i c pcs pcs' (Hc & Hb & Hf & Hqs & Hqc & Hqn & Hhs & Hhn) HW HB.
    unfold sinv. repeat (split; [assumption|]). split; [|split; [|split; [|split]]]; auto.
    - intros id a Hin. destruct (Hqs id a Hin) as (j & E & P & A).
      exists j. repeat split; auto. apply HW. exact P.
    - intros j P. apply Hqc. apply HW. exact P.
    - intros id a Hin. destruct (Hhs id a Hin) as (j & E & B). exists j. split; auto.
  Qed.

  (* the common shape of Release and of the availability updates on the
     semaphore that is touched *)
  Lemma grant_step : forall i c c' ev base pcs pcs',
    sinv i c pcs ->
    cinv (sizes i) c' -> head_blocked (c_sem c') ->
    (forall j, req j i <= s_cur (c_sem c')) ->
    c_held c' = base ++ grants ev ->
    s_wait (c_sem c) = grants ev ++ s_wait (c_sem c') ->
    (forall x, In x base -> In x (c_held c)) -> NoDup (map fst base) ->
    (forall j, is_granted j ev = true -> pcs' j = Acq (S i)) ->
    (forall j, is_granted j ev = false ->
       pcs' j = pcs j \/
       (pcs j <> Wait i /\ pcs' j <> Wait i /\ forall a, ~ In (N.of_nat j, a) base)) ->
    sinv i c' pcs'.
  Proof.
    intros i c c' ev base pcs pcs' (Hc & Hb & Hf & Hqs & Hqc & Hqn & Hhs & Hhn)
      Hc' Hb' Hf' Hheld Hwait Hbase Hbn P1 P2.
    assert (GW : forall id a, In (id, a) (grants ev) ->
              exists j, id = N.of_nat j /\ pcs j = Wait i /\ a = req j i /\ is_granted j ev = true).
    { intros id a Hin. destruct (Hqs id a) as (j & E & P & A).
      - rewrite Hwait. apply in_or_app. left. exact Hin.
      - exists j. repeat split; auto. apply is_granted_true. exists a. subst. exact Hin. }
    unfold sinv. split; [exact Hc'|]. split; [exact Hb'|]. split; [exact Hf'|].
    split; [|split; [|split; [|split]]].
    - (* queue_sound *)
      intros id a Hin. destruct (Hqs id a) as (j & E & P & A).
      { rewrite Hwait. apply in_or_app. right. exact Hin. }
      exists j. split; [exact E|]. split; [|exact A].
      destruct (is_granted j ev) eqn:G.
      + exfalso. apply is_granted_true in G as (b & G). subst id.
        rewrite Hwait in Hqn. eapply NoDup_fst_app_disjoint; eauto.
      + destruct (P2 j G) as [X|(X & _)]; [rewrite X; exact P|contradiction].
    - (* queue_complete *)
      intros j P. destruct (is_granted j ev) eqn:G.
      + rewrite (P1 j G) in P. discriminate.
      + assert (P0 : pcs j = Wait i).
        { destruct (P2 j G) as [X|(_ & X & _)]; [rewrite <- X; exact P|contradiction]. }
        pose proof (Hqc j P0) as Hin. rewrite Hwait in Hin. apply in_app_or in Hin as [Hin|Hin]; [|exact Hin].
        exfalso. assert (is_granted j ev = true) by (apply is_granted_true; eauto). congruence.
    - rewrite Hwait, map_app in Hqn. eapply NoDup_app_r; eauto.
    - (* held_sound *)
      intros id a Hin. rewrite Hheld in Hin. apply in_app_or in Hin as [Hin|Hin].
      + destruct (Hhs id a (Hbase _ Hin)) as (j & E & B). exists j. split; [exact E|].
        destruct (is_granted j ev) eqn:G.
        * rewrite (P1 j G). cbn. lia.
        * destruct (P2 j G) as [X|(_ & _ & X)]; [rewrite X; exact B|].
          exfalso. subst id. eapply X; eauto.
      + destruct (GW id a Hin) as (j & E & _ & _ & G). exists j. split; [exact E|].
        rewrite (P1 j G). cbn. lia.
    - (* NoDup holders *)
      rewrite Hheld, map_app. apply NoDup_app_intro.
      + exact Hbn.
      + rewrite Hwait, map_app in Hqn. eapply NoDup_app_l; eauto.
      + intros id X1 X2. apply in_map_fst_ex in X1 as (a & X1). apply in_map_fst_ex in X2 as (b & X2).
        destruct (Hhs id a (Hbase _ X1)) as (j1 & E1 & B1).
        destruct (GW id b X2) as (j2 & E2 & W2 & _).
        assert (j1 = j2) by (apply Nat2N.inj; congruence). subst j2.
        rewrite W2 in B1. cbn in B1. lia.
  Qed.

  Lemma granted_waits : forall i c pcs ev w',
    sinv i c pcs -> s_wait (c_sem c) = grants ev ++ w' ->
    forall j, is_granted j ev = true -> pcs j = Wait i.
  Proof.
    intros i c pcs ev w' (_ & _ & _ & Hqs & _) Hwait j G.
    apply is_granted_true in G as (a & G).
    destruct (Hqs (N.of_nat j) a) as (j' & E & P & _).
    - rewrite Hwait. apply in_or_app. left. exact G.
    - apply Nat2N.inj in E. subst. exact P.
  Qed.

  Definition is_update (o : cop) : Prop :=
    match o with CUpdateActual _ | CUpdateSize _ | CUpdateFreeUsed _ _ => True | _ => False end.

  (* what a legal move is: any job; an availability update that respects the
     hard limit and does not leave the current size below a job's request *)
  Definition move_ok (st : sys) (m : move) : Prop :=
    match m with
    | MJob _ => True
    | MUpd i o =>
        (i < k)%nat /\ is_update o /\ cop_ok (sizes i) o /\
        forall j, req j i <= s_cur (c_sem (fst (cstep (sy_sem st i) o)))
    end.

  Lemma update_cstep : forall c o, is_update o -> c_dead c = false ->
    exists op, (forall id n, op <> Acquire id n) /\
      cstep c o = cfinish c (step (c_sem c) op) (c_held c).
  Proof.
    intros c o Hu Hd. unfold cstep. rewrite Hd.
    destruct o as [id a|id|a|a|f u|a]; try contradiction.
    - exists (UpdateActual a). split; [discriminate|reflexivity].
    - exists (UpdateSize a). split; [discriminate|reflexivity].
    - exists (UpdateFreeUsed f u). split; [discriminate|reflexivity].
  Qed.

  Lemma upd_step_inv : forall st i o,
    inv st -> move_ok st (MUpd i o) -> inv (upd_step st i o).
  Proof.
    intros st i o (Hs & Hpc & Hn) (Hi & Hu & Hok & Hfit).
    pose proof (Hs i Hi) as Si. pose proof Si as (Hc & Hb & _).
    pose proof Hc as (Hd & _).
    unfold upd_step. destruct (cstep (sy_sem st i) o) as [c' ev] eqn:CS. cbn [fst] in Hfit.
    assert (Hc' : cinv (sizes i) c') by (eapply cstep_inv; eauto).
    destruct (update_cstep _ o Hu Hd) as (op & Hna & E). rewrite CS in E. symmetry in E.
    destruct (nonacq_shape _ _ _ _ _ Hna E) as (Hheld & Hwait & _ & _).
    assert (GW := granted_waits _ _ _ _ _ Si Hwait).
    split; [|split].
    - intros i' Hi'. unfold sem_inv. cbn [sy_sem sy_pc].
      destruct (Nat.eq_dec i' i) as [->|Ne].
      + rewrite upd_same. eapply grant_step; eauto.
        * eapply cstep_head; eauto. apply Hc'.
        * destruct Si as (_ & _ & _ & _ & _ & _ & _ & X). exact X.
        * intros j G. unfold wake. rewrite G. reflexivity.
        * intros j G. left. unfold wake. rewrite G. reflexivity.
      + rewrite upd_other by exact Ne. eapply frame; [apply (Hs i' Hi')| |].
        * intros j. unfold wake. destruct (is_granted j ev) eqn:G.
          -- rewrite (GW j G). split; intros X; inversion X; subst; contradiction.
          -- tauto.
        * intros j B. unfold wake. destruct (is_granted j ev) eqn:G; [|exact B].
          rewrite (GW j G) in B. cbn in *. lia.
    - intros j. cbn [sy_pc]. unfold wake. destruct (is_granted j ev); [cbn; lia|apply Hpc].
    - intros j Hj. cbn [sy_pc]. unfold wake. destruct (is_granted j ev) eqn:G; [|apply Hn; exact Hj].
      specialize (GW j G). rewrite (Hn j Hj) in GW. discriminate.
  Qed.


  Ltac pcs_at j1 j :=
    destruct (Nat.eq_dec j1 j) as [->|?]; [rewrite ?upd_same in *|rewrite ?upd_other in * by assumption].

  Lemma acquire_step_inv : forall st j i,
    inv st -> sy_pc st j = Acq i -> (i < k)%nat -> inv (job_step k req st j).
  Proof.
    intros st j i Hinv P Lt. pose proof Hinv as (Hs & Hpc & Hn).
    unfold job_step. rewrite P.
    assert (Ltb : (i <? k)%nat = true) by (apply Nat.ltb_lt; exact Lt). rewrite Ltb. clear Ltb.
    pose proof (Hs i Lt) as Si. pose proof Si as (Hc & Hb & Hf & Hqs & Hqc & Hqn & Hhs & Hhn).
    pose proof Hc as (Hd & _).
    destruct (cstep (sy_sem st i) (CAcquire (N.of_nat j) (req j i))) as [c' ev] eqn:CS.
    assert (Hc' : cinv (sizes i) c') by (eapply cstep_inv; eauto; cbn; apply req_nonneg).
    destruct (acquire_shape _ _ _ _ _ Hd CS) as (Hcur & Hd' & Cases).
    assert (Hb' : head_blocked (c_sem c')) by (exact (cstep_head _ _ _ _ Hd Hb CS Hd')).
    assert (NW : forall a, ~ In (N.of_nat j, a) (s_wait (c_sem (sy_sem st i)))).
    { intros a X. destruct (Hqs _ _ X) as (j' & E & W & _). apply Nat2N.inj in E. subst. congruence. }
    assert (NH : forall a, ~ In (N.of_nat j, a) (c_held (sy_sem st i))).
    { intros a X. destruct (Hhs _ _ X) as (j' & E & B). apply Nat2N.inj in E. subst.
      rewrite P in B. cbn in B. lia. }
    set (p' := match ev with
               | EGrantNow _ _ :: _ => Acq (S i)
               | EEnqueue _ _ :: _ => Wait i
               | _ => Rel i
               end).
    assert (Hp' : p' = Acq (S i) \/ p' = Wait i \/ p' = Rel i).
    { unfold p'. destruct Cases as [(-> & _)|[(-> & _)|(-> & _)]]; cbn; auto. }
    assert (OldSound : forall w, (forall x, In x w -> In x (s_wait (c_sem (sy_sem st i)))) ->
              queue_sound i w (upd (sy_pc st) j p')).
    { intros w Hsub id a Hin. destruct (Hqs _ _ (Hsub _ Hin)) as (j1 & E & W & A).
      exists j1. repeat split; auto. pcs_at j1 j; [congruence|exact W]. }
    assert (OldHeld : held_sound i (c_held (sy_sem st i)) (upd (sy_pc st) j p')).
    { intros id a Hin. destruct (Hhs _ _ Hin) as (j1 & E & B). exists j1. split; auto.
      pcs_at j1 j; [exfalso; subst id; eapply NH; eauto|exact B]. }
    split; [|split].
    - intros i' Hi'. unfold sem_inv. cbn [sy_sem sy_pc].
      destruct (Nat.eq_dec i' i) as [->|Ne].
      + rewrite upd_same. unfold sinv. split; [exact Hc'|]. split; [exact Hb'|].
        split; [intros j0; rewrite Hcur; apply Hf|].
        destruct Cases as [(Ev & W0 & W1 & H1)|[(Ev & W1 & H1 & _)|(Ev & S1 & H1)]].
        * (* granted at once *)
          assert (p' = Acq (S i)) as -> by (unfold p'; rewrite Ev; reflexivity).
          rewrite W1, H1. split; [|split; [|split; [|split]]].
          -- intros ? ? [].
          -- intros j1 P1. pcs_at j1 j; [discriminate|]. apply Hqc in P1. rewrite W0 in P1. destruct P1.
          -- constructor.
          -- intros id a Hin. apply in_app_or in Hin as [Hin|[E|[]]].
             ++ exact (OldHeld _ _ Hin).
             ++ inversion E; subst. exists j. split; auto. rewrite upd_same. cbn. lia.
          -- rewrite map_app. apply NoDup_app_intro; [exact Hhn| |].
             ++ cbn. constructor; [intros []|constructor].
             ++ intros x X1 [ <- | [] ]. apply in_map_fst_ex in X1 as (b & X1). eapply NH; eauto.
        * (* queued *)
          assert (p' = Wait i) as -> by (unfold p'; rewrite Ev; reflexivity).
          rewrite W1, H1. split; [|split; [|split; [|split]]].
          -- intros id a Hin. apply in_app_or in Hin as [Hin|[E|[]]].
             ++ exact (OldSound _ (fun x H => H) _ _ Hin).
             ++ inversion E; subst. exists j. rewrite upd_same. auto.
          -- intros j1 P1. apply in_or_app. pcs_at j1 j; [right; left; reflexivity|left; auto].
          -- rewrite map_app. apply NoDup_app_intro; [exact Hqn| |].
             ++ cbn. constructor; [intros []|constructor].
             ++ intros x X1 [ <- | [] ]. apply in_map_fst_ex in X1 as (b & X1). eapply NW; eauto.
          -- exact OldHeld.
          -- exact Hhn.
        * (* refused *)
          assert (p' = Rel i) as -> by (unfold p'; rewrite Ev; reflexivity).
          rewrite S1, H1. split; [|split; [|split; [|split]]].
          -- apply OldSound. auto.
          -- intros j1 P1. pcs_at j1 j; [discriminate|auto].
          -- exact Hqn.
          -- exact OldHeld.
          -- exact Hhn.
      + rewrite upd_other by exact Ne. eapply frame; [apply (Hs i' Hi')| |].
        * intros j1. pcs_at j1 j; [|tauto]. rewrite P.
          destruct Hp' as [ -> | [ -> | -> ] ]; split; intros X; inversion X; subst; contradiction.
        * intros j1 B. pcs_at j1 j; [|exact B]. rewrite P in B. cbn in B.
          destruct Hp' as [ -> | [ -> | -> ] ]; cbn; lia.
    - intros j1. cbn [sy_pc]. pcs_at j1 j; [|apply Hpc].
      destruct Hp' as [ -> | [ -> | -> ] ]; cbn; lia.
    - intros j1 Hj1. cbn [sy_pc]. pcs_at j1 j; [|apply Hn; exact Hj1].
      rewrite (Hn j Hj1) in P. discriminate.
  Qed.

  Lemma release_step_inv : forall st j i,
    inv st -> sy_pc st j = Rel (S i) -> inv (job_step k req st j).
  Proof.
    intros st j i Hinv P. pose proof Hinv as (Hs & Hpc & Hn).
    unfold job_step. rewrite P.
    assert (Lt : (i < k)%nat). { pose proof (Hpc j) as X. rewrite P in X. cbn in X. lia. }
    pose proof (Hs i Lt) as Si. pose proof Si as (Hc & Hb & Hf & Hqs & Hqc & Hqn & Hhs & Hhn).
    pose proof Hc as (Hd & _).
    destruct (cstep (sy_sem st i) (CRelease (N.of_nat j))) as [c' ev] eqn:CS.
    assert (Hc' : cinv (sizes i) c') by (eapply cstep_inv; eauto; exact I).
    assert (Hb' : head_blocked (c_sem c')) by (apply (cstep_head _ _ _ _ Hd Hb CS); apply Hc').
    assert (Sh : exists base,
              c_held c' = base ++ grants ev /\
              s_wait (c_sem (sy_sem st i)) = grants ev ++ s_wait (c_sem c') /\
              (forall x, In x base -> In x (c_held (sy_sem st i))) /\
              NoDup (map fst base) /\ (forall a, ~ In (N.of_nat j, a) base) /\
              s_cur (c_sem c') = s_cur (c_sem (sy_sem st i))).
    { unfold cstep in CS. rewrite Hd in CS.
      destruct (remove_held (N.of_nat j) (c_held (sy_sem st i))) as [[a h']|] eqn:RH.
      - assert (Hna : forall id m, Release a <> Acquire id m) by discriminate.
        destruct (nonacq_shape _ _ _ _ _ Hna CS) as (H1 & H2 & _ & H4).
        destruct (remove_held_props _ _ _ _ RH) as [R1 R2]. destruct (R2 Hhn) as [R3 R4].
        exists h'. repeat split; auto.
        + intros b X. apply R4. eapply in_map_fst; eauto.
        + eapply step_release_cur; eauto.
      - inversion CS; subst. exists (c_held (sy_sem st i)). cbn. rewrite app_nil_r.
        repeat split; auto. apply remove_held_none. exact RH. }
    destruct Sh as (base & Hheld & Hwait & Hbase & Hbn & NJ & Hcur).
    assert (GW := granted_waits _ _ _ _ _ Si Hwait).
    assert (NG : is_granted j ev = false).
    { destruct (is_granted j ev) eqn:G; [|reflexivity]. rewrite (GW j G) in P. discriminate. }
    split; [|split].
    - intros i' Hi'. unfold sem_inv. cbn [sy_sem sy_pc].
      destruct (Nat.eq_dec i' i) as [->|Ne].
      + rewrite upd_same. eapply grant_step; eauto.
        * intros j0. rewrite Hcur. apply Hf.
        * intros j1 G. pcs_at j1 j; [congruence|]. unfold wake. rewrite G. reflexivity.
        * intros j1 G. pcs_at j1 j.
          -- right. rewrite P. repeat split; try discriminate. exact NJ.
          -- left. unfold wake. rewrite G. reflexivity.
      + rewrite upd_other by exact Ne. eapply frame; [apply (Hs i' Hi')| |].
        * intros j1. pcs_at j1 j.
          -- rewrite P. split; intros X; discriminate.
          -- unfold wake. destruct (is_granted j1 ev) eqn:G; [|tauto].
             rewrite (GW j1 G). split; intros X; inversion X; subst; contradiction.
        * intros j1 B. pcs_at j1 j.
          -- rewrite P in B. cbn in *. lia.
          -- unfold wake. destruct (is_granted j1 ev) eqn:G; [|exact B].
             rewrite (GW j1 G) in B. cbn in *. lia.
    - intros j1. cbn [sy_pc]. pcs_at j1 j; [cbn; lia|].
      unfold wake. destruct (is_granted j1 ev); [cbn; lia|apply Hpc].
    - intros j1 Hj1. cbn [sy_pc]. pcs_at j1 j.
      + rewrite (Hn j Hj1) in P. discriminate.
      + unfold wake. destruct (is_granted j1 ev) eqn:G; [|apply Hn; exact Hj1].
        specialize (GW j1 G). rewrite (Hn j1 Hj1) in GW. discriminate.
  Qed.

  (* a step that touches no semaphore: the job process exits, or the last
     deferred call has run *)
  Lemma local_step_inv : forall st j p',
    inv st -> pc_ok p' -> p' <> Done \/ sy_pc st j <> Done ->
    (forall i, p' <> Wait i) -> (forall i, sy_pc st j <> Wait i) ->
    (forall i, beyond i (sy_pc st j) -> beyond i p') ->
    (sy_pc st j <> Done) ->
    inv (mkSys (sy_sem st) (upd (sy_pc st) j p')).
  Proof.
    intros st j p' (Hs & Hpc & Hn) Hok _ NW' NW HB ND.
    split; [|split].
    - intros i Hi. unfold sem_inv. cbn [sy_sem sy_pc]. eapply frame; [apply (Hs i Hi)| |].
      + intros j1. pcs_at j1 j; [|tauto]. split; intros X; exfalso; [eapply NW|eapply NW']; eauto.
      + intros j1 B. pcs_at j1 j; auto.
    - intros j1. cbn [sy_pc]. pcs_at j1 j; [exact Hok|apply Hpc].
    - intros j1 Hj1. cbn [sy_pc]. pcs_at j1 j; [|apply Hn; exact Hj1].
      exfalso. apply ND. apply Hn. exact Hj1.
  Qed.

  Lemma job_step_inv : forall st j, inv st -> inv (job_step k req st j).
  Proof.
    intros st j Hinv. pose proof Hinv as (Hs & Hpc & Hn).
    destruct (sy_pc st j) as [i|i|[|i]|] eqn:P.
    - destruct (i <? k)%nat eqn:Lt.
      + apply Nat.ltb_lt in Lt. eapply acquire_step_inv; eauto.
      + unfold job_step. rewrite P, Lt. apply Nat.ltb_ge in Lt.
        assert (i = k). { pose proof (Hpc j) as X. rewrite P in X. cbn in X. lia. } subst i.
        apply local_step_inv.
        * exact Hinv.
        * cbn. lia.
        * left. discriminate.
        * intros i0. discriminate.
        * intros i0. rewrite P. discriminate.
        * intros i0 B. rewrite P in B. cbn in *. exact B.
        * rewrite P. discriminate.
    - unfold job_step. rewrite P. exact Hinv.
    - unfold job_step. rewrite P.
      apply local_step_inv.
      + exact Hinv.
      + exact I.
      + right. rewrite P. discriminate.
      + intros i0. discriminate.
      + intros i0. rewrite P. discriminate.
      + intros i0 B. rewrite P in B. cbn in B. lia.
      + rewrite P. discriminate.
    - eapply release_step_inv; eauto.
    - unfold job_step. rewrite P. exact Hinv.
  Qed.

  Lemma sys_step_inv : forall st m, inv st -> move_ok st m -> inv (sys_step k req st m).
  Proof.
    intros st [j|i o] Hi Hm; cbn [sys_step].
    - apply job_step_inv. exact Hi.
    - apply upd_step_inv; assumption.
  Qed.


  (* ---------------------------------------------------------- reachable states *)

  Fixpoint moves_ok (st : sys) (ms : list move) : Prop :=
    match ms with
    | [] => True
    | m :: tl => move_ok st m /\ moves_ok (sys_step k req st m) tl
    end.

  Lemma run_inv : forall ms st, inv st -> moves_ok st ms -> inv (sys_run k req st ms).
  Proof.
    induction ms as [|m tl IH]; intros st Hi Hm; cbn in *; [exact Hi|].
    destruct Hm as [H1 H2]. apply IH; [apply sys_step_inv; assumption|exact H2].
  Qed.

  Hypothesis sizes_nonneg : forall i, 0 <= sizes i.
  Hypothesis req_fits : forall j i, req j i <= sizes i.

  Lemma init_inv : inv (sys_init sizes n).
  Proof.
    split; [|split].
    - intros i Hi. unfold sem_inv, sys_init, sinv, client_init, sem_init. cbn.
      split; [|split; [|split; [|split; [|split; [|split; [|split]]]]]].
      + unfold cinv, bounded. cbn. pose proof (sizes_nonneg i). repeat split; auto; lia.
      + exact I.
      + intros j. apply req_fits.
      + intros ? ? [].
      + intros j H. cbn in H. match type of H with (if ?b then _ else _) = _ => destruct b end; discriminate H.
      + constructor.
      + intros ? ? [].
      + constructor.
    - intros j. unfold sys_init. cbn [sy_pc]. destruct (j <? n)%nat; cbn; lia.
    - intros j Hj. unfold sys_init. cbn [sy_pc]. destruct (j <? n)%nat eqn:E; [|reflexivity].
      apply Nat.ltb_lt in E. lia.
  Qed.

  (* ---------------------------------------------------------- the measure *)

  Definition measure (st : sys) : nat := measure_upto k n (sy_pc st).

  Lemma measure_upto_le : forall m pcs pcs',
    (forall j, (j < m)%nat -> (pc_measure k (pcs' j) <= pc_measure k (pcs j))%nat) ->
    (measure_upto k m pcs' <= measure_upto k m pcs)%nat.
  Proof.
    induction m as [|m IH]; intros pcs pcs' H; cbn; [lia|].
    pose proof (H m ltac:(lia)). pose proof (IH pcs pcs' ltac:(intros; apply H; lia)). lia.
  Qed.

  Lemma measure_upto_lt : forall m pcs pcs' j0,
    (forall j, (j < m)%nat -> (pc_measure k (pcs' j) <= pc_measure k (pcs j))%nat) ->
    (j0 < m)%nat -> (pc_measure k (pcs' j0) < pc_measure k (pcs j0))%nat ->
    (measure_upto k m pcs' < measure_upto k m pcs)%nat.
  Proof.
    induction m as [|m IH]; intros pcs pcs' j0 H Hj Hlt; [lia|]. cbn.
    pose proof (H m ltac:(lia)).
    destruct (Nat.eq_dec j0 m) as [->|Ne].
    - pose proof (measure_upto_le m pcs pcs' ltac:(intros; apply H; lia)). lia.
    - pose proof (IH pcs pcs' j0 ltac:(intros; apply H; lia) ltac:(lia) Hlt). lia.
  Qed.

  Lemma wake_measure : forall st i ev w' j,
    inv st -> (i < k)%nat ->
    s_wait (c_sem (sy_sem st i)) = grants ev ++ w' ->
    (pc_measure k (wake i ev (sy_pc st) j) <= pc_measure k (sy_pc st j))%nat.
  Proof.
    intros st i ev w' j (Hs & _) Hi Hw. unfold wake.
    destruct (is_granted j ev) eqn:G; [|lia].
    rewrite (granted_waits _ _ _ _ _ (Hs i Hi) Hw j G). cbn. lia.
  Qed.

  Lemma cstep_wait_shape : forall c o c' ev,
    c_dead c = false -> (forall id a, o <> CAcquire id a) ->
    cstep c o = (c', ev) -> exists w', s_wait (c_sem c) = grants ev ++ w'.
  Proof.
    intros c o c' ev Hd Hna H. unfold cstep in H. rewrite Hd in H.
    assert (G : forall op base, (forall id m, op <> Acquire id m) ->
              cfinish c (step (c_sem c) op) base = (c', ev) ->
              exists w', s_wait (c_sem c) = grants ev ++ w').
    { intros op base Hn' F. destruct (nonacq_shape _ _ _ _ _ Hn' F) as (_ & X & _). eauto. }
    destruct o as [id a|id|a|a|f u|a].
    - exfalso. eapply Hna. reflexivity.
    - destruct (remove_held id (c_held c)) as [[a h']|].
      + eapply G; [|exact H]. discriminate.
      + inversion H; subst. eexists. cbn. reflexivity.
    - eapply G; [|exact H]. discriminate.
    - eapply G; [|exact H]. discriminate.
    - eapply G; [|exact H]. discriminate.
    - eapply G; [|exact H]. discriminate.
  Qed.

  Lemma inv_dead : forall st i, inv st -> (i < k)%nat -> c_dead (sy_sem st i) = false.
  Proof. intros st i (Hs & _) Hi. destruct (Hs i Hi) as ((Hd & _) & _). exact Hd. Qed.

  Lemma job_step_measure : forall st j j1, inv st ->
    (pc_measure k (sy_pc (job_step k req st j) j1) <= pc_measure k (sy_pc st j1))%nat /\
    (enabled st j = true ->
     (pc_measure k (sy_pc (job_step k req st j) j) < pc_measure k (sy_pc st j))%nat).
  Proof.
    intros st j j1 Hinv. pose proof Hinv as (Hs & Hpc & Hn).
    unfold job_step, enabled.
    destruct (sy_pc st j) as [i|i|[|i]|] eqn:P.
    - destruct (i <? k)%nat eqn:Lt.
      + apply Nat.ltb_lt in Lt.
        destruct (cstep (sy_sem st i) (CAcquire (N.of_nat j) (req j i))) as [c' ev] eqn:CS.
        cbn [sy_pc].
        assert (M : (pc_measure k (match ev with
                       | EGrantNow _ _ :: _ => Acq (S i)
                       | EEnqueue _ _ :: _ => Wait i
                       | _ => Rel i end) < pc_measure k (Acq i))%nat).
        { destruct ev as [|[] ?]; cbn; lia. }
        split.
        * pcs_at j1 j; [rewrite P; lia|lia].
        * intros _. rewrite upd_same. exact M.
      + apply Nat.ltb_ge in Lt. cbn [sy_pc].
        assert (i = k). { pose proof (Hpc j) as X. rewrite P in X. cbn in X. lia. } subst i.
        split.
        * pcs_at j1 j; [rewrite P; cbn; lia|lia].
        * intros _. rewrite upd_same. cbn. lia.
    - split; [lia|discriminate].
    - cbn [sy_pc]. split.
      + pcs_at j1 j; [rewrite P; cbn; lia|lia].
      + intros _. rewrite upd_same. cbn. lia.
    - assert (Lt : (i < k)%nat). { pose proof (Hpc j) as X. rewrite P in X. cbn in X. lia. }
      destruct (cstep (sy_sem st i) (CRelease (N.of_nat j))) as [c' ev] eqn:CS.
      cbn [sy_pc].
      assert (Hna : forall id a, CRelease (N.of_nat j) <> CAcquire id a) by discriminate.
      destruct (cstep_wait_shape _ _ _ _ (inv_dead _ _ Hinv Lt) Hna CS) as (w' & Hw).
      split.
      + pcs_at j1 j; [rewrite P; cbn; lia|]. eapply wake_measure; eauto.
      + intros _. rewrite upd_same. cbn. lia.
    - split; [lia|discriminate].
  Qed.

  Lemma upd_step_measure : forall st i o j1, inv st -> move_ok st (MUpd i o) ->
    (pc_measure k (sy_pc (upd_step st i o) j1) <= pc_measure k (sy_pc st j1))%nat.
  Proof.
    intros st i o j1 Hinv (Hi & Hu & _). unfold upd_step.
    destruct (cstep (sy_sem st i) o) as [c' ev] eqn:CS. cbn [sy_pc].
    assert (Hna : forall id a, o <> CAcquire id a) by (intros id a ->; exact Hu).
    destruct (cstep_wait_shape _ _ _ _ (inv_dead _ _ Hinv Hi) Hna CS) as (w' & Hw).
    eapply wake_measure; eauto.
  Qed.

  (* number of job moves in a schedule that actually moved a job *)
  Fixpoint job_moves (st : sys) (ms : list move) : nat :=
    match ms with
    | [] => 0
    | m :: tl =>
        (match m with MJob j => if enabled st j then 1 else 0 | MUpd _ _ => 0 end
         + job_moves (sys_step k req st m) tl)%nat
    end.

  Lemma enabled_lt_n : forall st j, inv st -> enabled st j = true -> (j < n)%nat.
  Proof.
    intros st j (_ & _ & Hn) E. destruct (Nat.lt_ge_cases j n) as [L|L]; [exact L|].
    unfold enabled in E. rewrite (Hn j L) in E. discriminate.
  Qed.

  (* Every legal schedule, whatever the interleaving, contains at most
     [measure] effective job moves: nobody can be kept busy forever. *)
  Lemma schedule_bounded : forall ms st, inv st -> moves_ok st ms ->
    (measure (sys_run k req st ms) + job_moves st ms <= measure st)%nat.
  Proof.
    induction ms as [|m tl IH]; intros st Hi Hm; cbn [sys_run fold_left job_moves]; [lia|].
    destruct Hm as [H1 H2].
    pose proof (IH _ (sys_step_inv _ _ Hi H1) H2) as IH'.
    fold (sys_run k req (sys_step k req st m) tl).
    assert (S1 : (measure (sys_step k req st m)
                  + match m with MJob j => if enabled st j then 1 else 0 | MUpd _ _ => 0 end
                  <= measure st)%nat).
    { destruct m as [j|i o]; cbn [sys_step].
      - destruct (enabled st j) eqn:E.
        + pose proof (enabled_lt_n _ _ Hi E) as Lj.
          assert ((measure (job_step k req st j) < measure st)%nat); [|lia].
          unfold measure. eapply (measure_upto_lt n _ _ j).
          * intros j1 _. apply (job_step_measure st j j1 Hi).
          * exact Lj.
          * apply (job_step_measure st j j Hi). exact E.
        + assert ((measure (job_step k req st j) <= measure st)%nat); [|lia].
          unfold measure. apply measure_upto_le. intros j1 _. apply (job_step_measure st j j1 Hi).
      - assert ((measure (upd_step st i o) <= measure st)%nat); [|lia].
        unfold measure. apply measure_upto_le. intros j1 _. apply upd_step_measure; assumption. }
    lia.
  Qed.

  Lemma all_done_spec : forall st,
    all_done n st = true <-> forall j, (j < n)%nat -> sy_pc st j = Done.
  Proof.
    intros st. unfold all_done. rewrite forallb_forall. split.
    - intros H j Hj. specialize (H j ltac:(apply in_seq; lia)).
      destruct (sy_pc st j); try discriminate. reflexivity.
    - intros H j Hj. apply in_seq in Hj. rewrite (H j ltac:(lia)). reflexivity.
  Qed.

  Lemma not_all_done : forall st, all_done n st = false -> exists j, sy_pc st j <> Done.
  Proof.
    intros st H. unfold all_done in H.
    assert (E : existsb (fun j => negb (is_done (sy_pc st j))) (seq 0 n) = true).
    { induction (seq 0 n) as [|x l IH]; cbn in *; [discriminate|].
      destruct (is_done (sy_pc st x)); cbn in *; auto. }
    apply existsb_exists in E as (j & _ & E). exists j. intros X. rewrite X in E. discriminate.
  Qed.

  (* From every reachable state the jobs can all be brought to completion by
     job moves alone (no help from availability updates is needed). *)
  Lemma can_finish : forall m st, inv st -> (measure st <= m)%nat ->
    exists js, (length js <= measure st)%nat /\
      all_done n (sys_run k req st (map MJob js)) = true.
  Proof.
    induction m as [|m IH]; intros st Hi Hm.
    - destruct (all_done n st) eqn:D.
      + exists []. split; [cbn; lia|exact D].
      + destruct (progress st Hi (not_all_done _ D)) as (j & E).
        pose proof (schedule_bounded [MJob j] st Hi (conj I I)) as B.
        cbn in B. rewrite E in B. lia.
    - destruct (all_done n st) eqn:D.
      + exists []. split; [cbn; lia|exact D].
      + destruct (progress st Hi (not_all_done _ D)) as (j & E).
        pose proof (schedule_bounded [MJob j] st Hi (conj I I)) as B.
        cbn in B. rewrite E in B.
        destruct (IH (job_step k req st j) (job_step_inv st j Hi) ltac:(lia)) as (js & L & A).
        exists (j :: js). split; [cbn; lia|exact A].
  Qed.

End JobsProofs.

(* ------------------------------------------------------------ closed statements *)

Lemma local_jobs_progress_lemma : forall k n req sizes,
  (forall j i, 0 <= req j i) -> (forall i, 0 <= sizes i) -> (forall j i, req j i <= sizes i) ->
  forall ms, moves_ok k req sizes (sys_init sizes n) ms ->
  let st := sys_run k req (sys_init sizes n) ms in
  (exists j, sy_pc st j <> Done) -> exists j, enabled st j = true.
Proof.
  intros k n req sizes H1 H2 H3 ms Hm st. apply (progress k n req sizes).
  apply run_inv; auto. apply init_inv; auto.
Qed.

Lemma local_jobs_terminate_lemma : forall k n req sizes,
  (forall j i, 0 <= req j i) -> (forall i, 0 <= sizes i) -> (forall j i, req j i <= sizes i) ->
  forall ms, moves_ok k req sizes (sys_init sizes n) ms ->
  let st := sys_run k req (sys_init sizes n) ms in
  (forall ms', moves_ok k req sizes st ms' ->
     (measure k n (sys_run k req st ms') + job_moves k req st ms' <= measure k n st)%nat) /\
  (exists js, (length js <= measure k n st)%nat /\
     all_done n (sys_run k req st (map MJob js)) = true).
Proof.
  intros k n req sizes H1 H2 H3 ms Hm st.
  assert (Hi : inv k n req sizes st) by (apply run_inv; auto; apply init_inv; auto).
  split.
  - intros ms' Hm'. apply (schedule_bounded k n req sizes H1); assumption.
  - apply (can_finish k n req sizes H1 (measure k n st)); auto.
Qed.

Lemma measure_init_lemma : forall k n sizes,
  measure k n (sys_init sizes n) = (n * (3 * k + 2))%nat.
Proof.
  intros k n sizes. unfold measure, sys_init. cbn [sy_pc].
  assert (G : forall m, (m <= n)%nat ->
            measure_upto k m (fun j => if (j <? n)%nat then Acq 0 else Done) = (m * (3 * k + 2))%nat).
  { induction m as [|m IH]; intros Hm; [reflexivity|].
    cbn [measure_upto]. rewrite IH by lia.
    assert (E : (m <? n)%nat = true) by (apply Nat.ltb_lt; lia). rewrite E. cbn [pc_measure]. lia. }
  apply G. lia.
Qed.
