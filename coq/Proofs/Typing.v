(* Proofs about Mro/Typing.v (C07): the rule-level rejection lemmas and their
   lifting to the whole-program checker; soundness of accepted literals;
   the coercion of accepted references (through C17's filter theorem). *)
From Coq Require Import String.
From Martian Require Import Lib.Bytes Json.Json Mro.Ast K.JsonTypes Proofs.JsonTypes Mro.Typing.

(* ------------------------------------------------------------ lists *)

Lemma mem_In n l : mem n l = true <-> In n l.
Proof.
  unfold mem. rewrite existsb_exists. split.
  - intros [x [Hin He]]. apply bytes_eqb_eq in He. subst. exact Hin.
  - intros H. exists n. split; [exact H|apply bytes_eqb_refl].
Qed.

Lemma mem_false n l : mem n l = false <-> ~ In n l.
Proof.
  split.
  - intros H Hin. apply mem_In in Hin. congruence.
  - intros H. destruct (mem n l) eqn:E; [|reflexivity]. apply mem_In in E. contradiction.
Qed.

(* ------------------------------------------------------------ bindings of a call *)

Definition no_star (bs : list bind_stm) : Prop :=
  forallb (fun b => negb (bytes_eqb (b_id b) star_id)) bs = true.

Lemma add_binding_table sm a c ps w table id e :
  snd (add_binding sm a c ps w table id e) = id :: table.
Proof. reflexivity. Qed.

Lemma add_binding_unknown sm a c ps w table id e :
  find_param id ps = None -> In w (fst (add_binding sm a c ps w table id e)).
Proof. intros H. unfold add_binding. rewrite H. cbn [fst]. apply in_or_app. right. left. reflexivity. Qed.

Lemma add_binding_illtyped sm a c ps w table id e t :
  find_param id ps = Some t -> check_param sm a c t e = false ->
  In w (fst (add_binding sm a c ps w table id e)).
Proof.
  intros H Hc. unfold add_binding. rewrite H, Hc. cbn [fst]. apply in_or_app. right. left. reflexivity.
Qed.

Lemma add_binding_duplicate sm a c ps w table id e :
  In id table -> In w (fst (add_binding sm a c ps w table id e)).
Proof.
  intros H. unfold add_binding. apply mem_In in H. rewrite H. cbn [fst]. apply in_or_app. left. left. reflexivity.
Qed.

Lemma compile_generic_cons sm a c ps mkloc b r table :
  bytes_eqb (b_id b) star_id = false ->
  compile_generic sm a c ps mkloc (b :: r) table =
    let x := add_binding sm a c ps (mkloc (b_id b)) table (b_id b) (b_exp b) in
    let y := compile_generic sm a c ps mkloc r (snd x) in
    (fst x ++ fst (fst y), snd (fst y), (b_id b, b_exp b) :: snd y).
Proof.
  intros H. cbn [compile_generic]. rewrite H.
  destruct (add_binding sm a c ps (mkloc (b_id b)) table (b_id b) (b_exp b)) as [e1 t1].
  cbn [fst snd]. destruct (compile_generic sm a c ps mkloc r t1) as [[e2 t2] l2]. reflexivity.
Qed.

(* the errors of a binding that precedes any wildcard are errors of the call *)
Lemma compile_generic_in sm a c ps mkloc : forall pre b post table l,
  no_star pre -> bytes_eqb (b_id b) star_id = false ->
  In l (fst (add_binding sm a c ps (mkloc (b_id b)) (rev (map b_id pre) ++ table) (b_id b) (b_exp b))) ->
  In l (fst (fst (compile_generic sm a c ps mkloc (pre ++ b :: post) table))).
Proof.
  induction pre as [|x pre IH]; intros b post table l Hn Hb Hin.
  - cbn [app]. rewrite (compile_generic_cons _ _ _ _ _ _ _ _ Hb). cbn [fst snd rev map app] in *.
    apply in_or_app. left. exact Hin.
  - unfold no_star in Hn. cbn [forallb] in Hn. apply andb_true_iff in Hn. destruct Hn as [Hx Hn].
    apply negb_true_iff in Hx. cbn [app]. rewrite (compile_generic_cons _ _ _ _ _ _ _ _ Hx).
    cbn [fst snd]. apply in_or_app. right. rewrite add_binding_table. apply IH; auto.
    cbn [map rev] in Hin. rewrite <- app_assoc in Hin. exact Hin.
Qed.

Lemma compile_generic_table sm a c ps mkloc : forall bs table,
  no_star bs -> snd (fst (compile_generic sm a c ps mkloc bs table)) = rev (map b_id bs) ++ table.
Proof.
  induction bs as [|x bs IH]; intros table Hn; [reflexivity|].
  unfold no_star in Hn. cbn [forallb] in Hn. apply andb_true_iff in Hn. destruct Hn as [Hx Hn].
  apply negb_true_iff in Hx. rewrite (compile_generic_cons _ _ _ _ _ _ _ _ Hx). cbn [fst snd].
  rewrite add_binding_table, IH by exact Hn. cbn [map rev]. rewrite <- app_assoc. reflexivity.
Qed.

Lemma missing_params_in ps table w k t :
  In (k, t) ps -> ~ In k table -> In w (missing_params ps table w).
Proof.
  intros Hin Hn. unfold missing_params. apply in_flat_map. exists (k, t). split; [exact Hin|].
  cbn [fst]. apply mem_false in Hn. rewrite Hn. left. reflexivity.
Qed.

Lemma check_call_binds sm a c infos pid cs callee :
  find_callable (c_dec_id cs) (a_callables a) = Some callee ->
  cr_binds (check_call sm a c infos pid cs) =
    (let r := compile_generic sm a c (in_params (callable_ins callee)) (fun id => (pid, c_id cs, id)) (c_bindings cs) [] in
     fst (fst r) ++ missing_params (in_params (callable_ins callee)) (snd (fst r)) (pid, c_id cs, [])).
Proof.
  intros H. unfold check_call. rewrite H.
  destruct (compile_generic sm a c (in_params (callable_ins callee)) (fun id => (pid, c_id cs, id)) (c_bindings cs) [])
    as [[e t] x].
  destruct (is_map_call cs).
  - destruct (check_mappings a c infos (pid, c_id cs, []) (fun id => (pid, c_id cs, id)) x MIPlaceholder) as [[e2 i2] u2].
    reflexivity.
  - reflexivity.
Qed.

Section CallRules.
  Variables (sm : bool) (a : ast) (c : bctx) (infos : minfos) (pid : bytes) (cs : call_stm) (callee : callable).
  Hypothesis Hcallee : find_callable (c_dec_id cs) (a_callables a) = Some callee.
  Variables (pre post : list bind_stm) (b : bind_stm).
  Hypothesis Hsplit : c_bindings cs = pre ++ b :: post.
  Hypothesis Hpre : no_star pre.
  Hypothesis Hb : bytes_eqb (b_id b) star_id = false.

  Let ps := in_params (callable_ins callee).
  Let here : loc := (pid, c_id cs, b_id b).

  Lemma binding_error_in_call :
    In here (fst (add_binding sm a c ps here (rev (map b_id pre) ++ []) (b_id b) (b_exp b))) ->
    In here (cr_binds (check_call sm a c infos pid cs)).
  Proof.
    intros H. rewrite (check_call_binds _ _ _ _ _ _ _ Hcallee). cbn zeta. apply in_or_app. left.
    rewrite Hsplit. apply (compile_generic_in sm a c ps (fun id => (pid, c_id cs, id))); auto.
  Qed.

  (* unknown parameter *)
  Lemma reject_unknown_param_lemma :
    find_param (b_id b) ps = None -> In here (cr_binds (check_call sm a c infos pid cs)).
  Proof. intros H. apply binding_error_in_call. apply add_binding_unknown. exact H. Qed.

  (* a binding whose expression does not check against the parameter type *)
  Lemma reject_illtyped_binding_lemma t :
    find_param (b_id b) ps = Some t -> check_param sm a c t (b_exp b) = false ->
    In here (cr_binds (check_call sm a c infos pid cs)).
  Proof. intros H Hc. apply binding_error_in_call. apply (add_binding_illtyped _ _ _ _ _ _ _ _ t); auto. Qed.

  (* the same parameter bound twice *)
  Lemma reject_duplicate_binding_lemma :
    In (b_id b) (map b_id pre) -> In here (cr_binds (check_call sm a c infos pid cs)).
  Proof.
    intros H. apply binding_error_in_call. apply add_binding_duplicate. rewrite app_nil_r.
    apply in_rev in H. exact H.
  Qed.
End CallRules.

(* missing parameter: reported at the call *)
Lemma reject_missing_param_lemma sm a c infos pid cs callee k t :
  find_callable (c_dec_id cs) (a_callables a) = Some callee ->
  no_star (c_bindings cs) ->
  In (k, t) (in_params (callable_ins callee)) -> ~ In k (map b_id (c_bindings cs)) ->
  In (pid, c_id cs, []) (cr_binds (check_call sm a c infos pid cs)).
Proof.
  intros Hc Hn Hin Hk. rewrite (check_call_binds _ _ _ _ _ _ _ Hc). cbn zeta. apply in_or_app. right.
  apply (missing_params_in _ _ _ k t); [exact Hin|].
  rewrite compile_generic_table by exact Hn. rewrite app_nil_r. intros H. apply in_rev in H. contradiction.
Qed.

(* ------------------------------------------------------------ expression rules *)

Section ExpRules.
  Variables (sm : bool) (a : ast) (res : ref_kind -> bytes -> bytes -> option type_id).
  Notation vexp := (valid_exp sm a res).

  Definition scalar_shape (s : tshape) : Prop :=
    match s with ShBuiltin _ | ShUser | ShStruct _ => True | _ => False end.
  Definition scalar_lit (e : exp) : Prop :=
    match e with EString _ | EBool _ | EInt _ | EFloat _ _ => True | _ => False end.

  Lemma valid_exp_array t items :
    vexp t (EArray items) =
      match shape_of a t with ShArray => forallb (vexp (elem_of_array t)) items | _ => false end.
  Proof. reflexivity. Qed.

  (* array versus map *)
  Lemma reject_map_for_array_lemma t mk kvs : shape_of a t = ShArray -> vexp t (EMap mk kvs) = false.
  Proof. intros H. cbn [valid_exp]. rewrite H. reflexivity. Qed.

  Lemma reject_array_for_map_lemma t items : shape_of a t = ShTMap -> vexp t (EArray items) = false.
  Proof. intros H. rewrite valid_exp_array, H. reflexivity. Qed.

  (* array depth *)
  Lemma reject_array_for_scalar_lemma t items : scalar_shape (shape_of a t) -> vexp t (EArray items) = false.
  Proof. intros H. rewrite valid_exp_array. destruct (shape_of a t); cbn in H; try contradiction; reflexivity. Qed.

  Lemma reject_scalar_for_array_lemma t e : shape_of a t = ShArray -> scalar_lit e -> vexp t e = false.
  Proof. intros H He. destruct e; cbn in He; try contradiction; cbn [valid_exp]; rewrite H; reflexivity. Qed.

  Lemma reject_scalar_for_map_lemma t e : shape_of a t = ShTMap -> scalar_lit e -> vexp t e = false.
  Proof. intros H He. destruct e; cbn in He; try contradiction; cbn [valid_exp]; rewrite H; reflexivity. Qed.

  (* base type: a scalar literal is accepted by a builtin type exactly per the table *)
  Lemma builtin_literal_lemma t k e : shape_of a t = ShBuiltin k -> scalar_lit e -> vexp t e = lit_builtin k e.
  Proof. intros H He. destruct e; cbn in He; try contradiction; cbn [valid_exp]; rewrite H; reflexivity. Qed.

  Lemma user_literal_lemma t e : shape_of a t = ShUser -> scalar_lit e ->
    vexp t e = match e with EString _ => true | _ => false end.
  Proof. intros H He. destruct e; cbn in He; try contradiction; cbn [valid_exp]; rewrite H; reflexivity. Qed.

  Lemma reject_scalar_for_struct_lemma t ms e : shape_of a t = ShStruct ms -> scalar_lit e -> vexp t e = false.
  Proof. intros H He. destruct e; cbn in He; try contradiction; cbn [valid_exp]; rewrite H; reflexivity. Qed.

  Lemma lit_builtin_string k s : lit_builtin k (EString s) = true <-> k = KString \/ k = KFile \/ k = KPath.
  Proof. destruct k; cbn; intuition discriminate. Qed.
  Lemma lit_builtin_int k z : lit_builtin k (EInt z) = true <-> k = KInt \/ k = KFloat.
  Proof. destruct k; cbn; intuition discriminate. Qed.
  Lemma lit_builtin_bool k x : lit_builtin k (EBool x) = true <-> k = KBool.
  Proof. destruct k; cbn; intuition discriminate. Qed.
  Lemma lit_builtin_float k m x : lit_builtin k (EFloat m x) = true <-> k = KFloat \/ (k = KInt /\ float_is_int64 m x = true).
  Proof. destruct k; cbn; intuition (try discriminate). Qed.

  (* struct literals *)
  Definition find_last (g : exp -> bool) (id : bytes) : list (bytes * exp) -> option bool :=
    fix find (l : list (bytes * exp)) : option bool :=
      match l with
      | [] => None
      | (k, v) :: r =>
          match find r with
          | Some x => Some x
          | None => if bytes_eqb id k then Some (g v) else None
          end
      end.

  Lemma valid_exp_struct t ms mk kvs : shape_of a t = ShStruct ms ->
    vexp t (EMap mk kvs) =
      forallb (fun m : struct_member =>
                 match find_last (vexp (sm_tname m)) (sm_id m) kvs with Some x => x | None => false end) ms
      && forallb (fun kv => is_some (find_member (fst kv) ms)) kvs.
  Proof. intros H. cbn [valid_exp]. rewrite H. reflexivity. Qed.

  Lemma find_last_none g id kvs : (forall kv, In kv kvs -> fst kv <> id) -> find_last g id kvs = None.
  Proof.
    induction kvs as [|[k v] r IH]; intros H; [reflexivity|]. cbn [find_last].
    change ((fix find (l : list (bytes * exp)) : option bool :=
               match l with
               | [] => None
               | (k0, v0) :: r0 => match find r0 with Some x => Some x | None => if bytes_eqb id k0 then Some (g v0) else None end
               end) r) with (find_last g id r).
    rewrite IH by (intros kv Hin; apply H; right; exact Hin).
    destruct (bytes_eqb id k) eqn:E; [|reflexivity]. apply bytes_eqb_eq in E. subst.
    exfalso. apply (H (k, v)); [left; reflexivity|reflexivity].
  Qed.

  Lemma reject_struct_missing_field_lemma t ms mk kvs m :
    shape_of a t = ShStruct ms -> In m ms -> (forall kv, In kv kvs -> fst kv <> sm_id m) ->
    vexp t (EMap mk kvs) = false.
  Proof.
    intros H Hin Hk. rewrite (valid_exp_struct _ _ _ _ H). apply andb_false_iff. left.
    apply not_true_iff_false. intros Hf. rewrite forallb_forall in Hf. specialize (Hf m Hin).
    rewrite find_last_none in Hf by exact Hk. discriminate.
  Qed.

  Lemma reject_struct_extra_field_lemma t ms mk kvs kv :
    shape_of a t = ShStruct ms -> In kv kvs -> find_member (fst kv) ms = None ->
    vexp t (EMap mk kvs) = false.
  Proof.
    intros H Hin Hk. rewrite (valid_exp_struct _ _ _ _ H). apply andb_false_iff. right.
    apply not_true_iff_false. intros Hf. rewrite forallb_forall in Hf. specialize (Hf kv Hin).
    rewrite Hk in Hf. discriminate.
  Qed.

  (* a struct literal for a typed map, and a map for a scalar that is not `map` *)
  Lemma reject_struct_literal_for_map_lemma t kvs : shape_of a t = ShTMap -> vexp t (EMap MapKindStruct kvs) = false.
  Proof. intros H. cbn [valid_exp]. rewrite H. reflexivity. Qed.

  (* references *)
  Lemma reject_unresolved_ref_lemma t k id out : res k id out = None -> vexp t (ERef k id out) = false.
  Proof. intros H. cbn [valid_exp]. rewrite H. reflexivity. Qed.

  Lemma reject_unresolved_split_ref_lemma t k id out : res k id out = None -> vexp t (ESplit (ERef k id out)) = false.
  Proof. intros H. cbn [valid_exp]. rewrite H. reflexivity. Qed.

  (* split over a reference that is not a collection *)
  Lemma reject_split_scalar_ref_lemma t k id out tn :
    res k id out = Some tn -> tid_arr tn = 0%N -> tid_map tn = 0%N -> vexp t (ESplit (ERef k id out)) = false.
  Proof. intros H Ha Hm. cbn [valid_exp]. rewrite H. unfold split_elem. rewrite Ha, Hm. reflexivity. Qed.

  (* the elements of a split literal are checked against the parameter type *)
  Lemma split_literal_elements_lemma t items :
    vexp t (ESplit (EArray items)) = forallb (vexp t) items.
  Proof. reflexivity. Qed.
  Lemma split_map_elements_lemma t mk kvs :
    vexp t (ESplit (EMap mk kvs)) = forallb (fun kv => vexp t (snd kv)) kvs.
  Proof. reflexivity. Qed.
End ExpRules.

(* a failing reference fails the parameter check (no .default rewrite when an
   output id is given) *)
Lemma check_param_ref_unresolved sm a c t k id o out :
  resolve a c k id (o :: out) = None -> check_param sm a c t (ERef k id (o :: out)) = false.
Proof.
  intros H. unfold check_param. rewrite (reject_unresolved_ref_lemma sm a (resolve a c) t k id (o :: out) H).
  cbn. apply andb_false_r.
Qed.

(* reference to a call that is not in the pipeline / to a non-existent output
   or field / from outside of a pipeline *)
Lemma resolve_no_call a c p id out :
  bc_pipe c = Some p -> find_call id (pl_calls p) = None -> resolve a c RefCall id out = None.
Proof. intros H1 H2. unfold resolve. rewrite H1, H2. reflexivity. Qed.

Lemma resolve_no_input a c p id out :
  bc_pipe c = Some p -> find_in id (pl_ins p) = None -> resolve a c RefSelf id out = None.
Proof. intros H1 H2. unfold resolve. rewrite H1, H2. reflexivity. Qed.

Lemma resolve_no_output a c p id out cs :
  bc_pipe c = Some p -> find_call id (pl_calls p) = Some cs ->
  field_type a (tid0 (c_dec_id cs)) (split_dots out) = None -> resolve a c RefCall id out = None.
Proof. intros H1 H2 H3. unfold resolve. rewrite H1, H2, H3. reflexivity. Qed.

Lemma resolve_outside_pipeline a c k id out : bc_pipe c = None -> resolve a c k id out = None.
Proof. intros H. unfold resolve. rewrite H. reflexivity. Qed.

Lemma field_type_no_field a id f rest ms :
  struct_members a (tid_name id) = Some ms -> find_member f ms = None -> field_type a id (f :: rest) = None.
Proof. intros H1 H2. cbn [field_type]. rewrite H1, H2. reflexivity. Qed.

Lemma field_type_not_struct a id f rest :
  struct_members a (tid_name id) = None -> field_type a id (f :: rest) = None.
Proof. intros H1. cbn [field_type]. rewrite H1. reflexivity. Qed.

(* ------------------------------------------------------------ split collections *)

Lemma merge_array_vs_map k0 sh arr k : arr <> true -> merge_info (MI true k0 sh) arr k = None.
Proof. intros H. destruct arr; [contradiction H; reflexivity|reflexivity]. Qed.

Lemma merge_map_vs_array k0 sh k : merge_info (MI false k0 sh) true k = None.
Proof. reflexivity. Qed.

Lemma merge_length_mismatch arr sh n n' : n <> n' -> merge_info (MI arr (KLen n) sh) arr (KLen n') = None.
Proof.
  intros H. unfold merge_info. rewrite Bool.eqb_reflx. cbn [negb].
  destruct (Nat.eqb_spec n n'); [contradiction|reflexivity].
Qed.

Lemma merge_keys_mismatch arr sh ks ks' : same_keys ks ks' = false ->
  merge_info (MI arr (KKeys ks) sh) arr (KKeys ks') = None.
Proof. intros H. unfold merge_info. rewrite Bool.eqb_reflx. cbn [negb]. rewrite H. reflexivity. Qed.

(* an inconsistent literal split source is reported at the call *)
Lemma reject_split_literal_lemma a c infos call_loc bind_loc cur items :
  merge_info cur true (KLen (length items)) = None ->
  fst (fst (check_binding_map a c infos call_loc bind_loc cur (EArray items))) = [call_loc].
Proof. intros H. cbn [check_binding_map]. rewrite H. reflexivity. Qed.

Lemma reject_split_map_literal_lemma a c infos call_loc bind_loc cur mk kvs :
  merge_info cur false (KKeys (map fst kvs)) = None ->
  fst (fst (check_binding_map a c infos call_loc bind_loc cur (EMap mk kvs))) = [call_loc].
Proof. intros H. cbn [check_binding_map]. rewrite H. reflexivity. Qed.

(* ------------------------------------------------------------ lifting to the program *)

Lemma ck_errs_app x y : ck_errs (ck_app x y) = ck_errs x ++ ck_errs y.
Proof. reflexivity. Qed.

Lemma ck_concat_in l : forall k x, In k l -> In x (ck_errs k) -> In x (ck_errs (ck_concat l)).
Proof.
  induction l as [|h l IH]; intros k x Hk Hx; [contradiction|].
  cbn [ck_concat fold_right]. rewrite ck_errs_app. apply in_or_app. destruct Hk as [<-|Hk]; [left; exact Hx|].
  right. exact (IH k x Hk Hx).
Qed.

Lemma check_calls_in sm a p pid l : forall cs c, In c cs ->
  (forall ctx infos, In l (ck_errs (call_chk (check_call sm a ctx infos pid c)))) ->
  forall modes infos, In l (ck_errs (check_calls sm a p pid cs modes infos)).
Proof.
  induction cs as [|h cs IH]; intros c Hin Hc modes infos; [contradiction|].
  cbn [check_calls]. cbn zeta. rewrite ck_errs_app. apply in_or_app. destruct Hin as [<-|Hin].
  - left. apply Hc.
  - right. apply (IH c Hin Hc).
Qed.

Lemma pipelines_of_in a p : In (CPipeline p) (a_callables a) -> In p (pipelines_of a).
Proof. intros H. unfold pipelines_of. apply in_flat_map. exists (CPipeline p). split; [exact H|left; reflexivity]. Qed.

Lemma result_of_err k next l : ck_unsup k = false -> In l (ck_errs k) ->
  exists ls, result_of k next = RReject ls /\ In l ls.
Proof.
  intros Hu Hin. unfold result_of. rewrite Hu. destruct (ck_errs k) as [|x xs]; [contradiction|].
  exists (x :: xs). split; [reflexivity|exact Hin].
Qed.

(* an error every context reports for a call of a pipeline is reported for the
   program (unless the program is outside the modelled fragment) *)
Lemma reject_located_lemma sm a p c l :
  In (CPipeline p) (a_callables a) -> In c (pl_calls p) ->
  (forall ctx infos, In l (ck_errs (call_chk (check_call sm a ctx infos (pl_id p) c)))) ->
  typecheck_g sm a = RUnsupported \/ exists ls, typecheck_g sm a = RReject ls /\ In l ls.
Proof.
  intros Hp Hc Hl. unfold typecheck_g. destruct (decls_ok a); [|left; reflexivity]. cbn [negb].
  assert (Hin : In l (ck_errs (phase_decs sm a))).
  { unfold phase_decs. apply (ck_concat_in _ (check_calls sm a p (pl_id p) (pl_calls p) [] [])).
    - apply in_map_iff. exists p. split; [reflexivity|apply pipelines_of_in; exact Hp].
    - apply (check_calls_in sm a p (pl_id p) l (pl_calls p) c Hc Hl). }
  destruct (ck_unsup (phase_decs sm a)) eqn:Eu.
  - left. unfold result_of. rewrite Eu. reflexivity.
  - right. apply result_of_err; assumption.
Qed.

Lemma call_chk_binds r l : In l (cr_binds r) -> In l (ck_errs (call_chk r)).
Proof. intros H. unfold call_chk. cbn [ck_errs]. apply in_or_app. right. apply in_or_app. left. exact H. Qed.

(* ------------------------------------------------------------ type trees *)

Lemma members_ty_mono (rec rec' : bytes -> option ty) :
  (forall n b, rec n = Some b -> rec' n = Some b) ->
  forall ms x, members_ty rec ms = Some x -> members_ty rec' ms = Some x.
Proof.
  intros H. induction ms as [|m r IH]; intros x Hx; [exact Hx|].
  cbn [members_ty] in *. destruct (rec (tid_name (sm_tname m))) as [b|] eqn:Eb; [|discriminate].
  destruct (members_ty rec r) as [r'|] eqn:Er; [|discriminate].
  rewrite (H _ _ Eb), (IH _ eq_refl). exact Hx.
Qed.

Lemma base_ty_unfold f a n :
  base_ty f a n =
    match builtin_kind n with
    | Some k => Some (TB k)
    | None =>
      if mem n (a_user_types a) then Some (TU n)
      else match f with
           | O => None
           | S f' => match struct_members a n with
                     | None => None
                     | Some ms => option_map (TS n) (members_ty (base_ty f' a) ms)
                     end
           end
    end.
Proof. destruct f; reflexivity. Qed.

Lemma base_ty_S a : forall f n b, base_ty f a n = Some b -> base_ty (S f) a n = Some b.
Proof.
  induction f as [|f IH]; intros n b H; rewrite base_ty_unfold in H; rewrite base_ty_unfold;
    destruct (builtin_kind n); try exact H; destruct (mem n (a_user_types a)); try exact H; [discriminate|].
  destruct (struct_members a n) as [ms|]; [|discriminate].
  destruct (members_ty (base_ty f a) ms) as [x|] eqn:E; [|discriminate].
  rewrite (members_ty_mono (base_ty f a) (base_ty (S f) a) IH ms x E). exact H.
Qed.

Lemma base_ty_le a f f' n b : f <= f' -> base_ty f a n = Some b -> base_ty f' a n = Some b.
Proof. intros Hle H. induction Hle; [exact H|]. apply base_ty_S. exact IHHle. Qed.

Lemma ty_of_f_le a f t T : f <= ty_fuel a -> ty_of_f f a t = Some T -> ty_of a t = Some T.
Proof.
  intros Hle H. unfold ty_of, ty_of_f in *. destruct (base_ty f a (tid_name t)) as [b|] eqn:E; [|discriminate].
  rewrite (base_ty_le a f (ty_fuel a) _ _ Hle E). exact H.
Qed.

(* what shape_of says about the TypeId *)
Lemma shape_of_cases a t :
  match shape_of a t with
  | ShArray => tid_arr t <> 0%N
  | ShTMap => tid_arr t = 0%N /\ tid_map t <> 0%N
  | ShBuiltin k => tid_arr t = 0%N /\ tid_map t = 0%N /\ builtin_kind (tid_name t) = Some k
  | ShUser => tid_arr t = 0%N /\ tid_map t = 0%N /\ builtin_kind (tid_name t) = None
              /\ mem (tid_name t) (a_user_types a) = true
  | ShStruct ms => tid_arr t = 0%N /\ tid_map t = 0%N /\ builtin_kind (tid_name t) = None
                   /\ mem (tid_name t) (a_user_types a) = false /\ struct_members a (tid_name t) = Some ms
  | ShNone => True
  end.
Proof.
  unfold shape_of. destruct (negb (base_exists a (tid_name t))); [exact I|].
  destruct (N.eqb_spec (tid_arr t) 0) as [Ha|Ha]; cbn [negb]; [|exact Ha].
  destruct (N.eqb_spec (tid_map t) 0) as [Hm|Hm]; cbn [negb]; [|split; assumption].
  destruct (builtin_kind (tid_name t)) as [k|] eqn:Ek; [repeat split; assumption|].
  destruct (mem (tid_name t) (a_user_types a)) eqn:Eu; [repeat split; assumption|].
  destruct (struct_members a (tid_name t)) as [ms|] eqn:Es; [repeat split; assumption|exact I].
Qed.

Lemma wrap_plain t b : tid_arr t = 0%N -> tid_map t = 0%N -> wrap t b = b.
Proof. intros Ha Hm. unfold wrap. rewrite Ha, Hm. reflexivity. Qed.

Lemma ty_of_array a f t T : ty_of_f f a t = Some T -> tid_arr t <> 0%N ->
  exists inner d, T = TArr inner d /\ ty_of_f f a (elem_of_array t) = Some (arr_ty inner d).
Proof.
  unfold ty_of_f. cbn [elem_of_array tid_name]. destruct (base_ty f a (tid_name t)) as [b|]; [|discriminate].
  cbn [option_map]. intros H Ha. injection H as <-. unfold wrap, elem_of_array. cbn [tid_arr tid_map].
  set (inner := match N.to_nat (tid_map t) with O => b | 1 => TMap b | S (S k) => TMap (TArr b k) end).
  destruct (N.to_nat (tid_arr t)) as [|d] eqn:Ed; [lia|].
  exists inner, d. split; [reflexivity|]. f_equal.
  replace (N.to_nat (tid_arr t - 1)) with d by lia. destruct d; reflexivity.
Qed.

Lemma ty_of_tmap a f t T : ty_of_f f a t = Some T -> tid_arr t = 0%N -> tid_map t <> 0%N ->
  exists E, T = TMap E /\ ty_of_f f a (elem_of_map t) = Some E.
Proof.
  unfold ty_of_f. cbn [elem_of_map tid_name]. destruct (base_ty f a (tid_name t)) as [b|]; [|discriminate].
  cbn [option_map]. intros H Ha Hm. injection H as <-. unfold wrap, elem_of_map. cbn [tid_arr tid_map]. rewrite Ha.
  change (N.to_nat 0) with O. cbn iota.
  destruct (N.to_nat (tid_map t)) as [|[|k]] eqn:Em; [lia| |].
  - exists b. split; [reflexivity|]. replace (N.to_nat (tid_map t - 1)) with O by lia. reflexivity.
  - exists (TArr b k). split; [reflexivity|]. replace (N.to_nat (tid_map t - 1)) with (S k) by lia. reflexivity.
Qed.

Lemma ty_of_builtin a f t T k : ty_of_f f a t = Some T ->
  tid_arr t = 0%N -> tid_map t = 0%N -> builtin_kind (tid_name t) = Some k -> T = TB k.
Proof.
  unfold ty_of_f. intros H Ha Hm Hk. destruct f; cbn [base_ty] in H; rewrite Hk in H; cbn [option_map] in H;
    injection H as <-; apply wrap_plain; assumption.
Qed.

Lemma ty_of_user a f t T : ty_of_f f a t = Some T ->
  tid_arr t = 0%N -> tid_map t = 0%N -> builtin_kind (tid_name t) = None ->
  mem (tid_name t) (a_user_types a) = true -> T = TU (tid_name t).
Proof.
  unfold ty_of_f. intros H Ha Hm Hk Hu. destruct f; cbn [base_ty] in H; rewrite Hk, Hu in H; cbn [option_map] in H;
    injection H as <-; apply wrap_plain; assumption.
Qed.

Lemma ty_of_struct a f t T ms : ty_of_f f a t = Some T ->
  tid_arr t = 0%N -> tid_map t = 0%N -> builtin_kind (tid_name t) = None ->
  mem (tid_name t) (a_user_types a) = false -> struct_members a (tid_name t) = Some ms ->
  exists f' ms', f = S f' /\ T = TS (tid_name t) ms' /\ members_ty (base_ty f' a) ms = Some ms'.
Proof.
  unfold ty_of_f. intros H Ha Hm Hk Hu Hs. destruct f as [|f']; cbn [base_ty] in H; rewrite Hk, Hu in H; [discriminate|].
  rewrite Hs in H. destruct (members_ty (base_ty f' a) ms) as [ms'|] eqn:E; [|discriminate].
  cbn [option_map] in H. injection H as <-. exists f', ms'. rewrite wrap_plain by assumption. auto.
Qed.

(* ------------------------------------------------------------ induction on exp *)
Section ExpInd.
  Variable P : exp -> Prop.
  Hypothesis HA : forall l, Forall P l -> P (EArray l).
  Hypothesis HM : forall k es, Forall (fun kv => P (snd kv)) es -> P (EMap k es).
  Hypothesis HStr : forall s, P (EString s).
  Hypothesis HB : forall b, P (EBool b).
  Hypothesis HI : forall z, P (EInt z).
  Hypothesis HF : forall m e, P (EFloat m e).
  Hypothesis HN : P ENull.
  Hypothesis HR : forall k i o, P (ERef k i o).
  Hypothesis HSp : forall x, P x -> P (ESplit x).
  Fixpoint exp_ind_n (e : exp) : P e :=
    match e with
    | EArray l => HA l ((fix go (l : list exp) : Forall P l :=
                           match l with
                           | [] => Forall_nil _
                           | x :: r => Forall_cons x (exp_ind_n x) (go r)
                           end) l)
    | EMap k es => HM k es ((fix go (es : list (bytes * exp)) : Forall (fun kv => P (snd kv)) es :=
                               match es with
                               | [] => Forall_nil _
                               | kv :: r => Forall_cons kv (exp_ind_n (snd kv)) (go r)
                               end) es)
    | EString s => HStr s
    | EBool b => HB b
    | EInt z => HI z
    | EFloat m e => HF m e
    | ENull => HN
    | ERef k i o => HR k i o
    | ESplit x => HSp x (exp_ind_n x)
    end.
End ExpInd.

(* ------------------------------------------------------------ literals *)

(* reference-free and split-free *)
Fixpoint plain (e : exp) : bool :=
  match e with
  | ERef _ _ _ | ESplit _ => false
  | EArray l => forallb plain l
  | EMap _ kvs => forallb (fun kv => plain (snd kv)) kvs
  | _ => true
  end.

Definition eval_kvs (kvs : list (bytes * exp)) : list (bytes * json) :=
  map (fun kv => (fst kv, eval_lit (snd kv))) kvs.

Lemma find_last_get_last g id : forall kvs,
  find_last g id kvs = Some true ->
  exists v, In v (map snd kvs) /\ g v = true /\ get_last id (eval_kvs kvs) = Some (eval_lit v).
Proof.
  induction kvs as [|[k v] r IH]; intros H; [discriminate|].
  cbn [find_last] in H.
  change ((fix find (l : list (bytes * exp)) : option bool :=
             match l with
             | [] => None
             | (k0, v0) :: r0 => match find r0 with Some x => Some x | None => if bytes_eqb id k0 then Some (g v0) else None end
             end) r) with (find_last g id r) in H.
  cbn [eval_kvs map fst snd get_last]. fold (eval_kvs r).
  destruct (find_last g id r) as [x|] eqn:E.
  - injection H as ->. destruct (IH eq_refl) as [w [Hin [Hg Hl]]]. exists w. rewrite Hl.
    split; [right; exact Hin|auto].
  - assert (Hn : get_last id (eval_kvs r) = None).
    { clear -E. induction r as [|[k' v'] r IH]; [reflexivity|]. cbn [find_last] in E.
      change ((fix find (l : list (bytes * exp)) : option bool :=
                 match l with
                 | [] => None
                 | (k0, v0) :: r0 => match find r0 with Some x => Some x | None => if bytes_eqb id k0 then Some (g v0) else None end
                 end) r) with (find_last g id r) in E.
      cbn [eval_kvs map fst snd get_last]. fold (eval_kvs r).
      destruct (find_last g id r); [discriminate|]. rewrite (IH eq_refl).
      destruct (bytes_eqb id k'); [discriminate|reflexivity]. }
    rewrite Hn. destruct (bytes_eqb id k); [|discriminate]. injection H as H.
    exists v. split; [left; reflexivity|auto].
Qed.

Lemma shape_float_decimal m x :
  (let '(m', e') := float_decimal m x in negb (f64_overflow m' e')) = true ->
  shape (TB KFloat) (let '(m', e') := float_decimal m x in JNum m' e').
Proof.
  destruct (float_decimal m x) as [m' e']. intros H. apply negb_true_iff in H. constructor. exact H.
Qed.

Lemma shape_int_of_float m x : float_is_int64 m x = true ->
  shape (TB KInt) (let '(m', e') := float_decimal m x in JNum m' e').
Proof.
  unfold float_is_int64, float_decimal. intros H. apply andb_true_iff in H. destruct H as [H H3].
  apply andb_true_iff in H. destruct H as [H1 H2]. rewrite H1. constructor. unfold in_int64.
  apply andb_true_iff. split; [exact H2|]. apply Z.leb_le. apply Z.ltb_lt in H3. lia.
Qed.

Theorem literal_sound_lemma sm a res : forall e f t T,
  f <= ty_fuel a -> plain e = true -> nums_ok e = true ->
  ty_of_f f a t = Some T -> valid_exp sm a res t e = true -> shape T (eval_lit e).
Proof.
  intros e. pattern e. apply exp_ind_n; clear e.
  - (* array *)
    intros l IH f t T Hf Hp Hn HT Hv. rewrite valid_exp_array in Hv.
    pose proof (shape_of_cases a t) as Hc. destruct (shape_of a t); try discriminate.
    destruct (ty_of_array a f t T HT Hc) as [inner [d [-> He]]]. cbn [eval_lit]. constructor.
    apply Forall_forall. intros x Hx. apply in_map_iff in Hx. destruct Hx as [e0 [<- Hin]].
    rewrite Forall_forall in IH. cbn [plain nums_ok] in Hp, Hn. rewrite forallb_forall in Hp, Hn, Hv.
    apply (IH e0 Hin f (elem_of_array t)); auto.
  - (* map / struct literal *)
    intros mk kvs IH f t T Hf Hp Hn HT Hv.
    pose proof (shape_of_cases a t) as Hc. cbn [plain nums_ok] in Hp, Hn.
    rewrite Forall_forall in IH. rewrite forallb_forall in Hp, Hn.
    destruct (shape_of a t) as [| |k| |ms|] eqn:Es.
    + rewrite (reject_map_for_array_lemma sm a res t mk kvs Es) in Hv. discriminate.
    + (* typed map *)
      destruct Hc as [Ha Hm]. destruct (ty_of_tmap a f t T HT Ha Hm) as [E [-> He]].
      cbn [valid_exp] in Hv. rewrite Es in Hv. destruct mk; [|discriminate].
      apply andb_true_iff in Hv. destruct Hv as [Hv Hk]. rewrite forallb_forall in Hv.
      cbn [eval_lit]. fold (eval_kvs kvs). constructor.
      * apply Forall_forall. intros x Hx. apply dedup_incl in Hx. apply in_map_iff in Hx.
        destruct Hx as [kv [<- Hin]]. cbn [snd]. apply (IH kv Hin f (elem_of_map t)); auto.
      * intros Hd. unfold is_dir_tid in Hk. rewrite (ty_of_f_le a f t _ Hf HT), Hd in Hk.
        rewrite forallb_forall in Hk. apply Forall_forall. intros x Hx. apply dedup_incl in Hx.
        apply in_map_iff in Hx. destruct Hx as [kv [<- Hin]]. cbn [fst]. apply Hk. exact Hin.
    + (* untyped map *)
      destruct Hc as [Ha [Hm Hk]]. rewrite (ty_of_builtin a f t T k HT Ha Hm Hk).
      cbn [valid_exp] in Hv. rewrite Es in Hv. cbn [lit_builtin] in Hv.
      destruct mk; [|discriminate]. destruct k; try discriminate. cbn [eval_lit]. constructor.
    + cbn [valid_exp] in Hv. rewrite Es in Hv. discriminate.
    + (* struct *)
      destruct Hc as [Ha [Hm [Hk [Hu Hs]]]].
      destruct (ty_of_struct a f t T ms HT Ha Hm Hk Hu Hs) as [f' [ms' [-> [-> Hms]]]].
      rewrite (valid_exp_struct sm a res t ms mk kvs Es) in Hv. apply andb_true_iff in Hv. destruct Hv as [Hv _].
      cbn [eval_lit]. fold (eval_kvs kvs). constructor.
      clear Es Hs HT. revert ms' Hms Hv. induction ms as [|m r IHr]; intros ms' Hms Hv.
      * cbn [members_ty] in Hms. injection Hms as <-. constructor.
      * cbn [members_ty] in Hms. destruct (base_ty f' a (tid_name (sm_tname m))) as [b|] eqn:Eb; [|discriminate].
        destruct (members_ty (base_ty f' a) r) as [r'|] eqn:Er; [|discriminate]. injection Hms as <-.
        cbn [forallb] in Hv. apply andb_true_iff in Hv. destruct Hv as [Hm1 Hr]. constructor; [|apply IHr; auto].
        cbn [fst snd].
        destruct (find_last (valid_exp sm a res (sm_tname m)) (sm_id m) kvs) as [x|] eqn:Ef; [|discriminate].
        subst x. destruct (find_last_get_last _ _ _ Ef) as [v [Hin [Hg Hl]]].
        exists (eval_lit v). split; [exact Hl|].
        apply in_map_iff in Hin. destruct Hin as [kv [<- Hin]].
        apply (IH kv Hin f' (sm_tname m)); auto; [lia|]. unfold ty_of_f. rewrite Eb. reflexivity.
    + cbn [valid_exp] in Hv. rewrite Es in Hv. discriminate.
  - (* string *)
    intros s f t T Hf _ _ HT Hv. pose proof (shape_of_cases a t) as Hc. cbn [valid_exp] in Hv.
    destruct (shape_of a t) as [| |k| |ms|]; try discriminate.
    + destruct Hc as [Ha [Hm Hk]]. rewrite (ty_of_builtin a f t T k HT Ha Hm Hk). cbn [lit_builtin] in Hv.
      cbn [eval_lit]. constructor. destruct k; try discriminate; auto.
    + destruct Hc as [Ha [Hm [Hk Hu]]]. rewrite (ty_of_user a f t T HT Ha Hm Hk Hu). cbn [eval_lit]. constructor.
  - (* bool *)
    intros b f t T Hf _ _ HT Hv. pose proof (shape_of_cases a t) as Hc. cbn [valid_exp] in Hv.
    destruct (shape_of a t) as [| |k| |ms|]; try discriminate.
    destruct Hc as [Ha [Hm Hk]]. rewrite (ty_of_builtin a f t T k HT Ha Hm Hk). cbn [lit_builtin] in Hv.
    destruct k; try discriminate. cbn [eval_lit]. constructor.
  - (* int *)
    intros z f t T Hf _ Hn HT Hv. pose proof (shape_of_cases a t) as Hc. cbn [valid_exp] in Hv.
    destruct (shape_of a t) as [| |k| |ms|]; try discriminate.
    destruct Hc as [Ha [Hm Hk]]. rewrite (ty_of_builtin a f t T k HT Ha Hm Hk). cbn [lit_builtin] in Hv.
    cbn [nums_ok] in Hn. cbn [eval_lit]. destruct k; try discriminate; constructor; auto.
    apply int64_no_overflow. exact Hn.
  - (* float *)
    intros m x f t T Hf _ Hn HT Hv. pose proof (shape_of_cases a t) as Hc. cbn [valid_exp] in Hv.
    destruct (shape_of a t) as [| |k| |ms|]; try discriminate.
    destruct Hc as [Ha [Hm Hk]]. rewrite (ty_of_builtin a f t T k HT Ha Hm Hk). cbn [lit_builtin] in Hv.
    cbn [nums_ok] in Hn. cbn [eval_lit]. destruct k; try discriminate.
    + apply shape_int_of_float. exact Hv.
    + apply shape_float_decimal. exact Hn.
  - (* null *)
    intros. cbn [eval_lit]. constructor.
  - intros k i o f t T _ Hp. discriminate.
  - intros x _ f t T _ Hp. discriminate.
Qed.

(* ------------------------------------------------------------ references *)

(* an accepted reference: the resolved type is assignable to the parameter type *)
Lemma valid_ref_assignable sm a t tn T Tn :
  valid_ref sm a t (Some tn) = true -> ty_of a t = Some T -> ty_of a tn = Some Tn ->
  assignable_g sm T Tn = true.
Proof.
  unfold valid_ref. intros H HT HTn.
  assert (Ha : asg_g sm a t tn = true).
  { destruct (shape_of a t); try discriminate;
      repeat (apply andb_true_iff in H; destruct H as [H ?]); assumption. }
  unfold asg_g in Ha. rewrite HT, HTn in Ha. exact Ha.
Qed.

(* ... so the value delivered after FilterJson conforms (C17's theorem) *)
Lemma ref_coercion_sound_lemma : forall U, table U -> forall a t tn T Tn v,
  wf T -> U T -> U Tn ->
  valid_ref false a t (Some tn) = true -> ty_of a t = Some T -> ty_of a tn = Some Tn ->
  valid_clean Tn v = true ->
  fatal (filter T v) = false /\ clean (valid_gen allk T (out (filter T v))) = true.
Proof.
  intros U HU a t tn T Tn v Hw HuT HuTn Hv HT HTn Hc.
  apply (filter_valid_modkeys_lemma U HU T Tn v Hw HuT HuTn); [|exact Hc].
  exact (valid_ref_assignable false a t tn T Tn Hv HT HTn).
Qed.

(* the statement of literal soundness in terms of IsValidJson *)
Theorem literal_valid_lemma : forall sm a res e t T,
  plain e = true -> nums_ok e = true -> ty_of a t = Some T ->
  valid_exp sm a res t e = true -> valid_clean T (eval_lit e) = true.
Proof.
  intros sm a res e t T Hp Hn HT Hv. apply valid_exact_shape_lemma.
  apply (literal_sound_lemma sm a res e (ty_fuel a) t T); auto.
Qed.

(* every element of an accepted split literal conforms to the parameter type *)
Theorem split_literal_valid_lemma : forall sm a res items t T x,
  forallb plain items = true -> forallb nums_ok items = true -> ty_of a t = Some T ->
  valid_exp sm a res t (ESplit (EArray items)) = true -> In x items ->
  valid_clean T (eval_lit x) = true.
Proof.
  intros sm a res items t T x Hp Hn HT Hv Hin. rewrite split_literal_elements_lemma in Hv.
  rewrite forallb_forall in Hp, Hn, Hv. apply (literal_valid_lemma sm a res x t T); auto.
Qed.

(* ------------------------------------------------------------ dimensions of accepted references *)

(* the type is not, and has no component that is, the untyped map *)
Fixpoint no_umap (t : ty) : bool :=
  match t with
  | TB KMap => false
  | TArr e _ => no_umap e
  | TMap e => no_umap e
  | _ => true
  end.

Lemma adim_arr e d : adim (TArr e d) = adim e + S d.
Proof. unfold adim. cbn [tid]. destruct (tid e) as [[n x] m]. reflexivity. Qed.
Lemma mdim_arr e d : mdim (TArr e d) = mdim e.
Proof. unfold mdim. cbn [tid]. destruct (tid e) as [[n x] m]. reflexivity. Qed.
Lemma adim_map e : adim (TMap e) = O.
Proof. unfold adim. cbn [tid]. destruct (tid e) as [[n x] m]. reflexivity. Qed.
Lemma mdim_map e : mdim (TMap e) = S (adim e).
Proof. unfold mdim, adim. cbn [tid]. destruct (tid e) as [[n x] m]. reflexivity. Qed.

(* Without the struct->typed-map coercion and away from the untyped map,
   IsAssignableFrom never changes an array depth: neither the outer one nor
   the one of a typed map's values (map<int[]> is not assignable from map<int>
   or map<int[][]>), and never trades an array for a typed map. *)
Lemma assignable_same_dims_lemma : forall T O,
  no_umap T = true -> assignable_g false T O = true -> adim T = adim O /\ mdim T = mdim O.
Proof.
  induction T as [k|n|e d IH|e IH|n ms IH] using ty_ind'; intros O Hn Ha.
  - destruct O as [k'|n'|e' d'|e'|n' ms']; cbn [assignable_g] in Ha.
    + split; reflexivity.
    + split; reflexivity.
    + discriminate.
    + destruct k; cbn in Hn, Ha; discriminate.
    + destruct k; cbn in Hn, Ha; discriminate.
  - destruct O as [k'|n'|e' d'|e'|n' ms']; cbn [assignable_g] in Ha; try discriminate; split; reflexivity.
  - destruct O as [k'|n'|e' d'|e'|n' ms']; cbn [assignable_g] in Ha; try discriminate.
    apply andb_true_iff in Ha. destruct Ha as [Ha Hd]. apply Nat.eqb_eq in Hd. subst d'.
    cbn [no_umap] in Hn. destruct (IH e' Hn Ha) as [H1 H2].
    rewrite !adim_arr, !mdim_arr. split; congruence.
  - destruct O as [k'|n'|e' d'|e'|n' ms']; cbn [assignable_g] in Ha; try discriminate.
    cbn [no_umap] in Hn. destruct (IH e' Hn Ha) as [H1 H2].
    rewrite !adim_map, !mdim_map. split; congruence.
  - destruct O as [k'|n'|e' d'|e'|n' ms']; try (cbn [assignable_g] in Ha; discriminate).
    split; reflexivity.
Qed.

Theorem accepted_ref_same_dims_lemma : forall a t tn T Tn,
  valid_ref false a t (Some tn) = true -> ty_of a t = Some T -> ty_of a tn = Some Tn ->
  no_umap T = true -> adim T = adim Tn /\ mdim T = mdim Tn.
Proof.
  intros a t tn T Tn Hv HT HTn Hn. apply assignable_same_dims_lemma; [exact Hn|].
  exact (valid_ref_assignable false a t tn T Tn Hv HT HTn).
Qed.
