(* Attribution exactness over histories with resets (K/Attempt.v). *)
From Martian Require Import Lib.Bytes K.Attempt.
Local Open Scope N_scope.

Definition cur_is_last (s : jstate) : Prop :=
  match s_cur s with
  | Some l => exists pre, s_atts s = pre ++ [l]
  | None => s_atts s = []
  end.

Record inv (s : jstate) : Prop := mkInv {
  i_lt : forall l, In l (s_atts s) -> l < s_next s;
  i_nodup : NoDup (s_atts s);
  i_cur : cur_is_last s;
  i_pending : forall l k f, In (l, k, f) (s_pending s) -> nth_error (s_atts s) k = Some l;
  i_contents : forall k f, In (k, f) (s_contents s) -> S k = length (s_atts s) }.

Lemma inv_init : inv s_init.
Proof.
  constructor; cbn.
  - intros l [].
  - constructor.
  - reflexivity.
  - intros l k f [].
  - intros k f [].
Qed.

Lemma nodup_snoc (l : list N) x : NoDup l -> ~ In x l -> NoDup (l ++ [x]).
Proof.
  intros H Hx. induction l as [|a l IH]; cbn; [constructor; [intros []|constructor]|].
  inversion H; subst. constructor.
  - rewrite in_app_iff. cbn. intros [A|[A|[]]]; [contradiction|]. subst. apply Hx. left. reflexivity.
  - apply IH; [assumption|]. intro A. apply Hx. right. exact A.
Qed.

Lemma nth_error_snoc_old {A} (l : list A) x k v : nth_error l k = Some v -> nth_error (l ++ [x]) k = Some v.
Proof. intro H. rewrite nth_error_app1; [exact H|]. apply nth_error_Some. congruence. Qed.

Lemma inv_step s o : inv s -> inv (astep false s o).
Proof.
  intros [Hlt Hnd Hcur Hpend Hcont]. destruct o as [| |k f|]; cbn [astep].
  - (* start *)
    destruct (s_cur s) as [l|] eqn:Ec; [constructor; assumption|].
    unfold cur_is_last in Hcur. rewrite Ec in Hcur.
    constructor; cbn [s_next s_cur s_atts s_contents s_pending].
    + intros l Hl. apply in_app_iff in Hl as [Hl|[<-|[]]]; [specialize (Hlt l Hl)|]; lia.
    + apply nodup_snoc; [assumption|]. intro A. specialize (Hlt _ A). lia.
    + unfold cur_is_last. cbn. eexists. reflexivity.
    + intros l k f Hp. apply nth_error_snoc_old. eauto.
    + intros k f Hc. specialize (Hcont k f Hc). rewrite Hcur in Hcont. discriminate.
  - (* reset *)
    destruct (s_cur s) as [l|] eqn:Ec.
    + constructor; cbn [s_next s_cur s_atts s_contents s_pending].
      * intros l0 Hl. apply in_app_iff in Hl as [Hl|[<-|[]]]; [specialize (Hlt l0 Hl)|]; lia.
      * apply nodup_snoc; [assumption|]. intro A. specialize (Hlt _ A). lia.
      * unfold cur_is_last. cbn. eexists. reflexivity.
      * intros l0 k f Hp. apply filter_In in Hp as [Hp _]. apply nth_error_snoc_old. eauto.
      * intros k f [].
    + constructor; cbn [s_next s_cur s_atts s_contents s_pending]; try assumption.
      * unfold cur_is_last in *. cbn. rewrite Ec in Hcur. exact Hcur.
      * intros k f [].
  - (* write *)
    destruct (nth_error (s_atts s) k) as [l|] eqn:En; [|constructor; assumption].
    constructor; cbn [s_next s_cur s_atts s_contents s_pending]; try assumption.
    intros l0 k0 f0 Hp. apply in_app_iff in Hp as [Hp|[Hp|[]]]; [eauto|]. inversion Hp; subst. exact En.
  - (* refresh *)
    constructor; cbn [s_next s_cur s_atts s_contents s_pending]; try assumption.
    + intros l k f [].
    + intros k f Hc. apply in_app_iff in Hc as [Hc|Hc]; [eauto|].
      apply in_map_iff in Hc as ([[l k0] f0] & E & Hin). cbn in E. inversion E; subst k0 f0.
      apply filter_In in Hin as [Hin Hl]. cbn [fst] in Hl.
      unfold cur_is_last in Hcur. destruct (s_cur s) as [lc|]; [|discriminate].
      apply N.eqb_eq in Hl. subst lc. destruct Hcur as [pre Hpre].
      pose proof (Hpend _ _ _ Hin) as Hk.
      assert (Hlast : nth_error (s_atts s) (length pre) = Some l).
      { rewrite Hpre, nth_error_app2, Nat.sub_diag by lia. reflexivity. }
      assert (k = length pre).
      { apply (proj1 (NoDup_nth_error (s_atts s)) Hnd); [apply nth_error_Some; congruence|congruence]. }
      subst k. rewrite Hpre, app_length. cbn. lia.
Qed.

Lemma inv_run : forall ops s, inv s -> inv (fold_left (astep false) ops s).
Proof. induction ops as [|o ops IH]; intros s H; [exact H|]. cbn. apply IH. apply inv_step. exact H. Qed.

(* Every notification mrp has recorded for the job was written by the
   process of the current attempt, for every history of starts, resets,
   notifications of any attempt (stragglers included) and journal reads. *)
Theorem attempt_attribution_exact_lemma : forall ops k f,
  In (k, f) (s_contents (arun false ops)) -> S k = length (s_atts (arun false ops)).
Proof. intros ops k f H. exact (i_contents _ (inv_run ops s_init inv_init) k f H). Qed.

(* Attempts of one job never share a uniquifier (directory suffix, journal
   prefix). *)
Theorem attempt_uniquifiers_distinct_lemma : forall ops, NoDup (s_atts (arun false ops)).
Proof. intro ops. exact (i_nodup _ (inv_run ops s_init inv_init)). Qed.

(* A reset that keeps the uniquifier attributes a straggler's notification
   to the new attempt. *)
Lemma attempt_reuse_refuted : exists ops k f,
  In (k, f) (s_contents (arun true ops)) /\ S k <> length (s_atts (arun true ops)).
Proof.
  exists [OStart; OReset; OWrite 0%nat [x63]; ORefresh], 0%nat, [x63].
  vm_compute. split; [left; reflexivity|discriminate].
Qed.
