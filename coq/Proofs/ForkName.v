(* Proofs about K/ForkName.v: the per-byte encodings are prefix codes (hence
   injective), decimal printing, and injectivity of fork ids. *)
From Martian Require Import Lib.Bytes Extracted.Journal K.ForkName.
Local Open Scope N_scope.

(* ------------------------------------------------------------ all bytes *)
Definition all_bytes : list byte := map (fun i => n2b (N.of_nat i)) (seq 0 256).

Lemma all_bytes_nth : forall b, nth (N.to_nat (b2n b)) all_bytes x00 = b.
Proof. destruct b; reflexivity. Qed.

Lemma b2n_lt : forall b, (N.to_nat (b2n b) < 256)%nat.
Proof. destruct b; vm_compute; repeat constructor. Qed.

Lemma in_all_bytes : forall b, In b all_bytes.
Proof.
  intro b. rewrite <- (all_bytes_nth b). apply nth_In.
  replace (length all_bytes) with 256%nat by reflexivity. apply b2n_lt.
Qed.

Lemma beq_eq a b : beq a b = true -> a = b.
Proof. unfold beq. apply Byte.byte_dec_bl. Qed.

Lemma beq_refl a : beq a a = true.
Proof. destruct a; reflexivity. Qed.

Lemma bytes_eqb_eq : forall a b, bytes_eqb a b = true <-> a = b.
Proof.
  induction a as [|x a IH]; destruct b as [|y b]; cbn [bytes_eqb]; split; intro H;
    try reflexivity; try discriminate.
  - apply andb_true_iff in H as [H1 H2]. apply beq_eq in H1. apply IH in H2. congruence.
  - inversion H; subst. rewrite beq_refl. cbn. apply IH. reflexivity.
Qed.

(* ---------------------------------------------------------- prefix codes *)
Lemma is_prefix_app : forall p s, is_prefix p (p ++ s) = true.
Proof. induction p as [|x p IH]; intro s; cbn [is_prefix app]; [reflexivity|]. rewrite beq_refl. apply IH. Qed.

Lemma is_prefix_spec : forall p s, is_prefix p s = true -> exists t, s = p ++ t.
Proof.
  induction p as [|x p IH]; intros s H.
  - exists s. reflexivity.
  - destruct s as [|y s]; cbn [is_prefix] in H; [discriminate|].
    apply andb_true_iff in H as [H1 H2]. apply beq_eq in H1. subst y.
    destruct (IH s H2) as [t ->]. exists t. reflexivity.
Qed.

Lemma app_eq_prefix : forall (a b x y : bytes), a ++ x = b ++ y ->
  is_prefix a b = true \/ is_prefix b a = true.
Proof.
  induction a as [|c a IH]; intros b x y H.
  - left. reflexivity.
  - destruct b as [|d b]; [right; reflexivity|].
    cbn [app] in H. inversion H; subst d.
    cbn [is_prefix]. rewrite beq_refl. cbn [andb]. eapply IH; eassumption.
Qed.

Definition prefix_code_b (code : byte -> bytes) : bool :=
  forallb (fun a =>
    match code a with [] => false | _ => true end &&
    forallb (fun b => implb (is_prefix (code a) (code b)) (beq a b)) all_bytes)
    all_bytes.

Lemma prefix_code_nonempty code : prefix_code_b code = true -> forall a, code a <> [].
Proof.
  intros H a. unfold prefix_code_b in H. rewrite forallb_forall in H.
  specialize (H a (in_all_bytes a)). apply andb_true_iff in H as [H _].
  destruct (code a); [discriminate|]. discriminate.
Qed.

Lemma prefix_code_pre code : prefix_code_b code = true ->
  forall a b, is_prefix (code a) (code b) = true -> a = b.
Proof.
  intros H a b Hp. unfold prefix_code_b in H. rewrite forallb_forall in H.
  specialize (H a (in_all_bytes a)). apply andb_true_iff in H as [_ H].
  rewrite forallb_forall in H. specialize (H b (in_all_bytes b)).
  rewrite Hp in H. cbn [implb] in H. apply beq_eq. exact H.
Qed.

Lemma encode_with_inj code : prefix_code_b code = true ->
  forall s t, encode_with code s = encode_with code t -> s = t.
Proof.
  intros Hc. unfold encode_with.
  induction s as [|a s IH]; intros t H.
  - destruct t as [|b t]; [reflexivity|]. cbn [flat_map] in H.
    symmetry in H. apply app_eq_nil in H as [H _].
    exfalso. exact (prefix_code_nonempty code Hc b H).
  - destruct t as [|b t]; cbn [flat_map] in H.
    + apply app_eq_nil in H as [H _]. exfalso. exact (prefix_code_nonempty code Hc a H).
    + assert (a = b) as ->.
      { destruct (app_eq_prefix _ _ _ _ H) as [Hp|Hp].
        - exact (prefix_code_pre code Hc _ _ Hp).
        - symmetry. exact (prefix_code_pre code Hc _ _ Hp). }
      apply app_inv_head in H. f_equal. apply IH. exact H.
Qed.

(* Stronger: when two encodings are each followed by something that starts
   with a byte no code word starts with (or by nothing), they can be split. *)
Definition starts_none (code : byte -> bytes) (c : byte) : bool :=
  forallb (fun a => match code a with x :: _ => negb (beq x c) | [] => false end) all_bytes.

Lemma starts_none_spec code c : starts_none code c = true ->
  forall a r, code a <> c :: r.
Proof.
  intros H a r E. unfold starts_none in H. rewrite forallb_forall in H.
  specialize (H a (in_all_bytes a)). rewrite E in H. rewrite beq_refl in H. discriminate.
Qed.

Definition stop_tail (code : byte -> bytes) (t : bytes) : Prop :=
  t = [] \/ exists c r, t = c :: r /\ starts_none code c = true.

Lemma encode_with_split code : prefix_code_b code = true ->
  forall s t x y, stop_tail code x -> stop_tail code y ->
  encode_with code s ++ x = encode_with code t ++ y -> s = t /\ x = y.
Proof.
  intros Hc. unfold encode_with.
  assert (Hstop : forall a s x y, stop_tail code y ->
            (code a ++ flat_map code s) ++ x = y -> False).
  { intros a s x y Hy E. pose proof (prefix_code_nonempty code Hc a) as Hn.
    destruct (code a) as [|c0 ca] eqn:Ea; [congruence|].
    destruct Hy as [->|(c & r & -> & Hs)]; cbn [app] in E; [discriminate|].
    inversion E; subst c. eapply starts_none_spec; eauto. }
  induction s as [|a s IH]; intros t x y Hx Hy H.
  - destruct t as [|b t]; cbn [flat_map app] in H; [split; [reflexivity|exact H]|].
    exfalso. symmetry in H. exact (Hstop _ _ _ _ Hx H).
  - destruct t as [|b t]; cbn [flat_map] in H.
    + exfalso. cbn [app] in H. exact (Hstop _ _ _ _ Hy H).
    + rewrite <- !app_assoc in H.
      assert (a = b) as ->.
      { destruct (app_eq_prefix _ _ _ _ H) as [Hp|Hp].
        - exact (prefix_code_pre code Hc _ _ Hp).
        - symmetry. exact (prefix_code_pre code Hc _ _ Hp). }
      apply app_inv_head in H. destruct (IH t x y Hx Hy H) as [-> ->]. split; reflexivity.
Qed.

(* ------------------------------------------------- the two concrete codes *)
Lemma esc_prefix_code : prefix_code_b esc_code = true.
Proof. vm_compute. reflexivity. Qed.

(* Re-checked against the replacer pairs the source has now. *)
Lemma jcode_prefix_code : prefix_code_b jcode = true.
Proof. vm_compute. reflexivity. Qed.

Lemma path_escape_inj_lemma : forall k1 k2, path_escape k1 = path_escape k2 -> k1 = k2.
Proof. exact (encode_with_inj esc_code esc_prefix_code). Qed.

Lemma journal_encode_inj_lemma : forall s t, journal_encode s = journal_encode t -> s = t.
Proof. exact (encode_with_inj jcode jcode_prefix_code). Qed.

(* no code word of either encoding contains the byte c *)
Definition code_avoids (code : byte -> bytes) (c : byte) : bool :=
  forallb (fun a => negb (contains_byte c (code a))) all_bytes.

Lemma code_avoids_spec code c : code_avoids code c = true ->
  forall s, contains_byte c (encode_with code s) = false.
Proof.
  intros H. unfold code_avoids in H. rewrite forallb_forall in H.
  induction s as [|a s IH]; [reflexivity|].
  unfold encode_with, contains_byte in *. cbn [flat_map]. rewrite existsb_app, IH.
  specialize (H a (in_all_bytes a)). apply negb_true_iff in H. rewrite H. reflexivity.
Qed.

Lemma esc_no_slash : forall k, contains_byte c_slash (path_escape k) = false.
Proof. apply code_avoids_spec. vm_compute. reflexivity. Qed.

Lemma journal_no_dot : forall s, contains_byte c_dot (journal_encode s) = false.
Proof. apply code_avoids_spec. vm_compute. reflexivity. Qed.

Lemma journal_no_slash : forall s, contains_byte c_slash (journal_encode s) = false.
Proof. apply code_avoids_spec. vm_compute. reflexivity. Qed.

(* The bytes of the word fork, digits and the underscore are not touched by
   the journal encoding. *)
Lemma journal_encode_app s t : journal_encode (s ++ t) = journal_encode s ++ journal_encode t.
Proof. unfold journal_encode, encode_with. apply flat_map_app. Qed.

Lemma journal_encode_fork : journal_encode s_fork = s_fork.
Proof. vm_compute. reflexivity. Qed.

(* ---------------------------------------------------------------- decimals *)
Lemma dec_val_app s t :
  dec_val (s ++ t) = fold_left (fun a b => 10 * a + (b2n b - 48)) t (dec_val s).
Proof. unfold dec_val. apply fold_left_app. Qed.

Definition all_digits (s : bytes) : Prop := forallb is_digit s = true.

Lemma digit_is_digit n : n < 10 -> is_digit (digit n) = true /\ b2n (digit n) - 48 = n.
Proof.
  intro H. unfold digit.
  assert (n = 0 \/ n = 1 \/ n = 2 \/ n = 3 \/ n = 4 \/ n = 5 \/ n = 6 \/ n = 7 \/ n = 8 \/ n = 9) as Hn by lia.
  repeat (destruct Hn as [->|Hn]; [vm_compute; split; reflexivity|]). subst. vm_compute; split; reflexivity.
Qed.

Definition fold_val (acc : bytes) (v : N) : N :=
  fold_left (fun a b => 10 * a + (b2n b - 48)) acc v.

Lemma dec_aux_spec : forall fuel n acc,
  n < 2 ^ N.of_nat fuel -> (0 < fuel)%nat ->
  exists ds, dec_aux fuel n acc = ds ++ acc /\ all_digits ds /\ ds <> [] /\
             forall v, fold_val ds v = v * 10 ^ N.of_nat (length ds) + n.
Proof.
  induction fuel as [|f IH]; intros n acc Hn Hf; [lia|].
  cbn [dec_aux].
  assert (Hm : n mod 10 < 10) by (apply N.mod_lt; lia).
  destruct (digit_is_digit _ Hm) as [Hd Hv].
  destruct (n <? 10) eqn:E.
  - apply N.ltb_lt in E. exists [digit (n mod 10)]. repeat split.
    + unfold all_digits. cbn [forallb]. rewrite Hd. reflexivity.
    + discriminate.
    + intro v. unfold fold_val. cbn [fold_left length]. rewrite Hv.
      rewrite N.mod_small by exact E. change (10 ^ N.of_nat 1) with 10. lia.
  - apply N.ltb_ge in E.
    assert (Hf' : (0 < f)%nat).
    { destruct f; [|lia]. cbn in Hn. lia. }
    assert (Hn' : n / 10 < 2 ^ N.of_nat f).
    { replace (N.of_nat (S f)) with (N.succ (N.of_nat f)) in Hn by lia.
      rewrite N.pow_succ_r' in Hn.
      apply N.div_lt_upper_bound; [lia|]. lia. }
    destruct (IH (n / 10) (digit (n mod 10) :: acc) Hn' Hf') as (ds & E1 & Hds & Hne & Hval).
    exists (ds ++ [digit (n mod 10)]). repeat split.
    + rewrite E1, <- app_assoc. reflexivity.
    + unfold all_digits in *. rewrite forallb_app, Hds. cbn [forallb]. rewrite Hd. reflexivity.
    + intro Hc. apply app_eq_nil in Hc as [_ Hc]. discriminate.
    + intro v. unfold fold_val in *. rewrite fold_left_app. cbn [fold_left]. rewrite Hval, Hv.
      rewrite app_length. cbn [length]. replace (N.of_nat (length ds + 1)) with (N.succ (N.of_nat (length ds))) by lia.
      rewrite N.pow_succ_r'. pose proof (N.div_mod n 10) as Hdm. lia.
Qed.

Lemma print_dec_spec n :
  all_digits (print_dec n) /\ print_dec n <> [] /\ dec_val (print_dec n) = n.
Proof.
  unfold print_dec.
  destruct (dec_aux_spec (S (N.to_nat (N.size n))) n []) as (ds & E & Hd & Hne & Hv).
  - rewrite Nat2N.inj_succ, N2Nat.id, N.pow_succ_r'.
    destruct n as [|p]; [cbn; lia|].
    pose proof (N.size_gt (N.pos p)) as Hs. lia.
  - lia.
  - rewrite E, app_nil_r. repeat split; try assumption.
    unfold dec_val. specialize (Hv 0). unfold fold_val in Hv. rewrite Hv. lia.
Qed.

Lemma all_digits_app s t : all_digits s -> all_digits t -> all_digits (s ++ t).
Proof. unfold all_digits. intros A B. rewrite forallb_app, A, B. reflexivity. Qed.

Lemma all_digits_repeat0 k : all_digits (repeat c_0 k).
Proof. induction k; [reflexivity|]. unfold all_digits in *. cbn [repeat forallb]. rewrite IHk. reflexivity. Qed.

Lemma dec_val_zeros k s : dec_val (repeat c_0 k ++ s) = dec_val s.
Proof.
  rewrite dec_val_app. replace (dec_val (repeat c_0 k)) with 0; [reflexivity|].
  induction k; [reflexivity|]. unfold dec_val in *. cbn [repeat fold_left].
  change (10 * 0 + (b2n c_0 - 48)) with 0. exact IHk.
Qed.

Lemma padded_index_spec dim idx :
  all_digits (padded_index dim idx) /\ padded_index dim idx <> [] /\
  dec_val (padded_index dim idx) = idx.
Proof.
  unfold padded_index. destruct (print_dec_spec idx) as (Hd & Hne & Hv). repeat split.
  - apply all_digits_app; [apply all_digits_repeat0|exact Hd].
  - intro Hc. apply app_eq_nil in Hc as [_ Hc]. contradiction.
  - rewrite dec_val_zeros. exact Hv.
Qed.

(* write_fork_index is the word fork followed by digits whose value is idx *)
Lemma write_fork_index_spec dim idx :
  exists ds, write_fork_index dim idx = s_fork ++ ds /\ all_digits ds /\ ds <> [] /\ dec_val ds = idx.
Proof.
  unfold write_fork_index.
  destruct ((dim <? 10) && (idx =? 0)) eqn:E.
  - apply andb_true_iff in E as [_ E]. apply N.eqb_eq in E. subst idx.
    exists [c_0]. repeat split; try reflexivity. discriminate.
  - destruct (padded_index_spec dim idx) as (A & B & C).
    exists (padded_index dim idx). repeat split; assumption.
Qed.

(* a digit run followed by nothing or by a non-digit is determined *)
Definition nondigit_tail (t : bytes) : Prop :=
  t = [] \/ exists c r, t = c :: r /\ is_digit c = false.

Lemma digits_split : forall d1 d2 t1 t2,
  all_digits d1 -> all_digits d2 -> nondigit_tail t1 -> nondigit_tail t2 ->
  d1 ++ t1 = d2 ++ t2 -> d1 = d2 /\ t1 = t2.
Proof.
  unfold all_digits.
  induction d1 as [|a d1 IH]; intros d2 t1 t2 H1 H2 T1 T2 E.
  - destruct d2 as [|b d2]; [split; [reflexivity|exact E]|].
    cbn [app] in E. cbn [forallb] in H2. apply andb_true_iff in H2 as [Hb _].
    destruct T1 as [->|(c & r & -> & Hc)]; [discriminate|]. inversion E; subst. congruence.
  - destruct d2 as [|b d2].
    + cbn [app] in E. cbn [forallb] in H1. apply andb_true_iff in H1 as [Ha _].
      destruct T2 as [->|(c & r & -> & Hc)]; [discriminate|]. inversion E; subst. congruence.
    + cbn [app] in E. inversion E; subst b.
      cbn [forallb] in H1, H2. apply andb_true_iff in H1 as [_ H1]. apply andb_true_iff in H2 as [_ H2].
      destruct (IH d2 t1 t2 H1 H2 T1 T2 H3) as [-> ->]. split; reflexivity.
Qed.

(* ============================================================ fork ids *)
(* A part is well formed when its range allows its id: then the id is an
   array index below the range length or a key of the range, and the range
   is not empty. *)
Definition wf_part (p : part) : Prop := allow p = true /\ p_mode p <> MSingle.

Definition same_src (p q : part) : Prop :=
  p_mode p = p_mode q /\ p_known p = p_known q /\ p_srclen p = p_srclen q /\
  p_srckeys p = p_srckeys q /\ p_range p = p_range q.

(* Two forks of one call: position by position the same source and range as
   long as the indices above agree (the range below a position may depend on
   the indices chosen above it). *)
Inductive sib : list part -> list part -> Prop :=
| sib_nil : sib [] []
| sib_cons p q ps qs :
    same_src p q -> (p_id p = p_id q -> sib ps qs) -> length ps = length qs ->
    sib (p :: ps) (q :: qs).

Definition str (r : bool * bytes) : bytes :=
  snd r ++ (if fst r then fork0 else []).

(* The id string of a well-formed list, without error plumbing. *)
Fixpoint enc (i0 b : bool) (idx dim : N) (ps : list part) : bytes :=
  match ps with
  | [] => if (idx =? 0) && negb b then fork0 else write_fork_index dim idx
  | p :: rest =>
      match p_id p, range_len p with
      | IArr a, Some alen =>
          if variable_len p alen && negb i0
          then write_fork_index dim idx ++ c_us :: enc false true a alen rest
          else enc false b (idx + dim * a) (dim * alen) rest
      | IKey k, _ =>
          (if i0 then [] else write_fork_index dim idx ++ [c_slash])
          ++ s_fork_us ++ path_escape k
          ++ match rest with [] => [] | _ => c_slash :: enc true true 0 1 rest end
      | _, _ => []
      end
  end.

Lemma mem_bytes_nonempty k ks : mem_bytes k ks = true -> (0 < N.of_nat (length ks)).
Proof. destruct ks; [discriminate|]. cbn [length]. lia. Qed.

Lemma wf_range p : wf_part p ->
  exists alen, range_len p = Some alen /\ 0 < alen /\
    match p_id p with
    | IArr a => a < alen
    | IKey _ => True
    | _ => False
    end.
Proof.
  unfold wf_part, allow, range_len. intros [H _].
  destruct (p_known p).
  - destruct (p_id p) as [a|k| |], (p_mode p); try discriminate.
    + apply N.ltb_lt in H. eexists; repeat split; lia.
    + eexists; repeat split. eapply mem_bytes_nonempty; eauto.
  - destruct (p_id p) as [a|k| |], (p_range p) as [|n|ks]; try discriminate.
    + apply N.ltb_lt in H. eexists; repeat split; lia.
    + eexists; repeat split. eapply mem_bytes_nonempty; eauto.
Qed.

Lemma fork_go_enc : forall ps, Forall wf_part ps -> forall i0 b idx dim,
  exists r, fork_go false i0 b idx dim ps = Some r /\ str r = enc i0 b idx dim ps /\
            (fst r = true -> snd r = [] /\ b = false).
Proof.
  induction ps as [|p rest IH]; intros Hwf i0 b idx dim.
  - cbn [fork_go enc]. destruct ((idx =? 0) && negb b) eqn:E.
    + exists (true, []). split; [reflexivity|]. split; [reflexivity|]. intros _. split; [reflexivity|].
      apply andb_true_iff in E as [_ E]. destruct b; [discriminate|reflexivity].
    + exists (false, write_fork_index dim idx). split; [reflexivity|].
      split; [apply app_nil_r|intro; discriminate].
  - inversion Hwf as [|? ? Hp Hrest]; subst.
    destruct (wf_range p Hp) as (alen & Hr & Hpos & Hid).
    destruct Hp as [Hallow _].
    cbn [fork_go enc]. rewrite Hr.
    assert (Ez : (alen =? 0) = false) by (apply N.eqb_neq; lia).
    destruct (p_id p) as [a|k| |] eqn:Eid; try contradiction.
    + rewrite Ez, Hallow. cbn [negb].
      destruct (variable_len p alen && negb i0) eqn:Ev.
      * destruct (IH Hrest false true a alen) as ([d s] & E1 & E2 & E3). rewrite E1.
        assert (d = false) as ->.
        { destruct d; [|reflexivity]. destruct (E3 eq_refl) as [_ Hc]. discriminate. }
        exists (false, write_fork_index dim idx ++ c_us :: s). split; [reflexivity|].
        split; [|intro; discriminate]. unfold str in *. cbn [fst snd] in *.
        rewrite app_nil_r in *. rewrite <- E2. reflexivity.
      * apply IH. exact Hrest.
    + rewrite Ez, Hallow. cbn [negb].
      assert (Hseg : exists sg,
        match rest with
        | [] => Some (s_fork_us ++ path_escape k)
        | _ :: _ =>
            match key_tail (fork_go false true true 0 1 rest) with
            | Some t => Some (s_fork_us ++ path_escape k ++ t)
            | None => None
            end
        end = Some sg /\
        sg = s_fork_us ++ path_escape k ++
             match rest with [] => [] | _ => c_slash :: enc true true 0 1 rest end).
      { destruct rest as [|p2 rest2].
        - eexists; split; [reflexivity|]. rewrite app_nil_r. reflexivity.
        - destruct (IH Hrest true true 0 1) as ([d s] & E1 & E2 & E3). rewrite E1.
          cbn [key_tail]. unfold str in E2. destruct d; eexists; split; try reflexivity; cbn [fst snd] in E2; rewrite <- E2.
          + reflexivity.
          + rewrite app_nil_r. reflexivity. }
      destruct Hseg as (sg & Es & ->). rewrite Es.
      destruct i0.
      * eexists. split; [reflexivity|]. split; [|intro; discriminate].
        unfold str. cbn [fst snd app]. apply app_nil_r.
      * eexists. split; [reflexivity|]. split; [|intro; discriminate].
        unfold str. cbn [fst snd app]. rewrite app_nil_r, <- app_assoc. reflexivity.
Qed.

Lemma c_us_nondigit : is_digit c_us = false. Proof. reflexivity. Qed.
Lemma c_slash_nondigit : is_digit c_slash = false. Proof. reflexivity. Qed.

(* Shape of the output while an index is being accumulated. *)
Lemma enc_shape : forall ps, Forall wf_part ps -> forall b idx dim,
  exists ds tail m, enc false b idx dim ps = s_fork ++ ds ++ tail /\
    all_digits ds /\ dec_val ds = idx + dim * m /\ nondigit_tail tail.
Proof.
  induction ps as [|p rest IH]; intros Hwf b idx dim.
  - cbn [enc]. destruct ((idx =? 0) && negb b) eqn:E.
    + apply andb_true_iff in E as [E _]. apply N.eqb_eq in E. subst idx.
      exists [c_0], [], 0. split; [reflexivity|]. split; [reflexivity|].
      split; [change (dec_val [c_0]) with 0; lia|left; reflexivity].
    + destruct (write_fork_index_spec dim idx) as (ds & E1 & Hd & _ & Hv).
      exists ds, [], 0. split; [rewrite E1, app_nil_r; reflexivity|].
      split; [exact Hd|]. split; [lia|left; reflexivity].
  - inversion Hwf as [|? ? Hp Hrest]; subst.
    destruct (wf_range p Hp) as (alen & Hr & Hpos & Hid).
    cbn [enc]. rewrite Hr.
    destruct (write_fork_index_spec dim idx) as (ds & E1 & Hd & _ & Hv).
    destruct (p_id p) as [a|k| |] eqn:Eid; try contradiction.
    + cbn [negb]. rewrite andb_true_r. destruct (variable_len p alen).
      * exists ds, (c_us :: enc false true a alen rest), 0.
        split; [rewrite E1, <- app_assoc; reflexivity|].
        split; [exact Hd|]. split; [lia|].
        right. do 2 eexists. split; [reflexivity|apply c_us_nondigit].
      * destruct (IH Hrest b (idx + dim * a) (dim * alen)) as (ds2 & tl & m & E2 & Hd2 & Hv2 & Ht).
        exists ds2, tl, (a + alen * m).
        split; [exact E2|]. split; [exact Hd2|]. split; [lia|exact Ht].
    + exists ds, (c_slash :: s_fork_us ++ path_escape k ++ match rest with [] => [] | _ => c_slash :: enc true true 0 1 rest end), 0.
      split; [rewrite E1; cbn [app]; rewrite <- !app_assoc; reflexivity|].
      split; [exact Hd|]. split; [lia|].
      right. do 2 eexists. split; [reflexivity|apply c_slash_nondigit].
Qed.

Lemma enc_diverged : forall ps qs, Forall wf_part ps -> Forall wf_part qs ->
  forall b1 b2 idx1 idx2 dim1 dim2 D k1 k2,
  0 < D -> dim1 = k1 * D -> dim2 = k2 * D -> idx1 mod D <> idx2 mod D ->
  enc false b1 idx1 dim1 ps <> enc false b2 idx2 dim2 qs.
Proof.
  intros ps qs Hp Hq b1 b2 idx1 idx2 dim1 dim2 D k1 k2 HD E1 E2 Hne Heq.
  destruct (enc_shape ps Hp b1 idx1 dim1) as (ds1 & t1 & m1 & S1 & A1 & V1 & T1).
  destruct (enc_shape qs Hq b2 idx2 dim2) as (ds2 & t2 & m2 & S2 & A2 & V2 & T2).
  rewrite S1, S2 in Heq. apply app_inv_head in Heq.
  destruct (digits_split _ _ _ _ A1 A2 T1 T2 Heq) as [Hds _]. subst ds2.
  rewrite V1 in V2. apply Hne.
  assert (X1 : (idx1 + dim1 * m1) mod D = idx1 mod D).
  { subst dim1. replace (k1 * D * m1) with (k1 * m1 * D) by lia. apply N.mod_add. lia. }
  assert (X2 : (idx2 + dim2 * m2) mod D = idx2 mod D).
  { subst dim2. replace (k2 * D * m2) with (k2 * m2 * D) by lia. apply N.mod_add. lia. }
  rewrite <- X1, <- X2, V2. reflexivity.
Qed.

Lemma esc_stop_slash : starts_none esc_code c_slash = true.
Proof. vm_compute. reflexivity. Qed.

Lemma same_src_range p q : same_src p q -> range_len p = range_len q.
Proof.
  intros (A & B & C & D & E). unfold range_len. rewrite A, B, C, D, E. reflexivity.
Qed.

Lemma same_src_variable p q n : same_src p q -> variable_len p n = variable_len q n.
Proof. intros (A & B & _). unfold variable_len. rewrite A, B. reflexivity. Qed.

(* under the same source, both ids are array indices or both are keys *)
Lemma same_src_kind p q : same_src p q -> wf_part p -> wf_part q ->
  match p_id p, p_id q with
  | IArr _, IArr _ | IKey _, IKey _ => True
  | _, _ => False
  end.
Proof.
  intros (A & B & C & D & E). unfold wf_part, allow. rewrite A, B, C, D, E.
  intros [H1 _] [H2 _]. revert H1 H2.
  destruct (p_known q), (p_id p), (p_id q), (p_mode q), (p_range q); intros; try discriminate; exact I.
Qed.

Lemma enc_inj : forall ps qs, sib ps qs -> Forall wf_part ps -> Forall wf_part qs ->
  forall i0 b idx dim, idx < dim ->
  enc i0 b idx dim ps = enc i0 b idx dim qs -> map p_id ps = map p_id qs.
Proof.
  intros ps qs Hs. induction Hs as [|p q ps qs Hsrc Hsib IH Hlen]; intros Hwp Hwq i0 b idx dim Hlt E.
  - reflexivity.
  - inversion Hwp as [|? ? Hp Hps]; subst. inversion Hwq as [|? ? Hq Hqs]; subst.
    destruct (wf_range p Hp) as (alen & Hr & Hpos & Hidp).
    destruct (wf_range q Hq) as (alen' & Hr' & _ & Hidq).
    rewrite <- (same_src_range _ _ Hsrc), Hr in Hr'. inversion Hr'; subst alen'.
    pose proof (same_src_kind p q Hsrc Hp Hq) as Hk.
    cbn [enc map] in *. rewrite <- (same_src_range _ _ Hsrc), Hr in E.
    rewrite <- (same_src_variable _ _ alen Hsrc) in E.
    destruct (p_id p) as [a1|k1| |] eqn:E1; destruct (p_id q) as [a2|k2| |] eqn:E2; try contradiction.
    + (* arrays *)
      destruct (variable_len p alen && negb i0).
      * apply app_inv_head in E. inversion E as [E'].
        destruct (N.eq_dec a1 a2) as [->|Hne].
        -- f_equal. eapply (IH eq_refl Hps Hqs false true a2 alen); [lia|exact E'].
        -- exfalso. revert E'. apply (enc_diverged ps qs Hps Hqs true true a1 a2 alen alen alen 1 1); try lia.
           rewrite !N.mod_small by lia. exact Hne.
      * destruct (N.eq_dec a1 a2) as [->|Hne].
        -- f_equal. eapply (IH eq_refl Hps Hqs false b (idx + dim * a2) (dim * alen)); [nia|exact E].
        -- exfalso. revert E.
           apply (enc_diverged ps qs Hps Hqs b b _ _ (dim * alen) (dim * alen) (dim * alen) 1 1); try lia; try nia.
           rewrite !N.mod_small by nia. nia.
    + (* keys *)
      apply app_inv_head in E. apply app_inv_head in E.
      assert (Hst : forall (l : list part) x, stop_tail esc_code
                 match l with [] => [] | _ => c_slash :: x end).
      { intros l x. destruct l; [left; reflexivity|]. right. do 2 eexists. split; [reflexivity|apply esc_stop_slash]. }
      apply (encode_with_split esc_code esc_prefix_code) in E; [|apply Hst|apply Hst].
      destruct E as [-> ET]. f_equal.
      specialize (Hsib eq_refl). specialize (IH eq_refl Hps Hqs true true 0 1).
      destruct ps as [|p2 ps2], qs as [|q2 qs2]; try discriminate Hlen; [reflexivity|].
      inversion ET as [ET']. apply IH; [lia|exact ET'].
Qed.

Lemma s_fork_digits_inj d1 d2 : all_digits d1 -> all_digits d2 ->
  s_fork ++ d1 = s_fork ++ d2 -> dec_val d1 = dec_val d2.
Proof. intros _ _ H. apply app_inv_head in H. congruence. Qed.

(* one part: ForkSourcePart.ForkIdString *)
Lemma part_id_string_inj p q s : same_src p q -> wf_part p -> wf_part q ->
  part_id_string p = Some s -> part_id_string q = Some s -> p_id p = p_id q.
Proof.
  intros Hsrc Hp Hq E1 E2.
  pose proof (same_src_kind p q Hsrc Hp Hq) as Hk.
  destruct Hsrc as (A & B & C & D & E). destruct Hp as [_ Hm].
  unfold part_id_string in *. rewrite <- A, <- B, <- C, <- D in E2.
  destruct (p_mode p) eqn:Em; [congruence| |];
    destruct (p_id p) as [a1|k1| |], (p_id q) as [a2|k2| |]; try contradiction;
    cbn [smode_eqb negb] in E1, E2; try discriminate.
  - (* array indices *)
    destruct (p_known p && (p_srclen p <=? a1)); [discriminate|].
    destruct (p_known p && (p_srclen p <=? a2)); [discriminate|].
    f_equal.
    destruct (print_dec_spec a1) as (D1 & N1 & V1). destruct (print_dec_spec a2) as (D2 & N2 & V2).
    destruct (a1 =? 0) eqn:Z1; destruct (a2 =? 0) eqn:Z2.
    + apply N.eqb_eq in Z1, Z2. congruence.
    + rewrite <- E2 in E1; injection E1 as X.
      try apply app_inv_head in X.
      apply N.eqb_eq in Z1. subst a1. rewrite <- V2, <- X. reflexivity.
    + rewrite <- E2 in E1; injection E1 as X.
      try apply app_inv_head in X.
      apply N.eqb_eq in Z2. subst a2. rewrite <- V1, X. reflexivity.
    + rewrite <- E2 in E1; injection E1 as X. try apply app_inv_head in X.
      rewrite <- V1, <- V2, X. reflexivity.
  - (* keys *)
    destruct (p_known p && negb (mem_bytes k1 (p_srckeys p))); [discriminate|].
    destruct (p_known p && negb (mem_bytes k2 (p_srckeys p))); [discriminate|].
    rewrite <- E2 in E1. injection E1 as X.
    try apply app_inv_head in X. f_equal. apply path_escape_inj_lemma. exact X.
Qed.

Lemma sib_length ps qs : sib ps qs -> length ps = length qs.
Proof. intro H. destruct H; cbn [length]; congruence. Qed.

(* Distinct forks of a call have distinct id strings. *)
Theorem fork_id_inj_lemma : forall ps qs s,
  sib ps qs -> Forall wf_part ps -> Forall wf_part qs ->
  fork_id ps = Some s -> fork_id qs = Some s -> map p_id ps = map p_id qs.
Proof.
  intros ps qs s Hs Hp Hq E1 E2.
  pose proof (sib_length _ _ Hs) as Hl.
  destruct ps as [|p [|p2 ps]]; destruct qs as [|q [|q2 qs]]; try discriminate Hl.
  - reflexivity.
  - inversion Hs as [|? ? ? ? Hsrc _ _]; subst.
    inversion Hp; inversion Hq; subst. cbn [map]. f_equal.
    eapply part_id_string_inj; eauto.
  - unfold fork_id, fork_id_gen in E1, E2.
    destruct (fork_go_enc (p :: p2 :: ps) Hp true false 0 1) as ([d1 s1] & G1 & S1 & F1).
    destruct (fork_go_enc (q :: q2 :: qs) Hq true false 0 1) as ([d2 s2] & G2 & S2 & F2).
    rewrite G1 in E1. rewrite G2 in E2.
    apply (enc_inj _ _ Hs Hp Hq true false 0 1); [lia|].
    rewrite <- S1, <- S2. unfold str. cbn [fst snd] in *.
    destruct d1, d2.
    + destruct (F1 eq_refl) as [-> _]. destruct (F2 eq_refl) as [-> _]. reflexivity.
    + destruct (F1 eq_refl) as [-> _]. inversion E1; inversion E2; subst. rewrite app_nil_r. reflexivity.
    + destruct (F2 eq_refl) as [-> _]. inversion E1; inversion E2; subst. rewrite app_nil_r. reflexivity.
    + inversion E1; inversion E2; subst. reflexivity.
Qed.
