(* Proofs about K/ParseNum.v: parseInt computes the value of every in-range
   decimal literal without reaching a panic, and the lexer's range check
   (intTokenInRange, a length test and a bytewise comparison) implies the
   arithmetic range condition. *)
From Martian Require Import Lib.Bytes K.ParseNum.
Local Open Scope N_scope.

(* ------------------------------------------------------------ digits *)

Lemma is_digit_val : forall c, is_digit c = true -> digit_val c <= 9.
Proof.
  intros c H. unfold is_digit in H. unfold digit_val.
  apply andb_true_iff in H as [H1 H2].
  apply N.leb_le in H1. apply N.leb_le in H2. lia.
Qed.

Lemma dec_value_acc_ge : forall s acc, acc <= dec_value_acc acc s.
Proof.
  induction s as [|c r IH]; intros acc; cbn [dec_value_acc].
  - lia.
  - specialize (IH (10 * acc + digit_val c)). lia.
Qed.

Lemma dec_value_acc_split : forall s acc,
  dec_value_acc acc s = acc * 10 ^ N.of_nat (length s) + dec_value s.
Proof.
  unfold dec_value.
  induction s as [|c r IH]; intros acc.
  - cbn. lia.
  - cbn [dec_value_acc length].
    rewrite IH. rewrite (IH (10 * 0 + digit_val c)).
    rewrite Nat2N.inj_succ, N.pow_succ_r'. lia.
Qed.

Lemma dec_value_lt_pow : forall s,
  forallb is_digit s = true -> dec_value s < 10 ^ N.of_nat (length s).
Proof.
  induction s as [|c r IH]; intros H.
  - cbn. lia.
  - cbn [forallb] in H. apply andb_true_iff in H as [Hc Hr].
    unfold dec_value. cbn [dec_value_acc length].
    rewrite dec_value_acc_split.
    specialize (IH Hr). apply is_digit_val in Hc.
    rewrite Nat2N.inj_succ, N.pow_succ_r'. nia.
Qed.

(* ------------------------------------------------------------ parseInt loop *)

Definition int_bound (neg : bool) : N :=
  if neg then int_cutoff else int_cutoff - 1.

Lemma parse_int_loop_ok : forall s neg n,
  forallb is_digit s = true ->
  dec_value_acc n s <= int_bound neg ->
  parse_int_loop neg n s = Some (dec_value_acc n s).
Proof.
  induction s as [|c r IH]; intros neg n Hd Hb.
  - reflexivity.
  - cbn [forallb] in Hd. apply andb_true_iff in Hd as [Hc Hr].
    cbn [parse_int_loop dec_value_acc] in *.
    rewrite Hc. cbn [negb].
    pose proof (dec_value_acc_ge r (10 * n + digit_val c)) as Hge.
    assert (Hlt : 10 * n + digit_val c < two64).
    { unfold int_bound, int_cutoff, two64 in *. destruct neg; lia. }
    rewrite (N.mod_small _ _ Hlt).
    assert (H1 : (10 * n + digit_val c <? n) = false) by (apply N.ltb_ge; lia).
    assert (H2 : (int_cutoff <? 10 * n + digit_val c) = false).
    { apply N.ltb_ge. unfold int_bound, int_cutoff in *. destruct neg; lia. }
    assert (H3 : (negb neg && (10 * n + digit_val c =? int_cutoff)) = false).
    { destruct neg; cbn [negb andb]; [reflexivity|].
      apply N.eqb_neq. unfold int_bound, int_cutoff in *. lia. }
    rewrite H1, H2, H3. cbn [orb].
    apply IH; assumption.
Qed.

(* and conversely: outside the range the loop reaches the overflow panic, as
   long as the literal has at most 19 significant digits (no uint64 wrap) *)
Lemma parse_int_loop_overflow : forall s neg n,
  forallb is_digit s = true ->
  n <= int_bound neg ->
  dec_value_acc n s < 10 ^ 19 ->
  int_bound neg < dec_value_acc n s ->
  parse_int_loop neg n s = None.
Proof.
  induction s as [|c r IH]; intros neg n Hd Hn Hsmall Hb.
  - cbn [dec_value_acc] in Hb. lia.
  - cbn [forallb] in Hd. apply andb_true_iff in Hd as [Hc Hr].
    cbn [parse_int_loop dec_value_acc] in *.
    rewrite Hc. cbn [negb].
    pose proof (dec_value_acc_ge r (10 * n + digit_val c)) as Hge.
    assert (Hlt : 10 * n + digit_val c < two64) by (unfold two64; lia).
    rewrite (N.mod_small _ _ Hlt).
    destruct (N.leb_spec (10 * n + digit_val c) (int_bound neg)) as [Hle|Hgt].
    + assert (H1 : (10 * n + digit_val c <? n) = false) by (apply N.ltb_ge; lia).
      assert (H2 : (int_cutoff <? 10 * n + digit_val c) = false).
      { apply N.ltb_ge. unfold int_bound, int_cutoff in *. destruct neg; lia. }
      assert (H3 : (negb neg && (10 * n + digit_val c =? int_cutoff)) = false).
      { destruct neg; cbn [negb andb]; [reflexivity|].
        apply N.eqb_neq. unfold int_bound, int_cutoff in *. lia. }
      rewrite H1, H2, H3. cbn [orb]. apply IH; assumption.
    + assert (H : ((int_cutoff <? 10 * n + digit_val c)
                   || (negb neg && (10 * n + digit_val c =? int_cutoff))) = true).
      { unfold int_bound, int_cutoff in *. destruct neg; cbn [negb andb].
        - rewrite orb_false_r. apply N.ltb_lt. lia.
        - destruct (N.eqb_spec (10 * n + digit_val c) 9223372036854775808) as [E|E].
          + apply orb_true_r.
          + rewrite orb_false_r. apply N.ltb_lt. lia. }
      rewrite <- orb_assoc, H, orb_true_r. reflexivity.
Qed.

(* ------------------------------------------------------------ the literal syntax *)

(* -?digits+ *)
Definition int_literal (neg : bool) (ds v : bytes) : Prop :=
  v = (if neg then [c_minus] else []) ++ ds /\ ds <> [] /\ forallb is_digit ds = true.

Definition int_value (neg : bool) (ds : bytes) : Z :=
  if neg then (- Z.of_N (dec_value ds))%Z else Z.of_N (dec_value ds).

Lemma digit_not_sign : forall c, is_digit c = true -> beq c c_minus = false /\ beq c c_plus = false.
Proof.
  intros c. destruct c; vm_compute; intros H; try discriminate; split; reflexivity.
Qed.

Lemma parse_int_literal : forall neg ds v,
  int_literal neg ds v ->
  dec_value ds <= int_bound neg ->
  parse_int v = IOk (int_value neg ds).
Proof.
  intros neg ds v (Hv & Hne & Hd) Hb. subst v.
  destruct ds as [|d0 dr]; [congruence|].
  unfold parse_int, int_value.
  destruct neg; cbn [app].
  - replace (beq c_minus c_minus) with true by reflexivity.
    replace (beq c_minus c_plus) with false by reflexivity.
    rewrite (parse_int_loop_ok (d0 :: dr) true 0 Hd Hb). reflexivity.
  - cbn [forallb] in Hd. apply andb_true_iff in Hd as [Hc Hr].
    destruct (digit_not_sign d0 Hc) as [Hm Hp]. rewrite Hm, Hp.
    assert (Hd' : forallb is_digit (d0 :: dr) = true) by (cbn [forallb]; rewrite Hc, Hr; reflexivity).
    rewrite (parse_int_loop_ok (d0 :: dr) false 0 Hd' Hb). reflexivity.
Qed.

(* ------------------------------------------------------------ intTokenInRange *)

Lemma strip_zeros_value : forall k s,
  dec_value (strip_zeros_to k s) = dec_value s.
Proof.
  intros k. induction s as [|c r IH].
  - reflexivity.
  - cbn [strip_zeros_to].
    destruct (Nat.ltb k (length (c :: r)) && beq c c_zero) eqn:E; [|reflexivity].
    apply andb_true_iff in E as [_ E].
    rewrite IH. unfold dec_value. cbn [dec_value_acc].
    destruct c; try discriminate E. reflexivity.
Qed.

Lemma strip_zeros_digits : forall k s,
  forallb is_digit s = true -> forallb is_digit (strip_zeros_to k s) = true.
Proof.
  intros k. induction s as [|c r IH]; intros H.
  - reflexivity.
  - cbn [strip_zeros_to].
    destruct (Nat.ltb k (length (c :: r)) && beq c c_zero); [|assumption].
    cbn [forallb] in H. apply andb_true_iff in H as [_ H]. auto.
Qed.

(* for digit strings of equal length the bytewise order is the numeric order *)
Lemma bytes_leb_dec_value : forall a b,
  length a = length b ->
  forallb is_digit a = true -> forallb is_digit b = true ->
  bytes_leb a b = true -> dec_value a <= dec_value b.
Proof.
  unfold bytes_leb.
  induction a as [|x a IH]; intros [|y b] Hl Ha Hb H; try discriminate Hl.
  - cbn. lia.
  - cbn [length] in Hl. injection Hl as Hl.
    cbn [forallb] in Ha, Hb.
    apply andb_true_iff in Ha as [Hx Ha]. apply andb_true_iff in Hb as [Hy Hb].
    unfold dec_value. cbn [dec_value_acc].
    rewrite (dec_value_acc_split a), (dec_value_acc_split b), Hl.
    pose proof (dec_value_lt_pow a Ha) as La. pose proof (dec_value_lt_pow b Hb) as Lb.
    rewrite Hl in La.
    cbn [bytes_ltb] in H.
    assert (Hxv : digit_val x = b2n x - 48) by reflexivity.
    assert (Hyv : digit_val y = b2n y - 48) by reflexivity.
    unfold is_digit in Hx, Hy.
    apply andb_true_iff in Hx as [Hx1 Hx2]. apply andb_true_iff in Hy as [Hy1 Hy2].
    apply N.leb_le in Hx1, Hx2, Hy1, Hy2.
    destruct (N.ltb_spec (b2n y) (b2n x)) as [Hyx|Hyx].
    + cbn [negb] in H. discriminate H.
    + destruct (N.ltb_spec (b2n x) (b2n y)) as [Hxy|Hxy].
      * assert (digit_val x + 1 <= digit_val y) by lia. nia.
      * assert (E : digit_val x = digit_val y) by lia.
        specialize (IH b Hl Ha Hb H). rewrite E. lia.
Qed.

Lemma max_int64_digits_value : dec_value max_int64_digits = int_cutoff - 1.
Proof. reflexivity. Qed.
Lemma min_int64_digits_value : dec_value min_int64_digits = int_cutoff.
Proof. reflexivity. Qed.

Lemma in_range_value : forall (neg : bool) (ds : bytes),
  forallb is_digit ds = true ->
  let limit := if neg then min_int64_digits else max_int64_digits in
  let v := strip_zeros_to (length limit) ds in
  (Nat.ltb (length v) (length limit)
   || (Nat.eqb (length v) (length limit) && bytes_leb v limit)) = true ->
  dec_value ds <= int_bound neg.
Proof.
  intros neg ds Hd limit v H.
  assert (Hll : length limit = 19%nat) by (subst limit; destruct neg; reflexivity).
  assert (Hlv : dec_value limit = int_bound neg) by (subst limit; destruct neg; reflexivity).
  assert (Hld : forallb is_digit limit = true) by (subst limit; destruct neg; reflexivity).
  rewrite <- (strip_zeros_value (length limit) ds). fold v.
  pose proof (strip_zeros_digits (length limit) ds Hd) as Hvd. fold v in Hvd.
  apply orb_true_iff in H as [H|H].
  - apply Nat.ltb_lt in H. rewrite Hll in H.
    pose proof (dec_value_lt_pow v Hvd) as Hlt.
    assert (10 ^ N.of_nat (length v) <= 10 ^ 18) by (apply N.pow_le_mono_r; lia).
    unfold int_bound, int_cutoff. destruct neg; lia.
  - apply andb_true_iff in H as [Hl Hle]. apply Nat.eqb_eq in Hl.
    rewrite <- Hlv. apply bytes_leb_dec_value; assumption.
Qed.

(* The contract: a literal the lexer's range check lets through is parsed,
   without a panic, to its value, which fits an int64. *)
Lemma in_range_parses : forall neg ds v,
  int_literal neg ds v ->
  int_token_in_range v = true ->
  parse_int v = IOk (int_value neg ds)
  /\ (- 2 ^ 63 <= int_value neg ds < 2 ^ 63)%Z.
Proof.
  intros neg ds v Hlit Hr.
  assert (Hb : dec_value ds <= int_bound neg).
  { destruct Hlit as (Hv & Hne & Hd). subst v.
    destruct ds as [|d0 dr]; [congruence|].
    unfold int_token_in_range in Hr.
    destruct neg; cbn [app] in Hr.
    - replace (beq c_minus c_minus) with true in Hr by reflexivity.
      apply (in_range_value true (d0 :: dr) Hd Hr).
    - pose proof Hd as Hd'. cbn [forallb] in Hd'. apply andb_true_iff in Hd' as [Hc _].
      destruct (digit_not_sign d0 Hc) as [Hm _]. rewrite Hm in Hr.
      apply (in_range_value false (d0 :: dr) Hd Hr). }
  split.
  - apply parse_int_literal; assumption.
  - unfold int_value, int_bound, int_cutoff in *. destruct neg; lia.
Qed.

(* parseInt itself silently wraps around on a 20-digit literal: the token rule
   (at most 19 significant digits) is what keeps that from being reached *)
Lemma parse_int_wraps_on_20_digits :
  parse_int (map n2b [50;53;48;48;48;48;48;48;48;48;48;48;48;48;48;48;48;48;48;48])
  = IOk 6553255926290448384%Z.
Proof. vm_compute. reflexivity. Qed.
