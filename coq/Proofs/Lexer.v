(* Proofs about K/Lexer.v: progress and termination of the scanner, and the
   contract between the token rules and the converters the grammar actions
   call (parseInt, parseFloat, unquote), which panic on anything else. *)
From Coq Require Import String.
From Martian Require Import Lib.Bytes Lib.Utf8 K.ParseNum K.Unquote K.Lexer Extracted.Lexer.
From Martian Require Import Proofs.ParseNum.
Local Open Scope N_scope.

(* ------------------------------------------------------------ the modelled rules are the current ones *)

(* The recognisers of K/Lexer.v were written for exactly these regular
   expression texts; the left-hand sides are regenerated from tokenizer.go. *)
Lemma string_rule_text :
  tok_string_re = map b2n (bs "^""(?:[^\\""]|\\(?:[abfnrtv\\""]|[0-7]{3}|x[[:xdigit:]]{2}|u[[:xdigit:]]{4}|U[[:xdigit:]]{8}))*""").
Proof. reflexivity. Qed.
Lemma float_rule_text :
  tok_float_re = map b2n (bs "^-?\d+(?:(?:\.\d+)?[eE][+-]?|\.)\d+\b").
Proof. reflexivity. Qed.
Lemma int_rule_text : tok_int_re = map b2n (bs "^-?0*\d{1,19}\b").
Proof. reflexivity. Qed.
Lemma id_rule_text : tok_id_re = map b2n (bs "^_?[[:alpha:]]\w*\b").
Proof. reflexivity. Qed.

Lemma token_rules_are_the_modelled_ones_lemma :
  tok_string_re = map b2n (bs "^""(?:[^\\""]|\\(?:[abfnrtv\\""]|[0-7]{3}|x[[:xdigit:]]{2}|u[[:xdigit:]]{4}|U[[:xdigit:]]{8}))*""")
  /\ tok_float_re = map b2n (bs "^-?\d+(?:(?:\.\d+)?[eE][+-]?|\.)\d+\b")
  /\ tok_int_re = map b2n (bs "^-?0*\d{1,19}\b")
  /\ tok_id_re = map b2n (bs "^_?[[:alpha:]]\w*\b").
Proof. repeat split; reflexivity. Qed.

(* ------------------------------------------------------------ inversion of the dispatch *)

Lemma beq_true : forall a b, beq a b = true -> a = b.
Proof. intros a b H. apply Byte.byte_dec_bl. exact H. Qed.

Lemma keyword_token_int : forall fr b n,
  keyword_token fr b = (TInt, n) -> n = tok_int b /\ fr b = O.
Proof.
  intros fr b n. unfold keyword_token.
  destruct b as [|r l]; [discriminate|].
  destruct (in_class lexer_punct r); [discriminate|].
  destruct (in_class lexer_string_start r); [discriminate|].
  destruct (in_class lexer_comment_start r); [discriminate|].
  destruct (in_class lexer_space r); [discriminate|].
  destruct (in_class lexer_num_start r).
  - destruct (fr (r :: l)) eqn:E; intros H; inversion H; auto.
  - destruct (in_class lexer_id_start r); [discriminate|].
    destruct (find_keyword lexer_keywords (r :: l)) as [[nm k]|]; [discriminate|].
    destruct (128 <? b2n r); discriminate.
Qed.

Lemma keyword_token_float : forall fr b n,
  keyword_token fr b = (TFloat, n) -> n = fr b.
Proof.
  intros fr b n. unfold keyword_token.
  destruct b as [|r l]; [discriminate|].
  destruct (in_class lexer_punct r); [discriminate|].
  destruct (in_class lexer_string_start r); [discriminate|].
  destruct (in_class lexer_comment_start r); [discriminate|].
  destruct (in_class lexer_space r); [discriminate|].
  destruct (in_class lexer_num_start r).
  - destruct (fr (r :: l)) eqn:E; intros H; inversion H; auto.
  - destruct (in_class lexer_id_start r); [discriminate|].
    destruct (find_keyword lexer_keywords (r :: l)) as [[nm k]|]; [discriminate|].
    destruct (128 <? b2n r); discriminate.
Qed.

Lemma keyword_token_str : forall fr b n,
  keyword_token fr b = (TStr, n) -> n = tok_string b.
Proof.
  intros fr b n. unfold keyword_token.
  destruct b as [|r l]; [discriminate|].
  destruct (in_class lexer_punct r); [discriminate|].
  destruct (in_class lexer_string_start r); [intros H; inversion H; reflexivity|].
  destruct (in_class lexer_comment_start r); [discriminate|].
  destruct (in_class lexer_space r); [discriminate|].
  destruct (in_class lexer_num_start r).
  - destruct (fr (r :: l)); discriminate.
  - destruct (in_class lexer_id_start r); [discriminate|].
    destruct (find_keyword lexer_keywords (r :: l)) as [[nm k]|]; [discriminate|].
    destruct (128 <? b2n r); discriminate.
Qed.

Lemma next_token_unchecked_pos : forall fr b t n,
  next_token_unchecked fr b = (t, n) -> t <> TInvalid -> (0 < n)%nat.
Proof.
  intros fr b t n. unfold next_token_unchecked.
  destruct (keyword_token fr b) as [t' [|k]].
  - destruct (tok_id b); intros H; inversion H; subst; [congruence|lia].
  - intros H; inversion H; subst. lia.
Qed.

Lemma next_token_cases : forall b t n,
  next_token b = (t, n) ->
  t = TInvalid \/ next_token_unchecked tok_float b = (t, n).
Proof.
  intros b t n. unfold next_token.
  destruct (next_token_unchecked tok_float b) as [t' n'].
  destruct t'; try (intros H; inversion H; subst; auto; fail).
  - destruct (float_parses (firstn n' b)); intros H; inversion H; auto.
  - destruct (int_token_in_range (firstn n' b)); intros H; inversion H; auto.
Qed.

(* Every token other than INVALID is non-empty: in particular SKIP and
   COMMENT, the two kinds for which mmLexInfo.Lex loops. *)
Lemma lexer_progress_lemma : forall b t n,
  next_token b = (t, n) -> t <> TInvalid -> (0 < n)%nat.
Proof.
  intros b t n H Hne.
  destruct (next_token_cases b t n H) as [E|E]; [congruence|].
  eapply next_token_unchecked_pos; eassumption.
Qed.

Lemma next_token_int : forall b n,
  next_token b = (TInt, n) ->
  n = tok_int b /\ (0 < n)%nat /\ int_token_in_range (firstn n b) = true.
Proof.
  intros b n H.
  pose proof (lexer_progress_lemma b TInt n H ltac:(discriminate)) as Hpos.
  unfold next_token in H.
  destruct (next_token_unchecked tok_float b) as [t' n'] eqn:U.
  assert (Ht : t' = TInt /\ n' = n /\ int_token_in_range (firstn n b) = true).
  { destruct t'; try (inversion H; fail).
    - destruct (float_parses (firstn n' b)); inversion H.
    - destruct (int_token_in_range (firstn n' b)) eqn:R; inversion H; subst; auto. }
  destruct Ht as (-> & -> & R).
  unfold next_token_unchecked in U.
  destruct (keyword_token tok_float b) as [t2 [|k]] eqn:K.
  - destruct (tok_id b); inversion U.
  - inversion U; subst. apply keyword_token_int in K as [K _]. auto.
Qed.

Lemma next_token_float : forall b n,
  next_token b = (TFloat, n) ->
  n = tok_float b /\ float_parses (firstn n b) = true.
Proof.
  intros b n H.
  unfold next_token in H.
  destruct (next_token_unchecked tok_float b) as [t' n'] eqn:U.
  assert (Ht : t' = TFloat /\ n' = n /\ float_parses (firstn n b) = true).
  { destruct t'; try (inversion H; fail).
    - destruct (float_parses (firstn n' b)) eqn:R; inversion H; subst; auto.
    - destruct (int_token_in_range (firstn n' b)); inversion H. }
  destruct Ht as (-> & -> & R).
  unfold next_token_unchecked in U.
  destruct (keyword_token tok_float b) as [t2 [|k]] eqn:K.
  - destruct (tok_id b); inversion U.
  - inversion U; subst. apply keyword_token_float in K. auto.
Qed.

Lemma next_token_str : forall b n,
  next_token b = (TStr, n) -> n = tok_string b /\ (0 < n)%nat.
Proof.
  intros b n H.
  pose proof (lexer_progress_lemma b TStr n H ltac:(discriminate)) as Hpos.
  unfold next_token in H.
  destruct (next_token_unchecked tok_float b) as [t' n'] eqn:U.
  assert (Ht : t' = TStr /\ n' = n).
  { destruct t'; try (inversion H; auto; fail).
    - destruct (float_parses (firstn n' b)); inversion H.
    - destruct (int_token_in_range (firstn n' b)); inversion H. }
  destruct Ht as (-> & ->).
  unfold next_token_unchecked in U.
  destruct (keyword_token tok_float b) as [t2 [|k]] eqn:K.
  - destruct (tok_id b); inversion U.
  - inversion U; subst. apply keyword_token_str in K. auto.
Qed.

(* ------------------------------------------------------------ termination of the scanner *)

Lemma skipn_shorter : forall (n : nat) (s : bytes),
  (0 < n)%nat -> s <> [] -> (length (skipn n s) < length s)%nat.
Proof.
  intros n s Hn Hs. rewrite skipn_length.
  destruct s; [congruence|]. cbn [length]. lia.
Qed.

Lemma lex_all_fuel : forall fuel st,
  (length (l_src st) < fuel)%nat -> lex_all fuel st <> None.
Proof.
  induction fuel as [|f IH]; intros st Hlen; [lia|].
  cbn [lex_all].
  destruct (l_src st) as [|c r] eqn:Es; [discriminate|].
  destruct (next_token (c :: r)) as [t n] eqn:Et.
  assert (Hstep : t <> TInvalid ->
    (length (skipn n (c :: r)) < f)%nat).
  { intros Hne.
    pose proof (lexer_progress_lemma _ _ _ Et Hne) as Hpos.
    pose proof (skipn_shorter n (c :: r) Hpos ltac:(discriminate)). lia. }
  destruct t.
  - destruct (skip_loc _ _ _) as [l' c']. apply IH. cbn [l_src]. apply Hstep. discriminate.
  - match goal with |- context [lex_all f ?s] => pose proof (IH s) as H end.
    cbn [l_src] in H. specialize (H (Hstep ltac:(discriminate))).
    destruct (lex_all f _); [discriminate|congruence].
  - discriminate.
  - match goal with |- context [lex_all f ?s] => pose proof (IH s) as H end.
    cbn [l_src] in H. specialize (H (Hstep ltac:(discriminate))).
    destruct (lex_all f _); [discriminate|congruence].
  - match goal with |- context [lex_all f ?s] => pose proof (IH s) as H end.
    cbn [l_src] in H. specialize (H (Hstep ltac:(discriminate))).
    destruct (lex_all f _); [discriminate|congruence].
  - match goal with |- context [lex_all f ?s] => pose proof (IH s) as H end.
    cbn [l_src] in H. specialize (H (Hstep ltac:(discriminate))).
    destruct (lex_all f _); [discriminate|congruence].
  - match goal with |- context [lex_all f ?s] => pose proof (IH s) as H end.
    cbn [l_src] in H. specialize (H (Hstep ltac:(discriminate))).
    destruct (lex_all f _); [discriminate|congruence].
  - match goal with |- context [lex_all f ?s] => pose proof (IH s) as H end.
    cbn [l_src] in H. specialize (H (Hstep ltac:(discriminate))).
    destruct (lex_all f _); [discriminate|congruence].
  - match goal with |- context [lex_all f ?s] => pose proof (IH s) as H end.
    cbn [l_src] in H. specialize (H (Hstep ltac:(discriminate))).
    destruct (lex_all f _); [discriminate|congruence].
Qed.

(* The scanner loop terminates on every input: the fuel of lex_source (one
   more than the input length) always suffices. *)
Lemma lex_terminates_lemma : forall src, lex_source src <> None.
Proof.
  intros src. unfold lex_source. apply lex_all_fuel. cbn. lia.
Qed.

(* ------------------------------------------------------------ NUM_INT tokens *)

Lemma span_firstn : forall p s,
  forallb p (firstn (span p s) s) = true.
Proof.
  intros p. induction s as [|c r IH]; [reflexivity|].
  cbn [span]. destruct (p c) eqn:E; [|reflexivity].
  cbn [firstn forallb]. rewrite E, IH. reflexivity.
Qed.

Lemma span_pos_nonempty : forall p s,
  span p s <> O -> firstn (span p s) s <> [].
Proof.
  intros p [|c r]; cbn [span]; [congruence|].
  destruct (p c); [|congruence]. cbn [firstn]. discriminate.
Qed.

Lemma tok_int_literal : forall b n,
  tok_int b = n -> (0 < n)%nat ->
  exists neg ds, int_literal neg ds (firstn n b).
Proof.
  intros b n H Hpos. unfold tok_int in H.
  destruct (opt_minus b) as [sg s0] eqn:Eo.
  destruct (Nat.eqb (span is_digit s0) 0) eqn:Ed; [lia|].
  apply Nat.eqb_neq in Ed.
  destruct (Nat.leb _ 19 && boundary_after_word _); [|lia].
  unfold opt_minus in Eo.
  destruct b as [|c r].
  - inversion Eo; subst. cbn in Ed. congruence.
  - destruct (beq c c_minus) eqn:Ec; inversion Eo; subst sg s0.
    + apply beq_true in Ec. subst c.
      exists true, (firstn (span is_digit r) r).
      subst n. cbn [Nat.add firstn]. unfold int_literal. cbn [app].
      repeat split.
      * apply span_pos_nonempty; assumption.
      * apply span_firstn.
    + exists false, (firstn (span is_digit (c :: r)) (c :: r)).
      subst n. cbn [Nat.add]. unfold int_literal. cbn [app].
      repeat split.
      * apply span_pos_nonempty; assumption.
      * apply span_firstn.
Qed.

(* The contract for NUM_INT: whatever the lexer labels NUM_INT, parseInt
   converts without a panic, to the value of the literal, within int64. *)
Lemma int_token_parses_lemma : forall b n,
  next_token b = (TInt, n) ->
  exists neg ds,
    int_literal neg ds (firstn n b)
    /\ parse_int (firstn n b) = IOk (int_value neg ds)
    /\ (- 2 ^ 63 <= int_value neg ds < 2 ^ 63)%Z.
Proof.
  intros b n H.
  apply next_token_int in H as (Hn & Hpos & Hr).
  destruct (tok_int_literal b n (eq_sym Hn) Hpos) as (neg & ds & Hlit).
  exists neg, ds. split; [assumption|].
  apply in_range_parses; assumption.
Qed.

(* ------------------------------------------------------------ NUM_FLOAT tokens *)

Lemma float_token_parses_lemma : forall b n,
  next_token b = (TFloat, n) -> parse_float (firstn n b) = FOk.
Proof.
  intros b n H. apply next_token_float in H as [_ H].
  unfold parse_float. rewrite H. reflexivity.
Qed.

(* ------------------------------------------------------------ LITSTRING tokens *)

Lemma xdigit_unhex : forall h, is_xdigit h = true -> exists a, unhex_digit h = Some a.
Proof.
  intros h. destruct h; vm_compute; intros H; try discriminate H; eexists; reflexivity.
Qed.

Lemma xdigits_hex_byte : forall h0 h1,
  is_xdigit h0 = true -> is_xdigit h1 = true -> exists x, hex_byte h0 h1 = Some x.
Proof.
  intros h0 h1 H0 H1.
  destruct (xdigit_unhex h0 H0) as [a Ea]. destruct (xdigit_unhex h1 H1) as [b Eb].
  unfold hex_byte. rewrite Ea, Eb. eexists; reflexivity.
Qed.

(* what the string rule accepted: the text before the closing quote is
   something the unquote loop converts without a panic *)
Definition str_ok (s : bytes) (n : nat) : Prop :=
  exists m v, n = S m
    /\ firstn n s = firstn m s ++ [c_dquote]
    /\ unquote_loop (firstn m s) = Some v.

Lemma str_ok_cons : forall (p : bytes) s n (f : bytes -> bytes),
  str_ok s n ->
  (forall x, unquote_loop (p ++ x) = match unquote_loop x with Some l => Some (f l) | None => None end) ->
  str_ok (p ++ s) (length p + n).
Proof.
  intros p s n f (m & v & -> & Hf & Hu) Hp.
  exists (length p + m)%nat, (f v).
  repeat split.
  - lia.
  - replace (length p + S m)%nat with (length p + S m)%nat by reflexivity.
    rewrite !firstn_app_2. rewrite Hf. rewrite app_assoc. reflexivity.
  - rewrite firstn_app_2. rewrite Hp, Hu. reflexivity.
Qed.

Lemma opt_add_some : forall k o n, opt_add k o = Some n -> exists n', o = Some n' /\ n = (k + n')%nat.
Proof. intros k [n'|] n H; inversion H. eauto. Qed.

Lemma str_body_ok_bounded : forall k s n,
  (length s <= k)%nat -> str_body s = Some n -> str_ok s n.
Proof.
  induction k as [|k IH]; intros s n Hlen H.
  - destruct s; [discriminate H|cbn in Hlen; lia].
  - destruct s as [|c r]; [discriminate H|].
    cbn [length] in Hlen.
    cbn [str_body] in H.
    destruct (beq c c_dquote) eqn:Eq.
    { (* closing quote *)
      inversion H; subst n. apply beq_true in Eq. subst c.
      exists O, []. repeat split. }
    destruct (beq c c_backslash) eqn:Eb.
    2:{ (* ordinary byte *)
      apply opt_add_some in H as (n' & Hr & ->).
      assert (Hok : str_ok r n') by (apply IH; [lia|assumption]).
      apply (str_ok_cons [c] r n' (fun l => c :: l) Hok).
      intros x. cbn [app unquote_loop]. rewrite Eb. cbn [negb].
      destruct (128 <=? b2n c); unfold opt_cons; reflexivity. }
    apply beq_true in Eb. subst c.
    destruct r as [|c2 v]; [discriminate H|].
    cbn [length] in Hlen.
    destruct (is_simple_escape c2) eqn:Ese.
    { apply opt_add_some in H as (n' & Hr & ->).
      assert (Hok : str_ok v n') by (apply IH; [lia|assumption]).
      destruct c2; try discriminate Ese.
      all: match goal with |- str_ok (_ :: ?c :: _) _ =>
             apply (str_ok_cons [c_backslash; c] v n'
                      (fun l => match unquote_loop [c_backslash; c] with Some p => p ++ l | None => l end) Hok)
           end;
           intros x; cbn [app]; unfold opt_cons; cbn; destruct (unquote_loop x); reflexivity. }
    destruct (is_octal c2) eqn:Eoc.
    { destruct v as [|o1 [|o2 v']]; try discriminate H.
      destruct (is_octal o1 && is_octal o2) eqn:Eo; [|discriminate H].
      apply opt_add_some in H as (n' & Hr & ->).
      cbn [length] in Hlen.
      assert (Hok : str_ok v' n') by (apply IH; [lia|assumption]).
      apply (str_ok_cons [c_backslash; c2; o1; o2] v' n'
               (fun l => n2b (((b2n c2 - 48) * 64 + (b2n o1 - 48) * 8 + (b2n o2 - 48)) mod 256) :: l) Hok).
      intros x. cbn [app].
      destruct c2; try discriminate Eoc.
      all: cbn; rewrite Eo; unfold opt_cons; reflexivity. }
    destruct (b2n c2 =? 120) eqn:Ex.
    { destruct v as [|h0 [|h1 v']]; try discriminate H.
      destruct (is_xdigit h0 && is_xdigit h1) eqn:Eh; [|discriminate H].
      apply andb_true_iff in Eh as [E0 E1].
      apply opt_add_some in H as (n' & Hr & ->).
      cbn [length] in Hlen.
      assert (Hok : str_ok v' n') by (apply IH; [lia|assumption]).
      destruct (xdigits_hex_byte h0 h1 E0 E1) as [xv Exv].
      apply (str_ok_cons [c_backslash; c2; h0; h1] v' n' (fun l => n2b xv :: l) Hok).
      intros x. cbn [app].
      apply N.eqb_eq in Ex.
      destruct c2; try discriminate Ex.
      cbn. rewrite Exv. unfold opt_cons. reflexivity. }
    destruct (b2n c2 =? 117) eqn:Eu.
    { destruct v as [|h0 [|h1 [|h2 [|h3 v']]]]; try discriminate H.
      destruct (is_xdigit h0 && is_xdigit h1 && is_xdigit h2 && is_xdigit h3) eqn:Eh; [|discriminate H].
      apply andb_true_iff in Eh as [Eh E3]. apply andb_true_iff in Eh as [Eh E2].
      apply andb_true_iff in Eh as [E0 E1].
      apply opt_add_some in H as (n' & Hr & ->).
      cbn [length] in Hlen.
      assert (Hok : str_ok v' n') by (apply IH; [lia|assumption]).
      destruct (xdigits_hex_byte h0 h1 E0 E1) as [hi Ehi].
      destruct (xdigits_hex_byte h2 h3 E2 E3) as [lo Elo].
      apply (str_ok_cons [c_backslash; c2; h0; h1; h2; h3] v' n'
               (fun l => utf8_encode (lo + hi * 256) ++ l) Hok).
      intros x. cbn [app].
      apply N.eqb_eq in Eu.
      destruct c2; try discriminate Eu.
      cbn. rewrite Elo, Ehi. unfold opt_app. reflexivity. }
    destruct (b2n c2 =? 85) eqn:EU.
    { destruct v as [|h0 [|h1 [|h2 [|h3 [|h4 [|h5 [|h6 [|h7 v']]]]]]]]; try discriminate H.
      destruct (is_xdigit h0 && is_xdigit h1 && is_xdigit h2 && is_xdigit h3
                && is_xdigit h4 && is_xdigit h5 && is_xdigit h6 && is_xdigit h7) eqn:Eh; [|discriminate H].
      apply andb_true_iff in Eh as [Eh E7]. apply andb_true_iff in Eh as [Eh E6].
      apply andb_true_iff in Eh as [Eh E5]. apply andb_true_iff in Eh as [Eh E4].
      apply andb_true_iff in Eh as [Eh E3]. apply andb_true_iff in Eh as [Eh E2].
      apply andb_true_iff in Eh as [E0 E1].
      apply opt_add_some in H as (n' & Hr & ->).
      cbn [length] in Hlen.
      assert (Hok : str_ok v' n') by (apply IH; [lia|assumption]).
      destruct (xdigits_hex_byte h0 h1 E0 E1) as [b3 Eb3].
      destruct (xdigits_hex_byte h2 h3 E2 E3) as [b2 Eb2].
      destruct (xdigits_hex_byte h4 h5 E4 E5) as [b1 Eb1].
      destruct (xdigits_hex_byte h6 h7 E6 E7) as [b0 Eb0].
      apply (str_ok_cons [c_backslash; c2; h0; h1; h2; h3; h4; h5; h6; h7] v' n'
               (fun l => utf8_encode (b0 + b1 * 256 + b2 * 65536 + b3 * 16777216) ++ l) Hok).
      intros x. cbn [app].
      apply N.eqb_eq in EU.
      destruct c2; try discriminate EU.
      cbn. rewrite Eb0, Eb1, Eb2, Eb3. unfold opt_app. reflexivity. }
    discriminate H.
Qed.

Lemma str_body_ok : forall s n, str_body s = Some n -> str_ok s n.
Proof. intros s n. apply (str_body_ok_bounded (length s)). lia. Qed.

(* The contract for LITSTRING: whatever the lexer labels LITSTRING (every
   escape form the rule admits, in any combination), unquote converts without
   a panic. *)
Lemma string_token_unquotes_lemma : forall b n,
  next_token b = (TStr, n) -> exists v, unquote (firstn n b) = Some v.
Proof.
  intros b n H. apply next_token_str in H as [Hn Hpos].
  unfold tok_string in Hn.
  destruct b as [|c r]; [lia|].
  destruct (beq c c_dquote) eqn:Ec; [|lia].
  apply beq_true in Ec. subst c.
  destruct (str_body r) as [k|] eqn:Ek; [|lia].
  subst n. apply str_body_ok in Ek as (m & v & -> & Hf & Hu).
  change (firstn (S (S m)) (c_dquote :: r)) with (c_dquote :: firstn (S m) r). rewrite Hf.
  unfold unquote. rewrite rev_unit, rev_involutive.
  replace (beq c_dquote c_dquote) with true by reflexivity. cbn [andb].
  destruct (negb (has_escape_or_quote (firstn m r))); eauto.
Qed.

(* ------------------------------------------------------------ src_stm *)

Lemma src_action_total_lemma : forall cmd,
  (src_action cmd = None <-> fields cmd = [])
  /\ (forall p args, src_action cmd = Some (p, args) <-> fields cmd = p :: args)
  /\ (src_action_unrepaired cmd = SrcPanic <-> src_action cmd = None).
Proof.
  intros cmd. unfold src_action, src_action_unrepaired.
  destruct (fields cmd) as [|p args]; repeat split; try congruence; try discriminate;
    intros; try congruence.
Qed.

(* ------------------------------------------------------------ source positions *)

Local Open Scope Z_scope.

Lemma skip_loc_valid : forall val l c,
  1 <= l -> 1 <= c -> 1 <= fst (skip_loc val l c) /\ 1 <= snd (skip_loc val l c).
Proof.
  unfold skip_loc.
  induction val as [|b r IH]; intros l c Hl Hc; cbn [fold_left fst snd].
  - split; assumption.
  - destruct (b2n b =? 10)%N; apply IH; lia.
Qed.

Definition loc_valid (r : tokrec) : Prop := 1 <= t_line r /\ 1 <= t_col r.

Lemma lex_all_locations : forall fuel st l,
  1 <= l_line st -> 1 <= l_col st -> 0 <= l_toklen st ->
  lex_all fuel st = Some l -> Forall loc_valid l.
Proof.
  induction fuel as [|f IH]; intros st l Hl Hc Ht H; [discriminate H|].
  cbn [lex_all] in H.
  destruct (l_src st) as [|c0 r0]; [inversion H; constructor|].
  destruct (next_token (c0 :: r0)) as [t n].
  set (col1 := if l_inc st then l_col st + l_toklen st else l_col st) in *.
  assert (Hc1 : 1 <= col1) by (subst col1; destruct (l_inc st); lia).
  destruct t.
  - destruct (skip_loc (firstn n (c0 :: r0)) (l_line st) col1) as [l' c'] eqn:Es.
    pose proof (skip_loc_valid (firstn n (c0 :: r0)) (l_line st) col1 Hl Hc1) as Hv.
    rewrite Es in Hv. cbn [fst snd] in Hv.
    eapply IH; [| | |exact H]; cbn; lia.
  - match type of H with context [lex_all f ?s] => destruct (lex_all f s) as [l0|] eqn:E end; [|discriminate H].
    inversion H; subst l. constructor.
    + split; cbn; lia.
    + eapply IH; [| | |exact E]; cbn; lia.
  - inversion H; subst l. constructor; [split; cbn; lia|constructor].
  - match type of H with context [lex_all f ?s] => destruct (lex_all f s) as [l0|] eqn:E end; [|discriminate H].
    inversion H; subst l. constructor; [split; cbn; lia|].
    eapply IH; [| | |exact E]; cbn; lia.
  - match type of H with context [lex_all f ?s] => destruct (lex_all f s) as [l0|] eqn:E end; [|discriminate H].
    inversion H; subst l. constructor; [split; cbn; lia|].
    eapply IH; [| | |exact E]; cbn; lia.
  - match type of H with context [lex_all f ?s] => destruct (lex_all f s) as [l0|] eqn:E end; [|discriminate H].
    inversion H; subst l. constructor; [split; cbn; lia|].
    eapply IH; [| | |exact E]; cbn; lia.
  - match type of H with context [lex_all f ?s] => destruct (lex_all f s) as [l0|] eqn:E end; [|discriminate H].
    inversion H; subst l. constructor; [split; cbn; lia|].
    eapply IH; [| | |exact E]; cbn; lia.
  - match type of H with context [lex_all f ?s] => destruct (lex_all f s) as [l0|] eqn:E end; [|discriminate H].
    inversion H; subst l. constructor; [split; cbn; lia|].
    eapply IH; [| | |exact E]; cbn; lia.
  - match type of H with context [lex_all f ?s] => destruct (lex_all f s) as [l0|] eqn:E end; [|discriminate H].
    inversion H; subst l. constructor; [split; cbn; lia|].
    eapply IH; [| | |exact E]; cbn; lia.
Qed.

(* Every token the parser is handed (and every comment block) carries a valid
   source position: line and column are at least 1. *)
Lemma lex_locations_valid_lemma : forall src l,
  lex_source src = Some l -> Forall loc_valid l.
Proof.
  intros src l H. unfold lex_source in H.
  eapply lex_all_locations; [| | |exact H]; cbn; lia.
Qed.

Local Close Scope Z_scope.

(* ------------------------------------------------------------ why the repairs were needed *)

(* Without the range checks in nextToken the contract is false ... *)
Lemma int_token_unchecked_refuted :
  exists b n, next_token_unchecked tok_float b = (TInt, n)
              /\ parse_int (firstn n b) = IPanic.
Proof.
  exists (bs "9223372036854775808"), 19%nat. vm_compute. split; reflexivity.
Qed.

Lemma float_token_unchecked_refuted :
  exists b n, next_token_unchecked tok_float b = (TFloat, n)
              /\ parse_float (firstn n b) = FPanic.
Proof.
  exists (bs "1e999"), 5%nat. vm_compute. split; reflexivity.
Qed.

(* ... and the float rule as it was written, (:? for (?:, additionally let
   through text that is not a float at all. *)
Lemma old_float_rule_refuted :
  exists b n, next_token_unchecked (tok_float_gen true) b = (TFloat, n)
              /\ read_float (firstn n b) = None.
Proof.
  exists (bs "1:e5"), 4%nat. vm_compute. split; reflexivity.
Qed.

Lemma src_action_unrepaired_refuted :
  exists cmd, src_action_unrepaired cmd = SrcPanic.
Proof. exists (bs "  "). vm_compute. reflexivity. Qed.
