(* Proofs about K/PostProcess. *)
From Martian Require Import Lib.Bytes Json.Json Extracted.PostProcess K.PostProcess.
Local Open Scope N_scope.

(* ------------------------------------------------------------ equality tests *)

Lemma beq_true_iff a b : beq a b = true <-> a = b.
Proof. unfold beq. apply Byte.byte_dec_bl || idtac. split.
  - intro H. apply Byte.byte_dec_bl. exact H.
  - intro H. apply Byte.byte_dec_lb. exact H.
Qed.

Lemma beq_refl a : beq a a = true.
Proof. apply beq_true_iff. reflexivity. Qed.

Lemma bytes_eqb_true_iff : forall a b, bytes_eqb a b = true <-> a = b.
Proof.
  induction a as [|x a IH]; destruct b as [|y b]; cbn [bytes_eqb]; split; intro H;
    try reflexivity; try discriminate.
  - apply andb_prop in H. destruct H as [H1 H2].
    apply beq_true_iff in H1. apply IH in H2. subst. reflexivity.
  - injection H as -> ->. rewrite beq_refl. cbn [andb]. apply IH. reflexivity.
Qed.

Lemma bytes_eqb_refl a : bytes_eqb a a = true.
Proof. apply bytes_eqb_true_iff. reflexivity. Qed.

Lemma path_eqb_true_iff : forall a b, path_eqb a b = true <-> a = b.
Proof.
  induction a as [|x a IH]; destruct b as [|y b]; cbn [path_eqb]; split; intro H;
    try reflexivity; try discriminate.
  - apply andb_prop in H. destruct H as [H1 H2].
    apply bytes_eqb_true_iff in H1. apply IH in H2. subst. reflexivity.
  - injection H as -> ->. rewrite bytes_eqb_refl. cbn [andb]. apply IH. reflexivity.
Qed.

Lemma path_eqb_refl a : path_eqb a a = true.
Proof. apply path_eqb_true_iff. reflexivity. Qed.

Lemma path_eqb_false_iff a b : path_eqb a b = false <-> a <> b.
Proof.
  split.
  - intros H E. apply path_eqb_true_iff in E. congruence.
  - intro H. destruct (path_eqb a b) eqn:E; [|reflexivity].
    apply path_eqb_true_iff in E. contradiction.
Qed.

(* ------------------------------------------------------------ prefixes *)

Lemma is_pfx_iff : forall p q, is_pfx p q = true <-> exists r, q = p ++ r.
Proof.
  induction p as [|x p IH]; intros q; cbn [is_pfx].
  - split; [intros _; exists q; reflexivity | reflexivity].
  - destruct q as [|y q].
    + split; [discriminate | intros [r H]; discriminate].
    + split.
      * intro H. apply andb_prop in H. destruct H as [H1 H2].
        apply bytes_eqb_true_iff in H1. apply IH in H2. destruct H2 as [r ->].
        subst. exists r. reflexivity.
      * intros [r H]. cbn [app] in H. injection H as -> ->.
        rewrite bytes_eqb_refl. cbn [andb]. apply IH. exists r. reflexivity.
Qed.

Lemma is_pfx_app p r : is_pfx p (p ++ r) = true.
Proof. apply is_pfx_iff. exists r. reflexivity. Qed.

Lemma is_pfx_refl p : is_pfx p p = true.
Proof. apply is_pfx_iff. exists []. rewrite app_nil_r. reflexivity. Qed.

Lemma is_pfx_trans p q r : is_pfx p q = true -> is_pfx q r = true -> is_pfx p r = true.
Proof.
  intros H1 H2. apply is_pfx_iff in H1. apply is_pfx_iff in H2.
  destruct H1 as [a ->]. destruct H2 as [b ->]. apply is_pfx_iff.
  exists (a ++ b). rewrite app_assoc. reflexivity.
Qed.

Lemma skipn_app_exact {A} (a b : list A) : skipn (length a) (a ++ b) = b.
Proof. induction a as [|x a IH]; [reflexivity|exact IH]. Qed.

(* two prefixes of one path are comparable *)
Lemma pfx_comparable : forall (p q x : path),
  is_pfx p x = true -> is_pfx q x = true -> is_pfx p q = true \/ is_pfx q p = true.
Proof.
  induction p as [|a p IH]; intros q x Hp Hq.
  - left. reflexivity.
  - destruct q as [|b q]; [right; reflexivity|].
    destruct x as [|c x]; [discriminate|].
    cbn [is_pfx] in *. apply andb_prop in Hp. apply andb_prop in Hq.
    destruct Hp as [Hp1 Hp2]. destruct Hq as [Hq1 Hq2].
    apply bytes_eqb_true_iff in Hp1. apply bytes_eqb_true_iff in Hq1. subst.
    rewrite bytes_eqb_refl. cbn [andb]. eapply IH; eassumption.
Qed.

(* ------------------------------------------------------------ render / parse *)

Definition clean_path (p : path) : Prop := forallb clean_comp p = true.

Lemma clean_comp_no_slash c : clean_comp c = true -> contains_byte c_slash c = false.
Proof.
  unfold clean_comp. intro H.
  repeat (apply andb_prop in H; destruct H as [H ?]).
  match goal with X : negb (contains_byte c_slash c) = true |- _ =>
    apply negb_true_iff in X; exact X end.
Qed.

Lemma split_slash_noslash : forall c cur r,
  contains_byte c_slash c = false ->
  split_slash cur (c ++ c_slash :: r) = rev (rev c ++ cur) :: split_slash [] r.
Proof.
  induction c as [|b c IH]; intros cur r H; cbn [app split_slash].
  - rewrite beq_refl. reflexivity.
  - unfold contains_byte in H. cbn [existsb] in H. apply orb_false_iff in H.
    destruct H as [H1 H2].
    assert (Hb : beq b c_slash = false).
    { destruct (beq b c_slash) eqn:E; [|reflexivity].
      apply beq_true_iff in E. subst. rewrite beq_refl in H1. discriminate. }
    rewrite Hb. rewrite (IH (b :: cur) r H2). cbn [rev]. rewrite <- app_assoc. reflexivity.
Qed.

Lemma split_slash_noslash_end : forall c cur,
  contains_byte c_slash c = false ->
  split_slash cur c = [rev (rev c ++ cur)].
Proof.
  induction c as [|b c IH]; intros cur H; cbn [split_slash].
  - reflexivity.
  - unfold contains_byte in H. cbn [existsb] in H. apply orb_false_iff in H.
    destruct H as [H1 H2].
    assert (Hb : beq b c_slash = false).
    { destruct (beq b c_slash) eqn:E; [|reflexivity].
      apply beq_true_iff in E. subst. rewrite beq_refl in H1. discriminate. }
    rewrite Hb. rewrite (IH (b :: cur) H2). cbn [rev]. rewrite <- app_assoc. reflexivity.
Qed.

Lemma split_render : forall c p,
  clean_path (c :: p) ->
  split_slash [] (c ++ render p) = c :: p.
Proof.
  intros c p. revert c. induction p as [|d p IH]; intros c H.
  - cbn [render flat_map]. rewrite app_nil_r.
    unfold clean_path in H. cbn [forallb] in H. apply andb_prop in H. destruct H as [Hc _].
    rewrite split_slash_noslash_end by (apply clean_comp_no_slash; exact Hc).
    rewrite app_nil_r, rev_involutive. reflexivity.
  - unfold clean_path in H. cbn [forallb] in H. apply andb_prop in H. destruct H as [Hc Hr].
    change (render (d :: p)) with (c_slash :: d ++ render p).
    rewrite split_slash_noslash by (apply clean_comp_no_slash; exact Hc).
    rewrite app_nil_r, rev_involutive. f_equal. apply IH. exact Hr.
Qed.

Lemma clean_step_clean : forall acc c, clean_comp c = true -> clean_step acc c = acc ++ [c].
Proof.
  intros acc c H. unfold clean_step. unfold clean_comp in H.
  repeat (apply andb_prop in H; destruct H as [H ?]).
  repeat match goal with X : negb _ = true |- _ => apply negb_true_iff in X end.
  match goal with X : bytes_eqb c [] = false |- _ => rewrite X end.
  match goal with X : is_dot c = false |- _ => rewrite X end.
  match goal with X : is_dotdot c = false |- _ => rewrite X end.
  reflexivity.
Qed.

Lemma fold_clean_step_clean : forall p acc,
  forallb clean_comp p = true -> fold_left clean_step p acc = acc ++ p.
Proof.
  induction p as [|c p IH]; intros acc H; cbn [fold_left].
  - rewrite app_nil_r. reflexivity.
  - cbn [forallb] in H. apply andb_prop in H. destruct H as [Hc Hp].
    rewrite clean_step_clean by exact Hc. rewrite IH by exact Hp.
    rewrite <- app_assoc. reflexivity.
Qed.

Lemma parse_render : forall p, p <> [] -> clean_path p -> parse_abs (render p) = Some p.
Proof.
  intros [|c p] Hne H; [contradiction|].
  change (render (c :: p)) with (c_slash :: c ++ render p).
  unfold parse_abs, clean_join. rewrite beq_refl. rewrite split_render by exact H.
  unfold clean_path in H. rewrite fold_clean_step_clean by exact H.
  cbn [app]. rewrite H. reflexivity.
Qed.

(* a trailing separator: filepath.Clean drops it *)
Lemma split_render_slash : forall c p,
  clean_path (c :: p) ->
  split_slash [] (c ++ render p ++ [c_slash]) = (c :: p) ++ [[]].
Proof.
  intros c p. revert c. induction p as [|d p IH]; intros c H.
  - cbn [render flat_map app].
    unfold clean_path in H. cbn [forallb] in H. apply andb_prop in H. destruct H as [Hc _].
    rewrite split_slash_noslash by (apply clean_comp_no_slash; exact Hc).
    rewrite app_nil_r, rev_involutive. reflexivity.
  - unfold clean_path in H. cbn [forallb] in H. apply andb_prop in H. destruct H as [Hc Hr].
    change (render (d :: p)) with (c_slash :: d ++ render p).
    change ((c_slash :: d ++ render p) ++ [c_slash]) with (c_slash :: (d ++ render p) ++ [c_slash]).
    rewrite <- app_assoc.
    rewrite split_slash_noslash by (apply clean_comp_no_slash; exact Hc).
    rewrite app_nil_r, rev_involutive. cbn [app]. f_equal. apply IH. exact Hr.
Qed.

Lemma parse_render_slash : forall p, p <> [] -> clean_path p ->
  parse_abs (render p ++ [c_slash]) = Some p.
Proof.
  intros [|c p] Hne H; [contradiction|].
  change (render (c :: p)) with (c_slash :: c ++ render p).
  change ((c_slash :: c ++ render p) ++ [c_slash]) with (c_slash :: (c ++ render p) ++ [c_slash]).
  rewrite <- app_assoc.
  unfold parse_abs, clean_join. rewrite beq_refl. rewrite split_render_slash by exact H.
  rewrite fold_left_app. unfold clean_path in H. rewrite (fold_clean_step_clean (c :: p) []) by exact H.
  cbn [app fold_left]. unfold clean_step. cbn [bytes_eqb orb]. rewrite H. reflexivity.
Qed.

Lemma render_nonempty : forall p, p <> [] -> exists b r, render p = b :: r.
Proof. intros [|c p] H; [contradiction|]. exists c_slash, (c ++ render p). reflexivity. Qed.

(* ------------------------------------------------------------ file system *)

Lemma look_set_same p n f : look (fs_set p n f) p = Some n.
Proof. cbn [look fs_set]. rewrite path_eqb_refl. reflexivity. Qed.

Lemma look_set_other p n f q : p <> q -> look (fs_set p n f) q = look f q.
Proof.
  intro H. cbn [look fs_set]. apply path_eqb_false_iff in H. rewrite H. reflexivity.
Qed.

Lemma look_rename_dst src dst f r :
  look (fs_rename src dst f) (dst ++ r) = look f (src ++ r).
Proof. cbn [look fs_rename]. rewrite is_pfx_app, skipn_app_exact. reflexivity. Qed.

Lemma look_rename_src src dst f q :
  is_pfx dst q = false -> is_pfx src q = true -> look (fs_rename src dst f) q = None.
Proof. intros H1 H2. cbn [look fs_rename]. rewrite H1, H2. reflexivity. Qed.

Lemma look_rename_other src dst f q :
  is_pfx dst q = false -> is_pfx src q = false -> look (fs_rename src dst f) q = look f q.
Proof. intros H1 H2. cbn [look fs_rename]. rewrite H1, H2. reflexivity. Qed.

(* ------------------------------------------------------------ mkdirs *)

(* every directory on the way is absent or already a directory *)
Fixpoint dirs_free (base rest : path) (s : st) : Prop :=
  match rest with
  | [] => True
  | c :: r => (lk s (base ++ [c]) = None \/ lk s (base ++ [c]) = Some NDir)
              /\ dirs_free (base ++ [c]) r s
  end.

Lemma dirs_free_ext : forall rest base s s',
  (forall q, is_pfx q (base ++ rest) = true -> is_pfx base q = true -> q <> base ->
             lk s' q = lk s q) ->
  dirs_free base rest s -> dirs_free base rest s'.
Proof.
  induction rest as [|c r IH]; intros base s s' Hsame H; [exact I|].
  cbn [dirs_free] in *. destruct H as [H1 H2]. split.
  - rewrite Hsame; [exact H1| | |].
    + apply is_pfx_iff. exists r. rewrite <- app_assoc. reflexivity.
    + apply is_pfx_app.
    + intro E. apply (f_equal (@length _)) in E. rewrite app_length in E. cbn in E. lia.
  - apply (IH (base ++ [c]) s s'); [|exact H2].
    intros q Hq1 Hq2 Hq3. apply Hsame.
    + rewrite <- app_assoc in Hq1. exact Hq1.
    + eapply is_pfx_trans; [apply is_pfx_app|exact Hq2].
    + intro E. subst q. apply is_pfx_iff in Hq2. destruct Hq2 as [x Hx].
      apply (f_equal (@length _)) in Hx. rewrite !app_length in Hx. cbn in Hx. lia.
Qed.

(* what a successful mkdirs changes: only strict extensions of base on the
   way to base ++ rest, and only from absent to directory *)
Lemma mkdirs_from_ok : forall rest base s,
  dirs_free base rest s ->
  exists s', mkdirs_from base rest s = (s', true)
    /\ err s' = err s /\ unm s' = unm s
    /\ (forall q, lk s' q = lk s q
                  \/ (lk s q = None /\ lk s' q = Some NDir
                      /\ is_pfx q (base ++ rest) = true /\ is_pfx base q = true /\ q <> base))
    /\ (forall q, is_pfx q (base ++ rest) = true -> is_pfx base q = true -> q <> base ->
                  lk s' q = Some NDir).
Proof.
  induction rest as [|c r IH]; intros base s H.
  - exists s. cbn [mkdirs_from]. repeat split; try reflexivity.
    + intro q. left. reflexivity.
    + intros q H1 H2 H3. exfalso. rewrite app_nil_r in H1.
      apply is_pfx_iff in H1. apply is_pfx_iff in H2.
      destruct H1 as [a Ha]. destruct H2 as [b Hb]. subst q.
      rewrite <- app_assoc in Ha. rewrite <- (app_nil_r base) in Ha at 1.
      apply app_inv_head in Ha. symmetry in Ha. apply app_eq_nil in Ha. destruct Ha as [-> _].
      apply H3. rewrite app_nil_r. reflexivity.
  - cbn [dirs_free] in H. destruct H as [Hc Hr]. cbn [mkdirs_from].
    assert (Hlen : forall (x : path), base ++ [c] <> base).
    { intros _ E. apply (f_equal (@length _)) in E. rewrite app_length in E. cbn in E. lia. }
    assert (Hstep : forall q, is_pfx q (base ++ c :: r) = true -> is_pfx base q = true -> q <> base ->
                       q = base ++ [c] \/ (is_pfx (base ++ [c]) q = true /\ q <> base ++ [c])).
    { intros q H1 H2 H3. apply is_pfx_iff in H2. destruct H2 as [x ->].
      destruct x as [|y x]; [rewrite app_nil_r in H3; contradiction|].
      apply is_pfx_iff in H1. destruct H1 as [z Hz]. rewrite <- app_assoc in Hz.
      apply app_inv_head in Hz. cbn [app] in Hz. injection Hz as -> Hz.
      destruct x as [|y' x]; [left; reflexivity|]. right. split.
      - apply is_pfx_iff. exists (y' :: x). rewrite <- app_assoc. reflexivity.
      - intro E. rewrite <- (app_nil_r (base ++ [y])) in E.
        change (base ++ y :: y' :: x) with (base ++ [y] ++ y' :: x) in E.
        rewrite app_assoc in E. apply app_inv_head in E. discriminate. }
    destruct Hc as [Hc|Hc]; rewrite Hc.
    + (* created *)
      set (s1 := with_fs s (fs_set (base ++ [c]) NDir (fs s))).
      assert (Hfree : dirs_free (base ++ [c]) r s1).
      { eapply dirs_free_ext; [|exact Hr]. intros q Hq1 Hq2 Hq3.
        unfold s1, lk. cbn [fs with_fs]. apply look_set_other. congruence. }
      destruct (IH (base ++ [c]) s1 Hfree) as (s' & E & He & Hu & Hq & Hd).
      exists s'. rewrite E. repeat split.
      * rewrite He. reflexivity.
      * rewrite Hu. reflexivity.
      * intro q. destruct (path_eqb (base ++ [c]) q) eqn:Eq.
        { apply path_eqb_true_iff in Eq. subst q. right.
          destruct (Hq (base ++ [c])) as [Hs|(Hn & _)].
          - repeat split; try exact Hc.
            + rewrite Hs. unfold s1, lk. cbn [fs with_fs]. apply look_set_same.
            + apply is_pfx_iff. exists r. rewrite <- app_assoc. reflexivity.
            + apply is_pfx_app.
            + apply Hlen. exact [].
          - unfold s1, lk in Hn. cbn [fs with_fs] in Hn. rewrite look_set_same in Hn. discriminate. }
        { apply path_eqb_false_iff in Eq.
          assert (Hs1 : lk s1 q = lk s q).
          { unfold s1, lk. cbn [fs with_fs]. apply look_set_other. exact Eq. }
          destruct (Hq q) as [Hs|(Hn & Hn' & Hp1 & Hp2 & Hp3)].
          - left. rewrite Hs. exact Hs1.
          - right. rewrite <- Hs1. repeat split; try assumption.
            + rewrite <- app_assoc in Hp1. exact Hp1.
            + eapply is_pfx_trans; [apply is_pfx_app|exact Hp2].
            + intro E'. subst q. apply is_pfx_iff in Hp2. destruct Hp2 as [x Hx].
              apply (f_equal (@length _)) in Hx. rewrite !app_length in Hx. cbn in Hx. lia. }
      * intros q H1 H2 H3. destruct (Hstep q H1 H2 H3) as [->|[Ha Hb]].
        { destruct (Hq (base ++ [c])) as [Hs|(Hn & Hn' & _)]; [|exact Hn'].
          rewrite Hs. unfold s1, lk. cbn [fs with_fs]. apply look_set_same. }
        { apply Hd; [|exact Ha|exact Hb]. rewrite <- app_assoc. exact H1. }
    + (* already a directory *)
      destruct (IH (base ++ [c]) s Hr) as (s' & E & He & Hu & Hq & Hd).
      exists s'. rewrite E. repeat split; try assumption.
      * intro q. destruct (Hq q) as [Hs|(Hn & Hn' & Hp1 & Hp2 & Hp3)]; [left; exact Hs|].
        right. repeat split; try assumption.
        { rewrite <- app_assoc in Hp1. exact Hp1. }
        { eapply is_pfx_trans; [apply is_pfx_app|exact Hp2]. }
        { intro E'. subst q. apply is_pfx_iff in Hp2. destruct Hp2 as [x Hx].
          apply (f_equal (@length _)) in Hx. rewrite !app_length in Hx. cbn in Hx. lia. }
      * intros q H1 H2 H3. destruct (Hstep q H1 H2 H3) as [->|[Ha Hb]].
        { destruct (Hq (base ++ [c])) as [Hs|(Hn & _)]; [rewrite Hs; exact Hc|].
          rewrite Hc in Hn. discriminate. }
        { apply Hd; [|exact Ha|exact Hb]. rewrite <- app_assoc. exact H1. }
Qed.

(* ------------------------------------------------------------ one leaf *)

Lemma stat_ok_none fuel s p : lk s p = None -> stat_ok fuel s p = false.
Proof. intro H. destruct fuel; cbn [stat_ok]; rewrite H; reflexivity. Qed.

Lemma pfx_longer_false (a : path) x : is_pfx (a ++ [x]) a = false.
Proof.
  destruct (is_pfx (a ++ [x]) a) eqn:E; [|reflexivity].
  apply is_pfx_iff in E. destruct E as [r Hr].
  apply (f_equal (@length _)) in Hr. rewrite !app_length in Hr. cbn in Hr. lia.
Qed.

Lemma is_pfx_false_neq p q : is_pfx p q = false -> p <> q.
Proof. intros H E. subst. rewrite is_pfx_refl in H. discriminate. Qed.

Section Leaf.
  Variable ps : path.

  (* moveOutFile on a regular file or directory inside the pipestance whose
     destination is free: the subtree is under outs/ afterwards, the source
     is a link to it, the value names the destination, nothing else changes
     except that the directories on the way exist. *)
  Lemma move_file_materialises_lemma : forall outrel fname fp n s,
    let outp := (ps ++ outrel) ++ [fname] in
    fp <> [] -> clean_path fp -> through_link s fp = false ->
    lk s fp = Some n -> (forall t, n <> NLink t) ->
    inside ps fp = true ->
    is_pfx fp outp = false -> is_pfx outp fp = false ->
    lk s outp = None ->
    dirs_free ps outrel s ->
    exists s',
      move_file ps outrel fname (JStr (render fp)) s = (JStr (render outp), s')
      /\ (forall r, lk s' (outp ++ r) = lk s (fp ++ r))
      /\ lk s' fp = Some (NLink (rel_path (dirname fp) outp))
      /\ err s' = err s /\ unm s' = unm s
      /\ (forall q, is_pfx fp q = false -> is_pfx outp q = false ->
                    is_pfx q (ps ++ outrel) = false -> lk s' q = lk s q)
      /\ (forall q, is_pfx q (ps ++ outrel) = true -> is_pfx ps q = true -> q <> ps ->
                    lk s' q = Some NDir).
  Proof.
    intros outrel fname fp n s outp Hne Hclean Hthru Hlk Hnl Hin Hsd Hds Hfree Hdirs.
    destruct (mkdirs_from_ok outrel ps s Hdirs) as (s1 & Emk & He & Hu & Hq & Hd).
    assert (Hs1 : forall q, is_pfx q (ps ++ outrel) = false -> lk s1 q = lk s q).
    { intros q Hq'. destruct (Hq q) as [E|(_ & _ & E & _)]; [exact E|congruence]. }
    assert (Hsrc : forall r, lk s1 (fp ++ r) = lk s (fp ++ r)).
    { intro r. apply Hs1. destruct (is_pfx (fp ++ r) (ps ++ outrel)) eqn:E; [|reflexivity].
      exfalso. assert (X : is_pfx fp outp = true).
      { eapply is_pfx_trans; [apply is_pfx_app|]. eapply is_pfx_trans; [exact E|apply is_pfx_app]. }
      congruence. }
    assert (Hdst1 : lk s1 outp = None).
    { rewrite Hs1; [exact Hfree|]. apply pfx_longer_false. }
    set (f2 := fs_set fp (NLink (rel_path (dirname fp) outp)) (fs_rename fp outp (fs s1))).
    exists (with_fs s1 f2).
    split.
    { unfold move_file. destruct (render_nonempty fp Hne) as (b & r & Er).
      rewrite Er. rewrite <- Er. rewrite (parse_render fp Hne Hclean). rewrite Hthru. rewrite Hlk.
      assert (Hbody :
        (let outdir := ps ++ outrel in
         let outp0 := outdir ++ [fname] in
         if negb (inside ps fp) then
           let (s2, ok) := mkdirall ps outrel s in
           if ok then (JStr (render fp), do_symlink outp0 (render fp) s2) else (JStr (render fp), s2)
         else if stat_ok stat_fuel s outp0 then (JStr (render fp), s)
         else
           let (s2, ok) := mkdirall ps outrel s in
           if negb ok then (JStr (render fp), set_unm s2)
           else if is_pfx fp outp0 then (JStr (render fp), set_err s2)
           else match lk s2 outp0 with
                | Some _ => (JStr (render fp), set_unm s2)
                | None =>
                    let f1 := fs_rename fp outp0 (fs s2) in
                    let f2 := fs_set fp (NLink (rel_path (dirname fp) outp0)) f1 in
                    (JStr (render outp0), with_fs s2 f2)
                end) = (JStr (render outp), with_fs s1 f2)).
      { cbv zeta. rewrite Hin. cbn [negb]. fold outp.
        rewrite (stat_ok_none stat_fuel s outp Hfree).
        unfold mkdirall. rewrite Emk. cbn [negb]. rewrite Hsd. rewrite Hdst1. reflexivity. }
      destruct n as [c| |t]; [exact Hbody|exact Hbody|exfalso; eapply Hnl; reflexivity]. }
    split.
    { intro r. unfold lk, f2. cbn [fs with_fs].
      rewrite look_set_other.
      - rewrite look_rename_dst. apply Hsrc.
      - intro E. assert (X : is_pfx outp fp = true) by (rewrite E; apply is_pfx_app). congruence. }
    split.
    { unfold lk, f2. cbn [fs with_fs]. apply look_set_same. }
    split; [cbn [err with_fs]; exact He|].
    split; [cbn [unm with_fs]; exact Hu|].
    split.
    { intros q H1 H2 H3. unfold lk, f2. cbn [fs with_fs].
      rewrite look_set_other by (apply is_pfx_false_neq; exact H1).
      rewrite look_rename_other by assumption. apply Hs1. exact H3. }
    { intros q H1 H2 H3. unfold lk, f2. cbn [fs with_fs].
      assert (Hfq : is_pfx fp q = false).
      { destruct (is_pfx fp q) eqn:E; [|reflexivity]. exfalso.
        assert (X : is_pfx fp outp = true).
        { eapply is_pfx_trans; [exact E|]. eapply is_pfx_trans; [exact H1|apply is_pfx_app]. }
        congruence. }
      assert (Hoq : is_pfx outp q = false).
      { destruct (is_pfx outp q) eqn:E; [|reflexivity]. exfalso.
        assert (X : is_pfx outp (ps ++ outrel) = true) by (eapply is_pfx_trans; eassumption).
        unfold outp in X. rewrite pfx_longer_false in X. discriminate. }
      rewrite look_set_other by (apply is_pfx_false_neq; exact Hfq).
      rewrite look_rename_other by assumption. apply Hd; assumption. }
  Qed.

  (* a null value stays null whatever the type; nothing is touched *)
  Lemma move_val_null_lemma : forall t key on outrel s,
    move_val ps t key on outrel JNull s = (JNull, s).
  Proof. intros. destruct t; reflexivity. Qed.

  (* a file that does not exist (the stage did not create it), and the empty
     string, become null; nothing is touched *)
  Lemma move_file_missing_lemma : forall outrel fname fp s,
    fp <> [] -> clean_path fp -> through_link s fp = false -> lk s fp = None ->
    lk s ((ps ++ outrel) ++ [fname]) = None ->
    move_file ps outrel fname (JStr (render fp)) s = (JNull, s).
  Proof.
    intros outrel fname fp s Hne Hc Hthru Hlk Hout. unfold move_file.
    destruct (render_nonempty fp Hne) as (b & r & Er).
    rewrite Er. rewrite <- Er. rewrite (parse_render fp Hne Hc). rewrite Hthru. rewrite Hlk, Hout. reflexivity.
  Qed.

  (* a file that is missing because an interrupted run already moved it to
     its place under outs/ (and was killed before linking it back): the link
     is made, the value names the place under outs/, nothing else changes *)
  Lemma move_file_resumes_lemma : forall outrel fname fp s n,
    fp <> [] -> clean_path fp -> through_link s fp = false -> lk s fp = None ->
    lk s ((ps ++ outrel) ++ [fname]) = Some n ->
    lk s (dirname fp) = Some NDir ->
    let outp := (ps ++ outrel) ++ [fname] in
    move_file ps outrel fname (JStr (render fp)) s =
    (JStr (render outp), with_fs s (fs_set fp (NLink (rel_path (dirname fp) outp)) (fs s))).
  Proof.
    intros outrel fname fp s n Hne Hc Hthru Hlk Hout Hdir outp. unfold move_file.
    destruct (render_nonempty fp Hne) as (b & r & Er).
    rewrite Er. rewrite <- Er. rewrite (parse_render fp Hne Hc). rewrite Hthru. rewrite Hlk.
    fold outp. unfold outp. rewrite Hout, Hdir. reflexivity.
  Qed.

  Lemma move_file_empty_lemma : forall outrel fname s,
    move_file ps outrel fname (JStr []) s = (JNull, s).
  Proof. reflexivity. Qed.
End Leaf.

(* a directory named with a trailing separator is treated exactly like the
   directory: same effect on the file system, and the same rewritten value
   unless the value is left as it was *)
Section LeafSlash.
  Variable ps : path.

  Ltac crush_pair :=
    repeat first
      [ progress cbn [fst snd]
      | match goal with
        | |- context [let (_, _) := ?x in _] => destruct x
        | |- context [if ?b then _ else _] => destruct b
        | |- context [match ?x with _ => _ end] => destruct x
        end ];
    try (split; [reflexivity | first [left; reflexivity | right; split; reflexivity]]).

  Lemma move_file_trailing_slash_lemma : forall outrel fname fp s,
    fp <> [] -> clean_path fp ->
    let v0 := JStr (render fp) in
    let v1 := JStr (render fp ++ [c_slash]) in
    snd (move_file ps outrel fname v1 s) = snd (move_file ps outrel fname v0 s) /\
    (fst (move_file ps outrel fname v1 s) = fst (move_file ps outrel fname v0 s) \/
     fst (move_file ps outrel fname v1 s) = v1 /\ fst (move_file ps outrel fname v0 s) = v0).
  Proof.
    intros outrel fname fp s Hne Hc v0 v1. subst v0 v1. unfold move_file.
    destruct (render_nonempty fp Hne) as (b & r & Er).
    rewrite Er. cbn [app]. change (b :: r ++ [c_slash]) with ((b :: r) ++ [c_slash]).
    rewrite <- Er. rewrite (parse_render fp Hne Hc), (parse_render_slash fp Hne Hc).
    unfold copy_symlink.
    crush_pair.
  Qed.
End LeafSlash.

(* ------------------------------------------------------------ names *)

Lemma nodup_bytes_NoDup : forall l, nodup_bytes l = true -> NoDup l.
Proof.
  induction l as [|x l IH]; intro H; [constructor|].
  cbn [nodup_bytes] in H. apply andb_prop in H. destruct H as [H1 H2].
  constructor; [|apply IH; exact H2].
  intro Hin. apply negb_true_iff in H1.
  assert (X : existsb (bytes_eqb x) l = true).
  { apply existsb_exists. exists x. split; [exact Hin|apply bytes_eqb_refl]. }
  congruence.
Qed.

(* what StructType.compile checks makes the entries of one directory under
   outs/ pairwise different *)
Lemma names_distinct_lemma : forall ms,
  names_distinct ms = true -> NoDup (map m_id ms) /\ NoDup (member_names ms).
Proof.
  intros ms H. unfold names_distinct in H. apply andb_prop in H. destruct H as [H1 H2].
  split; apply nodup_bytes_NoDup; assumption.
Qed.

(* typed-map entries: different keys give different names *)
Lemma map_entry_names_injective : forall e k1 k2,
  is_fd (kind_of e) = true ->
  out_filename k1 e [] = out_filename k2 e [] -> k1 = k2.
Proof.
  intros e k1 k2 Hfd H. unfold out_filename in H. rewrite Hfd in H. cbn [negb] in H.
  destruct e as [k|[ext|]|e'|e'|ms]; try exact H.
  apply app_inv_tail in H. exact H.
Qed.

(* ------------------------------------------------------------ shape *)

Lemma map_fst_insert_sorted {A} (x : bytes * A) : forall l,
  map fst (insert_sorted (fun a b => bytes_leb (fst a) (fst b)) x l)
  = insert_sorted bytes_leb (fst x) (map fst l).
Proof.
  induction l as [|y l IH]; [reflexivity|].
  cbn [insert_sorted map]. destruct (bytes_leb (fst x) (fst y)); cbn [map]; [reflexivity|].
  rewrite IH. reflexivity.
Qed.

Lemma map_fst_isort {A} : forall (l : list (bytes * A)),
  map fst (isort (fun a b => bytes_leb (fst a) (fst b)) l) = isort bytes_leb (map fst l).
Proof.
  induction l as [|x l IH]; [reflexivity|].
  unfold isort in *. cbn [fold_right map]. rewrite map_fst_insert_sorted, IH. reflexivity.
Qed.

Section Shape.
  Variable ps : path.

  Lemma run_indexed_length : forall outrel f width l i s,
    length (fst (run_indexed outrel f width i l s)) = length l.
  Proof.
    induction l as [|v l IH]; intros i s; [reflexivity|].
    cbn [run_indexed]. destruct (f (pad_dec width i) outrel v s) as [v' s1].
    specialize (IH (i + 1) s1). destruct (run_indexed outrel f width (i + 1) l s1) as [rest s2].
    cbn [fst length] in *. rewrite IH. reflexivity.
  Qed.

  Lemma run_keyed_keys : forall outrel l s,
    map fst (fst (run_keyed outrel l s)) = map (fun x => fst (fst x)) l.
  Proof.
    induction l as [|[[k f] v] l IH]; intros s; [reflexivity|].
    cbn [run_keyed]. destruct (f outrel v s) as [v' s1].
    specialize (IH s1). destruct (run_keyed outrel l s1) as [rest s2].
    cbn [fst map] in *. rewrite IH. reflexivity.
  Qed.

  (* values whose type holds no file are returned as they are *)
  Lemma move_val_plain_lemma : forall t key on outrel v s,
    is_fd (kind_of t) = false -> move_val ps t key on outrel v s = (v, s).
  Proof.
    intros t key on outrel v s H.
    destruct t; cbn [move_val]; (destruct (is_null v) eqn:En;
      [destruct v; try discriminate; reflexivity|]);
      destruct (kind_of _) eqn:Ek; try reflexivity; cbn [is_fd] in H; discriminate.
  Qed.

  (* a file-typed leaf stays a leaf: null, the value it was, or a path string *)
  Lemma move_file_leaf_lemma : forall outrel fname v s,
    let v' := fst (move_file ps outrel fname v s) in
    v' = JNull \/ v' = v \/ exists p, v' = JStr p.
  Proof.
    intros outrel fname v s. unfold move_file.
    destruct v as [| | |str| |]; try (right; left; reflexivity).
    destruct str as [|b r]; [left; reflexivity|].
    destruct (parse_abs (b :: r)) as [fp|]; [|right; left; reflexivity].
    destruct (through_link s fp); [right; left; reflexivity|].
    assert (Hbody :
      let v' := fst (let outdir := ps ++ outrel in
         let outp := outdir ++ [fname] in
         if negb (inside ps fp) then
           let (s1, ok) := mkdirall ps outrel s in
           if ok then (JStr (b :: r), do_symlink outp (render fp) s1) else (JStr (b :: r), s1)
         else if stat_ok stat_fuel s outp then (JStr (b :: r), s)
         else
           let (s1, ok) := mkdirall ps outrel s in
           if negb ok then (JStr (b :: r), set_unm s1)
           else if is_pfx fp outp then (JStr (b :: r), set_err s1)
           else match lk s1 outp with
                | Some _ => (JStr (b :: r), set_unm s1)
                | None =>
                    let f1 := fs_rename fp outp (fs s1) in
                    let f2 := fs_set fp (NLink (rel_path (dirname fp) outp)) f1 in
                    (JStr (render outp), with_fs s1 f2)
                end) in
      v' = JNull \/ v' = JStr (b :: r) \/ exists p, v' = JStr p).
    { cbv zeta.
      destruct (negb (inside ps fp)).
      { destruct (mkdirall ps outrel s) as [s1 ok]. destruct ok; right; left; reflexivity. }
      destruct (stat_ok stat_fuel s _); [right; left; reflexivity|].
      destruct (mkdirall ps outrel s) as [s1 ok].
      destruct (negb ok); [right; left; reflexivity|].
      destruct (is_pfx fp _); [right; left; reflexivity|].
      destruct (lk s1 _); [right; left; reflexivity|].
      right; right. eexists. reflexivity. }
    destruct (lk s fp) as [n|];
      [|destruct (lk s ((ps ++ outrel) ++ [fname])); [|left; reflexivity];
        destruct (lk s (dirname fp)) as [[c| |tgt]|]; cbn [fst];
        try (left; reflexivity); right; right; eexists; reflexivity].
    destruct n as [c| |tgt]; [exact Hbody|exact Hbody|].
    destruct (mkdirall ps outrel s) as [s1 ok]. destruct ok; [|right; left; reflexivity].
    unfold copy_symlink.
    destruct (negb (inside ps fp)); [right; left; reflexivity|].
    destruct (stat_ok stat_fuel s1 _); [right; right; eexists; reflexivity|].
    destruct (is_abs tgt); [right; right; eexists; reflexivity|].
    destruct (chase chase_fuel s1 None _) as [[[q|] ap]|];
      [right; right; eexists; reflexivity|right; right; eexists; reflexivity|right; left; reflexivity].
  Qed.

  (* arrays keep their length *)
  Lemma move_val_array_lemma : forall e key on outrel l s,
    exists l', fst (move_val ps (TArr e) key on outrel (JArr l) s) = JArr l'
               /\ length l' = length l.
  Proof.
    intros e key on outrel l s. cbn [move_val is_null].
    destruct (kind_of (TArr e)); try (exists l; split; reflexivity).
    destruct l as [|x l]; [exists []; split; reflexivity|].
      pose proof (run_indexed_length (outrel ++ [out_filename key (TArr e) on])
                   (fun k => move_val ps e k []) (width_for (N.of_nat (length (x :: l)))) (x :: l) 0 s) as H.
      destruct (run_indexed _ _ _ 0 (x :: l) s) as [l' s'].
      exists l'. split; [reflexivity|exact H].
  Qed.

  (* typed maps keep exactly their keys (sorted) *)
  Lemma move_val_map_lemma : forall e key on outrel kvs s,
    kind_of (TMap e) = KDir ->
    exists o, fst (move_val ps (TMap e) key on outrel (JObj kvs) s) = JObj o
              /\ map fst o = isort bytes_leb (map fst (dedup_last kvs)).
  Proof.
    intros e key on outrel kvs s Hk. cbn [move_val is_null]. rewrite Hk.
    destruct (dedup_last kvs) as [|kv m] eqn:Em; [exists []; split; reflexivity|].
    set (keys := isort bytes_leb (map fst (kv :: m))).
    pose proof (run_keyed_keys (outrel ++ [out_filename key (TMap e) on])
      (map (fun k => (k, (if legal_name k then move_val ps e k [] else keep), get_or_null k (kv :: m))) keys) s) as H.
    destruct (run_keyed _ _ s) as [o s'].
    exists o. split; [reflexivity|].
    cbn [fst] in H. rewrite H. rewrite map_map. cbn [fst]. apply map_id.
  Qed.

  (* structs: exactly the declared members (sorted by name), or the empty
     object when the value was the empty object *)
  Lemma move_val_struct_lemma : forall ms key on outrel kvs s,
    kind_of (TStruct ms) = KDir ->
    exists o, fst (move_val ps (TStruct ms) key on outrel (JObj kvs) s) = JObj o
              /\ ((dedup_last kvs = [] /\ o = [])
                  \/ map fst o = isort bytes_leb (map m_id ms)).
  Proof.
    intros ms key on outrel kvs s Hk. cbn [move_val is_null]. rewrite Hk.
    destruct (dedup_last kvs) as [|kv m] eqn:Em; [exists []; split; [reflexivity|left; split; reflexivity]|].
    match goal with |- context [isort _ ?mv] => set (movers := mv) end.
    assert (Hmv : map fst movers = map m_id ms).
    { unfold movers. clear. induction ms as [|mm r IH]; [reflexivity|].
      cbn [map]. unfold m_id at 1. f_equal. exact IH. }
    set (sorted := isort (fun a b => bytes_leb (fst a) (fst b)) movers).
    pose proof (run_keyed_keys (outrel ++ [out_filename key (TStruct ms) on])
      (map (fun kf => (fst kf, snd kf, get_or_null (fst kf) (kv :: m))) sorted) s) as H.
    destruct (run_keyed _ _ s) as [o s'].
    exists o. split; [reflexivity|]. right.
    cbn [fst] in H. rewrite H. rewrite map_map. cbn [fst].
    unfold sorted. rewrite map_fst_isort. rewrite Hmv. reflexivity.
  Qed.

  (* top level: a parameter keeps its key iff it had a value *)
  Lemma handle_outs_keys : forall params m outrel s,
    map fst (fst (handle_outs ps params m outrel s))
    = map m_id (filter (fun p => match assoc_get (m_id p) m with Some _ => true | None => false end) params).
  Proof.
    induction params as [|p r IH]; intros m outrel s; [reflexivity|].
    cbn [handle_outs filter]. destruct (assoc_get (m_id p) m) as [v|]; [|apply IH].
    destruct (if is_fd (kind_of (m_ty p)) then _ else _) as [v' s1].
    specialize (IH m outrel s1). destruct (handle_outs ps r m outrel s1) as [rest s2].
    cbn [fst map] in *. rewrite IH. reflexivity.
  Qed.
End Shape.
