(* Proofs about the VDR bookkeeping model Mro/Vdr.v (properties C04, C14). *)
From Coq Require Import Permutation.
From Martian Require Import Lib.Bytes Mro.Vdr.
Local Open Scope N_scope.

(* ------------------------------------------------------------------ basics *)
Lemma memN_In : forall x l, memN x l = true <-> In x l.
Proof.
  intros x l. unfold memN. rewrite existsb_exists. split.
  - intros [y [Hy He]]. apply N.eqb_eq in He. subst. exact Hy.
  - intros H. exists x. split; [exact H | apply N.eqb_refl].
Qed.

Lemma memN_false : forall x l, memN x l = false <-> ~ In x l.
Proof.
  intros x l. rewrite <- memN_In. destruct (memN x l); intuition congruence.
Qed.

Lemma holder_eqb_eq : forall a b, holder_eqb a b = true <-> a = b.
Proof.
  intros [x|] [y|]; cbn; split; intros H; try congruence.
  - apply N.eqb_eq in H. subst. reflexivity.
  - inversion H. apply N.eqb_refl.
Qed.

Lemma mem_fa_In : forall a h fa, mem_fa a h fa = true <-> In (a, h) fa.
Proof.
  intros a h fa. unfold mem_fa. rewrite existsb_exists. split.
  - intros [[a' h'] [Hi He]]. cbn in He. apply andb_true_iff in He. destruct He as [H1 H2].
    apply N.eqb_eq in H1. apply holder_eqb_eq in H2. subst. exact Hi.
  - intros H. exists (a, h). split; [exact H|]. cbn. rewrite N.eqb_refl. cbn.
    apply holder_eqb_eq. reflexivity.
Qed.

Lemma mem_fp_In : forall n a fp, mem_fp n a fp = true <-> In (n, a) fp.
Proof.
  intros n a fp. unfold mem_fp. rewrite existsb_exists. split.
  - intros [[n' a'] [Hi He]]. cbn in He. apply andb_true_iff in He. destruct He as [H1 H2].
    apply N.eqb_eq in H1. apply N.eqb_eq in H2. subst. exact Hi.
  - intros H. exists (n, a). split; [exact H|]. cbn. rewrite !N.eqb_refl. reflexivity.
Qed.

Lemma has_key_In : forall a (B : Type) (m : list (N * B)), has_key a m = true <-> exists b, In (a, b) m.
Proof.
  intros a B m. unfold has_key. rewrite existsb_exists. split.
  - intros [[a' b] [Hi He]]. cbn in He. apply N.eqb_eq in He. subst. exists b. exact Hi.
  - intros [b H]. exists (a, b). split; [exact H|]. cbn. apply N.eqb_refl.
Qed.

Lemma is_nil_true : forall A (l : list A), is_nil l = true <-> l = [].
Proof. intros A [|x l]; cbn; split; congruence. Qed.

(* ------------------------------------------------------------------ the two book primitives *)
Lemma rfa_fa : forall a0 fa fp a h,
  In (a, h) (fst (remove_file_arg a0 (fa, fp))) <-> In (a, h) fa /\ a <> a0.
Proof.
  intros a0 fa fp a h. cbn. rewrite filter_In. cbn. split.
  - intros [H1 H2]. split; [exact H1|]. intros ->. rewrite N.eqb_refl in H2. discriminate.
  - intros [H1 H2]. split; [exact H1|]. destruct (N.eqb a0 a) eqn:E; [|reflexivity].
    apply N.eqb_eq in E. congruence.
Qed.

Lemma rfa_fp : forall a0 fa fp n a,
  In (n, a) (snd (remove_file_arg a0 (fa, fp))) <-> In (n, a) fp /\ ~ (a = a0 /\ In (a0, Some n) fa).
Proof.
  intros a0 fa fp n a. cbn. rewrite filter_In. cbn. split.
  - intros [H1 H2]. split; [exact H1|]. intros [-> Hin]. rewrite N.eqb_refl in H2.
    apply mem_fa_In in Hin. rewrite Hin in H2. discriminate.
  - intros [H1 H2]. split; [exact H1|]. apply negb_true_iff. apply andb_false_iff.
    destruct (N.eqb a0 a) eqn:E; [right | left; reflexivity].
    apply N.eqb_eq in E. subst. destruct (mem_fa a (Some n) fa) eqn:M; [|reflexivity].
    exfalso. apply H2. split; [reflexivity|]. apply mem_fa_In. exact M.
Qed.

Lemma rpn_fa : forall n0 fa fp a h,
  In (a, h) (fst (remove_post_node n0 (fa, fp))) <-> In (a, h) fa /\ ~ (h = Some n0 /\ In (n0, a) fp).
Proof.
  intros n0 fa fp a h. cbn. rewrite filter_In. cbn. split.
  - intros [H1 H2]. split; [exact H1|]. intros [-> Hin].
    assert (E : holder_eqb (Some n0) (Some n0) = true) by (apply holder_eqb_eq; reflexivity).
    rewrite E in H2. apply mem_fp_In in Hin. rewrite Hin in H2. discriminate.
  - intros [H1 H2]. split; [exact H1|]. apply negb_true_iff. apply andb_false_iff.
    destruct (holder_eqb h (Some n0)) eqn:E; [right | left; reflexivity].
    apply holder_eqb_eq in E. subst. destruct (mem_fp n0 a fp) eqn:M; [|reflexivity].
    exfalso. apply H2. split; [reflexivity|]. apply mem_fp_In. exact M.
Qed.

Lemma rpn_fp : forall n0 fa fp n a,
  In (n, a) (snd (remove_post_node n0 (fa, fp))) <-> In (n, a) fp /\ n <> n0.
Proof.
  intros n0 fa fp n a. cbn. rewrite filter_In. cbn. split.
  - intros [H1 H2]. split; [exact H1|]. intros ->. rewrite N.eqb_refl in H2. discriminate.
  - intros [H1 H2]. split; [exact H1|]. destruct (N.eqb n0 n) eqn:E; [|reflexivity].
    apply N.eqb_eq in E. congruence.
Qed.

(* books_consistent: a node holds an argument iff the argument is in the node's set *)
Definition consistent (fa : fargs) (fp : fpost) : Prop :=
  forall n a, In (a, Some n) fa <-> In (n, a) fp.

Lemma consistentb_spec : forall fa fp, consistentb fa fp = true -> consistent fa fp.
Proof.
  intros fa fp H. unfold consistentb in H. apply andb_true_iff in H. destruct H as [H1 H2].
  rewrite forallb_forall in H1, H2. intros n a. split; intros Hin.
  - specialize (H1 _ Hin). cbn in H1. apply mem_fp_In. exact H1.
  - specialize (H2 _ Hin). cbn in H2. apply mem_fa_In. exact H2.
Qed.

Lemma remove_file_arg_consistent : forall a0 st,
  consistent (fst st) (snd st) ->
  consistent (fst (remove_file_arg a0 st)) (snd (remove_file_arg a0 st)).
Proof.
  intros a0 [fa fp] H n a. cbn [fst snd] in H. rewrite rfa_fa, rfa_fp. split.
  - intros [H1 H2]. split; [apply H; exact H1|]. intros [E _]. congruence.
  - intros [H1 H2]. split; [apply H; exact H1|]. intros ->. apply H2. split; [reflexivity|].
    apply H. exact H1.
Qed.

Lemma remove_post_node_consistent : forall n0 st,
  consistent (fst st) (snd st) ->
  consistent (fst (remove_post_node n0 st)) (snd (remove_post_node n0 st)).
Proof.
  intros n0 [fa fp] H n a. cbn [fst snd] in H. rewrite rpn_fa, rpn_fp. split.
  - intros [H1 H2]. split; [apply H; exact H1|]. intros ->. apply H2. split; [reflexivity|].
    apply H. exact H1.
  - intros [H1 H2]. split; [apply H; exact H1|]. intros [E _]. congruence.
Qed.

Lemma remove_file_args_consistent : forall l st,
  consistent (fst st) (snd st) ->
  consistent (fst (remove_file_args l st)) (snd (remove_file_args l st)).
Proof.
  induction l as [|a l IH]; intros st H; [exact H|]. cbn. apply IH.
  apply remove_file_arg_consistent. exact H.
Qed.

Lemma remove_post_nodes_consistent : forall l st,
  consistent (fst st) (snd st) ->
  consistent (fst (remove_post_nodes l st)) (snd (remove_post_nodes l st)).
Proof.
  induction l as [|a l IH]; intros st H; [exact H|]. cbn. apply IH.
  apply remove_post_node_consistent. exact H.
Qed.

(* the same for arbitrary pairs *)
Lemma rfa_fa' : forall a0 st a h,
  In (a, h) (fst (remove_file_arg a0 st)) <-> In (a, h) (fst st) /\ a <> a0.
Proof. intros a0 [fa fp]. apply rfa_fa. Qed.
Lemma rfa_fp' : forall a0 st n a,
  In (n, a) (snd (remove_file_arg a0 st)) <-> In (n, a) (snd st) /\ ~ (a = a0 /\ In (a0, Some n) (fst st)).
Proof. intros a0 [fa fp]. apply rfa_fp. Qed.
Lemma rpn_fa' : forall n0 st a h,
  In (a, h) (fst (remove_post_node n0 st)) <-> In (a, h) (fst st) /\ ~ (h = Some n0 /\ In (n0, a) (snd st)).
Proof. intros n0 [fa fp]. apply rpn_fa. Qed.
Lemma rpn_fp' : forall n0 st n a,
  In (n, a) (snd (remove_post_node n0 st)) <-> In (n, a) (snd st) /\ n <> n0.
Proof. intros n0 [fa fp]. apply rpn_fp. Qed.

(* what the folds do to the holder pairs *)
Lemma remove_file_args_fa : forall l st a h,
  In (a, h) (fst (remove_file_args l st)) <-> In (a, h) (fst st) /\ ~ In a l.
Proof.
  unfold remove_file_args. induction l as [|a0 l IH]; intros st a h; cbn [fold_left].
  - cbn. tauto.
  - rewrite IH, rfa_fa'. cbn. intuition congruence.
Qed.

Lemma remove_file_args_fp_incl : forall l st n a,
  In (n, a) (snd (remove_file_args l st)) -> In (n, a) (snd st).
Proof.
  unfold remove_file_args. induction l as [|a0 l IH]; intros st n a H; cbn [fold_left] in H; [exact H|].
  apply IH in H. apply rfa_fp' in H. tauto.
Qed.

Lemma remove_post_nodes_fa_incl : forall l st a h,
  In (a, h) (fst (remove_post_nodes l st)) -> In (a, h) (fst st).
Proof.
  unfold remove_post_nodes. induction l as [|n0 l IH]; intros st a h H; cbn [fold_left] in H; [exact H|].
  apply IH in H. apply rpn_fa' in H. tauto.
Qed.

Lemma remove_post_nodes_fa_keep : forall l st a h,
  In (a, h) (fst st) -> (forall n, h = Some n -> ~ In n l) ->
  In (a, h) (fst (remove_post_nodes l st)).
Proof.
  unfold remove_post_nodes. induction l as [|n0 l IH]; intros st a h H Hn; cbn [fold_left]; [exact H|].
  apply IH.
  - apply rpn_fa'. split; [exact H|]. intros [-> _]. apply (Hn n0 eq_refl). left. reflexivity.
  - intros n E Hi. apply (Hn n E). right. exact Hi.
Qed.

Lemma remove_post_nodes_fp : forall l st n a,
  In (n, a) (snd (remove_post_nodes l st)) <-> In (n, a) (snd st) /\ ~ In n l.
Proof.
  unfold remove_post_nodes. induction l as [|n0 l IH]; intros st n a; cbn [fold_left].
  - cbn. tauto.
  - rewrite IH, rpn_fp'. cbn. intuition congruence.
Qed.

(* ------------------------------------------------------------------ well-formedness *)
Record wf (k : fork) : Prop := {
  wf_nodup : NoDup (map f_path (files0 k));
  wf_tmp : forall f, In f (files0 k) -> is_tmp (f_own f) = true -> f_names f = [];
  wf_chunk : k_split k = true -> forall f, In f (files0 k) -> f_own f = ChunkFiles -> f_names f = [];
  wf_nosplit : k_split k = false -> forall f, In f (files0 k) -> f_own f <> SplitTmp;
  wf_valued : forall f a, In f (files0 k) -> In a (f_names f) -> In a (valued k);
  wf_init : consistent (init_fa k) (init_fp k)
}.

Lemma nodupb_NoDup : forall l, nodupb l = true -> NoDup l.
Proof.
  induction l as [|x l IH]; cbn; intros H; [constructor|].
  apply andb_true_iff in H. destruct H as [H1 H2]. constructor.
  - apply negb_true_iff in H1. apply memN_false in H1. exact H1.
  - apply IH. exact H2.
Qed.

Lemma owner_eqb_eq : forall a b, owner_eqb a b = true <-> a = b.
Proof. intros [] []; cbn; split; intros H; congruence. Qed.

Lemma files_ok_spec : forall sp files vals, files_ok sp files vals = true ->
  NoDup (map f_path files) /\
  (forall f, In f files -> is_tmp (f_own f) = true -> f_names f = []) /\
  (sp = true -> forall f, In f files -> f_own f = ChunkFiles -> f_names f = []) /\
  (sp = false -> forall f, In f files -> f_own f <> SplitTmp) /\
  (forall f a, In f files -> In a (f_names f) -> In a vals).
Proof.
  intros sp files vals H. unfold files_ok in H. apply andb_true_iff in H. destruct H as [H1 H2].
  rewrite forallb_forall in H2. split; [apply nodupb_NoDup; exact H1|].
  split; [|split; [|split]].
  - intros f Hf Ht. specialize (H2 f Hf). rewrite !andb_true_iff in H2. destruct H2 as [[[A _] _] _].
    rewrite Ht in A. apply is_nil_true. exact A.
  - intros -> f Hf Ho. specialize (H2 f Hf). rewrite !andb_true_iff in H2. destruct H2 as [[[_ A] _] _].
    rewrite Ho in A. cbn in A. apply is_nil_true. exact A.
  - intros -> f Hf Ho. specialize (H2 f Hf). rewrite !andb_true_iff in H2. destruct H2 as [[[_ _] A] _].
    rewrite Ho in A. cbn in A. discriminate.
  - intros f a Hf Ha. specialize (H2 f Hf). rewrite !andb_true_iff in H2. destruct H2 as [_ A].
    rewrite forallb_forall in A. apply memN_In. apply A. exact Ha.
Qed.

Lemma static_ok_wf : forall k, static_ok k = true -> wf k.
Proof.
  intros k H. unfold static_ok in H. apply andb_true_iff in H. destruct H as [H1 H2].
  apply files_ok_spec in H1. destruct H1 as [A [B [C [D E]]]].
  constructor; auto. apply consistentb_spec. exact H2.
Qed.

Lemma same_path_eq : forall (l : list file) f g,
  NoDup (map f_path l) -> In f l -> In g l -> f_path f = f_path g -> f = g.
Proof.
  induction l as [|x l IH]; intros f g Hn Hf Hg He; [contradiction|].
  cbn in Hn. inversion Hn as [|? ? Hx Hl]; subst. destruct Hf as [->|Hf], Hg as [->|Hg].
  - reflexivity.
  - exfalso. apply Hx. rewrite He. apply in_map. exact Hg.
  - exfalso. apply Hx. rewrite <- He. apply in_map. exact Hf.
  - apply IH; assumption.
Qed.

(* ------------------------------------------------------------------ the invariant *)
Definition needed (k : fork) (dn : list node) (a : arg) (h : holder) : Prop :=
  In (a, h) (init_fa k) /\ match h with None => True | Some n => ~ In n dn end.

Record inv (dn : list node) (k : fork) : Prop := {
  i_wf : wf k;
  i_cons : consistent (fa k) (fp k);
  i_sub : forall a h, In (a, h) (fa k) -> In (a, h) (init_fa k);
  i_disk : forall f, In f (disk k) -> In f (files0 k);
  i_rem : forall f, In f (removed k) -> In f (files0 k);
  i_part : forall f, In f (files0 k) -> In f (disk k) \/ In f (removed k);
  i_disj : forall f g, In f (disk k) -> In g (removed k) -> f_path f <> f_path g;
  i_keep : forall a h f, needed k dn a h -> In f (files0 k) -> In a (f_names f) -> In (a, h) (fa k);
  i_safe : forall f a h, In f (removed k) -> In a (f_names f) -> ~ needed k dn a h;
  i_fpm : forall es, fpm k = Some es -> final k = None ->
            (forall f args, In (f, args) es ->
               In f (disk k) /\ is_tmp (f_own f) = false /\
               (forall a, In a (f_names f) -> has_key a (fa k) = true -> In a args)) /\
            (forall f a1 a2, In (f, a1) es -> In (f, a2) es -> a1 = a2)
}.

Ltac proj := cbn [k_split k_vol k_sv k_decl files0 valued init_fa init_fp fa fp fpm disk removed
                  partial final ph set_books set_fpm set_disk set_reports set_ph fst snd] in *.

Lemma wf_ext : forall k k',
  files0 k' = files0 k -> valued k' = valued k -> k_split k' = k_split k ->
  init_fa k' = init_fa k -> init_fp k' = init_fp k -> wf k -> wf k'.
Proof.
  intros k k' E1 E2 E3 E4 E5 W. destruct W. constructor; rewrite ?E1, ?E2, ?E3, ?E4, ?E5; assumption.
Qed.

Ltac inv_fields I :=
  destruct I; constructor; unfold needed in *; proj;
  [ eapply wf_ext; [| | | | |eassumption]; reflexivity | .. ]; auto.

Lemma has_key_incl : forall a (fa fa' : fargs),
  (forall x h, In (x, h) fa' -> In (x, h) fa) -> has_key a fa' = true -> has_key a fa = true.
Proof.
  intros a fa fa' H K. apply has_key_In in K. destruct K as [h K]. apply has_key_In. exists h. apply H. exact K.
Qed.

(* books shrink: pairs removed are not needed for any file *)
Lemma inv_set_books : forall dn k b,
  inv dn k ->
  consistent (fst b) (snd b) ->
  (forall a h, In (a, h) (fst b) -> In (a, h) (fa k)) ->
  (forall a h f, needed k dn a h -> In f (files0 k) -> In a (f_names f) -> In (a, h) (fa k) -> In (a, h) (fst b)) ->
  inv dn (set_books k b).
Proof.
  intros dn k b I Hc Hs Hk. inv_fields I.
  - intros a h f Hn Hf Ha. eapply Hk; eauto.
  - intros es He Hf. destruct (i_fpm0 es He Hf) as [A B]. split; [|exact B].
    intros f args Hin. destruct (A f args Hin) as [A1 [A2 A3]]. split; [exact A1|]. split; [exact A2|].
    intros a Ha Hkey. apply A3; [exact Ha|]. eapply has_key_incl; [|exact Hkey]. exact Hs.
Qed.

Lemma inv_rm_posts : forall dn k l,
  inv dn k -> (forall n, In n l -> In n dn) ->
  inv dn (set_books k (remove_post_nodes l (fa k, fp k))).
Proof.
  intros dn k l I Hl. apply inv_set_books; [exact I| | |].
  - apply remove_post_nodes_consistent. cbn. apply (i_cons _ _ I).
  - intros a h H. apply remove_post_nodes_fa_incl in H. exact H.
  - intros a h f [Hi Hn] Hf Ha Hin. apply remove_post_nodes_fa_keep; [exact Hin|].
    intros n -> Hc. apply Hn. apply Hl. exact Hc.
Qed.

Lemma inv_rm_args : forall dn k l,
  inv dn k ->
  (forall a h f, In a l -> needed k dn a h -> In f (files0 k) -> ~ In a (f_names f)) ->
  inv dn (set_books k (remove_file_args l (fa k, fp k))).
Proof.
  intros dn k l I Hl. apply inv_set_books; [exact I| | |].
  - apply remove_file_args_consistent. cbn. apply (i_cons _ _ I).
  - intros a h H. apply remove_file_args_fa in H. tauto.
  - intros a h f Hn Hf Ha Hin. apply remove_file_args_fa. split; [exact Hin|].
    intros Hc. exact (Hl a h f Hc Hn Hf Ha).
Qed.

Lemma dedupN_In : forall x l, In x (dedupN l) -> In x l.
Proof.
  induction l as [|y l IH]; cbn; intros H; [exact H|].
  destruct (memN y l); [right; apply IH; exact H|]. destruct H as [->|H]; [left; reflexivity | right; apply IH; exact H].
Qed.

Lemma inv_remove_empty : forall dn k, inv dn k -> inv dn (remove_empty k).
Proof.
  intros dn k I. unfold remove_empty. apply inv_rm_args; [exact I|].
  intros a h f Ha Hn Hf Hnames. apply filter_In in Ha. destruct Ha as [_ Ha].
  apply negb_true_iff in Ha. apply memN_false in Ha. apply Ha.
  eapply (wf_valued _ (i_wf _ _ I)); eauto.
Qed.

Lemma tmp_unnamed : forall dn k f a, inv dn k -> In f (files0 k) -> In a (f_names f) -> is_tmp (f_own f) = false.
Proof.
  intros dn k f a I Hf Ha. destruct (is_tmp (f_own f)) eqn:E; [|reflexivity].
  rewrite (wf_tmp _ (i_wf _ _ I) f Hf E) in Ha. contradiction.
Qed.

Lemma cache_entries_In : forall k f args,
  In (f, args) (cache_entries k) <->
  In f (disk k) /\ is_tmp (f_own f) = false /\ args = filter (fun a => has_key a (fa k)) (f_names f).
Proof.
  intros k f args. unfold cache_entries. rewrite in_map_iff. split.
  - intros [g [E Hg]]. inversion E; subst. apply filter_In in Hg. destruct Hg as [H1 H2].
    apply negb_true_iff in H2. auto.
  - intros [H1 [H2 ->]]. exists f. split; [reflexivity|]. apply filter_In. split; [exact H1|].
    apply negb_true_iff. exact H2.
Qed.

Lemma inv_set_fpm : forall dn k m,
  inv dn k ->
  (forall es, m = Some es -> final k = None ->
     (forall f args, In (f, args) es ->
        In f (disk k) /\ is_tmp (f_own f) = false /\
        (forall a, In a (f_names f) -> has_key a (fa k) = true -> In a args)) /\
     (forall f a1 a2, In (f, a1) es -> In (f, a2) es -> a1 = a2)) ->
  inv dn (set_fpm k m).
Proof. intros dn k m I H. inv_fields I. Qed.

Lemma inv_cache : forall dn k, inv dn k -> inv dn (cache k).
Proof.
  intros dn k I. unfold cache.
  set (es := cache_entries k).
  set (dead := filter (fun a => negb (named_in es a)) (dedupN (map fst (fa k)))).
  assert (I1 : inv dn (set_books k (remove_file_args dead (fa k, fp k)))).
  { apply inv_rm_args; [exact I|]. intros a h f Hd Hn Hf Ha.
    apply filter_In in Hd. destruct Hd as [_ Hd]. apply negb_true_iff in Hd.
    assert (Hdisk : In f (disk k)).
    { destruct (i_part _ _ I f Hf) as [D|R]; [exact D|]. exfalso. exact (i_safe _ _ I f a h R Ha Hn). }
    assert (Hin : In (a, h) (fa k)) by (eapply (i_keep _ _ I); eauto).
    assert (Hk : has_key a (fa k) = true) by (apply has_key_In; exists h; exact Hin).
    assert (named_in es a = true); [|congruence].
    unfold named_in. apply existsb_exists.
    exists (f, filter (fun a => has_key a (fa k)) (f_names f)). split.
    - apply cache_entries_In. split; [exact Hdisk|]. split; [|reflexivity]. eapply tmp_unnamed; eauto.
    - cbn. apply memN_In. apply filter_In. split; assumption. }
  apply inv_set_fpm; [exact I1|]. intros es' E _. inversion E; subst es'. clear E. split.
  - intros f args Hin. apply cache_entries_In in Hin. destruct Hin as [H1 [H2 ->]]. cbn.
    split; [exact H1|]. split; [exact H2|]. intros a Ha Hk. apply filter_In. split; [exact Ha|].
    eapply has_key_incl; [|exact Hk]. intros x h Hx. apply remove_file_args_fa in Hx. tauto.
  - intros f a1 a2 H1 H2. apply cache_entries_In in H1, H2. destruct H1 as [_ [_ ->]], H2 as [_ [_ ->]]. reflexivity.
Qed.

Lemma inv_update : forall dn k, inv dn k -> inv dn (update_cache k).
Proof.
  intros dn k I. unfold update_cache. destruct (fpm k) as [es|] eqn:E; [|exact I].
  apply inv_set_fpm; [exact I|]. intros es' E' Hf. inversion E'; subst es'. clear E'.
  destruct (i_fpm _ _ I es E Hf) as [A B]. split.
  - intros f args Hin. apply in_map_iff in Hin. destruct Hin as [[f0 a0] [Heq Hin]]. cbn in Heq.
    inversion Heq; subst. destruct (A f a0 Hin) as [A1 [A2 A3]]. split; [exact A1|]. split; [exact A2|].
    intros a Ha Hk. apply filter_In. split; [apply A3; assumption | exact Hk].
  - intros f a1 a2 H1 H2. apply in_map_iff in H1, H2.
    destruct H1 as [[f1 b1] [E1 H1]], H2 as [[f2 b2] [E2 H2]]. cbn in E1, E2. inversion E1; inversion E2; subst.
    rewrite (B f b1 b2 H1 H2). reflexivity.
Qed.

Lemma inv_set_reports : forall dn k p f, inv dn k -> (f = None -> final k = None) -> inv dn (set_reports k p f).
Proof.
  intros dn k p f I H. inv_fields I.
Qed.

Lemma inv_set_ph : forall dn k p, inv dn k -> inv dn (set_ph k p).
Proof. intros dn k p I. inv_fields I. Qed.

Lemma rm_paths_In : forall ps d f, In f (rm_paths ps d) <-> In f d /\ ~ In (f_path f) ps.
Proof.
  intros ps d f. unfold rm_paths. rewrite filter_In. rewrite negb_true_iff, memN_false. tauto.
Qed.
Lemma sel_paths_In : forall ps d f, In f (sel_paths ps d) <-> In f d /\ In (f_path f) ps.
Proof. intros ps d f. unfold sel_paths. rewrite filter_In, memN_In. tauto. Qed.

(* files leave the disk: allowed when nothing that names them is needed *)
Lemma inv_kill_disk : forall dn k ps,
  inv dn k ->
  (forall g a h, In g (disk k) -> In (f_path g) ps -> In a (f_names g) -> ~ needed k dn a h) ->
  (forall es, fpm k = Some es -> final k = None -> forall f args, In (f, args) es -> ~ In (f_path f) ps) ->
  inv dn (set_disk k (rm_paths ps (disk k)) (removed k ++ sel_paths ps (disk k))).
Proof.
  intros dn k ps I Hs Hf. inv_fields I.
  - intros f H. apply rm_paths_In in H. apply i_disk0. tauto.
  - intros f H. apply in_app_iff in H. destruct H as [H|H]; [auto|]. apply sel_paths_In in H. apply i_disk0. tauto.
  - intros f H. destruct (i_part0 f H) as [D|R].
    + destruct (memN (f_path f) ps) eqn:M.
      * right. apply in_app_iff. right. apply sel_paths_In. apply memN_In in M. tauto.
      * left. apply rm_paths_In. apply memN_false in M. tauto.
    + right. apply in_app_iff. left. exact R.
  - intros f g Hd Hr. apply rm_paths_In in Hd. destruct Hd as [Hd Hp]. apply in_app_iff in Hr. destruct Hr as [Hr|Hr].
    + apply i_disj0; assumption.
    + apply sel_paths_In in Hr. destruct Hr as [_ Hr]. intros E. apply Hp. rewrite E. exact Hr.
  - intros f a h Hr Ha. apply in_app_iff in Hr. destruct Hr as [Hr|Hr]; [eapply i_safe0; eauto|].
    apply sel_paths_In in Hr. destruct Hr as [H1 H2]. eapply Hs; eauto.
  - intros es He Hfin. destruct (i_fpm0 es He Hfin) as [A B]. split; [|exact B].
    intros f args Hin. destruct (A f args Hin) as [A1 [A2 A3]]. split; [|split; assumption].
    apply rm_paths_In. split; [exact A1|]. eapply Hf; eauto.
Qed.

Lemma inv_clean_temp : forall dn k o p,
  inv dn k -> is_tmp o = true -> inv dn (clean_temp o k p).
Proof.
  intros dn k o p I Ho. unfold clean_temp.
  set (kf := filter (fun f => owner_eqb (f_own f) o) (disk k)).
  apply inv_set_reports; [|cbn; auto].
  assert (Hkf : forall g, In g (disk k) -> In (f_path g) (map f_path kf) -> f_own g = o).
  { intros g Hg Hp. apply in_map_iff in Hp. destruct Hp as [g' [E Hg']]. apply filter_In in Hg'.
    destruct Hg' as [Hd Hown]. apply owner_eqb_eq in Hown.
    assert (Eg : g' = g); [|rewrite <- Eg; exact Hown].
    eapply same_path_eq; [apply (wf_nodup _ (i_wf _ _ I)) | | | exact E]; apply (i_disk _ _ I); assumption. }
  apply inv_kill_disk; [exact I| |].
  - intros g a h Hg Hp Ha. rewrite (wf_tmp _ (i_wf _ _ I) g) in Ha; [contradiction | apply (i_disk _ _ I); exact Hg|].
    rewrite (Hkf g Hg Hp). exact Ho.
  - intros es He Hfin f args Hin Hp. destruct (i_fpm _ _ I es He Hfin) as [A _].
    destruct (A f args Hin) as [A1 [A2 _]]. rewrite (Hkf f A1 Hp) in A2. congruence.
Qed.

(* ------------------------------------------------------------------ the kill steps *)
Lemma final_cache : forall k, final (cache k) = final k.
Proof. reflexivity. Qed.
Lemma final_update : forall k, final (update_cache k) = final k.
Proof. intros k. unfold update_cache. destruct (fpm k); reflexivity. Qed.

Definition refresh (k : fork) : fork :=
  match fpm k with None => cache k | Some _ => update_cache k end.

Lemma inv_refresh : forall dn k, inv dn k -> inv dn (refresh k).
Proof. intros dn k I. unfold refresh. destruct (fpm k); [apply inv_update | apply inv_cache]; exact I. Qed.
Lemma final_refresh : forall k, final (refresh k) = final k.
Proof. intros k. unfold refresh. destruct (fpm k); [apply final_update | apply final_cache]. Qed.

(* the disk change of vdrKillSome on a refreshed fork *)
Definition kill_entries (k : fork) : list (file * list arg) :=
  filter (fun e => is_nil (snd e)) (match fpm k with Some es => es | None => [] end).
Definition keep_entries (k : fork) : list (file * list arg) :=
  filter (fun e => negb (is_nil (snd e))) (match fpm k with Some es => es | None => [] end).
Definition kill_paths (k : fork) : list path := map f_path (map fst (kill_entries k)).
Definition killed_some (k : fork) : fork :=
  set_fpm (set_disk k (rm_paths (kill_paths k) (disk k)) (removed k ++ sel_paths (kill_paths k) (disk k)))
          (Some (keep_entries k)).

Lemma inv_killed_some : forall dn k, inv dn k -> final k = None -> inv dn (killed_some k).
Proof.
  intros dn k I Hfin. unfold killed_some.
  change (inv dn (set_disk (set_fpm k (Some (keep_entries k)))
                           (rm_paths (kill_paths k) (disk (set_fpm k (Some (keep_entries k)))))
                           (removed (set_fpm k (Some (keep_entries k))) ++
                            sel_paths (kill_paths k) (disk (set_fpm k (Some (keep_entries k))))))).
  destruct (fpm k) as [es|] eqn:E.
  2:{ (* nothing cached: nothing is killed *)
      assert (I2 : inv dn (set_fpm k (Some (keep_entries k)))).
      { apply inv_set_fpm; [exact I|]. intros es' E' _. unfold keep_entries in E'. rewrite E in E'.
        cbn in E'. inversion E'; subst. split; intros; contradiction. }
      apply inv_kill_disk; [exact I2| |]; unfold kill_paths, kill_entries; rewrite E; cbn; intros; try contradiction; auto. }
  destruct (i_fpm _ _ I es E Hfin) as [A B].
  assert (Hkp : forall g, In g (disk k) -> In (f_path g) (kill_paths k) -> In (g, []) es).
  { intros g Hg Hp. unfold kill_paths, kill_entries in Hp. rewrite E in Hp.
    apply in_map_iff in Hp. destruct Hp as [f [Ep Hf]]. apply in_map_iff in Hf. destruct Hf as [[f' args] [Ef He]].
    cbn in Ef. subst f'. apply filter_In in He. destruct He as [He Hn]. cbn in Hn. apply is_nil_true in Hn. subst args.
    destruct (A f [] He) as [A1 _].
    assert (f = g); [|subst; exact He].
    eapply same_path_eq; [apply (wf_nodup _ (i_wf _ _ I)) | | | exact Ep]; apply (i_disk _ _ I); assumption. }
  assert (I2 : inv dn (set_fpm k (Some (keep_entries k)))).
  { apply inv_set_fpm; [exact I|]. intros es' E' _. unfold keep_entries in E'. rewrite E in E'.
    inversion E'; subst es'. clear E'. split.
    - intros f args Hin. apply filter_In in Hin. destruct Hin as [Hin _]. apply A. exact Hin.
    - intros f a1 a2 H1 H2. apply filter_In in H1, H2. destruct H1 as [H1 _], H2 as [H2 _]. eapply B; eauto. }
  apply inv_kill_disk; [exact I2| |]; proj.
  - intros g a h Hg Hp Ha [Hi Hn]. assert (Hent := Hkp g Hg Hp).
    destruct (A g [] Hent) as [_ [_ A3]].
    assert (Hin : In (a, h) (fa k)).
    { eapply (i_keep _ _ I); [split; eassumption | apply (i_disk _ _ I); exact Hg | exact Ha]. }
    assert (Hk : has_key a (fa k) = true) by (apply has_key_In; exists h; exact Hin).
    exact (A3 a Ha Hk).
  - intros es' E' _ f args Hin Hp. inversion E'; subst es'. clear E'. unfold keep_entries in Hin. rewrite E in Hin.
    apply filter_In in Hin. destruct Hin as [Hin Hn]. cbn in Hn. destruct (A f args Hin) as [A1 _].
    assert (Hent := Hkp f A1 Hp). rewrite (B f args [] Hin Hent) in Hn. discriminate.
Qed.

Lemma kill_some_shape : forall m k d,
  let k1 := refresh k in
  fst (fst (kill_some m k d)) = k1 \/
  (exists r, fst (fst (kill_some m k d)) = set_reports k1 None (Some r)) \/
  (exists p f, fst (fst (kill_some m k d)) = set_reports (killed_some k1) p f /\ (f = None -> True)).
Proof.
  intros m k d. cbv zeta. unfold kill_some. fold (refresh k).
  destruct (mode_disabled m); [left; reflexivity|].
  destruct (is_nil (filter (fun e => is_nil (snd e)) match fpm (refresh k) with Some es => es | None => [] end)).
  - destruct d; [right; left; eexists; reflexivity | left; reflexivity].
  - right. right.
    destruct (is_nil (filter (fun e => negb (is_nil (snd e))) match fpm (refresh k) with Some es => es | None => [] end) || d
              || is_nil (fp (refresh k))); eexists; eexists; (split; [reflexivity | auto]).
Qed.

Lemma inv_kill_some : forall dn m k d, inv dn k -> final k = None -> inv dn (fst (fst (kill_some m k d))).
Proof.
  intros dn m k d I Hf.
  assert (I1 := inv_refresh dn k I). assert (F1 : final (refresh k) = None) by (rewrite final_refresh; exact Hf).
  destruct (kill_some_shape m k d) as [E|[[r E]|[p [f [E _]]]]]; rewrite E.
  - exact I1.
  - apply inv_set_reports; [exact I1|]. discriminate.
  - apply inv_set_reports; [apply inv_killed_some; assumption|]. intros _. exact F1.
Qed.

Lemma inv_full_kill : forall dn m k, inv dn k -> inv dn (fst (full_kill m k)).
Proof.
  intros dn m k I. unfold full_kill. destruct (mode_disabled m); [exact I|].
  destruct (final k) as [r|] eqn:Hf; [exact I|].
  destruct (is_volatile m k).
  - assert (H := inv_kill_some dn m k true I Hf). destruct (kill_some m k true) as [[k' r] b]. exact H.
  - cbn [fst].
    set (kf := if k_split k then filter (fun f => owner_eqb (f_own f) ChunkFiles) (disk k) else []).
    match goal with |- inv dn (set_reports (set_disk k ?d ?r) None (Some ?rep)) =>
      change (inv dn (set_disk (set_reports k None (Some rep)) d r)) end.
    assert (I2 : forall rep, inv dn (set_reports k None (Some rep))) by (intros; apply inv_set_reports; [exact I | discriminate]).
    match goal with |- inv dn (set_disk (set_reports k None (Some ?rep)) _ _) =>
      apply (inv_kill_disk dn (set_reports k None (Some rep)) (map f_path kf)); [apply I2| |]; proj end.
    + intros g a h Hg Hp Ha. exfalso. unfold kf in Hp. destruct (k_split k) eqn:Hs; [|contradiction].
      apply in_map_iff in Hp. destruct Hp as [g' [E Hg']]. apply filter_In in Hg'. destruct Hg' as [Hd Ho].
      apply owner_eqb_eq in Ho.
      assert (Eg : g' = g).
      { eapply same_path_eq; [apply (wf_nodup _ (i_wf _ _ I)) | | | exact E]; apply (i_disk _ _ I); assumption. }
      rewrite Eg in Ho. rewrite (wf_chunk _ (i_wf _ _ I) Hs g (i_disk _ _ I g Hg) Ho) in Ha. contradiction.
    + intros es _ Hn. discriminate.
Qed.

Lemma inv_partial_kill : forall dn m k, inv dn k -> inv dn (fst (fst (partial_kill m dn k))).
Proof.
  intros dn m k I. unfold partial_kill. destruct (final k) as [r|] eqn:Hf; [exact I|].
  set (k1 := if k_split k && negb (get_flag SplitTmp (partial k)) && phase_geb (ph k) PSplitDone
             then clean_temp SplitTmp k (partial k) else k).
  assert (I1 : inv dn k1 /\ final k1 = None).
  { unfold k1. destruct (k_split k && negb (get_flag SplitTmp (partial k)) && phase_geb (ph k) PSplitDone);
      [split; [apply inv_clean_temp; [exact I | reflexivity] | exact Hf] | split; assumption]. }
  destruct I1 as [I1 F1].
  set (k2 := if negb (get_flag ChunkTmp (partial k1)) && phase_geb (ph k1) PChunksDone
             then clean_temp ChunkTmp k1 (partial k1) else k1).
  assert (I2 : inv dn k2 /\ final k2 = None).
  { unfold k2. destruct (negb (get_flag ChunkTmp (partial k1)) && phase_geb (ph k1) PChunksDone);
      [split; [apply inv_clean_temp; [exact I1 | reflexivity] | exact F1] | split; assumption]. }
  destruct I2 as [I2 F2].
  set (k3 := if negb (get_flag JoinTmp (partial k2)) && phase_geb (ph k2) PJoinDone
             then clean_temp JoinTmp k2 (partial k2) else k2).
  assert (I3 : inv dn k3 /\ final k3 = None).
  { unfold k3. destruct (negb (get_flag JoinTmp (partial k2)) && phase_geb (ph k2) PJoinDone);
      [split; [apply inv_clean_temp; [exact I2 | reflexivity] | exact F2] | split; assumption]. }
  destruct I3 as [I3 F3].
  destruct (ph k3); try exact I3.
  set (dnl := filter (fun n => memN n dn) (dedupN (map fst (fp k3)))).
  set (k4 := set_books k3 (remove_post_nodes dnl (fa k3, fp k3))).
  assert (I4 : inv dn k4).
  { apply inv_rm_posts; [exact I3|]. intros n Hn. apply filter_In in Hn. destruct Hn as [_ Hn]. apply memN_In. exact Hn. }
  assert (F4 : final k4 = None) by exact F3.
  destruct (is_nil (fp k4)).
  - destruct (is_strict m k4).
    + apply inv_kill_some; assumption.
    + assert (H := inv_full_kill dn m k4 I4). destruct (full_kill m k4) as [k5 r5]. exact H.
  - destruct (is_strict m k4).
    + apply inv_kill_some; assumption.
    + exact I4.
Qed.

Lemma inv_advance : forall dn m k, inv dn k -> inv dn (advance m dn k).
Proof.
  intros dn m k I. unfold advance. destruct (ph k).
  - destruct (is_volatile m k).
    + apply inv_clean_temp; [apply inv_set_ph; exact I | reflexivity].
    + apply inv_set_ph; exact I.
  - apply inv_set_ph; exact I.
  - apply inv_set_ph; exact I.
  - destruct m; try (apply inv_remove_empty; apply inv_set_ph; exact I).
    apply inv_remove_empty. apply inv_set_ph. apply inv_partial_kill. apply inv_cache. exact I.
  - exact I.
Qed.

Lemma inv_restart : forall dn k, inv dn k -> inv dn (restart_fork k).
Proof.
  intros dn k I. unfold restart_fork. inv_fields I.
  - apply (wf_init _ i_wf0).
  - intros a h f [Hi _] _ _. exact Hi.
  - intros es E. discriminate.
Qed.

Lemma inv_done : forall dn n k, inv dn k -> inv (n :: dn) k.
Proof.
  intros dn n k I. inv_fields I.
  - intros a h f [Hi Hn] Hf Ha. eapply i_keep0; eauto. split; [exact Hi|].
    destruct h as [x|]; [|exact I]. intros Hc. apply Hn. right. exact Hc.
  - intros f a h Hr Ha [Hi Hn]. eapply i_safe0; eauto. split; [exact Hi|].
    destruct h as [x|]; [|exact I]. intros Hc. apply Hn. right. exact Hc.
Qed.

Lemma inv_clone : forall dn src files vals,
  inv dn src -> files_ok (k_split src) files vals = true -> inv dn (fresh_clone src files vals).
Proof.
  intros dn src files vals I Hok. apply files_ok_spec in Hok. destruct Hok as [A [B [C [D E]]]].
  unfold fresh_clone. constructor; unfold needed; cbn; auto.
  - constructor; cbn; auto. apply (i_cons _ _ I).
  - apply (i_cons _ _ I).
  - intros f Hf. contradiction.
  - intros a h f [Hi _] _ _. exact Hi.
  - intros es Ees. discriminate.
Qed.

Definition initial (k : fork) : Prop :=
  fa k = init_fa k /\ fp k = init_fp k /\ fpm k = None /\ disk k = files0 k /\ removed k = [] /\
  partial k = None /\ final k = None.

Lemma inv_initial : forall k, static_ok k = true -> initial k -> inv [] k.
Proof.
  intros k Hs [E1 [E2 [E3 [E4 [E5 [E6 E7]]]]]]. assert (W := static_ok_wf k Hs).
  constructor; unfold needed; rewrite ?E1, ?E2, ?E3, ?E4, ?E5; auto.
  - apply (wf_init _ W).
  - intros f Hf. contradiction.
  - intros a h f [Hi _] _ _. exact Hi.
  - intros es Ees. discriminate.
Qed.

(* ------------------------------------------------------------------ the system *)
Definition sinv (s : sys) : Prop := forall id k, In (id, k) (s_forks s) -> inv (s_done s) k.

Definition init_ok (s : sys) : Prop :=
  s_done s = [] /\ forall id k, In (id, k) (s_forks s) -> static_ok k = true /\ initial k.

Lemma upd_fork_In : forall i g l id k',
  In (id, k') (upd_fork i g l) -> exists k, In (id, k) l /\ (k' = k \/ k' = g k).
Proof.
  induction l as [|[j k] l IH]; cbn; intros id k' H; [contradiction|].
  destruct (N.eqb i j).
  - destruct H as [H|H].
    + inversion H; subst. exists k. split; [left; reflexivity | right; reflexivity].
    + exists k'. split; [right; exact H | left; reflexivity].
  - destruct H as [H|H].
    + inversion H; subst. exists k'. split; [left; reflexivity | left; reflexivity].
    + destruct (IH id k' H) as [k0 [A B]]. exists k0. split; [right; exact A | exact B].
Qed.

Lemma sweep_In : forall m dn l id k',
  In (id, k') (fst (sweep m dn l)) -> exists k, In (id, k) l /\ k' = fst (fst (partial_kill m dn k)).
Proof.
  induction l as [|[j k] l IH]; cbn; intros id k' H; [contradiction|].
  destruct (partial_kill m dn k) as [[k1 r] d] eqn:E. cbn in H. destruct H as [H|H].
  - inversion H; subst. exists k. split; [left; reflexivity|]. rewrite E. reflexivity.
  - destruct (IH id k' H) as [k0 [A B]]. exists k0. split; [right; exact A | exact B].
Qed.

Lemma sinv_upd : forall s f g,
  sinv s -> (forall k, inv (s_done s) k -> inv (s_done s) (g k)) ->
  sinv (mkSys (s_mode s) (upd_fork f g (s_forks s)) (s_done s) (s_total s)).
Proof.
  intros s f g S G id k' H. cbn in *. apply upd_fork_In in H. destruct H as [k [A [ -> | -> ]]].
  - apply (S id k A).
  - apply G. apply (S id k A).
Qed.

Lemma step_sinv : forall s o, sinv s -> sinv (step s o).
Proof.
  intros s o S. destruct o; cbn [step].
  - intros id k H. cbn in *. apply inv_done. apply (S id k H).
  - apply sinv_upd; [exact S|]. intros k I. apply inv_advance. exact I.
  - apply sinv_upd; [exact S|]. intros k I. destruct (ph k); try exact I. apply inv_cache. exact I.
  - apply sinv_upd; [exact S|]. intros k I. apply inv_partial_kill. exact I.
  - destruct (mode_disabled (s_mode s)); [exact S|].
    destruct (sweep (s_mode s) (s_done s) (s_forks s)) as [l rs] eqn:E.
    intros id k' H. cbn in *. assert (H' : In (id, k') (fst (sweep (s_mode s) (s_done s) (s_forks s)))) by (rewrite E; exact H).
    apply sweep_In in H'. destruct H' as [k [A ->]]. apply inv_partial_kill. apply (S id k A).
  - destruct (get_fork src (s_forks s)) as [k|] eqn:G; [|exact S].
    destruct (get_fork new (s_forks s)); [exact S|].
    destruct (ph k); try exact S.
    destruct (files_ok (k_split k) files vals) eqn:F; [|exact S].
    intros id k' H. cbn in *. apply in_app_iff in H. destruct H as [H|[H|[]]]; [apply (S id k' H)|].
    inversion H; subst. apply inv_clone; [|exact F].
    assert (Hin : exists i, In (i, k) (s_forks s)).
    { clear -G. induction (s_forks s) as [|[j x] l IH]; cbn in G; [discriminate|].
      destruct (N.eqb src j); [inversion G; subst; exists j; left; reflexivity|].
      destruct (IH G) as [i Hi]. exists i. right. exact Hi. }
    destruct Hin as [i Hi]. apply (S i k Hi).
  - intros id k' H. cbn in *. apply in_map_iff in H. destruct H as [[j k] [E H]]. cbn in E. inversion E; subst.
    apply inv_restart. apply (S id k H).
Qed.

Lemma run_sinv : forall ops s, sinv s -> sinv (run s ops).
Proof.
  unfold run. induction ops as [|o ops IH]; intros s S; [exact S|]. cbn. apply IH. apply step_sinv. exact S.
Qed.

Lemma init_sinv : forall s, init_ok s -> sinv s.
Proof.
  intros s [Hd Hf] id k H. rewrite Hd. destruct (Hf id k H) as [A B]. apply inv_initial; assumption.
Qed.

(* ------------------------------------------------------------------ C04 *)
Theorem books_consistent : forall s ops, init_ok s ->
  forall id k, In (id, k) (s_forks (run s ops)) ->
  forall n a, In (a, Some n) (fa k) <-> In (n, a) (fp k).
Proof.
  intros s ops H id k Hin. apply (i_cons _ _ (run_sinv ops s (init_sinv s H) id k Hin)).
Qed.

(* the nil holder (top-level pipeline, retain) of an argument that names a file is never removed *)
Theorem top_holder_never_removed : forall s ops, init_ok s ->
  forall id k, In (id, k) (s_forks (run s ops)) ->
  forall a f, In (a, None) (init_fa k) -> In f (files0 k) -> In a (f_names f) -> In (a, None) (fa k).
Proof.
  intros s ops H id k Hin a f Ha Hf Hn.
  eapply (i_keep _ _ (run_sinv ops s (init_sinv s H) id k Hin)); [|exact Hf|exact Hn].
  split; [exact Ha | exact I].
Qed.

Theorem no_kill_while_needed : forall s ops, init_ok s ->
  forall id k, In (id, k) (s_forks (run s ops)) ->
  forall f a h, In f (removed k) -> In a (f_names f) -> In (a, h) (init_fa k) ->
  exists n, h = Some n /\ In n (s_done (run s ops)).
Proof.
  intros s ops H id k Hin f a h Hr Ha Hi.
  assert (Hs := i_safe _ _ (run_sinv ops s (init_sinv s H) id k Hin) f a h Hr Ha).
  destruct h as [n|].
  - exists n. split; [reflexivity|]. destruct (memN n (s_done (run s ops))) eqn:M; [apply memN_In; exact M|].
    exfalso. apply Hs. split; [exact Hi|]. apply memN_false. exact M.
  - exfalso. apply Hs. split; [exact Hi | exact I].
Qed.

Theorem top_and_retained_never_removed : forall s ops, init_ok s ->
  forall id k, In (id, k) (s_forks (run s ops)) ->
  forall f a, In f (files0 k) -> In a (f_names f) -> In (a, None) (init_fa k) ->
  In f (disk k) /\ ~ In f (removed k).
Proof.
  intros s ops H id k Hin f a Hf Ha Hi.
  assert (J := run_sinv ops s (init_sinv s H) id k Hin).
  assert (Hn : ~ In f (removed k)).
  { intros Hr. apply (i_safe _ _ J f a None Hr Ha). split; [exact Hi | exact I]. }
  split; [|exact Hn]. destruct (i_part _ _ J f Hf) as [D|R]; [exact D | contradiction].
Qed.

Theorem args_present_at_start : forall s ops, init_ok s ->
  forall id k, In (id, k) (s_forks (run s ops)) ->
  forall f a n, In f (files0 k) -> In a (f_names f) -> In (a, Some n) (init_fa k) ->
  ~ In n (s_done (run s ops)) -> In f (disk k).
Proof.
  intros s ops H id k Hin f a n Hf Ha Hi Hn.
  assert (J := run_sinv ops s (init_sinv s H) id k Hin).
  destruct (i_part _ _ J f Hf) as [D|R]; [exact D|]. exfalso.
  apply (i_safe _ _ J f a (Some n) R Ha). split; assumption.
Qed.

(* files never come back and never change: the disk is always a part of what was written *)
Theorem disk_only_shrinks : forall s ops, init_ok s ->
  forall id k, In (id, k) (s_forks (run s ops)) ->
  (forall f, In f (disk k) -> In f (files0 k)) /\
  (forall f, In f (files0 k) -> In f (disk k) \/ In f (removed k)) /\
  (forall f g, In f (disk k) -> In g (removed k) -> f_path f <> f_path g).
Proof.
  intros s ops H id k Hin. assert (J := run_sinv ops s (init_sinv s H) id k Hin).
  split; [apply (i_disk _ _ J)|]. split; [apply (i_part _ _ J) | apply (i_disj _ _ J)].
Qed.

(* ================================================================== C14: accounting *)
Definition cur_report (k : fork) : report :=
  match final k with
  | Some r => r
  | None => match partial k with Some p => p_rep p | None => empty_report end
  end.

Lemma NoDup_map_filter : forall (A B : Type) (g : A -> B) (P : A -> bool) l,
  NoDup (map g l) -> NoDup (map g (filter P l)).
Proof.
  induction l as [|x l IH]; cbn; intros H; [constructor|]. inversion H as [|? ? Hx Hl]; subst.
  destruct (P x); cbn; [constructor|]; auto.
  intros Hc. apply Hx. apply in_map_iff in Hc. destruct Hc as [y [E Hy]]. apply filter_In in Hy.
  apply in_map_iff. exists y. tauto.
Qed.

Lemma NoDup_of_map : forall (A B : Type) (g : A -> B) l, NoDup (map g l) -> NoDup l.
Proof.
  induction l as [|x l IH]; cbn; intros H; constructor; inversion H; subst; auto.
  intros Hc. apply H2. apply in_map. exact Hc.
Qed.

Lemma sum_sizes_app : forall a b, sum_sizes (a ++ b) = sum_sizes a + sum_sizes b.
Proof.
  induction a as [|x a IH]; intros b; [reflexivity|].
  change (f_size x + sum_sizes (a ++ b) = f_size x + sum_sizes a + sum_sizes b). rewrite IH. lia.
Qed.

Lemma count_files_app : forall a b, count_files (a ++ b) = count_files a + count_files b.
Proof. intros a b. unfold count_files. rewrite app_length. lia. Qed.

Lemma sum_sizes_perm : forall a b, Permutation a b -> sum_sizes a = sum_sizes b.
Proof.
  intros a b P. induction P; [reflexivity| | |congruence].
  - change (f_size x + sum_sizes l = f_size x + sum_sizes l'). rewrite IHP. reflexivity.
  - change (f_size y + (f_size x + sum_sizes l) = f_size x + (f_size y + sum_sizes l)). lia.
Qed.

Lemma count_files_perm : forall a b, Permutation a b -> count_files a = count_files b.
Proof. intros a b P. unfold count_files. rewrite (Permutation_length P). reflexivity. Qed.

(* selecting from the disk by the paths of a duplicate-free part of it gives that part *)
Lemma sel_perm : forall d kf,
  NoDup (map f_path d) -> (forall f, In f kf -> In f d) -> NoDup (map f_path kf) ->
  Permutation (sel_paths (map f_path kf) d) kf.
Proof.
  intros d kf Hd Hin Hk. apply NoDup_Permutation.
  - unfold sel_paths. apply (NoDup_of_map _ _ f_path). apply NoDup_map_filter. exact Hd.
  - apply (NoDup_of_map _ _ f_path). exact Hk.
  - intros f. rewrite sel_paths_In. split.
    + intros [H1 H2]. apply in_map_iff in H2. destruct H2 as [g [E Hg]].
      assert (g = f); [|subst; exact Hg]. eapply same_path_eq; [exact Hd | apply Hin; exact Hg | exact H1 | exact E].
    + intros H. split; [apply Hin; exact H | apply in_map; exact H].
Qed.

Record rinv (k : fork) : Prop := {
  r_paths_ok : forall p, In p (r_paths (cur_report k)) -> exists f, In f (removed k) /\ f_path f = p;
  r_count_ok : r_count (cur_report k) = count_files (removed k);
  r_size_ok : r_size (cur_report k) = sum_sizes (removed k);
  r_disk_nodup : NoDup (map f_path (disk k));
  r_es_nodup : forall es, fpm k = Some es -> NoDup (map (fun e => f_path (fst e)) es);
  r_prun : ph k = PRun -> partial k = None /\ final k = None /\ removed k = []
}.

Ltac rinv_fields R := destruct R; constructor; unfold cur_report in *; proj; auto.

Lemma rinv_set_books : forall k b, rinv k -> rinv (set_books k b).
Proof. intros k b R. rinv_fields R. Qed.

Lemma rinv_set_fpm : forall k m, rinv k ->
  (forall es, m = Some es -> NoDup (map (fun e => f_path (fst e)) es)) -> rinv (set_fpm k m).
Proof. intros k m R H. rinv_fields R. Qed.

Lemma rinv_cache : forall k, rinv k -> rinv (cache k).
Proof.
  intros k R. unfold cache. apply rinv_set_fpm; [apply rinv_set_books; exact R|].
  intros es E. inversion E; subst es. unfold cache_entries. rewrite map_map. cbn.
  apply NoDup_map_filter. apply (r_disk_nodup _ R).
Qed.

Lemma rinv_update : forall k, rinv k -> rinv (update_cache k).
Proof.
  intros k R. unfold update_cache. destruct (fpm k) as [es|] eqn:E; [|exact R].
  apply rinv_set_fpm; [exact R|]. intros es' E'. inversion E'; subst es'. rewrite map_map. cbn.
  apply (r_es_nodup _ R es E).
Qed.

Lemma rinv_refresh : forall k, rinv k -> rinv (refresh k).
Proof. intros k R. unfold refresh. destruct (fpm k); [apply rinv_update | apply rinv_cache]; exact R. Qed.

Lemma rinv_remove_empty : forall k, rinv k -> rinv (remove_empty k).
Proof. intros k R. unfold remove_empty. apply rinv_set_books. exact R. Qed.

(* files kf (a duplicate-free part of the disk) leave the disk and are added to the current report *)
Lemma rinv_remove : forall k kf paths p' f',
  rinv k -> final k = None ->
  (forall f, In f kf -> In f (disk k)) -> NoDup (map f_path kf) ->
  (forall x, In x paths -> In x (map f_path kf)) ->
  let base := match partial k with Some p => p_rep p | None => empty_report end in
  let newrep := match f' with Some r => r | None => match p' with Some p => p_rep p | None => empty_report end end in
  (forall x, In x (r_paths newrep) -> In x (r_paths base) \/ In x paths) ->
  r_count newrep = r_count base + count_files kf ->
  r_size newrep = r_size base + sum_sizes kf ->
  (forall es, fpm k = Some es -> NoDup (map (fun e => f_path (fst e)) es)) ->
  ph k <> PRun ->
  rinv (set_reports (set_disk k (rm_paths (map f_path kf) (disk k))
                              (removed k ++ sel_paths (map f_path kf) (disk k))) p' f').
Proof.
  intros k kf paths p' f' R Hfin Hin Hnd Hpaths base newrep Hp Hc Hs Hes Hph.
  assert (P := sel_perm (disk k) kf (r_disk_nodup _ R) Hin Hnd).
  destruct R. unfold cur_report in *. rewrite Hfin in *. constructor; unfold cur_report; proj.
  - fold newrep. intros x Hx. destruct (Hp x Hx) as [Hb|Hn].
    + destruct (r_paths_ok0 x Hb) as [f [A B]]. exists f. split; [apply in_app_iff; left; exact A | exact B].
    + apply Hpaths in Hn. apply in_map_iff in Hn. destruct Hn as [f [A B]]. exists f. split; [|exact A].
      apply in_app_iff. right. apply sel_paths_In. split; [apply Hin; exact B | apply in_map; exact B].
  - fold newrep. rewrite Hc, count_files_app, (count_files_perm _ _ P). unfold base. rewrite r_count_ok0. reflexivity.
  - fold newrep. rewrite Hs, sum_sizes_app, (sum_sizes_perm _ _ P). unfold base. rewrite r_size_ok0. reflexivity.
  - unfold rm_paths. apply NoDup_map_filter. exact r_disk_nodup0.
  - exact Hes.
  - intros E. contradiction.
Qed.

Lemma rinv_clean_temp : forall k o,
  rinv k -> final k = None -> ph k <> PRun -> rinv (clean_temp o k (partial k)).
Proof.
  intros k o R Hf Hph. unfold clean_temp.
  set (kf := filter (fun f => owner_eqb (f_own f) o) (disk k)).
  rewrite Hf.
  apply (rinv_remove k kf (if sum_sizes kf =? 0 then [] else map f_path kf)); auto.
  - intros f H. apply filter_In in H. tauto.
  - unfold kf. apply NoDup_map_filter. apply (r_disk_nodup _ R).
  - intros x Hx. destruct (sum_sizes kf =? 0); [contradiction | exact Hx].
  - cbn. destruct o, (partial k); cbn; intros x Hx; try (apply in_app_iff in Hx); tauto.
  - destruct o, (partial k); cbn; reflexivity.
  - destruct o, (partial k); cbn; reflexivity.
  - apply (r_es_nodup _ R).
Qed.

Lemma kill_entries_in_disk : forall dn k, inv dn k -> final k = None ->
  (forall f, In f (map fst (kill_entries k)) -> In f (disk k)).
Proof.
  intros dn k I Hf f H. apply in_map_iff in H. destruct H as [[f' args] [E H]]. cbn in E. subst f'.
  unfold kill_entries in H. apply filter_In in H. destruct H as [H _].
  destruct (fpm k) as [es|] eqn:E; [|contradiction]. destruct (i_fpm _ _ I es E Hf) as [A _].
  destruct (A f args H) as [A1 _]. exact A1.
Qed.

(* precise shape of vdrKillSome *)
Lemma kill_some_shape2 : forall m k d,
  let k1 := refresh k in
  fst (fst (kill_some m k d)) = k1 \/
  fst (fst (kill_some m k d)) =
    set_reports k1 None (Some (match partial k1 with Some p => p_rep p | None => empty_report end)) \/
  (kill_entries k1 <> [] /\
   let p' := add_kill (match partial k1 with Some p => p | None => empty_preport end) (kill_paths k1)
                      (count_files (map fst (kill_entries k1))) (sum_sizes (map fst (kill_entries k1))) in
   (fst (fst (kill_some m k d)) = set_reports (killed_some k1) None (Some (p_rep p')) \/
    fst (fst (kill_some m k d)) = set_reports (killed_some k1) (Some p') None)).
Proof.
  intros m k d. cbv zeta. unfold kill_some. fold (refresh k).
  destruct (mode_disabled m); [left; reflexivity|].
  fold (kill_entries (refresh k)). fold (keep_entries (refresh k)).
  destruct (kill_entries (refresh k)) as [|e l] eqn:E.
  - cbn [is_nil]. destruct d; [right; left; reflexivity | left; reflexivity].
  - cbn [is_nil]. right. right. split; [discriminate|].
    rewrite <- E. fold (kill_paths (refresh k)).
    destruct (is_nil (keep_entries (refresh k)) || d || is_nil (fp (refresh k))); [left | right]; reflexivity.
Qed.

Lemma rinv_kill_some : forall dn m k d,
  inv dn k -> rinv k -> final k = None -> ph k <> PRun -> rinv (fst (fst (kill_some m k d))).
Proof.
  intros dn m k d I R Hf Hph.
  assert (I1 := inv_refresh dn k I). assert (R1 := rinv_refresh k R).
  assert (F1 : final (refresh k) = None) by (rewrite final_refresh; exact Hf).
  assert (P1 : ph (refresh k) <> PRun).
  { unfold refresh, update_cache, cache. destruct (fpm k); exact Hph. }
  destruct (kill_some_shape2 m k d) as [E|[E|[Hne Hs]]].
  - rewrite E. exact R1.
  - rewrite E. set (k1 := refresh k) in *. destruct R1. constructor; unfold cur_report in *; proj; auto.
    + rewrite F1 in *. exact r_paths_ok0.
    + rewrite F1 in *. exact r_count_ok0.
    + rewrite F1 in *. exact r_size_ok0.
    + intros Ep. contradiction.
  - cbv zeta in Hs. set (k1 := refresh k) in *.
    set (kf := map fst (kill_entries k1)).
    assert (Hkf : forall f, In f kf -> In f (disk k1)) by (apply (kill_entries_in_disk dn); assumption).
    assert (Hnd : NoDup (map f_path kf)).
    { unfold kf, kill_entries. rewrite map_map. destruct (fpm k1) as [es|] eqn:Ees; [|constructor].
      apply NoDup_map_filter. apply (r_es_nodup _ R1 es Ees). }
    assert (Hes : forall es, Some (keep_entries k1) = Some es -> NoDup (map (fun e => f_path (fst e)) es)).
    { intros es Ees. inversion Ees; subst es. unfold keep_entries. destruct (fpm k1) as [es|] eqn:Ees'; [|constructor].
      apply NoDup_map_filter. apply (r_es_nodup _ R1 es Ees'). }
    assert (G : forall p' f',
      (forall x, In x (r_paths match f' with Some r => r | None => match p' with Some p => p_rep p | None => empty_report end end) ->
                 In x (r_paths match partial k1 with Some p => p_rep p | None => empty_report end) \/ In x (map f_path kf)) ->
      r_count match f' with Some r => r | None => match p' with Some p => p_rep p | None => empty_report end end =
        r_count match partial k1 with Some p => p_rep p | None => empty_report end + count_files kf ->
      r_size match f' with Some r => r | None => match p' with Some p => p_rep p | None => empty_report end end =
        r_size match partial k1 with Some p => p_rep p | None => empty_report end + sum_sizes kf ->
      rinv (set_reports (killed_some k1) p' f')).
    { intros p' f' A B C. unfold killed_some.
      change (rinv (set_reports (set_disk (set_fpm k1 (Some (keep_entries k1)))
                (rm_paths (map f_path kf) (disk (set_fpm k1 (Some (keep_entries k1)))))
                (removed (set_fpm k1 (Some (keep_entries k1))) ++ sel_paths (map f_path kf) (disk (set_fpm k1 (Some (keep_entries k1)))))) p' f')).
      apply (rinv_remove (set_fpm k1 (Some (keep_entries k1))) kf (map f_path kf)); proj; auto.
      apply rinv_set_fpm; [exact R1 | exact Hes]. }
    destruct Hs as [E|E]; rewrite E; apply G; cbn; unfold kill_paths; fold kf;
      destruct (partial k1); cbn; try reflexivity; intros x Hx; try (apply in_app_iff in Hx); tauto.
Qed.

Lemma merge_two : forall a b, merge_reports [a; b] =
  mkReport (r_paths a ++ r_paths b) (r_count a + r_count b) (r_size a + r_size b).
Proof. intros [pa ca sa] [pb cb sb]. unfold merge_reports. cbn. reflexivity. Qed.

Lemma rinv_full_kill : forall dn m k,
  inv dn k -> rinv k -> ph k <> PRun -> rinv (fst (full_kill m k)).
Proof.
  intros dn m k I R Hph. unfold full_kill. destruct (mode_disabled m); [exact R|].
  destruct (final k) as [r|] eqn:Hf; [exact R|].
  destruct (is_volatile m k).
  - assert (H := rinv_kill_some dn m k true I R Hf Hph). destruct (kill_some m k true) as [[k' r] b]. exact H.
  - cbn [fst].
    set (kf := if k_split k then filter (fun f => owner_eqb (f_own f) ChunkFiles) (disk k) else []).
    apply (rinv_remove k kf (map f_path kf)); auto.
    + intros f H. unfold kf in H. destruct (k_split k); [|contradiction]. apply filter_In in H. tauto.
    + unfold kf. destruct (k_split k); [|constructor]. apply NoDup_map_filter. apply (r_disk_nodup _ R).
    + destruct (partial k); [rewrite merge_two|]; cbn; intros x Hx; try (apply in_app_iff in Hx); tauto.
    + destruct (partial k); [rewrite merge_two|]; cbn; lia.
    + destruct (partial k); [rewrite merge_two|]; cbn; lia.
    + apply (r_es_nodup _ R).
Qed.

Lemma ph_clean_temp : forall o k p, ph (clean_temp o k p) = ph k.
Proof. reflexivity. Qed.
Lemma final_clean_temp : forall o k p, final (clean_temp o k p) = final k.
Proof. reflexivity. Qed.

(* nothing happens before the split is complete *)
Lemma partial_kill_prun : forall m dn k, ph k = PRun -> fst (fst (partial_kill m dn k)) = k.
Proof.
  intros m dn k H. unfold partial_kill. destruct (final k); [reflexivity|].
  rewrite H. unfold phase_geb. cbn [phase_idx]. change (1 <=? 0) with false. rewrite andb_false_r.
  rewrite H. change (2 <=? 0) with false. rewrite andb_false_r. rewrite H.
  change (3 <=? 0) with false. rewrite andb_false_r. rewrite H. reflexivity.
Qed.

Lemma rinv_partial_kill : forall dn m k, inv dn k -> rinv k -> rinv (fst (fst (partial_kill m dn k))).
Proof.
  intros dn m k I R. destruct (ph k) eqn:Hph; [rewrite partial_kill_prun; assumption| | | |];
  unfold partial_kill; (destruct (final k) as [r|] eqn:Hf; [exact R|]).
  all: set (k1 := if k_split k && negb (get_flag SplitTmp (partial k)) && phase_geb _ PSplitDone
                  then clean_temp SplitTmp k (partial k) else k);
    assert (J1 : inv dn k1 /\ rinv k1 /\ final k1 = None /\ ph k1 = ph k)
      by (unfold k1; destruct (k_split k && negb (get_flag SplitTmp (partial k)) && phase_geb _ PSplitDone);
          [split; [apply inv_clean_temp; [exact I | reflexivity]|]; split;
           [apply rinv_clean_temp; [exact R | exact Hf | rewrite Hph; discriminate] | split; [exact Hf | reflexivity]]
          | split; [exact I|]; split; [exact R|]; split; [exact Hf | reflexivity]]);
    destruct J1 as [I1 [R1 [F1 P1]]];
    set (k2 := if negb (get_flag ChunkTmp (partial k1)) && phase_geb (ph k1) PChunksDone
               then clean_temp ChunkTmp k1 (partial k1) else k1);
    assert (J2 : inv dn k2 /\ rinv k2 /\ final k2 = None /\ ph k2 = ph k)
      by (unfold k2; destruct (negb (get_flag ChunkTmp (partial k1)) && phase_geb (ph k1) PChunksDone);
          [split; [apply inv_clean_temp; [exact I1 | reflexivity]|]; split;
           [apply rinv_clean_temp; [exact R1 | exact F1 | rewrite P1, Hph; discriminate] | split; [exact F1 | exact P1]]
          | split; [exact I1|]; split; [exact R1|]; split; [exact F1 | exact P1]]);
    destruct J2 as [I2 [R2 [F2 P2]]];
    set (k3 := if negb (get_flag JoinTmp (partial k2)) && phase_geb (ph k2) PJoinDone
               then clean_temp JoinTmp k2 (partial k2) else k2);
    assert (J3 : inv dn k3 /\ rinv k3 /\ final k3 = None /\ ph k3 = ph k)
      by (unfold k3; destruct (negb (get_flag JoinTmp (partial k2)) && phase_geb (ph k2) PJoinDone);
          [split; [apply inv_clean_temp; [exact I2 | reflexivity]|]; split;
           [apply rinv_clean_temp; [exact R2 | exact F2 | rewrite P2, Hph; discriminate] | split; [exact F2 | exact P2]]
          | split; [exact I2|]; split; [exact R2|]; split; [exact F2 | exact P2]]);
    destruct J3 as [I3 [R3 [F3 P3]]];
    rewrite P3, Hph; try exact R3.
  set (dnl := filter (fun n => memN n dn) (dedupN (map fst (fp k3)))).
  set (k4 := set_books k3 (remove_post_nodes dnl (fa k3, fp k3))).
  assert (I4 : inv dn k4).
  { apply inv_rm_posts; [exact I3|]. intros n Hn. apply filter_In in Hn. destruct Hn as [_ Hn]. apply memN_In. exact Hn. }
  assert (R4 : rinv k4) by (apply rinv_set_books; exact R3).
  assert (F4 : final k4 = None) by exact F3.
  assert (P4 : ph k4 <> PRun) by (change (ph k3 <> PRun); rewrite P3, Hph; discriminate).
  destruct (is_nil (fp k4)).
  - destruct (is_strict m k4).
    + eapply rinv_kill_some; eassumption.
    + assert (H := rinv_full_kill dn m k4 I4 R4 P4). destruct (full_kill m k4) as [k5 r5]. exact H.
  - destruct (is_strict m k4).
    + eapply rinv_kill_some; eassumption.
    + exact R4.
Qed.

Lemma rinv_set_ph : forall k p, rinv k -> p <> PRun -> rinv (set_ph k p).
Proof. intros k p R H. rinv_fields R. intros E. contradiction. Qed.

Lemma rinv_advance : forall dn m k, inv dn k -> rinv k -> rinv (advance m dn k).
Proof.
  intros dn m k I R. unfold advance. destruct (ph k) eqn:Hph.
  - destruct (r_prun _ R Hph) as [Pn [Fn Rn]].
    assert (R1 : rinv (set_ph k PSplitDone)) by (apply rinv_set_ph; [exact R | discriminate]).
    destruct (is_volatile m k); [|exact R1].
    replace (clean_temp SplitTmp (set_ph k PSplitDone) None)
      with (clean_temp SplitTmp (set_ph k PSplitDone) (partial (set_ph k PSplitDone))) by (cbn; rewrite Pn; reflexivity).
    apply rinv_clean_temp; [exact R1 | exact Fn | discriminate].
  - apply rinv_set_ph; [exact R | discriminate].
  - apply rinv_set_ph; [exact R | discriminate].
  - destruct m; try (apply rinv_remove_empty; apply rinv_set_ph; [exact R | discriminate]).
    apply rinv_remove_empty. apply rinv_set_ph; [|discriminate].
    apply (rinv_partial_kill dn); [apply inv_cache; exact I | apply rinv_cache; exact R].
  - exact R.
Qed.

Lemma rinv_restart : forall k, rinv k -> rinv (restart_fork k).
Proof. intros k R. unfold restart_fork. rinv_fields R. intros es E. discriminate. Qed.

Lemma rinv_clone : forall src files vals,
  files_ok (k_split src) files vals = true -> rinv (fresh_clone src files vals).
Proof.
  intros src files vals Hok. apply files_ok_spec in Hok. destruct Hok as [A _].
  unfold fresh_clone. constructor; unfold cur_report; cbn; auto.
  - intros p Hp. contradiction.
  - intros es E. discriminate.
Qed.

Lemma rinv_initial : forall k, static_ok k = true -> initial k -> rinv k.
Proof.
  intros k Hs [E1 [E2 [E3 [E4 [E5 [E6 E7]]]]]]. assert (W := static_ok_wf k Hs).
  constructor; unfold cur_report; rewrite ?E3, ?E4, ?E5, ?E6, ?E7; cbn; auto.
  - intros p Hp. contradiction.
  - apply (wf_nodup _ W).
  - intros es E. discriminate.
Qed.

Definition sinv2 (s : sys) : Prop :=
  forall id k, In (id, k) (s_forks s) -> inv (s_done s) k /\ rinv k.

Lemma step_sinv2 : forall s o, sinv2 s -> sinv2 (step s o).
Proof.
  intros s o S.
  assert (S1 : sinv s) by (intros id k H; apply (S id k H)).
  assert (S1' := step_sinv s o S1).
  intros id k' H. split; [apply (S1' id k' H)|].
  destruct o; cbn [step] in H.
  - cbn in H. apply (S id k' H).
  - cbn in H. apply upd_fork_In in H. destruct H as [k [A [ -> | -> ]]]; [apply (S id k A)|].
    destruct (S id k A). apply (rinv_advance (s_done s)); assumption.
  - cbn in H. apply upd_fork_In in H. destruct H as [k [A [ -> | -> ]]]; [apply (S id k A)|].
    destruct (S id k A). destruct (ph k); try assumption. apply rinv_cache. assumption.
  - cbn in H. apply upd_fork_In in H. destruct H as [k [A [ -> | -> ]]]; [apply (S id k A)|].
    destruct (S id k A). apply (rinv_partial_kill (s_done s)); assumption.
  - destruct (mode_disabled (s_mode s)); [apply (S id k' H)|].
    destruct (sweep (s_mode s) (s_done s) (s_forks s)) as [l rs] eqn:E. cbn in H.
    assert (H' : In (id, k') (fst (sweep (s_mode s) (s_done s) (s_forks s)))) by (rewrite E; exact H).
    apply sweep_In in H'. destruct H' as [k [A ->]]. destruct (S id k A).
    apply (rinv_partial_kill (s_done s)); assumption.
  - destruct (get_fork src (s_forks s)) as [k|] eqn:G; [|apply (S id k' H)].
    destruct (get_fork new (s_forks s)); [apply (S id k' H)|].
    destruct (ph k); try apply (S id k' H).
    destruct (files_ok (k_split k) files vals) eqn:F; [|apply (S id k' H)].
    cbn in H. apply in_app_iff in H. destruct H as [H|[H|[]]]; [apply (S id k' H)|].
    inversion H; subst. apply rinv_clone. exact F.
  - cbn in H. apply in_map_iff in H. destruct H as [[j k] [E H]]. cbn in E. inversion E; subst.
    apply rinv_restart. apply (S id k H).
Qed.

Lemma run_sinv2 : forall ops s, sinv2 s -> sinv2 (run s ops).
Proof.
  unfold run. induction ops as [|o ops IH]; intros s S; [exact S|]. cbn. apply IH. apply step_sinv2. exact S.
Qed.

Lemma init_sinv2 : forall s, init_ok s -> sinv2 s.
Proof.
  intros s [Hd Hf] id k H. rewrite Hd. destruct (Hf id k H) as [A B].
  split; [apply inv_initial | apply rinv_initial]; assumption.
Qed.

(* every path listed in a fork's (partial or final) kill report is gone from the disk *)
Theorem report_paths_removed : forall s ops, init_ok s ->
  forall id k, In (id, k) (s_forks (run s ops)) ->
  forall p, In p (r_paths (cur_report k)) -> forall f, In f (disk k) -> f_path f <> p.
Proof.
  intros s ops H id k Hin p Hp f Hf.
  destruct (run_sinv2 ops s (init_sinv2 s H) id k Hin) as [I R].
  destruct (r_paths_ok _ R p Hp) as [g [Hg <-]]. apply (i_disj _ _ I); assumption.
Qed.

(* the report's count and byte total are exactly what has left the disk, at
   every moment, across partial reports, merges and restarts *)
Theorem report_totals_exact : forall s ops, init_ok s ->
  forall id k, In (id, k) (s_forks (run s ops)) ->
  r_count (cur_report k) = count_files (removed k) /\ r_size (cur_report k) = sum_sizes (removed k).
Proof.
  intros s ops H id k Hin. destruct (run_sinv2 ops s (init_sinv2 s H) id k Hin) as [I R].
  split; [apply (r_count_ok _ R) | apply (r_size_ok _ R)].
Qed.

(* every reported path is the path of a file this very fork wrote *)
Theorem kill_paths_inside_stage_dirs : forall s ops, init_ok s ->
  forall id k, In (id, k) (s_forks (run s ops)) ->
  forall p, In p (r_paths (cur_report k)) -> exists f, In f (files0 k) /\ f_path f = p.
Proof.
  intros s ops H id k Hin p Hp. destruct (run_sinv2 ops s (init_sinv2 s H) id k Hin) as [I R].
  destruct (r_paths_ok _ R p Hp) as [g [Hg E]]. exists g. split; [apply (i_rem _ _ I); exact Hg | exact E].
Qed.

(* only files of the fork ever leave its disk, each at most once *)
Theorem removed_are_own_files : forall s ops, init_ok s ->
  forall id k, In (id, k) (s_forks (run s ops)) ->
  (forall f, In f (removed k) -> In f (files0 k)) /\ NoDup (map f_path (disk k)).
Proof.
  intros s ops H id k Hin. destruct (run_sinv2 ops s (init_sinv2 s H) id k Hin) as [I R].
  split; [apply (i_rem _ _ I) | apply (r_disk_nodup _ R)].
Qed.

(* ================================================================== C14: reclamation *)
Definition no_own (o : owner) (d : list file) : Prop := forall f, In f d -> f_own f <> o.
Definition no_tmp (d : list file) : Prop := forall f, In f d -> is_tmp (f_own f) = false.

Record tinv (k : fork) : Prop := {
  t_flags : forall o, is_tmp o = true -> get_flag o (partial k) = true -> no_own o (disk k);
  t_final : final k <> None -> no_tmp (disk k)
}.

Lemma no_own_incl : forall o d d', (forall f, In f d' -> In f d) -> no_own o d -> no_own o d'.
Proof. intros o d d' H N f Hf. apply N. apply H. exact Hf. Qed.
Lemma no_tmp_incl : forall d d', (forall f, In f d' -> In f d) -> no_tmp d -> no_tmp d'.
Proof. intros d d' H N f Hf. apply N. apply H. exact Hf. Qed.

Lemma disk_refresh : forall k, disk (refresh k) = disk k.
Proof. intros k. unfold refresh, update_cache. destruct (fpm k); reflexivity. Qed.
Lemma partial_refresh : forall k, partial (refresh k) = partial k.
Proof. intros k. unfold refresh, update_cache. destruct (fpm k); reflexivity. Qed.

Lemma tinv_same : forall k k', disk k' = disk k -> partial k' = partial k -> final k' = final k -> tinv k -> tinv k'.
Proof. intros k k' E1 E2 E3 T. destruct T. constructor; rewrite ?E1, ?E2, ?E3; assumption. Qed.

Lemma clean_temp_disk_incl : forall o k p f, In f (disk (clean_temp o k p)) -> In f (disk k).
Proof. intros o k p f H. cbn in H. apply rm_paths_In in H. tauto. Qed.

Lemma clean_temp_no_own : forall o k p, no_own o (disk (clean_temp o k p)).
Proof.
  intros o k p f H. cbn in H. apply rm_paths_In in H. destruct H as [H1 H2]. intros E. apply H2.
  apply in_map. apply filter_In. split; [exact H1|]. apply owner_eqb_eq. exact E.
Qed.

Lemma get_flag_clean : forall o o' k p,
  get_flag o' (partial (clean_temp o k p)) = true -> o' = o \/ get_flag o' p = true \/ is_tmp o' = false \/ is_tmp o = false.
Proof.
  intros o o' k p H. cbn in H. destruct o, o', p as [p|]; cbn in *; auto; try discriminate.
Qed.

Lemma tinv_clean_temp : forall o k, tinv k -> final k = None -> is_tmp o = true -> tinv (clean_temp o k (partial k)).
Proof.
  intros o k T Hf Ho. constructor.
  - intros o' Ho' Hfl. destruct (get_flag_clean o o' k (partial k) Hfl) as [->|[H|[H|H]]]; try congruence.
    + apply clean_temp_no_own.
    + eapply no_own_incl; [apply clean_temp_disk_incl | apply (t_flags _ T o' Ho' H)].
  - intros H. cbn in H. congruence.
Qed.

Lemma killed_some_disk_incl : forall k f, In f (disk (killed_some k)) -> In f (disk k).
Proof. intros k f H. cbn in H. apply rm_paths_In in H. tauto. Qed.

Lemma kill_some_disk_incl : forall m k d f, In f (disk (fst (fst (kill_some m k d)))) -> In f (disk k).
Proof.
  intros m k d f H. destruct (kill_some_shape m k d) as [E|[[r E]|[p [f' [E _]]]]]; rewrite E in H; cbn in H.
  - rewrite disk_refresh in H. exact H.
  - rewrite disk_refresh in H. exact H.
  - apply rm_paths_In in H. destruct H as [H _]. rewrite disk_refresh in H. exact H.
Qed.

Lemma full_kill_disk_incl : forall m k f, In f (disk (fst (full_kill m k))) -> In f (disk k).
Proof.
  intros m k f H. unfold full_kill in H. destruct (mode_disabled m); [exact H|].
  destruct (final k); [exact H|]. destruct (is_volatile m k).
  - assert (G := kill_some_disk_incl m k true f). destruct (kill_some m k true) as [[k' r] b]. apply G. exact H.
  - cbn in H. apply rm_paths_In in H. tauto.
Qed.

(* once nothing temporary is left, the kills keep it so and may set the final report *)
Lemma tinv_kill_some : forall m k d, tinv k -> no_tmp (disk k) -> tinv (fst (fst (kill_some m k d))).
Proof.
  intros m k d T N. constructor.
  - intros o Ho Hfl f Hf E. assert (Hd := kill_some_disk_incl m k d f Hf). assert (X := N f Hd).
    rewrite E, Ho in X. discriminate.
  - intros _. eapply no_tmp_incl; [apply kill_some_disk_incl | exact N].
Qed.

Lemma tinv_full_kill : forall m k, tinv k -> no_tmp (disk k) -> tinv (fst (full_kill m k)).
Proof.
  intros m k T N. constructor.
  - intros o Ho Hfl f Hf E. assert (Hd := full_kill_disk_incl m k f Hf). assert (X := N f Hd).
    rewrite E, Ho in X. discriminate.
  - intros _. eapply no_tmp_incl; [apply full_kill_disk_incl | exact N].
Qed.

Lemma clean_step : forall o k, tinv k -> final k = None -> is_tmp o = true ->
  let k' := if negb (get_flag o (partial k)) then clean_temp o k (partial k) else k in
  tinv k' /\ final k' = None /\ ph k' = ph k /\ (forall f, In f (disk k') -> In f (disk k)) /\ no_own o (disk k').
Proof.
  intros o k T Hf Ho. cbv zeta. destruct (get_flag o (partial k)) eqn:Hfl; cbn [negb].
  - split; [exact T|]. split; [exact Hf|]. split; [reflexivity|]. split; [auto|]. apply (t_flags _ T o Ho Hfl).
  - split; [apply tinv_clean_temp; assumption|]. split; [exact Hf|]. split; [reflexivity|].
    split; [apply clean_temp_disk_incl | apply clean_temp_no_own].
Qed.

(* the state after the three clean-up steps of partialVdrKill on a complete fork *)
Lemma partial_kill_complete : forall dn m k,
  inv dn k -> tinv k -> ph k = PComplete ->
  tinv (fst (fst (partial_kill m dn k))) /\ no_tmp (disk (fst (fst (partial_kill m dn k)))).
Proof.
  intros dn m k I T Hph. unfold partial_kill. destruct (final k) as [r|] eqn:Hf.
  { split; [exact T|]. apply (t_final _ T). rewrite Hf. discriminate. }
  rewrite Hph. unfold phase_geb. cbn [phase_idx].
  change (1 <=? 4) with true. rewrite andb_true_r.
  set (k1 := if k_split k && negb (get_flag SplitTmp (partial k)) then clean_temp SplitTmp k (partial k) else k).
  assert (J1 : tinv k1 /\ final k1 = None /\ ph k1 = ph k /\ (forall f, In f (disk k1) -> In f (disk k)) /\
               no_own SplitTmp (disk k1)).
  { unfold k1. destruct (k_split k) eqn:Hs; cbn [andb].
    - apply clean_step; auto.
    - split; [exact T|]. split; [exact Hf|]. split; [reflexivity|]. split; [auto|].
      intros f Hf'. apply (wf_nosplit _ (i_wf _ _ I) Hs). apply (i_disk _ _ I). exact Hf'. }
  destruct J1 as [T1 [F1 [P1 [D1 N1]]]]. rewrite P1, Hph. cbn [phase_idx]. change (2 <=? 4) with true. rewrite andb_true_r.
  destruct (clean_step ChunkTmp k1 T1 F1 eq_refl) as [T2 [F2 [P2 [D2 N2]]]].
  set (k2 := if negb (get_flag ChunkTmp (partial k1)) then clean_temp ChunkTmp k1 (partial k1) else k1) in *.
  rewrite P2, P1, Hph. cbn [phase_idx]. change (3 <=? 4) with true. rewrite andb_true_r.
  destruct (clean_step JoinTmp k2 T2 F2 eq_refl) as [T3 [F3 [P3 [D3 N3]]]].
  set (k3 := if negb (get_flag JoinTmp (partial k2)) then clean_temp JoinTmp k2 (partial k2) else k2) in *.
  rewrite P3, P2, P1, Hph.
  assert (NT : no_tmp (disk k3)).
  { intros f Hf'. assert (A := N3 f Hf'). assert (B := N2 f (D3 f Hf')). assert (C := N1 f (D2 f (D3 f Hf'))).
    destruct (f_own f); try reflexivity; congruence. }
  set (k4 := set_books k3 _).
  assert (T4 : tinv k4) by (apply (tinv_same k3); auto).
  assert (NT4 : no_tmp (disk k4)) by exact NT.
  destruct (is_nil (fp k4)).
  - destruct (is_strict m k4).
    + split; [apply tinv_kill_some; assumption|]. eapply no_tmp_incl; [apply kill_some_disk_incl | exact NT4].
    + assert (A := tinv_full_kill m k4 T4 NT4). assert (B := full_kill_disk_incl m k4).
      destruct (full_kill m k4) as [k5 r5]. cbn [fst] in *. split; [exact A|]. eapply no_tmp_incl; [exact B | exact NT4].
  - destruct (is_strict m k4).
    + split; [apply tinv_kill_some; assumption|]. eapply no_tmp_incl; [apply kill_some_disk_incl | exact NT4].
    + split; assumption.
Qed.

Lemma tinv_cond_clean : forall (c : bool) o k, tinv k -> final k = None -> is_tmp o = true ->
  let k' := if c then clean_temp o k (partial k) else k in
  tinv k' /\ final k' = None /\ ph k' = ph k.
Proof.
  intros c o k T Hf Ho. cbv zeta. destruct c.
  - split; [apply tinv_clean_temp; assumption|]. split; [exact Hf | reflexivity].
  - split; [exact T|]. split; [exact Hf | reflexivity].
Qed.

Lemma tinv_partial_kill : forall dn m k, inv dn k -> tinv k -> tinv (fst (fst (partial_kill m dn k))).
Proof.
  intros dn m k I T. destruct (ph k) eqn:Hph; [rewrite partial_kill_prun; assumption| | | |
    apply (partial_kill_complete dn m k I T Hph)];
  unfold partial_kill; (destruct (final k) as [r|] eqn:Hf; [exact T|]).
  all: match goal with |- context [if ?c then clean_temp SplitTmp ?x (partial ?x) else ?x] =>
         destruct (tinv_cond_clean c SplitTmp x T Hf eq_refl) as [T1 [F1 P1]];
         set (k1 := if c then clean_temp SplitTmp x (partial x) else x) in * end;
       match goal with |- context [if ?c then clean_temp ChunkTmp ?x (partial ?x) else ?x] =>
         destruct (tinv_cond_clean c ChunkTmp x T1 F1 eq_refl) as [T2 [F2 P2]];
         set (k2 := if c then clean_temp ChunkTmp x (partial x) else x) in * end;
       match goal with |- context [if ?c then clean_temp JoinTmp ?x (partial ?x) else ?x] =>
         destruct (tinv_cond_clean c JoinTmp x T2 F2 eq_refl) as [T3 [F3 P3]];
         set (k3 := if c then clean_temp JoinTmp x (partial x) else x) in * end;
       rewrite P3, P2, P1, Hph; exact T3.
Qed.

Lemma tinv_set_books : forall k b, tinv k -> tinv (set_books k b).
Proof. intros k b T. apply (tinv_same k); auto. Qed.
Lemma tinv_set_ph : forall k p, tinv k -> tinv (set_ph k p).
Proof. intros k p T. apply (tinv_same k); auto. Qed.
Lemma tinv_cache : forall k, tinv k -> tinv (cache k).
Proof. intros k T. apply (tinv_same k); auto. Qed.

Lemma tinv_advance : forall dn m k, inv dn k -> rinv k -> tinv k -> tinv (advance m dn k).
Proof.
  intros dn m k I R T. unfold advance. destruct (ph k) eqn:Hph.
  - destruct (r_prun _ R Hph) as [Pn [Fn Rn]].
    destruct (is_volatile m k); [|apply tinv_set_ph; exact T].
    replace (clean_temp SplitTmp (set_ph k PSplitDone) None)
      with (clean_temp SplitTmp (set_ph k PSplitDone) (partial (set_ph k PSplitDone))) by (cbn; rewrite Pn; reflexivity).
    apply tinv_clean_temp; [apply tinv_set_ph; exact T | exact Fn | reflexivity].
  - apply tinv_set_ph; exact T.
  - apply tinv_set_ph; exact T.
  - destruct m; try (unfold remove_empty; apply tinv_set_books; apply tinv_set_ph; exact T).
    unfold remove_empty. apply tinv_set_books. apply tinv_set_ph.
    apply (tinv_partial_kill dn); [apply inv_cache; exact I | apply tinv_cache; exact T].
  - exact T.
Qed.

Lemma tinv_initial : forall k, initial k -> tinv k.
Proof.
  intros k [E1 [E2 [E3 [E4 [E5 [E6 E7]]]]]]. constructor; rewrite ?E6, ?E7.
  - intros o _ H. discriminate.
  - intros H. contradiction.
Qed.

Definition sinv3 (s : sys) : Prop :=
  forall id k, In (id, k) (s_forks s) -> inv (s_done s) k /\ rinv k /\ tinv k.

Lemma step_sinv3 : forall s o, sinv3 s -> sinv3 (step s o).
Proof.
  intros s o S.
  assert (S2 : sinv2 s) by (intros id k H; destruct (S id k H) as [A [B C]]; split; assumption).
  assert (S2' := step_sinv2 s o S2).
  intros id k' H. destruct (S2' id k' H) as [A B]. split; [exact A|]. split; [exact B|]. clear A B.
  destruct o; cbn [step] in H.
  - cbn in H. apply (S id k' H).
  - cbn in H. apply upd_fork_In in H. destruct H as [k [A [ -> | -> ]]]; [apply (S id k A)|].
    destruct (S id k A) as [X [Y Z]]. apply (tinv_advance (s_done s)); assumption.
  - cbn in H. apply upd_fork_In in H. destruct H as [k [A [ -> | -> ]]]; [apply (S id k A)|].
    destruct (S id k A) as [X [Y Z]]. destruct (ph k); try assumption. apply tinv_cache. assumption.
  - cbn in H. apply upd_fork_In in H. destruct H as [k [A [ -> | -> ]]]; [apply (S id k A)|].
    destruct (S id k A) as [X [Y Z]]. apply (tinv_partial_kill (s_done s)); assumption.
  - destruct (mode_disabled (s_mode s)); [apply (S id k' H)|].
    destruct (sweep (s_mode s) (s_done s) (s_forks s)) as [l rs] eqn:E. cbn in H.
    assert (H' : In (id, k') (fst (sweep (s_mode s) (s_done s) (s_forks s)))) by (rewrite E; exact H).
    apply sweep_In in H'. destruct H' as [k [A ->]]. destruct (S id k A) as [X [Y Z]].
    apply (tinv_partial_kill (s_done s)); assumption.
  - destruct (get_fork src (s_forks s)) as [k|] eqn:G; [|apply (S id k' H)].
    destruct (get_fork new (s_forks s)); [apply (S id k' H)|].
    destruct (ph k); try apply (S id k' H).
    destruct (files_ok (k_split k) files vals) eqn:F; [|apply (S id k' H)].
    cbn in H. apply in_app_iff in H. destruct H as [H|[H|[]]]; [apply (S id k' H)|].
    inversion H; subst. constructor; cbn; [intros o _ X; discriminate | intros X; contradiction].
  - cbn in H. apply in_map_iff in H. destruct H as [[j k] [E H]]. cbn in E. inversion E; subst.
    destruct (S id k H) as [X [Y Z]]. apply (tinv_same k); auto.
Qed.

Lemma run_sinv3 : forall ops s, sinv3 s -> sinv3 (run s ops).
Proof.
  unfold run. induction ops as [|o ops IH]; intros s S; [exact S|]. cbn. apply IH. apply step_sinv3. exact S.
Qed.

Lemma init_sinv3 : forall s, init_ok s -> sinv3 s.
Proof.
  intros s [Hd Hf] id k H. rewrite Hd. destruct (Hf id k H) as [A B].
  split; [apply inv_initial | split; [apply rinv_initial | apply tinv_initial]]; assumption.
Qed.

(* temp_gone: after a partialVdrKill of a complete fork - in particular after
   the final sweep - none of its temporary files is left, in every mode *)
Theorem temp_gone : forall s ops, init_ok s ->
  forall id k, In (id, k) (s_forks (run s ops)) -> ph k = PComplete ->
  forall f, In f (disk (fst (fst (partial_kill (s_mode (run s ops)) (s_done (run s ops)) k)))) ->
  is_tmp (f_own f) = false.
Proof.
  intros s ops H id k Hin Hph. destruct (run_sinv3 ops s (init_sinv3 s H) id k Hin) as [I [R T]].
  apply (partial_kill_complete _ _ k I T Hph).
Qed.

(* ... and once a fork has its final report, no temporary file is left for good *)
Theorem temp_gone_final : forall s ops, init_ok s ->
  forall id k, In (id, k) (s_forks (run s ops)) -> final k <> None ->
  forall f, In f (disk k) -> is_tmp (f_own f) = false.
Proof.
  intros s ops H id k Hin Hf. destruct (run_sinv3 ops s (init_sinv3 s H) id k Hin) as [I [R T]].
  apply (t_final _ T Hf).
Qed.

(* the final sweep applies partialVdrKill to every fork *)
Theorem final_sweep_is_partial_kill : forall s, mode_disabled (s_mode s) = false ->
  forall id k', In (id, k') (s_forks (step s FinalSweep)) ->
  exists k, In (id, k) (s_forks s) /\ k' = fst (fst (partial_kill (s_mode s) (s_done s) k)).
Proof.
  intros s Hm id k' H. cbn [step] in H. rewrite Hm in H.
  destruct (sweep (s_mode s) (s_done s) (s_forks s)) as [l rs] eqn:E. cbn in H.
  apply sweep_In. rewrite E. exact H.
Qed.

(* ---- reclamation of chunk files and of unreferenced files: the mechanism,
   stated on the kill functions themselves (see Properties/C14.v for what is
   not proved about them) *)
Lemma chunk_files_gone_partial : forall m k,
  mode_disabled m = false -> final k = None -> is_volatile m k = false -> k_split k = true ->
  forall f, In f (disk (fst (full_kill m k))) -> f_own f <> ChunkFiles.
Proof.
  intros m k Hm Hf Hv Hs f H E. unfold full_kill in H. rewrite Hm, Hf, Hv, Hs in H. cbn in H.
  apply rm_paths_In in H. destruct H as [H1 H2]. apply H2. apply in_map. apply filter_In.
  split; [exact H1 | apply owner_eqb_eq; exact E].
Qed.

Lemma volatile_unreferenced_gone_partial : forall m k d,
  mode_disabled m = false -> fpm k = None ->
  forall f, In f (disk (fst (fst (kill_some m k d)))) -> is_tmp (f_own f) = false ->
  exists a, In a (f_names f) /\ has_key a (fa k) = true.
Proof.
  intros m k d Hm Hfpm f H Ht. unfold kill_some in H. rewrite Hfpm, Hm in H. cbv zeta in H.
  change (fpm (cache k)) with (Some (cache_entries k)) in H.
  set (es := cache_entries k) in *.
  assert (Hent : In f (disk k) -> In (f, filter (fun a => has_key a (fa k)) (f_names f)) es).
  { intros Hd. apply cache_entries_In. auto. }
  assert (Hnonnil : forall args, In (f, args) es -> args <> [] -> exists a, In a (f_names f) /\ has_key a (fa k) = true).
  { intros args Hin Hn. apply cache_entries_In in Hin. destruct Hin as [_ [_ ->]].
    destruct (filter (fun a => has_key a (fa k)) (f_names f)) as [|a l] eqn:E; [contradiction|].
    assert (Ha : In a (filter (fun a => has_key a (fa k)) (f_names f))) by (rewrite E; left; reflexivity).
    apply filter_In in Ha. exists a. exact Ha. }
  destruct (is_nil (filter (fun e => is_nil (snd e)) es)) eqn:Ek.
  - (* nothing to kill: every entry has arguments *)
    assert (Hd : In f (disk k)) by (destruct d; exact H).
    apply (Hnonnil _ (Hent Hd)). intros En.
    apply is_nil_true in Ek. assert (X : In (f, filter (fun a => has_key a (fa k)) (f_names f)) (filter (fun e => is_nil (snd e)) es)).
    { apply filter_In. split; [apply Hent; exact Hd|]. cbn. rewrite En. reflexivity. }
    rewrite Ek in X. contradiction.
  - assert (Hd : In f (rm_paths (map f_path (map fst (filter (fun e => is_nil (snd e)) es))) (disk k))).
    { destruct (is_nil (filter (fun e => negb (is_nil (snd e))) es) || d || is_nil (fp (cache k))); exact H. }
    apply rm_paths_In in Hd. destruct Hd as [Hd Hp].
    apply (Hnonnil _ (Hent Hd)). intros En. apply Hp. apply in_map. apply in_map_iff.
    exists (f, filter (fun a => has_key a (fa k)) (f_names f)). split; [reflexivity|].
    apply filter_In. split; [apply Hent; exact Hd|]. cbn. rewrite En. reflexivity.
Qed.

(* dynamic fork expansion: the new fork starts with exactly the books of the
   fork it was cloned from - every holder, the nil holder included - and these
   are the books its guarantees (C04) are stated against *)
Theorem clone_keeps_holders : forall s src new files vals k,
  get_fork src (s_forks s) = Some k -> get_fork new (s_forks s) = None -> ph k = PRun ->
  files_ok (k_split k) files vals = true ->
  exists k', In (new, k') (s_forks (step s (CloneFork src new files vals))) /\
             fa k' = fa k /\ fp k' = fp k /\ init_fa k' = fa k /\ init_fp k' = fp k /\
             files0 k' = files /\ disk k' = files.
Proof.
  intros s src new files vals k G1 G2 Hp Hok. cbn [step]. rewrite G1, G2, Hp, Hok.
  exists (fresh_clone k files vals). split; [cbn; apply in_app_iff; right; left; reflexivity|].
  repeat split.
Qed.
