(* parse_journal (the model of jobJournalRe under leftmost-first matching)
   applied to a printed journal name returns exactly what was printed. *)
From Coq Require Import String.
From Martian Require Import Lib.Bytes Extracted.Journal K.ForkName K.Journal Proofs.ForkName Proofs.Journal.
Local Open Scope N_scope.

Definition no_dot (s : bytes) : Prop := contains_byte c_dot s = false.
Definition nondot (b : byte) : bool := negb (beq b c_dot).

Lemma beq_sym a b : beq a b = beq b a.
Proof.
  destruct (beq a b) eqn:E; destruct (beq b a) eqn:F; try reflexivity.
  - apply beq_eq in E. subst. rewrite beq_refl in F. discriminate.
  - apply beq_eq in F. subst. rewrite beq_refl in E. discriminate.
Qed.

Lemma no_dot_cons c s : no_dot (c :: s) -> beq c_dot c = false /\ no_dot s.
Proof. unfold no_dot, contains_byte. cbn [existsb]. intro H. apply orb_false_iff in H. exact H. Qed.

Lemma no_dot_app a b : no_dot a -> no_dot b -> no_dot (a ++ b).
Proof. unfold no_dot, contains_byte. intros A B. rewrite existsb_app, A, B. reflexivity. Qed.

Lemma no_dot_skipn n : forall s, no_dot s -> no_dot (skipn n s).
Proof.
  induction n; intros s H; [exact H|]. destruct s; [exact H|].
  cbn [skipn]. apply IHn. apply (no_dot_cons _ _ H).
Qed.

Lemma no_dot_forallb s : no_dot s -> forallb nondot s = true.
Proof.
  induction s as [|c s IH]; intro H; [reflexivity|].
  destruct (no_dot_cons _ _ H) as [A B]. cbn [forallb]. unfold nondot at 1.
  rewrite beq_sym, A. cbn. apply IH. exact B.
Qed.

(* span *)
Lemma span_app_stop (f : byte -> bool) : forall a t,
  forallb f a = true -> match t with [] => True | c :: _ => f c = false end ->
  span f (a ++ t) = (a, t).
Proof.
  induction a as [|x a IH]; intros t Ha Ht.
  - cbn [app]. destruct t as [|c t]; [reflexivity|]. cbn [span]. rewrite Ht. reflexivity.
  - cbn [forallb] in Ha. apply andb_true_iff in Ha as [Hx Ha].
    cbn [app span]. rewrite Hx, (IH t Ha Ht). reflexivity.
Qed.

(* scanning *)
Lemma scan_app : forall rel pre s x,
  parse_scan (rev rel ++ pre) s = Some x -> parse_scan pre (rel ++ s) = Some x.
Proof.
  induction rel as [|c rel IH]; intros pre s x H; [exact H|].
  cbn [app parse_scan]. rewrite (IH (c :: pre) s x); [reflexivity|].
  cbn [rev] in H. rewrite <- app_assoc in H. exact H.
Qed.

Lemma is_prefix_dot_fork c r : beq c_dot c = false -> is_prefix s_dot_fork (c :: r) = false.
Proof. intro H. unfold s_dot_fork. cbn [is_prefix]. rewrite H. reflexivity. Qed.

Lemma scan_skip_nodot : forall piece pre s, no_dot piece ->
  parse_scan pre (piece ++ s) = parse_scan (rev piece ++ pre) s.
Proof.
  induction piece as [|c piece IH]; intros pre s H; [reflexivity|].
  destruct (no_dot_cons _ _ H) as [A B].
  cbn [app parse_scan]. rewrite (is_prefix_dot_fork c _ A).
  rewrite (IH (c :: pre) s B). cbn [rev]. rewrite <- app_assoc. cbn [app].
  destruct (parse_scan (rev piece ++ c :: pre) s); reflexivity.
Qed.

Lemma candidate_one_dot fq st : no_dot st -> parse_candidate fq (c_dot :: st) = None.
Proof.
  intro H. unfold parse_candidate.
  change (skipn 5 (c_dot :: st)) with (skipn 4 st).
  pose proof (span_app_stop nondot (skipn 4 st) [] (no_dot_forallb _ (no_dot_skipn 4 st H)) I) as E.
  rewrite app_nil_r in E. unfold nondot in E. rewrite E.
  destruct (skipn 4 st); reflexivity.
Qed.

Lemma scan_final pre st : no_dot st -> parse_scan pre (c_dot :: st) = None.
Proof.
  intro H. cbn [parse_scan].
  pose proof (scan_skip_nodot st (c_dot :: pre) [] H) as E. rewrite app_nil_r in E. rewrite E.
  cbn [parse_scan]. rewrite (candidate_one_dot _ st H). destruct (is_prefix s_dot_fork (c_dot :: st)); reflexivity.
Qed.

Definition c_f : byte := n2b 102.
Definition mid_ok (b : bytes) : Prop :=
  no_dot b /\ match b with c :: _ => beq c_f c = false | [] => False end.

Lemma scan_none_segs : forall mids last pre,
  Forall mid_ok mids -> no_dot last ->
  parse_scan pre (flat_map (fun b => c_dot :: b) mids ++ c_dot :: last) = None.
Proof.
  induction mids as [|b mids IH]; intros last pre Hm Hl.
  - apply scan_final. exact Hl.
  - inversion Hm as [|? ? [Hb Hc] Hrest]; subst.
    cbn [flat_map app parse_scan]. rewrite <- app_assoc.
    rewrite (scan_skip_nodot b (c_dot :: pre) _ Hb), (IH last _ Hrest Hl).
    destruct b as [|c b]; [contradiction|].
    unfold s_dot_fork, s_fork. cbn [map app is_prefix]. change (n2b 102) with c_f. rewrite Hc.
    rewrite andb_false_r. reflexivity.
Qed.

(* the real position *)
Lemma scan_real : forall rel tok mids last x,
  no_dot tok -> Forall mid_ok mids -> no_dot last ->
  parse_candidate rel (s_dot_fork ++ tok ++ flat_map (fun b => c_dot :: b) mids ++ c_dot :: last) = Some x ->
  parse_journal (rel ++ s_dot_fork ++ tok ++ flat_map (fun b => c_dot :: b) mids ++ c_dot :: last) = Some x.
Proof.
  intros rel tok mids last x Ht Hm Hl Hc. unfold parse_journal.
  apply scan_app. rewrite app_nil_r.
  unfold s_dot_fork at 1. cbn [app parse_scan].
  assert (Hf : no_dot s_fork) by reflexivity.
  rewrite (app_assoc s_fork tok), (scan_skip_nodot (s_fork ++ tok) _ _ (no_dot_app _ _ Hf Ht)).
  rewrite (scan_none_segs mids last _ Hm Hl).
  rewrite <- app_assoc.
  change (c_dot :: s_fork ++ tok ++ flat_map (fun b : list byte => c_dot :: b) mids ++ c_dot :: last)
    with (s_dot_fork ++ tok ++ flat_map (fun b : list byte => c_dot :: b) mids ++ c_dot :: last).
  rewrite is_prefix_app, rev_involutive. exact Hc.
Qed.

(* the uniquifier: ten lower-case hex digits, or none *)
Definition uniq_ok (u : bytes) : Prop := u = [] \/ (length u = 10%nat /\ forallb is_hexlow u = true).

Lemma hexlow_no_dot u : forallb is_hexlow u = true -> no_dot u.
Proof.
  induction u as [|c u IH]; intro H; [reflexivity|].
  cbn [forallb] in H. apply andb_true_iff in H as [Hc Hu].
  unfold no_dot, contains_byte in *. cbn [existsb]. rewrite (IH Hu), orb_false_r.
  destruct c; try reflexivity; discriminate Hc.
Qed.

Lemma digits_no_dot d : all_digits d -> no_dot d.
Proof.
  unfold all_digits. induction d as [|c d IH]; intro H; [reflexivity|].
  cbn [forallb] in H. apply andb_true_iff in H as [Hc Hd].
  unfold no_dot, contains_byte in *. cbn [existsb]. rewrite (IH Hd), orb_false_r.
  destruct c; try reflexivity; discriminate Hc.
Qed.

(* parse_tail on what follows the fork token *)
Lemma tail_uniq_absent fq idx chunk st : no_dot st ->
  (let '(uniq, r2) :=
    if is_prefix s_dot_u (c_dot :: st) then
      let h := firstn 10 (skipn 2 (c_dot :: st)) in
      let t := skipn 12 (c_dot :: st) in
      if (Nat.eqb (length h) 10) && forallb is_hexlow h then
        match t with
        | d :: _ => if beq d c_dot then (h, t) else ([], c_dot :: st)
        | [] => ([], c_dot :: st)
        end
      else ([], c_dot :: st)
    else ([], c_dot :: st) in
  match r2 with
  | d :: s => if beq d c_dot then Some (mkP fq idx chunk uniq s) else None
  | [] => None
  end) = Some (mkP fq idx chunk [] st).
Proof.
  intro H.
  assert (E : (if is_prefix s_dot_u (c_dot :: st) then
      let h := firstn 10 (skipn 2 (c_dot :: st)) in
      let t := skipn 12 (c_dot :: st) in
      if (Nat.eqb (length h) 10) && forallb is_hexlow h then
        match t with
        | d :: _ => if beq d c_dot then (h, t) else ([], c_dot :: st)
        | [] => ([], c_dot :: st)
        end
      else ([], c_dot :: st)
    else ([], c_dot :: st)) = (@nil byte, c_dot :: st)).
  { destruct (is_prefix s_dot_u (c_dot :: st)); [|reflexivity]. cbv zeta.
    destruct (Nat.eqb _ 10 && _); [|reflexivity].
    change (skipn 12 (c_dot :: st)) with (skipn 11 st).
    pose proof (no_dot_skipn 11 st H) as Hn.
    destruct (skipn 11 st) as [|d t]; [reflexivity|].
    destruct (no_dot_cons _ _ Hn) as [A _]. rewrite beq_sym, A. reflexivity. }
  rewrite E. rewrite beq_refl. reflexivity.
Qed.

Lemma parse_tail_spec fq idx (chunk : option bytes) uniq st :
  match chunk with Some ds => all_digits ds /\ ds <> [] | None => True end ->
  uniq_ok uniq -> no_dot st ->
  (chunk = None -> uniq = [] -> is_prefix s_dot_chnk (c_dot :: st) = false) ->
  parse_tail fq idx
    (match chunk with Some ds => s_dot_chnk ++ ds | None => [] end
     ++ match uniq with [] => [] | u => s_dot_u ++ u end ++ c_dot :: st)
  = Some (mkP fq idx chunk uniq st).
Proof.
  intros Hc Hu Hst Hnc. unfold parse_tail.
  set (r1 := match uniq with [] => [] | u => s_dot_u ++ u end ++ c_dot :: st).
  assert (Hr1 : exists t, r1 = c_dot :: t).
  { unfold r1. destruct uniq; cbn [app]; eexists; reflexivity. }
  (* chunk group *)
  assert (E1 : (if is_prefix s_dot_chnk (match chunk with Some ds => s_dot_chnk ++ ds | None => [] end ++ r1) then
      let (ds, t) := span is_digit (skipn 5 (match chunk with Some ds => s_dot_chnk ++ ds | None => [] end ++ r1)) in
      match ds, t with
      | _ :: _, d :: _ => if beq d c_dot then (Some ds, t) else (None, match chunk with Some ds => s_dot_chnk ++ ds | None => [] end ++ r1)
      | _, _ => (None, match chunk with Some ds => s_dot_chnk ++ ds | None => [] end ++ r1)
      end
    else (None, match chunk with Some ds => s_dot_chnk ++ ds | None => [] end ++ r1)) = (chunk, r1)).
  { destruct chunk as [ds|].
    - destruct Hc as [Hd Hne]. rewrite <- app_assoc, is_prefix_app.
      change (skipn 5 (s_dot_chnk ++ ds ++ r1)) with (ds ++ r1).
      destruct Hr1 as [t Ht]. rewrite Ht.
      rewrite (span_app_stop is_digit ds (c_dot :: t) Hd eq_refl).
      destruct ds; [congruence|]. rewrite beq_refl. reflexivity.
    - cbn [app]. unfold r1. destruct uniq as [|u0 u].
      + cbn [app]. rewrite (Hnc eq_refl eq_refl). reflexivity.
      + reflexivity. }
  rewrite E1. clear E1.
  (* uniquifier group *)
  unfold r1. destruct Hu as [->|[Hlen Hhex]].
  - cbn [app]. apply tail_uniq_absent. exact Hst.
  - do 10 (destruct uniq as [|? uniq]; [discriminate Hlen|]).
    destruct uniq; [|discriminate Hlen].
    cbn [app]. unfold s_dot_u. cbn [map app is_prefix]. rewrite !beq_refl. cbn [andb].
    cbn [skipn firstn length Nat.eqb]. rewrite Hhex. cbn [andb]. rewrite !beq_refl. reflexivity.
Qed.

(* ------------------------------------------------------------ main result *)
Definition printed_chunk (j : jowner) : option bytes :=
  match jo_run j with
  | RMain => Some (chunk_digits (width_for_int (jo_nchunks j)) (jo_chunk j))
  | _ => None
  end.

Definition printed (j : jowner) : jparse :=
  mkP (jo_rel j) (fork_tok (jo_id j)) (printed_chunk j) (jo_uniq j)
      (run_prefix (jo_run j) ++ jo_file j).

Lemma chunk_digits_spec w i :
  all_digits (chunk_digits w i) /\ chunk_digits w i <> [] /\ dec_val (chunk_digits w i) = i.
Proof.
  unfold chunk_digits. destruct (print_dec_spec i) as (Hd & Hne & Hv). repeat split.
  - apply all_digits_app; [apply all_digits_repeat0|exact Hd].
  - intro Hc. apply app_eq_nil in Hc as [_ Hc]. contradiction.
  - rewrite dec_val_zeros. exact Hv.
Qed.

Lemma journal_encode_nonempty x : x <> [] -> journal_encode x <> [].
Proof.
  destruct x as [|a x]; [congruence|]. intros _ H.
  unfold journal_encode, encode_with in H. cbn [flat_map] in H.
  apply app_eq_nil in H as [H _]. exact (prefix_code_nonempty jcode jcode_prefix_code a H).
Qed.

Lemma run_prefix_no_dot r : no_dot (run_prefix r).
Proof. destruct r; reflexivity. Qed.

Theorem parse_print_journal_lemma : forall j x,
  jo_id j = s_fork ++ x -> x <> [] -> uniq_ok (jo_uniq j) -> no_dot (jo_file j) ->
  parse_journal (journal_name j) = Some (printed j).
Proof.
  intros [rel id run chunk nch uniq file] x Hid Hx Hu Hf. cbn [jo_id jo_uniq jo_file] in *. subst id.
  unfold printed, printed_chunk, fork_tok, journal_name.
  cbn [jo_rel jo_id jo_run jo_chunk jo_nchunks jo_uniq jo_file].
  rewrite journal_encode_app, journal_encode_fork.
  change (skipn 4 (s_fork ++ journal_encode x)) with (journal_encode x).
  set (tok := journal_encode x).
  assert (Htok : no_dot tok) by apply journal_no_dot.
  assert (Htne : tok <> []) by (apply journal_encode_nonempty; exact Hx).
  set (pf := run_prefix run ++ file).
  assert (Hpf : no_dot pf) by (apply no_dot_app; [apply run_prefix_no_dot|exact Hf]).
  set (w := width_for_int nch).
  destruct (chunk_digits_spec w chunk) as (Hcd & Hcne & _).
  set (ochunk := match run with RMain => Some (chunk_digits w chunk) | _ => None end).
  set (mids := (match run with RMain => [s_chnk ++ chunk_digits w chunk] | _ => [] end)
               ++ match uniq with [] => [] | u => [n2b 117 :: u] end).
  match goal with |- parse_journal ?n = _ =>
    replace n with (rel ++ s_dot_fork ++ tok ++ flat_map (fun b => c_dot :: b) mids ++ c_dot :: pf) end.
  2: { unfold mids, chunk_name, s_dot_fork, pf. destruct run, uniq; cbn [app flat_map];
       rewrite ?app_nil_r; repeat rewrite <- app_assoc; reflexivity. }
  assert (Hmids : Forall mid_ok mids).
  { unfold mids. apply Forall_app. split.
    - destruct run; constructor; [|constructor]. split; [|reflexivity].
      apply no_dot_app; [reflexivity|apply digits_no_dot; exact Hcd].
    - destruct uniq as [|u0 u] eqn:Eu; constructor; [|constructor]. split; [|reflexivity].
      destruct Hu as [Hu|[_ Hu]]; [discriminate|].
      unfold no_dot, contains_byte. cbn [existsb]. apply (hexlow_no_dot _ Hu). }
  apply (scan_real rel tok mids pf _ Htok Hmids Hpf).
  (* the candidate at the writer's own fork marker *)
  unfold parse_candidate.
  change (skipn 5 (s_dot_fork ++ tok ++ flat_map (fun b => c_dot :: b) mids ++ c_dot :: pf))
    with (tok ++ flat_map (fun b => c_dot :: b) mids ++ c_dot :: pf).
  assert (HR : exists t, flat_map (fun b => c_dot :: b) mids ++ c_dot :: pf = c_dot :: t).
  { destruct mids; cbn [flat_map app]; eexists; reflexivity. }
  destruct HR as [t Ht].
  pose proof (span_app_stop nondot tok (flat_map (fun b => c_dot :: b) mids ++ c_dot :: pf)
                (no_dot_forallb _ Htok)) as Hs.
  rewrite Ht in Hs. specialize (Hs eq_refl). unfold nondot in Hs. rewrite Ht, Hs.
  destruct tok as [|t0 tok']; [congruence|].
  rewrite <- Ht.
  replace (flat_map (fun b => c_dot :: b) mids ++ c_dot :: pf)
    with (match ochunk with Some ds => s_dot_chnk ++ ds | None => [] end
          ++ match uniq with [] => [] | u => s_dot_u ++ u end ++ c_dot :: pf).
  - apply parse_tail_spec.
    + unfold ochunk. destruct run; try exact I. split; assumption.
    + exact Hu.
    + exact Hpf.
    + unfold ochunk, pf. destruct run; intros Hc _; try discriminate Hc; reflexivity.
  - unfold ochunk, mids. destruct run, uniq; cbn [app flat_map];
      rewrite ?app_nil_r; repeat rewrite <- app_assoc; reflexivity.
Qed.

(* The chunk number read back is the chunk that wrote. *)
Lemma printed_chunk_index j :
  chunk_index (printed j) = match jo_run j with RMain => Some (jo_chunk j) | _ => None end.
Proof.
  unfold chunk_index, printed, printed_chunk. cbn [jp_chunk].
  destruct (jo_run j); try reflexivity.
  destruct (chunk_digits_spec (width_for_int (jo_nchunks j)) (jo_chunk j)) as (_ & _ & V). rewrite V. reflexivity.
Qed.

(* Parsing the name a job wrote and looking the token up in the fork list of
   its node (any order) yields the writer's fork, chunk, attempt and file. *)
Theorem routing_within_node_lemma : forall toks i j x,
  NoDup toks -> jo_id j = s_fork ++ x -> x <> [] -> uniq_ok (jo_uniq j) ->
  no_dot (jo_file j) -> nth_error toks i = Some (fork_tok (jo_id j)) ->
  exists p, parse_journal (journal_name j) = Some p /\
    jp_fq p = jo_rel j /\ get_fork false toks (jp_idx p) = Some i /\
    chunk_index p = match jo_run j with RMain => Some (jo_chunk j) | _ => None end /\
    jp_uniq p = jo_uniq j /\ jp_state p = run_prefix (jo_run j) ++ jo_file j.
Proof.
  intros toks i j x Hnd Hid Hx Hu Hf Hi.
  exists (printed j). split; [exact (parse_print_journal_lemma j x Hid Hx Hu Hf)|].
  split; [reflexivity|]. split.
  - cbn [printed jp_idx]. apply Proofs.Journal.get_fork_exact_lemma; try assumption.
    rewrite Hid. unfold fork_tok. rewrite journal_encode_app, journal_encode_fork.
    change (skipn 4 (s_fork ++ journal_encode x)) with (journal_encode x).
    apply journal_encode_nonempty. exact Hx.
  - split; [apply printed_chunk_index|]. split; reflexivity.
Qed.
