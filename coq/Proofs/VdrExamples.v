(* A concrete producer fork used by the non-vacuity examples of C04 / C14:
   a volatile, non-splitting stage whose output 0 is bound by consumer 7 and
   whose output 1 is bound by the top-level pipeline. *)
From Martian Require Import Lib.Bytes Mro.Vdr Proofs.Vdr.
Local Open Scope N_scope.

Definition ex_files : list file :=
  [ mkFile 1 ChunkFiles 10 [0]; mkFile 2 ChunkFiles 20 [1];
    mkFile 3 ChunkTmp 5 []; mkFile 4 ChunkFiles 7 [] ].

Definition ex_fork : fork :=
  mkFork false true false false ex_files [0; 1]
         [(0, Some 7); (1, None)] [(7, 0)]
         [(0, Some 7); (1, None)] [(7, 0)]
         None ex_files [] None None PRun.

Definition ex_sys (m : mode) : sys := mkSys m [(0, ex_fork)] [] None.

(* the producer runs to completion, its files are cached, a first clean-up
   happens while consumer 7 is still pending *)
Definition ex_ops1 : list op :=
  [Advance 0; Advance 0; Advance 0; Advance 0; Cache 0; PartialKill 0].
(* ... then the consumer finishes and the pipestance completes *)
Definition ex_ops2 : list op := ex_ops1 ++ [ConsumerFinished 7; PartialKill 0; FinalSweep].

Lemma ex_init_ok : forall m, init_ok (ex_sys m).
Proof.
  intros m. split; [reflexivity|]. intros id k [H|[]]. inversion H; subst.
  split; [vm_compute; reflexivity|]. repeat split.
Qed.

Definition disk_paths (s : sys) : list (N * list path) :=
  map (fun e => (fst e, map f_path (disk (snd e)))) (s_forks s).
Definition removed_paths (s : sys) : list (N * list path) :=
  map (fun e => (fst e, map f_path (removed (snd e)))) (s_forks s).
