(* Proofs about K/Lock.v *)
From Martian Require Import Lib.Bytes K.Lock.

Lemma mem_In : forall i l, mem i l = true <-> In i l.
Proof.
  intros i l. unfold mem. rewrite existsb_exists. split.
  - intros [x [H1 H2]]. apply N.eqb_eq in H2. subst. assumption.
  - intro H. exists i. split; [assumption|apply N.eqb_refl].
Qed.

Lemma remove_n_In : forall i j l, In j (remove_n i l) -> In j l.
Proof. intros i j l H. unfold remove_n in H. apply filter_In in H. tauto. Qed.

(* while nobody unlocks, an existing lock file stays *)
Lemma locked_stays : forall h s, lock_file s = true -> forallb (fun e => negb (is_unlock e)) h = true ->
  lock_file (lock_run s h) = true.
Proof.
  induction h as [|e h IH]; cbn; intros s Hl Hn; [assumption|].
  apply andb_true_iff in Hn as [He Hh]. apply IH; [|assumption].
  destruct e as [i|i|i|i]; cbn in *; try discriminate.
  - rewrite Hl. cbn. assumption.
  - destruct (mem i (saw_free s)); cbn; auto.
  - assumption.
Qed.

(* an instance that is neither holding nor between check and write cannot
   become a holder without a new check *)
Lemma no_check_no_hold : forall h s j,
  ~ In j (saw_free s) -> ~ In j (holders s) ->
  forallb (fun e => negb (is_check_of j e)) h = true ->
  ~ In j (holders (lock_run s h)) /\ ~ In j (saw_free (lock_run s h)).
Proof.
  induction h as [|e h IH]; cbn; intros s j H1 H2 Hn; [auto|].
  apply andb_true_iff in Hn as [He Hh]. apply IH; [| |assumption].
  - destruct e as [i|i|i|i]; cbn in *.
    + apply negb_true_iff in He. destruct (lock_file s); cbn; [assumption|].
      intros [E|E]; [subst; rewrite N.eqb_refl in He; discriminate|auto].
    + destruct (mem i (saw_free s)); cbn; [|assumption]. intro E. apply remove_n_In in E. auto.
    + assumption.
    + assumption.
  - destruct e as [i|i|i|i]; cbn in *.
    + destruct (lock_file s); cbn; assumption.
    + destruct (mem i (saw_free s)) eqn:M; cbn; [|assumption].
      intros [E|E]; [subst; apply mem_In in M; auto|auto].
    + intro E. apply remove_n_In in E. auto.
    + assumption.
Qed.

Lemma run_app : forall a b s, lock_run s (a ++ b) = lock_run (lock_run s a) b.
Proof. intros. unfold lock_run. apply fold_left_app. Qed.

(* If instance i's lock write takes effect before instance j checks, and
   nobody unlocks in between, j is refused and - whatever happens afterwards,
   short of j starting over with a new check - never holds the pipestance. *)
Lemma lock_exclusion_lemma : forall s i j mid post,
  In i (saw_free s) -> i <> j ->
  ~ In j (saw_free s) -> ~ In j (holders s) ->
  forallb (fun e => negb (is_unlock e)) mid = true ->
  forallb (fun e => negb (is_check_of j e)) post = true ->
  let s1 := lock_step s (LWrite i) in
  let s2 := lock_run s1 (mid ++ [LCheck j]) in
  In i (holders s1) /\ lock_file s1 = true /\
  In j (refused s2) /\ ~ In j (holders (lock_run s2 post)).
Proof.
  intros s i j mid post Hi Hij Hj1 Hj2 Hmid Hpost. cbn zeta.
  assert (mem i (saw_free s) = true) as M by (apply mem_In; assumption).
  assert (lock_step s (LWrite i) =
          mk_lock true (remove_n i (saw_free s)) (i :: holders s) (refused s) (readers s)) as E1.
  { cbn. rewrite M. reflexivity. }
  rewrite E1. split; [cbn; auto|]. split; [reflexivity|].
  set (s1 := mk_lock true (remove_n i (saw_free s)) (i :: holders s) (refused s) (readers s)).
  rewrite run_app.
  assert (lock_file (lock_run s1 mid) = true) as L by (apply locked_stays; [reflexivity|assumption]).
  (* j is still outside after mid: split mid at j's checks is not needed, a
     check of j in mid is refused as well because the file is there *)
  assert (forall h t, lock_file t = true -> forallb (fun e => negb (is_unlock e)) h = true ->
            ~ In j (saw_free t) -> ~ In j (holders t) ->
            ~ In j (saw_free (lock_run t h)) /\ ~ In j (holders (lock_run t h))) as Out.
  { induction h as [|e h IH]; cbn; intros t Lt Hn A B; [auto|].
    apply andb_true_iff in Hn as [He Hh].
    assert (lock_file (lock_step t e) = true) as Lt'.
    { apply (locked_stays [e] t Lt). cbn. rewrite He. reflexivity. }
    apply IH; [assumption|assumption| |].
    - destruct e as [k|k|k|k]; cbn in *; try discriminate.
      + rewrite Lt. cbn. assumption.
      + destruct (mem k (saw_free t)); cbn; [|assumption]. intro E. apply remove_n_In in E. auto.
      + assumption.
    - destruct e as [k|k|k|k]; cbn in *; try discriminate.
      + rewrite Lt. cbn. assumption.
      + destruct (mem k (saw_free t)) eqn:Mk; cbn; [|assumption].
        intros [E|E]; [subst; apply mem_In in Mk; auto|auto].
      + assumption. }
  destruct (Out mid s1 eq_refl Hmid) as [A B].
  { cbn. intro E. apply remove_n_In in E. auto. }
  { cbn. intros [E|E]; auto. }
  cbn [lock_run fold_left lock_step]. fold (lock_run s1 mid). rewrite L. split; [cbn; auto|].
  apply no_check_no_hold; cbn; assumption.
Qed.

(* a read-only attach is always admitted and changes nothing else *)
Lemma readonly_always_lemma : forall s j,
  let s' := lock_step s (LAttachRO j) in
  In j (readers s') /\ lock_file s' = lock_file s /\ holders s' = holders s /\ refused s' = refused s.
Proof. intros. cbn. auto. Qed.

(* without the ordering hypothesis exclusion fails: two checks before either
   write give two holders (the TOCTOU window of Pipestance.Lock) *)
Lemma lock_toctou_lemma : exists h, length (holders (lock_run lock_init h)) = 2.
Proof. exists [LCheck 1%N; LCheck 2%N; LWrite 1%N; LWrite 2%N]. reflexivity. Qed.

(* why a refused or read-only instance must never unlock: a removal by an
   instance that does not hold the pipestance lets a second writer in while
   the first still holds it *)
Lemma foreign_unlock_lemma : exists h,
  forallb (fun e => match e with LUnlock i => negb (N.eqb i 1 || N.eqb i 2) | _ => true end) h = true /\
  holders (lock_run lock_init h) = [2%N; 1%N].
Proof. exists [LCheck 1%N; LWrite 1%N; LAttachRO 3%N; LUnlock 3%N; LCheck 2%N; LWrite 2%N]. split; reflexivity. Qed.
