From Martian Require Import Lib.Bytes K.JobScript.

Lemma first_pair_key : forall keys vals s i,
  length keys = length vals ->
  first_pair (combine keys vals) s =
  match first_key keys s i with
  | Some (j, n) => Some (nth (j - i) keys [], nth (j - i) vals [])
  | None => None
  end
  /\ (forall j n, first_key keys s i = Some (j, n) -> i <= j /\ n = length (nth (j - i) keys [])).
Proof.
  induction keys as [|k keys IH]; intros vals s i Hl.
  - split; [reflexivity|]. intros j n H. discriminate.
  - destruct vals as [|v vals]; [discriminate|]. cbn [combine first_pair first_key fst].
    destruct (nonempty k && is_prefix k s) eqn:E.
    + split.
      * rewrite Nat.sub_diag. reflexivity.
      * intros j n H. injection H as <- <-. rewrite Nat.sub_diag. split; [lia|reflexivity].
    + injection Hl as Hl. destruct (IH vals s (S i) Hl) as [H1 H2]. split.
      * rewrite H1. destruct (first_key keys s (S i)) as [[j n]|] eqn:F; [|reflexivity].
        destruct (H2 j n eq_refl) as [Hle _].
        replace (j - i) with (S (j - S i)) by lia. reflexivity.
      * intros j n H. destruct (H2 j n H) as [Hle Hn]. split; [lia|].
        replace (j - i) with (S (j - S i)) by lia. exact Hn.
Qed.

(* Substitution factors through the scan of the template: which positions are
   replaced is a function of the template and the keys, never of the values. *)
Lemma replace_factors_fuel : forall fuel keys vals s,
  length keys = length vals ->
  replace_fuel fuel (combine keys vals) s = render vals (scan fuel keys s).
Proof.
  induction fuel as [|f IH]; intros keys vals s Hl.
  - cbn. unfold render. rewrite map_map. cbn.
    induction s as [|c s IHs]; [reflexivity|]. cbn. rewrite <- IHs. reflexivity.
  - destruct s as [|c r]; [reflexivity|]. cbn [replace_fuel scan].
    destruct (first_pair_key keys vals (c :: r) 0 Hl) as [H1 H2]. rewrite H1.
    destruct (first_key keys (c :: r) 0) as [[j n]|] eqn:F.
    + destruct (H2 j n eq_refl) as [_ Hn]. rewrite Nat.sub_0_r in *.
      cbn [fst snd]. unfold render. cbn [map List.concat]. fold (render vals (scan f keys (skipn n (c :: r)))).
      rewrite <- Hn. rewrite IH by exact Hl. reflexivity.
    + unfold render. cbn [map List.concat app]. fold (render vals (scan f keys r)).
      rewrite IH by exact Hl. reflexivity.
Qed.

Theorem replace_factors : forall keys vals s,
  length keys = length vals ->
  replace_all (combine keys vals) s = render vals (scan (S (length s)) keys s).
Proof. intros. apply replace_factors_fuel. assumption. Qed.

(* hence two value lists give scripts that differ only inside the values *)
Corollary same_positions : forall keys vals vals' s,
  length keys = length vals -> length keys = length vals' ->
  exists ts, replace_all (combine keys vals) s = render vals ts /\
             replace_all (combine keys vals') s = render vals' ts.
Proof.
  intros keys vals vals' s H H'. exists (scan (S (length s)) keys s).
  split; apply replace_factors; assumption.
Qed.
