(* Meta-theory of the dataflow semantics Mro/Sem.v (C01, C03). *)
From Martian Require Import Lib.Bytes Json.Json Mro.Sem.

Section SemFacts.
  Variable P : program.
  Variable Orc : oracle.
  Variable pf : nat.

  Notation ecall := (eval_call P Orc pf).
  Notation ecallable := (eval_callable P Orc pf).
  Notation eexp := (eval_exp P pf).

  Definition is_disabled (E : env) (c : call) : bool :=
    match c_disabled c with
    | Some e => match eexp E e with JBool true => true | _ => false end
    | None => false
    end.

  (* ---- a disabled call runs nothing and its outputs are null; for a mapped
     call, within the latitude of the property, they may instead be a
     collection of nulls (one per element), which nullify collapses ---- *)
  Lemma nullify_nulls_arr (A : Type) (l : list A) :
    nullify (JArr (map (fun _ => JNull) l)) = JNull.
  Proof.
    cbn [nullify]. rewrite map_map. cbn [nullify].
    replace (forallb is_null (map (fun _ : A => JNull) l)) with true; [reflexivity|].
    induction l as [|x l IH]; cbn; [reflexivity|exact IH].
  Qed.

  Lemma nullify_nulls_obj (keys : list (json * json)) :
    nullify (JObj (map (fun ko : (json * json) * json =>
                          (match fst (fst ko) with JStr s => s | _ => [] end, snd ko))
                       (combine keys (map (fun _ => JNull) keys)))) = JNull.
  Proof.
    cbn [nullify]. rewrite map_map. cbn [fst snd].
    match goal with |- (if ?b then _ else _) = _ => replace b with true; [reflexivity|] end.
    symmetry. apply forallb_forall. intros kv Hin.
    apply in_map_iff in Hin. destruct Hin as [[kx v] [Hk Hin]]. subst kv. cbn [snd].
    apply in_combine_r in Hin. apply in_map_iff in Hin. destruct Hin as [x [Hx _]].
    rewrite <- Hx. reflexivity.
  Qed.

  Lemma collect_nulls_nullify k elems :
    nullify (collect k elems (map (fun _ => JNull) elems)) = JNull.
  Proof.
    destruct k; unfold collect; [apply nullify_nulls_arr | apply nullify_nulls_obj].
  Qed.

  Lemma disabled_gives_null f E path c :
    is_disabled E c = true ->
    nullify (fst (fst (ecall (S f) E path c))) = JNull /\
    snd (ecall (S f) E path c) = [] /\
    (o_nulls Orc (path ++ [c_id c]) = false \/ c_mapped c = None ->
     fst (fst (ecall (S f) E path c)) = JNull).
  Proof.
    unfold is_disabled. intros H. cbn [eval_call].
    destruct (c_disabled c) as [e|]; [|discriminate].
    destruct (eexp E e) as [| [|] | | | |]; try discriminate.
    destruct (c_mapped c) as [k|].
    - destruct (o_nulls Orc (path ++ [c_id c])).
      + cbn [fst snd]. split; [apply collect_nulls_nullify|]. split; [reflexivity|].
        intros [Hx|Hx]; discriminate.
      + cbn [fst snd]. repeat split; reflexivity.
    - cbn [fst snd]. repeat split; reflexivity.
  Qed.

  (* ---- a single (unmapped) enabled call: the callee sees exactly the values
     the binding expressions denote, under the extended path ---- *)
  Lemma single_call_args f E path c :
    is_disabled E c = false -> c_mapped c = None ->
    ecall (S f) E path c =
    let r := ecallable f (c_callee c) (path ++ [c_id c])
               (JObj (map (fun b => (fst b, eexp E (snd (snd b)))) (c_binds c))) in
    ((fst r, TStruct (c_callee c)), snd r).
  Proof.
    unfold is_disabled. intros Hd Hm. cbn [eval_call]. rewrite Hm.
    assert (Hd' : match c_disabled c with
                  | Some e => match eexp E e with JBool true => true | _ => false end
                  | None => false end = false) by exact Hd.
    rewrite Hd'. cbv zeta. rewrite map_map. cbn [fst snd]. reflexivity.
  Qed.

  (* ---- mapped calls are elementwise ---- *)

  (* what fork i of a mapped call receives for each parameter *)
  Lemma fork_args_array : forall (vals : list (bytes * (bool * json))) i key n sp v,
    In (n, (sp, v)) vals ->
    In (n, if sp then match v with JArr l => nth i l JNull | _ => JNull end else v)
       (fork_args MArr vals i key).
  Proof.
    intros vals i key n sp v Hin. unfold fork_args.
    apply in_map_iff. exists (n, (sp, v)). split; [|exact Hin].
    cbn [fst snd]. destruct sp; [|reflexivity]. destruct v; reflexivity.
  Qed.

  Lemma fork_args_map : forall (vals : list (bytes * (bool * json))) i k n sp v,
    In (n, (sp, v)) vals ->
    In (n, if sp then match v with
                      | JObj kvs => match assoc_get k kvs with Some x => x | None => JNull end
                      | _ => JNull end else v)
       (fork_args MMap vals i (JStr k)).
  Proof.
    intros vals i k n sp v Hin. unfold fork_args.
    apply in_map_iff. exists (n, (sp, v)). split; [|exact Hin].
    cbn [fst snd]. destruct sp; [|reflexivity]. destruct v; reflexivity.
  Qed.

  Lemma fork_args_names vals k i key :
    map fst (fork_args k vals i key) = map fst vals.
  Proof. unfold fork_args. rewrite map_map. apply map_ext. intros [n [sp v]]. reflexivity. Qed.

  Definition bind_vals (E : env) (c : call) : list (bytes * (bool * json)) :=
    map (fun b => (fst b, (fst (snd b), eexp E (snd (snd b))))) (c_binds c).

  (* A mapped call has exactly one fork per element (key) of the collection
     it maps over, in order; fork i is the callee run on fork_args i; the
     result is the collection of the forks' results; the jobs executed are the
     concatenation of the forks' jobs, and nothing else. *)
  Lemma map_call_elementwise f E path c k :
    is_disabled E c = false -> c_mapped c = Some k ->
    let vals := bind_vals E c in
    let elems := split_elems k (first_split vals) in
    let forks := map (fun ie => ecallable f (c_callee c) (path ++ [c_id c])
                                  (JObj (fork_args k vals (fst ie) (fst (snd ie)))))
                     (combine (seq 0 (length elems)) elems) in
    length forks = length elems /\
    fst (fst (ecall (S f) E path c)) = collect k elems (map fst forks) /\
    snd (ecall (S f) E path c) = List.concat (map snd forks).
  Proof.
    unfold is_disabled. intros Hd Hm. cbv zeta. cbn [eval_call]. rewrite Hm.
    assert (Hd' : match c_disabled c with
                  | Some e => match eexp E e with JBool true => true | _ => false end
                  | None => false end = false) by exact Hd.
    rewrite Hd'. cbv zeta. unfold bind_vals.
    split; [|split; reflexivity].
    rewrite map_length, combine_length, seq_length. apply Nat.min_id.
  Qed.

  (* mapping over an empty or null collection executes no job at all *)
  Lemma map_call_empty f E path c k :
    is_disabled E c = false -> c_mapped c = Some k ->
    split_elems k (first_split (bind_vals E c)) = [] ->
    snd (ecall (S f) E path c) = [].
  Proof.
    intros Hd Hm He.
    destruct (map_call_elementwise f E path c k Hd Hm) as (_ & _ & Hinv).
    rewrite Hinv. cbv zeta. rewrite He. reflexivity.
  Qed.

  Lemma split_elems_null k : split_elems k JNull = [].
  Proof. destruct k; reflexivity. Qed.

  (* ---- stages: the jobs of one stage invocation ---- *)

  Lemma stage_nosplit_jobs name s path args :
    st_split s = None ->
    eval_stage Orc name s path args =
    (o_main Orc name args, [{| i_path := path; i_phase := PhMain; i_args := args |}]).
  Proof. intros H. unfold eval_stage. rewrite H. reflexivity. Qed.

  (* a splitting stage: one split job, one chunk job per chunk definition in
     order, each receiving the stage arguments merged with its definition, and
     one join job that sees all chunk definitions and all chunk outputs,
     complete and in chunk order *)
  Lemma stage_split_jobs name s path args ci co :
    st_split s = Some (ci, co) ->
    let defs := o_split Orc name args in
    let merged := map (merge_obj args) defs in
    let couts := map (o_chunk Orc name) merged in
    snd (eval_stage Orc name s path args) =
      {| i_path := path; i_phase := PhSplit; i_args := args |}
      :: map (fun im => {| i_path := path; i_phase := PhChunk (fst im); i_args := snd im |})
             (combine (seq 0 (length merged)) merged)
      ++ [{| i_path := path; i_phase := PhJoin;
             i_args := JObj [(bs_args, args); (bs_defs, JArr defs); (bs_outs, JArr couts)] |}]
    /\ length couts = length defs
    /\ fst (eval_stage Orc name s path args) = o_join Orc name args defs couts.
  Proof.
    intros H. cbv zeta. unfold eval_stage. rewrite H. cbn [fst snd].
    split; [reflexivity|]. split; [|reflexivity]. rewrite !map_length. reflexivity.
  Qed.

  Lemma chunk_job_args name s path args ci co i d :
    st_split s = Some (ci, co) ->
    nth_error (o_split Orc name args) i = Some d ->
    In {| i_path := path; i_phase := PhChunk i; i_args := merge_obj args d |}
       (snd (eval_stage Orc name s path args)).
  Proof.
    intros H Hn. destruct (stage_split_jobs name s path args ci co H) as (Hj & _ & _).
    rewrite Hj. right. apply in_or_app. left.
    apply in_map_iff. exists (i, merge_obj args d). split; [reflexivity|].
    assert (Hm : nth_error (map (merge_obj args) (o_split Orc name args)) i = Some (merge_obj args d))
      by (apply map_nth_error; exact Hn).
    remember (map (merge_obj args) (o_split Orc name args)) as l eqn:El. clear El Hn.
    assert (Hgen : forall (l : list json) i b x, nth_error l i = Some x ->
                     In (b + i, x) (combine (seq b (length l)) l)).
    { clear. induction l as [|y l IH]; intros i b x Hx; [destruct i; discriminate|].
      destruct i as [|i]; cbn in *.
      - injection Hx as ->. left. f_equal. lia.
      - right. replace (b + S i) with (S b + i) by lia. apply IH. exact Hx. }
    apply (Hgen l i 0 _ Hm).
  Qed.
End SemFacts.

(* ---- conversion to a declared type (struct narrowing) ---- *)

Section Coerce.
  Variable ss : structs.

  (* a struct value converted to a struct type carries exactly the declared
     fields, in declaration order: undeclared fields are dropped *)
  Lemma coerce_struct_fields f n fs kvs :
    assoc_get n ss = Some fs ->
    exists vals, coerce ss (S f) (TStruct n) (JObj kvs) = JObj vals /\ map fst vals = map fst fs.
  Proof.
    intros H. cbn [coerce]. rewrite H. eexists. split; [reflexivity|].
    rewrite map_map. reflexivity.
  Qed.

  Lemma coerce_null f t : coerce ss f t JNull = JNull.
  Proof. destruct f; [reflexivity|]. destruct t; reflexivity. Qed.

  Lemma coerce_array f t l : coerce ss (S f) (TArr t) (JArr l) = JArr (map (coerce ss f t) l).
  Proof. reflexivity. Qed.

  Lemma coerce_map f t kvs :
    coerce ss (S f) (TMap t) (JObj kvs) = JObj (map (fun kv => (fst kv, coerce ss f t (snd kv))) kvs).
  Proof. reflexivity. Qed.

  (* projection distributes over arrays and typed maps *)
  Lemma proj_array f t l k :
    fst (proj_field ss (S f) (TArr t) (JArr l) k) = JArr (map (fun x => fst (proj_field ss f t x k)) l).
  Proof. reflexivity. Qed.

  Lemma proj_map f t kvs k :
    fst (proj_field ss (S f) (TMap t) (JObj kvs) k)
    = JObj (map (fun kv => (fst kv, fst (proj_field ss f t (snd kv) k))) kvs).
  Proof. reflexivity. Qed.

  Lemma proj_null f t k : fst (proj_field ss f t JNull k) = JNull.
  Proof.
    destruct f; [reflexivity|]. destruct t; try reflexivity.
    cbn [proj_field]. destruct (assoc_get name ss) as [fs|]; [|reflexivity].
    destruct (assoc_get k fs); reflexivity.
  Qed.
End Coerce.

(* ---- a pipeline's outputs are what its return bindings denote ---- *)
Lemma fold_env_shape (step : env * list inv -> call -> env * list inv) :
  (forall acc c, e_self (fst (step acc c)) = e_self (fst acc) /\
                 map fst (e_calls (fst (step acc c))) = map fst (e_calls (fst acc)) ++ [c_id c]) ->
  forall calls acc,
    e_self (fst (fold_left step calls acc)) = e_self (fst acc) /\
    map fst (e_calls (fst (fold_left step calls acc))) = map fst (e_calls (fst acc)) ++ map c_id calls.
Proof.
  intros Hstep. induction calls as [|c calls IH]; intros acc.
  - cbn. rewrite app_nil_r. split; reflexivity.
  - cbn [fold_left]. destruct (IH (step acc c)) as [Hs Hc]. destruct (Hstep acc c) as [Hs1 Hc1].
    rewrite Hs, Hc, Hs1, Hc1. cbn [map]. rewrite <- app_assoc. split; reflexivity.
Qed.

Section PipelineOuts.
  Variable P : program.
  Variable Orc : oracle.
  Variable pf : nat.

  Lemma pipeline_outputs f name path args p :
    assoc_get name (pr_callables P) = Some (CPipe p) ->
    exists E,
      e_self E = coerce_fields (pr_structs P ++ map (fun nc => (fst nc, callable_outs (snd nc))) (pr_callables P))
                   pf (p_ins p) args /\
      map fst (e_calls E) = map c_id (p_calls p) /\
      fst (eval_callable P Orc pf (S f) name path args) =
      JObj (map (fun ot =>
                   (fst ot,
                    coerce (pr_structs P ++ map (fun nc => (fst nc, callable_outs (snd nc))) (pr_callables P))
                      pf (snd ot)
                      (match assoc_get (fst ot) (p_ret p) with
                       | Some e => eval_exp P pf E e
                       | None => JNull
                       end))) (p_outs p)).
  Proof.
    intros H. cbn [eval_callable]. rewrite H.
    match goal with |- context [fold_left ?st (p_calls p) ?init] =>
      assert (Hst : forall acc c, e_self (fst (st acc c)) = e_self (fst acc) /\
                 map fst (e_calls (fst (st acc c))) = map fst (e_calls (fst acc)) ++ [c_id c]);
      [ intros [E0 i0] c; cbn [fst e_self e_calls]; rewrite map_app; split; reflexivity |];
      destruct (fold_env_shape st Hst (p_calls p) init) as [Hs Hc];
      destruct (fold_left st (p_calls p) init) as [E invs] eqn:EF
    end.
    exists E. cbn [fst e_self e_calls map app] in Hs, Hc.
    split; [exact Hs|]. split; [exact Hc|]. reflexivity.
  Qed.
End PipelineOuts.
