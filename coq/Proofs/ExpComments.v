(* Proofs about K/ExpComments: every comment inside a collection literal is
   printed exactly once, in order. *)
From Martian Require Import Lib.Bytes K.ExpComments.

Section CexpInd.
  Variable P : cexp -> Prop.
  Hypothesis HL : P CLeaf.
  Hypothesis HA : forall items, Forall (fun it => P (snd it)) items -> P (CArr items).
  Hypothesis HM : forall entries, Forall (fun it => P (snd it)) entries -> P (CMap entries).
  Fixpoint cexp_ind2 (e : cexp) : P e :=
    let each := fix go (l : list (list N * cexp)) : Forall (fun it => P (snd it)) l :=
      match l with
      | [] => Forall_nil _
      | it :: r => Forall_cons it (cexp_ind2 (snd it)) (go r)
      end in
    match e with
    | CLeaf => HL
    | CArr items => HA items (each items)
    | CMap entries => HM entries (each entries)
    end.
End CexpInd.

Fixpoint each_fmt (l : list (list N * cexp)) : list N :=
  match l with
  | [] => []
  | (cs, x) :: r => cs ++ fmt false x ++ each_fmt r
  end.
Fixpoint each_in (l : list (list N * cexp)) : list N :=
  match l with
  | [] => []
  | (cs, x) :: r => cs ++ inorder x ++ each_in r
  end.

Lemma each_eq : forall l,
  Forall (fun it => forall single, (single = true -> slf (snd it) = true) ->
                    fmt single (snd it) = inorder (snd it)) l ->
  each_fmt l = each_in l.
Proof.
  induction l as [|[cs x] r IH]; intros H; [reflexivity|].
  inversion H as [|? ? Hx Hr]; subst. cbn [each_fmt each_in]. cbn [snd] in Hx.
  rewrite (Hx false) by discriminate. rewrite IH by exact Hr. reflexivity.
Qed.

Lemma fmt_inorder_gen : forall e single,
  (single = true -> slf e = true) -> fmt single e = inorder e.
Proof.
  induction e as [|items IH|entries IH] using cexp_ind2; intros single Hs.
  - reflexivity.
  - destruct items as [|[cs x] rest]; [reflexivity|].
    change (inorder (CArr ((cs, x) :: rest))) with (each_in ((cs, x) :: rest)).
    change (fmt single (CArr ((cs, x) :: rest))) with
      (if (single || slf (CArr ((cs, x) :: rest))) && no_comments cs
       then match x with CArr _ => fmt true x | _ => fmt false x end
       else each_fmt ((cs, x) :: rest)).
    destruct ((single || slf (CArr ((cs, x) :: rest))) && no_comments cs) eqn:E.
    + apply andb_prop in E as [E1 E2].
      assert (Hslf : slf (CArr ((cs, x) :: rest)) = true).
      { destruct single; [apply Hs; reflexivity|exact E1]. }
      destruct rest as [|it2 rest]; [|cbn in Hslf; discriminate].
      cbn [slf] in Hslf. destruct cs; [|discriminate].
      inversion IH as [|? ? Hx _]; subst. cbn [snd] in Hx.
      cbn [each_in app]. rewrite app_nil_r.
      destruct x; [apply Hx; discriminate|apply Hx; intros _; exact Hslf|apply Hx; discriminate].
    + apply each_eq. exact IH.
  - change (inorder (CMap entries)) with (each_in entries).
    change (fmt single (CMap entries)) with (each_fmt entries).
    apply each_eq. exact IH.
Qed.

(* every comment attached inside a collection literal is printed exactly once
   and in order, whatever the nesting *)
Lemma fmt_inorder_lemma : forall e, fmt false e = inorder e.
Proof. intros e. apply fmt_inorder_gen. discriminate. Qed.

(* with the has-comments test skipped for an inner array that the caller
   classified as single-line, the comment before the 7 of [[7]] is lost *)
Lemma fmt_slip_refuted_lemma :
  exists e, fmt_slip false e <> inorder e /\ inorder e = [5%N].
Proof. exists (CArr [([], CArr [([5%N], CLeaf)])]). split; [vm_compute; discriminate|reflexivity]. Qed.
