(* Proofs about K/TopoSort: the sort only rearranges, and leaves a list that is
   already in dependency order exactly as it is (stability). *)
From Coq Require Import Permutation.
From Martian Require Import Lib.Bytes K.TopoSort.
Local Open Scope N_scope.

Lemma move_perm {A} (c : A) (tail : list A) (i : nat) :
  Permutation (firstn i tail ++ c :: skipn i tail) (c :: tail).
Proof.
  apply Permutation_sym. rewrite <- (firstn_skipn i tail) at 1.
  apply Permutation_middle.
Qed.

Lemma sort_loop_perm : forall fuel done rest out,
  sort_loop fuel done rest = Some out -> Permutation out (rev done ++ rest).
Proof.
  induction fuel as [|f IH]; intros done rest out H.
  - destruct rest as [|c [|c2 tail]]; cbn in H; try discriminate;
      injection H as <-; rewrite ?app_nil_r; apply Permutation_refl.
  - destruct rest as [|c [|c2 tail]]; cbn [sort_loop] in H.
    + injection H as <-. rewrite app_nil_r. apply Permutation_refl.
    + injection H as <-. apply Permutation_refl.
    + destruct (last_dep (snd c) (c2 :: tail) 0 None) as [i|].
      * apply IH in H. eapply perm_trans; [exact H|].
        apply Permutation_app_head. apply move_perm.
      * apply IH in H. cbn [rev] in H. rewrite <- app_assoc in H. exact H.
Qed.

Lemma topo_sort_perm_lemma : forall g out,
  topo_sort g = Some out -> Permutation out (map fst g).
Proof.
  intros g out H. unfold topo_sort in H.
  destruct (cyclic (closure g)); [discriminate|].
  destruct (sort_loop _ [] (closure g)) as [o|] eqn:E; [|discriminate].
  injection H as <-. apply sort_loop_perm in E. cbn in E.
  apply perm_trans with (map fst (closure g)); [apply Permutation_map; exact E|].
  (* the closure keeps the calls and their order *)
  assert (Hc : forall k g0, map fst (iter k close_step g0) = map fst g0).
  { induction k as [|k IHk]; intros g0; [reflexivity|]. cbn [iter]. rewrite IHk.
    unfold close_step. rewrite map_map. reflexivity. }
  unfold closure. rewrite Hc. apply Permutation_refl.
Qed.

Lemma last_dep_none : forall deps tail i acc,
  forallb (fun n => negb (memN (fst n) deps)) tail = true ->
  last_dep deps tail i acc = acc.
Proof.
  induction tail as [|n r IH]; intros i acc H; [reflexivity|].
  cbn [forallb] in H. apply andb_prop in H as [H1 H2].
  cbn [last_dep]. apply negb_true_iff in H1. rewrite H1. apply IH. exact H2.
Qed.

Lemma sort_loop_ordered : forall rest fuel done,
  ordered rest = true -> (length rest <= fuel)%nat ->
  sort_loop fuel done rest = Some (rev done ++ rest).
Proof.
  induction rest as [|c r IH]; intros fuel done Ho Hf.
  - destruct fuel; cbn; rewrite app_nil_r; reflexivity.
  - destruct r as [|c2 tail].
    + destruct fuel; reflexivity.
    + destruct fuel as [|f]; [cbn in Hf; lia|].
      cbn [sort_loop]. cbn [ordered] in Ho.
      apply andb_prop in Ho as [Ho Hr]. apply andb_prop in Ho as [_ Hn].
      rewrite (last_dep_none _ _ _ _ Hn).
      rewrite IH; [|exact Hr|cbn [length] in *; lia].
      cbn [rev]. rewrite <- app_assoc. reflexivity.
Qed.

(* stability: calls that already are in dependency order (with respect to the
   transitive dependencies) are not moved *)
Lemma topo_sort_ordered_lemma : forall g,
  cyclic (closure g) = false -> ordered (closure g) = true ->
  topo_sort g = Some (map fst g).
Proof.
  intros g Hc Ho. unfold topo_sort. rewrite Hc.
  rewrite sort_loop_ordered; [|exact Ho|unfold sort_fuel; lia].
  cbn. f_equal.
  assert (Hk : forall k g0, map fst (iter k close_step g0) = map fst g0).
  { induction k as [|k IHk]; intros g0; [reflexivity|]. cbn [iter]. rewrite IHk.
    unfold close_step. rewrite map_map. reflexivity. }
  unfold closure. apply Hk.
Qed.
