(* C17 - proofs about K/JsonTypes.v. *)
From Coq Require Import String.
From Martian Require Import Lib.Bytes Json.Json Extracted.JsonTypes K.JsonTypes.

(* ---------------------------------------------------------------- basics *)
Lemma bytes_eqb_eq a b : bytes_eqb a b = true <-> a = b.
Proof.
  revert b. induction a as [|x a IH]; intros [|y b]; cbn [bytes_eqb]; try (split; congruence).
  rewrite andb_true_iff, IH. unfold beq. split.
  - intros [H ->]. apply Byte.byte_dec_bl in H. subst. reflexivity.
  - intros H; inversion H; subst. split; auto. apply Byte.byte_dec_lb. reflexivity.
Qed.

Lemma bytes_eqb_refl a : bytes_eqb a a = true.
Proof. apply bytes_eqb_eq. reflexivity. Qed.

Lemma kind_eqb_eq a b : kind_eqb a b = true <-> a = b.
Proof. destruct a, b; cbn; split; congruence. Qed.

Lemma kind_eqb_refl a : kind_eqb a a = true.
Proof. destruct a; reflexivity. Qed.

(* induction principle for the nested type trees *)
Section TyInd.
  Variable P : ty -> Prop.
  Hypothesis HB : forall k, P (TB k).
  Hypothesis HU : forall n, P (TU n).
  Hypothesis HA : forall e d, P e -> P (TArr e d).
  Hypothesis HM : forall e, P e -> P (TMap e).
  Hypothesis HS : forall n ms, Forall (fun m => P (snd m)) ms -> P (TS n ms).

  Fixpoint ty_ind' (t : ty) : P t :=
    match t with
    | TB k => HB k
    | TU n => HU n
    | TArr e d => HA e d (ty_ind' e)
    | TMap e => HM e (ty_ind' e)
    | TS n ms =>
        HS n ms ((fix go (l : list (bytes * ty)) : Forall (fun m => P (snd m)) l :=
                    match l with
                    | [] => Forall_nil _
                    | x :: r => Forall_cons x (ty_ind' (snd x)) (go r)
                    end) ms)
    end.
End TyInd.

(* well-formed: the member names of every struct are distinct (the compiler
   reports DuplicateNameError otherwise) *)
Inductive wf : ty -> Prop :=
| wf_b k : wf (TB k)
| wf_u n : wf (TU n)
| wf_a e d : wf e -> wf (TArr e d)
| wf_m e : wf e -> wf (TMap e)
| wf_s n ms : NoDup (map fst ms) -> Forall (fun m => wf (snd m)) ms -> wf (TS n ms).

(* ---------------------------------------------------------------- association lists *)
Lemma mem_key_In {A} k (l : list (bytes * A)) : mem_key k l = true <-> In k (map fst l).
Proof.
  induction l as [|[k' v] r IH]; cbn [mem_key map fst In]; [split; [discriminate|tauto]|].
  rewrite orb_true_iff, IH, bytes_eqb_eq. split; intros [H|H]; auto.
Qed.

Lemma dedup_incl {A} (l : list (bytes * A)) x : In x (dedup l) -> In x l.
Proof.
  induction l as [|[k v] r IH]; cbn [dedup]; auto.
  destruct (mem_key k r); cbn [In]; intros H; [right; auto|]. destruct H; auto.
Qed.

Lemma dedup_nodup {A} (l : list (bytes * A)) : NoDup (map fst l) -> dedup l = l.
Proof.
  induction l as [|[k v] r IH]; cbn [dedup map fst]; auto. intros H. inversion H as [|? ? Hn Hr]; subst.
  destruct (mem_key k r) eqn:E; [apply mem_key_In in E; contradiction|]. f_equal; auto.
Qed.

Lemma get_last_In {A} k (l : list (bytes * A)) x : get_last k l = Some x -> In (k, x) l.
Proof.
  induction l as [|[k' v] r IH]; cbn [get_last]; [discriminate|].
  destruct (get_last k r) eqn:E.
  - intros H; inversion H; subst. right. auto.
  - destruct (bytes_eqb k k') eqn:Ek; [|discriminate]. apply bytes_eqb_eq in Ek. subst.
    intros H; inversion H; subst. left; reflexivity.
Qed.

Lemma get_last_none {A} k (l : list (bytes * A)) : ~ In k (map fst l) -> get_last k l = None.
Proof.
  induction l as [|[k' v] r IH]; cbn [get_last map fst In]; auto. intros H.
  rewrite IH by tauto. destruct (bytes_eqb k k') eqn:E; auto. apply bytes_eqb_eq in E. subst. tauto.
Qed.

Lemma get_last_nodup {A} k x (l : list (bytes * A)) :
  NoDup (map fst l) -> In (k, x) l -> get_last k l = Some x.
Proof.
  induction l as [|[k' v] r IH]; cbn [map fst In get_last]; [tauto|]. intros Hn [H|H].
  - inversion H; subst. inversion Hn; subst. rewrite get_last_none by assumption.
    rewrite bytes_eqb_refl. reflexivity.
  - inversion Hn; subst. rewrite (IH H3 H). reflexivity.
Qed.

Lemma assoc_get_In {A} k (l : list (bytes * A)) x : assoc_get k l = Some x -> In (k, x) l.
Proof.
  induction l as [|[k' v] r IH]; cbn [assoc_get]; [discriminate|].
  destruct (bytes_eqb k k') eqn:E.
  - apply bytes_eqb_eq in E. subst. intros H; inversion H; subst. left; reflexivity.
  - intros H. right. auto.
Qed.

Lemma assoc_get_nodup {A} k x (l : list (bytes * A)) :
  NoDup (map fst l) -> In (k, x) l -> assoc_get k l = Some x.
Proof.
  induction l as [|[k' v] r IH]; cbn [map fst In assoc_get]; [tauto|]. intros Hn [H|H].
  - inversion H; subst. rewrite bytes_eqb_refl. reflexivity.
  - inversion Hn; subst. destruct (bytes_eqb k k') eqn:E; auto.
    apply bytes_eqb_eq in E. subst. exfalso. apply H2. apply (in_map fst) in H. exact H.
Qed.

Lemma combine_map_fst {A B} (l : list (bytes * A)) (f : bytes * A -> B) :
  map fst (combine (map fst l) (map f l)) = map fst l.
Proof. induction l as [|x r IH]; cbn; congruence. Qed.

Lemma In_combine_map {A B} (l : list (bytes * A)) (f : bytes * A -> B) k y :
  In (k, y) (combine (map fst l) (map f l)) -> exists m, In m l /\ fst m = k /\ f m = y.
Proof.
  induction l as [|x r IH]; cbn; [tauto|]. intros [H|H].
  - inversion H; subst. exists x. auto.
  - destruct (IH H) as [m [? ?]]. exists m. auto.
Qed.

Lemma combine_map_In {A B} (l : list (bytes * A)) (f : bytes * A -> B) m :
  In m l -> In (fst m, f m) (combine (map fst l) (map f l)).
Proof. induction l as [|x r IH]; cbn; [tauto|]. intros [H|H]; [left; subst; auto | right; auto]. Qed.

(* ---------------------------------------------------------------- unfolding the nested fixpoints *)
Definition member_valid (legal : bytes -> bool) (kvs : list (bytes * json)) (m : bytes * ty) : vres :=
  match get_last (fst m) kvs with
  | None => verr
  | Some x => valid_gen legal (snd m) x
  end.

Lemma valid_struct_unfold legal n ms kvs :
  valid_gen legal (TS n ms) (JObj kvs) = vall (member_valid legal kvs) ms.
Proof.
  cbn [valid_gen]. induction ms as [|[id mt] r IH]; cbn [vall fold_right]; [reflexivity|].
  rewrite IH. reflexivity.
Qed.

Definition member_filter (kvs : list (bytes * json)) (m : bytes * ty) : fres :=
  match get_last (fst m) kvs with
  | None => FR JNull false true true
  | Some b => if can_filter (snd m) then filter (snd m) b else unch b
  end.

Definition struct_different (kvs : list (bytes * json)) (ms : list (bytes * ty)) (rs : list fres) : bool :=
  negb (length (dedup kvs) =? length ms)%nat || any_ch rs.

Lemma filter_struct_unfold n ms kvs :
  filter (TS n ms) (JObj kvs) =
  let rs := map (member_filter kvs) ms in
  FR (if struct_different kvs ms rs then JObj (combine (map fst ms) (map out rs)) else JObj kvs)
     (struct_different kvs ms rs) (any_fatal rs) (any_err rs).
Proof.
  cbn [filter]. cbv zeta.
  assert (E : (fix go (ms0 : list (bytes * ty)) : list fres :=
                 match ms0 with
                 | [] => []
                 | (id, mt) :: r =>
                     match get_last id kvs with
                     | Some b => if can_filter mt then filter mt b else unch b
                     | None => FR JNull false true true
                     end :: go r
                 end) ms = map (member_filter kvs) ms).
  { induction ms as [|[id mt] r IH]; cbn [map]; [reflexivity|]. rewrite IH. reflexivity. }
  rewrite E. reflexivity.
Qed.

Definition member_assign (sm : bool) (ms' : list (bytes * ty)) (m : bytes * ty) : bool :=
  match assoc_get (fst m) ms' with
  | None => false
  | Some ot =>
      (adim (snd m) =? adim ot)%nat && (mdim (snd m) =? mdim ot)%nat
      && (bytes_eqb (tname (snd m)) (tname ot) || assignable_g sm (snd m) ot)
  end.

Lemma assignable_struct_unfold sm n ms n' ms' :
  assignable_g sm (TS n ms) (TS n' ms') = forallb (member_assign sm ms') ms.
Proof.
  cbn [assignable_g]. induction ms as [|[id mt] r IH]; cbn [forallb]; [reflexivity|].
  rewrite IH. reflexivity.
Qed.

(* ---------------------------------------------------------------- validation results *)
Lemma clean_vor a b : clean (vor a b) = clean a && clean b.
Proof. destruct a as [[] []], b as [[] []]; reflexivity. Qed.

Lemma clean_vall {A} (f : A -> vres) l :
  clean (vall f l) = true <-> forall x, In x l -> clean (f x) = true.
Proof.
  induction l as [|y r IH]; cbn [vall fold_right In]; [split; [tauto|reflexivity]|].
  fold (vall f r). rewrite clean_vor, andb_true_iff, IH. split.
  - intros [H1 H2] x [<-|H]; auto.
  - intros H. split; auto.
Qed.

Lemma clean_vbool b : clean (vbool b) = b.
Proof. destruct b; reflexivity. Qed.

(* ---------------------------------------------------------------- valid_null *)
Lemma arr_valid_null ve d : arr_valid ve d JNull = vok.
Proof. destruct d; reflexivity. Qed.

Lemma valid_null_lemma : forall t, valid t JNull = vok.
Proof. intros [k| |e d|e|n ms]; cbn; try reflexivity. apply arr_valid_null. Qed.

Lemma valid_gen_null legal t : valid_gen legal t JNull = vok.
Proof. destruct t; cbn; try reflexivity. apply arr_valid_null. Qed.

(* ---------------------------------------------------------------- assignability *)
Lemma tid_eqb_refl t : tid_eqb t t = true.
Proof. unfold tid_eqb. rewrite bytes_eqb_refl, !Nat.eqb_refl. reflexivity. Qed.

Lemma assignable_g_refl sm : forall t, wf t -> assignable_g sm t t = true.
Proof.
  induction t as [k|n|e d IH|e IH|n ms IH] using ty_ind'; intros Hw.
  - cbn. rewrite kind_eqb_refl. reflexivity.
  - cbn. apply bytes_eqb_refl.
  - inversion Hw; subst. cbn. rewrite IH by assumption. rewrite Nat.eqb_refl. reflexivity.
  - inversion Hw; subst. cbn. auto.
  - inversion Hw as [| | | |? ? Hn Hm]; subst. rewrite assignable_struct_unfold.
    apply forallb_forall. intros [id mt] Hin. unfold member_assign. cbn [fst snd].
    rewrite (assoc_get_nodup id mt ms Hn Hin). rewrite !Nat.eqb_refl, bytes_eqb_refl. reflexivity.
Qed.

Lemma assignable_refl_lemma : forall t, wf t -> assignable t t = true.
Proof. exact (assignable_g_refl true). Qed.

Lemma assignable_array_lemma : forall e d e' d',
  assignable (TArr e d) (TArr e' d') = assignable e e' && (d =? d')%nat.
Proof. reflexivity. Qed.

Lemma assignable_map_lemma : forall e e', assignable (TMap e) (TMap e') = assignable e e'.
Proof. reflexivity. Qed.

(* dropping the struct-to-typed-map clause only removes pairs *)
Lemma assignable_g_mono : forall t o, assignable_g false t o = true -> assignable_g true t o = true.
Proof.
  induction t as [k|n|e d IH|e IH|n ms IH] using ty_ind'; intros o.
  - destruct o; cbn; auto.
  - destruct o; cbn; auto.
  - destruct o; cbn; auto. rewrite !andb_true_iff. intros [H1 H2]. auto.
  - destruct o; cbn; auto. discriminate.
  - destruct o as [| | | |n' ms']; try (cbn; auto; fail).
    rewrite !assignable_struct_unfold, !forallb_forall. intros H m Hin. specialize (H m Hin).
    unfold member_assign in *. destruct (assoc_get (fst m) ms'); auto.
    rewrite !andb_true_iff in *. destruct H as [Hd H]. split; auto.
    apply orb_true_iff in H. apply orb_true_iff. destruct H as [H|H]; auto. right.
    rewrite Forall_forall in IH. apply (IH m Hin). exact H.
Qed.

(* ---------------------------------------------------------------- filter: basic facts *)
Definition arr_sub {R} (f : nat -> json -> R) (fe : json -> R) (d : nat) : json -> R :=
  match d with O => fe | S d' => f d' end.

Lemma arr_filter_eq fe d v :
  arr_filter fe d v =
  match v with
  | JNull => unch v
  | JArr [] => unch v
  | JArr l =>
      let rs := map (arr_sub (arr_filter fe) fe d) l in
      FR (if any_ch rs then JArr (map out rs) else v) (any_ch rs) (any_fatal rs) (any_err rs)
  | _ => ffail v
  end.
Proof. destruct d; reflexivity. Qed.

Lemma arr_valid_eq ve d v :
  arr_valid ve d v =
  match v with
  | JNull => vok
  | JArr l => vall (arr_sub (arr_valid ve) ve d) l
  | _ => verr
  end.
Proof. destruct d; reflexivity. Qed.

Lemma any_fatal_err rs : any_fatal rs = true -> any_err rs = true.
Proof.
  unfold any_fatal, any_err. rewrite !existsb_exists. intros [r [Hin H]].
  apply andb_true_iff in H. exists r. tauto.
Qed.

Lemma any_fatal_false rs :
  (forall r, In r rs -> fatal r = false) -> any_fatal rs = false.
Proof.
  intros H. unfold any_fatal. induction rs as [|r rs IH]; cbn [existsb]; auto.
  rewrite (H r) by (left; auto). rewrite andb_false_r. cbn. apply IH. intros; apply H; right; auto.
Qed.

Lemma any_fatal_false_inv rs :
  (forall r, In r rs -> fatal r = true -> ferr r = true) ->
  any_fatal rs = false -> forall r, In r rs -> fatal r = false.
Proof.
  intros He H r Hin. destruct (fatal r) eqn:E; auto.
  assert (any_fatal rs = true); [|congruence].
  unfold any_fatal. apply existsb_exists. exists r. split; auto. rewrite E, (He r Hin E). reflexivity.
Qed.

Lemma any_ch_false rs : (forall r, In r rs -> ch r = false) -> any_ch rs = false.
Proof.
  intros H. unfold any_ch. induction rs as [|r rs IH]; cbn [existsb]; auto.
  rewrite (H r) by (left; auto). cbn. apply IH. intros; apply H; right; auto.
Qed.

Lemma any_ch_false_inv rs : any_ch rs = false -> forall r, In r rs -> ch r = false.
Proof.
  unfold any_ch. intros H r Hin. destruct (ch r) eqn:E; auto.
  assert (existsb ch rs = true); [|congruence]. apply existsb_exists. exists r. auto.
Qed.

Lemma f64_round_int_range m e i : f64_round_int m e = Some i -> in_int64 i = true.
Proof.
  unfold f64_round_int. destruct (f64_mag m e) as [j|]; [|discriminate]. cbv zeta.
  match goal with |- (if in_int64 ?Y then _ else _) = _ -> _ => destruct (in_int64 Y) eqn:E; [|discriminate] end.
  intros H; inversion H; subst. exact E.
Qed.

Lemma filter_builtin_fatal_err k v : fatal (filter_builtin k v) = true -> ferr (filter_builtin k v) = true.
Proof.
  destruct v; destruct k; cbn; auto;
    repeat match goal with |- context [if ?c then _ else _] => destruct c; cbn; auto end;
    destruct (f64_round_int m e); cbn; auto.
Qed.

(* a fatal result always carries an error *)
Lemma fatal_err_lemma : forall t v, fatal (filter t v) = true -> ferr (filter t v) = true.
Proof.
  intros [k|n|e d|e|n ms] v.
  - apply filter_builtin_fatal_err.
  - cbn. discriminate.
  - cbn [filter]. destruct (can_filter e); [|cbn; discriminate].
    rewrite arr_filter_eq. destruct v as [| | | |[|x l]|]; cbn [fatal ferr unch ffail]; auto. apply any_fatal_err.
  - cbn [filter]. destruct (can_filter e); [|cbn; discriminate].
    destruct v; cbn [fatal ferr unch ffail]; auto. destruct (dedup kvs); cbn [fatal ferr unch ffail]; auto. apply any_fatal_err.
  - destruct v; try (cbn; auto; fail). rewrite filter_struct_unfold. cbn [fatal ferr]. apply any_fatal_err.
Qed.

Lemma filter_null t : filter t JNull = unch JNull.
Proof.
  destruct t as [k|n|e d|e|n ms]; cbn [filter filter_builtin]; auto.
  - destruct (can_filter e); auto. rewrite arr_filter_eq. reflexivity.
  - destruct (can_filter e); auto.
Qed.

(* the input comes back when nothing changed (the sameSlice fast path) *)
Definition chout (f : json -> fres) : Prop := forall v, ch (f v) = false -> out (f v) = v.

Lemma arr_chout fe d : chout (arr_filter fe d).
Proof.
  intros v. rewrite arr_filter_eq. destruct v as [| | | |[|x l]|]; cbn; auto.
  match goal with |- context [if ?c then _ else _] => destruct c; [discriminate|auto] end.
Qed.

Lemma filter_builtin_chout k : chout (filter_builtin k).
Proof.
  intros v. destruct v; destruct k; cbn; auto;
    repeat match goal with |- context [if ?c then _ else _] => destruct c; cbn; auto end;
    destruct (f64_round_int m e); cbn; auto; discriminate.
Qed.

Lemma ch_false_out_lemma : forall t, chout (filter t).
Proof.
  intros [k|n|e d|e|n ms] v.
  - apply filter_builtin_chout.
  - cbn. auto.
  - cbn [filter]. destruct (can_filter e); [apply arr_chout|cbn; auto].
  - cbn [filter]. destruct (can_filter e); [|cbn; auto].
    destruct v; cbn; auto. destruct (dedup kvs); cbn; auto.
    match goal with |- context [if ?c then _ else _] => destruct c; [discriminate|auto] end.
  - destruct v; try (cbn; auto; fail). rewrite filter_struct_unfold. cbn.
    match goal with |- context [if ?c then _ else _] => destruct c; [discriminate|auto] end.
Qed.

Lemma nofilter_lemma : forall t v, can_filter t = false -> filter t v = FR v false (fatal (filter t v)) (ferr (filter t v)).
Proof.
  intros [k|n|e d|e|n ms] v; cbn [can_filter filter]; intros H; try rewrite H; try reflexivity; try discriminate.
  destruct k; try discriminate; destruct v; reflexivity.
Qed.

Lemma nofilter_out t v : can_filter t = false -> out (filter t v) = v.
Proof. intros H. rewrite (nofilter_lemma t v H). reflexivity. Qed.

(* ---------------------------------------------------------------- filter: idempotence *)
Definition stable (f : json -> fres) : Prop :=
  forall v, out (f (out (f v))) = out (f v) /\ ch (f (out (f v))) = false.

Lemma any_ch_refilter (g : json -> fres) l :
  stable g -> any_ch (map g (map out (map g l))) = false.
Proof.
  intros Hg. apply any_ch_false. intros r Hin.
  rewrite !map_map in Hin. apply in_map_iff in Hin. destruct Hin as [x [<- _]]. apply Hg.
Qed.

Lemma arr_stable fe : stable fe -> forall d, stable (arr_filter fe d).
Proof.
  intros Hfe d. induction d as [d IHd] using (well_founded_induction lt_wf).
  assert (Hg : stable (arr_sub (arr_filter fe) fe d)).
  { destruct d; cbn [arr_sub]; auto. }
  set (g := arr_sub (arr_filter fe) fe d) in *.
  intros v. rewrite (arr_filter_eq fe d v). fold g.
  destruct v as [| | | |[|x l]|]; try (cbn [out unch ffail]; rewrite arr_filter_eq; cbn; auto; fail).
  cbv zeta. destruct (any_ch (map g (x :: l))) eqn:E; cbn [out].
  - rewrite arr_filter_eq. fold g. cbn [map]. cbv zeta.
    change (g (out (g x)) :: map g (map out (map g l))) with (map g (map out (map g (x :: l)))).
    rewrite (any_ch_refilter g (x :: l) Hg). cbn. auto.
  - rewrite arr_filter_eq. fold g. cbv zeta. rewrite E. cbn. auto.
Qed.

Lemma filter_builtin_stable k : stable (filter_builtin k).
Proof.
  intros v. destruct v; destruct k; cbn; auto.
  destruct (e =? 0)%Z eqn:E0; cbn.
  - destruct (in_int64 m) eqn:E1; cbn; rewrite E0, E1; cbn; auto.
  - destruct (f64_overflow m e) eqn:E2; cbn.
    + rewrite E0, E2. cbn. auto.
    + destruct (f64_round_int m e) as [i|] eqn:E3; cbn.
      * rewrite (f64_round_int_range m e i E3). cbn. auto.
      * rewrite E0, E2, E3. cbn. auto.
Qed.

Definition map_filter_obj (e : ty) (kvs : list (bytes * json)) : fres :=
  match dedup kvs with
  | [] => unch (JObj kvs)
  | m =>
      let rs := map (fun kv => filter e (snd kv)) m in
      FR (if any_ch rs then JObj (combine (map fst m) (map out rs)) else JObj kvs)
         (any_ch rs) (any_fatal rs) (any_err rs)
  end.

Lemma filter_map_obj e kvs : can_filter e = true -> filter (TMap e) (JObj kvs) = map_filter_obj e kvs.
Proof. intros H. cbn [filter]. rewrite H. reflexivity. Qed.

Lemma map_filter_obj_eq e kvs :
  map_filter_obj e kvs =
  let m := dedup kvs in
  let rs := map (fun kv => filter e (snd kv)) m in
  match m with
  | [] => unch (JObj kvs)
  | _ => FR (if any_ch rs then JObj (combine (map fst m) (map out rs)) else JObj kvs)
            (any_ch rs) (any_fatal rs) (any_err rs)
  end.
Proof. unfold map_filter_obj. destruct (dedup kvs); reflexivity. Qed.

Lemma map_obj_stable e :
  can_filter e = true -> stable (filter e) ->
  forall kvs, out (filter (TMap e) (out (map_filter_obj e kvs))) = out (map_filter_obj e kvs)
              /\ ch (filter (TMap e) (out (map_filter_obj e kvs))) = false.
Proof.
  intros Hc He kvs. rewrite (map_filter_obj_eq e kvs). cbv zeta.
  destruct (dedup kvs) as [|p m] eqn:Em.
  - cbn [out unch]. rewrite (filter_map_obj e kvs Hc), map_filter_obj_eq. cbv zeta. rewrite Em. cbn. auto.
  - set (mm := p :: m) in *. set (rs := map (fun kv => filter e (snd kv)) mm).
    destruct (any_ch rs) eqn:E; cbn [out].
    + set (kvs' := combine (map fst mm) (map out rs)).
      rewrite (filter_map_obj e kvs' Hc), map_filter_obj_eq. cbv zeta.
      assert (Hz : any_ch (map (fun kv => filter e (snd kv)) (dedup kvs')) = false).
      { apply any_ch_false. intros r Hin. apply in_map_iff in Hin. destruct Hin as [[k y] [<- Hin]].
        apply dedup_incl in Hin. unfold kvs', rs in Hin. rewrite map_map in Hin.
        apply In_combine_map in Hin. destruct Hin as [m0 [_ [_ <-]]]. cbn [snd]. apply He. }
      destruct (dedup kvs'); [cbn; auto|]. rewrite Hz. cbn. auto.
    + rewrite (filter_map_obj e kvs Hc), map_filter_obj_eq. cbv zeta. rewrite Em. fold mm. fold rs.
      rewrite E. cbn. auto.
Qed.

Lemma length_combine_map {A B} (l : list (bytes * A)) (f : bytes * A -> B) :
  length (combine (map fst l) (map f l)) = length l.
Proof. rewrite combine_length, !map_length. apply Nat.min_id. Qed.

Lemma member_filter_refilter kvs ms m :
  NoDup (map fst ms) -> In m ms ->
  (stable (filter (snd m))) ->
  ch (member_filter (combine (map fst ms) (map out (map (member_filter kvs) ms))) m) = false.
Proof.
  intros Hn Hin Hs. unfold member_filter at 1.
  rewrite map_map.
  rewrite (get_last_nodup (fst m) (out (member_filter kvs m))).
  - destruct (can_filter (snd m)) eqn:Ec; [|reflexivity].
    unfold member_filter. destruct (get_last (fst m) kvs) as [b|].
    + rewrite Ec. apply Hs.
    + cbn [out]. rewrite filter_null. reflexivity.
  - rewrite combine_map_fst. exact Hn.
  - apply (combine_map_In ms (fun x => out (member_filter kvs x)) m Hin).
Qed.

Lemma filter_stable_lemma : forall t, wf t -> stable (filter t).
Proof.
  induction t as [k|n|e d IH|e IH|n ms IH] using ty_ind'; intros Hw.
  - apply filter_builtin_stable.
  - intros v. cbn. auto.
  - inversion Hw; subst. intros v. cbn [filter]. destruct (can_filter e) eqn:Ec.
    + apply arr_stable. auto.
    + cbn. auto.
  - inversion Hw; subst. intros v. destruct (can_filter e) eqn:Ec.
    + destruct v; try (cbn [filter]; rewrite Ec; cbn; auto; fail).
      rewrite (filter_map_obj e kvs Ec). apply map_obj_stable; auto.
    + cbn [filter]. rewrite Ec. cbn. auto.
  - inversion Hw as [| | | |? ? Hn Hm]; subst. intros v.
    destruct v; try (cbn; auto; fail).
    rewrite (filter_struct_unfold n ms kvs). cbv zeta.
    set (rs := map (member_filter kvs) ms).
    destruct (struct_different kvs ms rs) eqn:E; cbn [out].
    + set (kvs' := combine (map fst ms) (map out rs)).
      rewrite (filter_struct_unfold n ms kvs'). cbv zeta.
      assert (Hd : struct_different kvs' ms (map (member_filter kvs') ms) = false).
      { assert (Hf : map fst kvs' = map fst ms).
        { unfold kvs', rs. rewrite map_map. apply combine_map_fst. }
        assert (Hl : length kvs' = length ms).
        { unfold kvs', rs. rewrite map_map. apply length_combine_map. }
        unfold struct_different. rewrite dedup_nodup by (rewrite Hf; exact Hn).
        rewrite Hl, Nat.eqb_refl. cbn [negb orb].
        apply any_ch_false. intros r Hin. apply in_map_iff in Hin. destruct Hin as [m [<- Hin]].
        unfold kvs', rs. apply member_filter_refilter; auto.
        rewrite Forall_forall in IH, Hm. apply IH; auto. }
      rewrite Hd. cbn. auto.
    + rewrite (filter_struct_unfold n ms kvs). cbv zeta. fold rs. rewrite E. cbn. auto.
Qed.

Lemma filter_idempotent_lemma : forall t v, wf t -> out (filter t (out (filter t v))) = out (filter t v).
Proof. intros t v Hw. apply (filter_stable_lemma t Hw v). Qed.

(* ---------------------------------------------------------------- filter: only drops *)
Definition arr_ty (e : ty) (d : nat) : ty := match d with O => e | S d' => TArr e d' end.

(* [drops t v o]: o is v except that, following the type, undeclared struct
   fields are gone (and the members are in declaration order, the entries of
   a typed map are one per key), and a number whose nearest binary64 is an
   integer of the int64 range is written as that integer where the type is
   int.  Nothing else. *)
Inductive drops : ty -> json -> json -> Prop :=
| D_refl t v : drops t v v
| D_int m e i : e <> 0%Z -> f64_round_int m e = Some i -> drops (TB KInt) (JNum m e) (JNum i 0)
| D_arr e d l l' : Forall2 (drops (arr_ty e d)) l l' -> drops (TArr e d) (JArr l) (JArr l')
| D_map e kvs kvs' :
    Forall2 (fun a b => fst a = fst b /\ drops e (snd a) (snd b)) (dedup kvs) kvs' ->
    drops (TMap e) (JObj kvs) (JObj kvs')
| D_struct n ms kvs kvs' :
    Forall2 (fun (m : bytes * ty) (b : bytes * json) =>
               fst m = fst b /\ exists x, get_last (fst m) kvs = Some x /\ drops (snd m) x (snd b)) ms kvs' ->
    drops (TS n ms) (JObj kvs) (JObj kvs').

Lemma Forall2_map_r {A B} (R : A -> B -> Prop) (f : A -> B) l :
  (forall y, In y l -> R y (f y)) -> Forall2 R l (map f l).
Proof.
  induction l as [|x r IH]; cbn [map]; intros H; constructor.
  - apply H. left; auto.
  - apply IH. intros; apply H; right; auto.
Qed.

Lemma Forall2_combine_map {A B} (R : (bytes * A) -> (bytes * B) -> Prop) (l : list (bytes * A)) (f : bytes * A -> B) :
  (forall m, In m l -> R m (fst m, f m)) -> Forall2 R l (combine (map fst l) (map f l)).
Proof.
  induction l as [|x r IH]; cbn [map combine]; intros H; constructor.
  - apply H. left; auto.
  - apply IH. intros; apply H; right; auto.
Qed.

Lemma arr_fatal_err fe d v : fatal (arr_filter fe d v) = true -> ferr (arr_filter fe d v) = true.
Proof.
  rewrite arr_filter_eq. destruct v as [| | | |[|x l]|]; cbn [fatal ferr unch ffail]; auto. apply any_fatal_err.
Qed.

Lemma filter_builtin_drops k v : fatal (filter_builtin k v) = false -> drops (TB k) v (out (filter_builtin k v)).
Proof.
  destruct v; destruct k; cbn; try (intros; apply D_refl).
  destruct (e =? 0)%Z eqn:E0; cbn; [destruct (in_int64 m); cbn; intros; apply D_refl|].
  destruct (f64_overflow m e); cbn; [discriminate|].
  destruct (f64_round_int m e) as [i|] eqn:E; cbn; [|discriminate]. intros _. apply D_int; auto.
  apply Z.eqb_neq. exact E0.
Qed.

Lemma arr_drops e fe :
  (forall v, fatal (fe v) = true -> ferr (fe v) = true) ->
  (forall v, fatal (fe v) = false -> drops e v (out (fe v))) ->
  forall d v, fatal (arr_filter fe d v) = false -> drops (TArr e d) v (out (arr_filter fe d v)).
Proof.
  intros H1 H2 d. induction d as [d IHd] using (well_founded_induction lt_wf).
  set (g := arr_sub (arr_filter fe) fe d).
  assert (Hg1 : forall v, fatal (g v) = true -> ferr (g v) = true).
  { unfold g. destruct d; cbn [arr_sub]; auto. intros v. apply arr_fatal_err. }
  assert (Hg2 : forall v, fatal (g v) = false -> drops (arr_ty e d) v (out (g v))).
  { unfold g. destruct d; cbn [arr_sub arr_ty]; auto. }
  intros v. rewrite (arr_filter_eq fe d v). fold g.
  destruct v as [| | | |[|x l]|]; cbn [out fatal unch ffail]; try (intros; apply D_refl).
  cbv zeta. cbn [out fatal]. intros Hf.
  destruct (any_ch (map g (x :: l))); [|apply D_refl].
  apply D_arr. rewrite map_map. apply Forall2_map_r. intros y Hin. apply Hg2.
  apply (any_fatal_false_inv (map g (x :: l))); auto.
  - intros r Hr. apply in_map_iff in Hr. destruct Hr as [z [<- _]]. apply Hg1.
  - apply in_map. exact Hin.
Qed.

Lemma member_filter_fatal_err kvs m : fatal (member_filter kvs m) = true -> ferr (member_filter kvs m) = true.
Proof.
  unfold member_filter. destruct (get_last (fst m) kvs); [|reflexivity].
  destruct (can_filter (snd m)); [apply fatal_err_lemma|cbn; discriminate].
Qed.

Lemma filter_only_drops_lemma : forall t v, fatal (filter t v) = false -> drops t v (out (filter t v)).
Proof.
  induction t as [k|n|e d IH|e IH|n ms IH] using ty_ind'; intros v.
  - apply filter_builtin_drops.
  - cbn. intros; apply D_refl.
  - cbn [filter]. destruct (can_filter e); [|cbn; intros; apply D_refl].
    apply arr_drops; auto. intros; apply fatal_err_lemma; auto.
  - destruct (can_filter e) eqn:Ec; [|cbn [filter]; rewrite Ec; cbn; intros; apply D_refl].
    destruct v; try (cbn [filter]; rewrite Ec; cbn; intros; apply D_refl; fail).
    rewrite (filter_map_obj e kvs Ec), map_filter_obj_eq. cbv zeta.
    destruct (dedup kvs) as [|p m] eqn:Em; [cbn; intros; apply D_refl|].
    set (mm := p :: m) in *. cbn [out fatal]. intros Hf.
    destruct (any_ch (map (fun kv => filter e (snd kv)) mm)); [|apply D_refl].
    apply D_map. rewrite Em. fold mm. rewrite map_map.
    apply (Forall2_combine_map _ mm (fun kv => out (filter e (snd kv)))).
    intros kv Hin. cbn [fst snd]. split; auto. apply IH.
    apply (any_fatal_false_inv (map (fun kv => filter e (snd kv)) mm)); auto.
    + intros r Hr. apply in_map_iff in Hr. destruct Hr as [z [<- _]]. apply fatal_err_lemma.
    + apply (in_map (fun kv => filter e (snd kv))). exact Hin.
  - destruct v; try (cbn; intros; apply D_refl; fail).
    rewrite (filter_struct_unfold n ms kvs). cbv zeta. cbn [out fatal]. intros Hf.
    destruct (struct_different kvs ms (map (member_filter kvs) ms)); [|apply D_refl].
    apply D_struct. rewrite map_map.
    apply (Forall2_combine_map _ ms (fun m => out (member_filter kvs m))).
    intros m Hin. cbn [fst snd]. split; auto.
    assert (Hm : fatal (member_filter kvs m) = false).
    { apply (any_fatal_false_inv (map (member_filter kvs) ms)); auto.
      - intros r Hr. apply in_map_iff in Hr. destruct Hr as [z [<- _]]. apply member_filter_fatal_err.
      - apply in_map. exact Hin. }
    unfold member_filter in *. destruct (get_last (fst m) kvs) as [b|]; [|discriminate].
    exists b. split; auto. destruct (can_filter (snd m)).
    + rewrite Forall_forall in IH. apply (IH m Hin). exact Hm.
    + apply D_refl.
Qed.

(* ---------------------------------------------------------------- filter result validates *)
Definition allk : bytes -> bool := fun _ => true.

Lemma clean_keys_allk {A} (b : bool) (m : list (bytes * A)) :
  clean (if b then vall (fun kv => vbool (allk (fst kv))) m else vok) = true.
Proof. destruct b; [|reflexivity]. apply clean_vall. intros; reflexivity. Qed.

Lemma int64_no_overflow m : in_int64 m = true -> f64_overflow m 0 = false.
Proof.
  unfold in_int64, f64_overflow. rewrite andb_true_iff, !Z.leb_le. intros [H1 H2].
  destruct (m =? 0)%Z; auto. cbn [Z.ltb Z.compare].
  assert (Hl : (Z.log2 (Z.abs m) <= 63)%Z).
  { replace 63%Z with (Z.log2 (2 ^ 63)) by reflexivity. apply Z.log2_le_mono. lia. }
  assert (Hd : (Z.log2 (Z.abs m) / 3 < 22)%Z) by (apply Z.div_lt_upper_bound; lia).
  unfold digits_ub. destruct (Z.log2 (Z.abs m) / 3 + 1 + 0 <? 300)%Z eqn:E; auto.
  apply Z.ltb_ge in E. lia.
Qed.

Lemma builtin_transfer k t' v :
  assignable_g false (TB k) t' = true -> clean (valid_gen allk t' v) = true ->
  fatal (filter_builtin k v) = false /\ clean (valid_builtin k (out (filter_builtin k v))) = true.
Proof.
  destruct t' as [k'|n'|e' d'|e'|n' ms'].
  - destruct k, k'; cbn [assignable_g kind_eqb orb andb]; try discriminate; intros _;
      destruct v; cbn; try discriminate; auto.
    + (* int <- int *)
      destruct (e =? 0)%Z eqn:E0; cbn; [|discriminate].
      destruct (in_int64 m) eqn:E1; cbn; [rewrite E0, E1; auto|discriminate].
    + (* float <- int *)
      destruct ((e =? 0)%Z && in_int64 m) eqn:E; cbn; [|discriminate]. intros _.
      apply andb_true_iff in E. destruct E as [E1 E2]. apply Z.eqb_eq in E1. subst.
      rewrite (int64_no_overflow m E2). cbn. auto.
    + (* float <- float *)
      destruct (f64_overflow m e) eqn:E; cbn; [discriminate|]. auto.
  - destruct k; cbn [assignable_g kind_eqb orb]; try discriminate; intros _;
      destruct v; cbn; try discriminate; auto.
  - cbn. discriminate.
  - destruct k; cbn [assignable_g kind_eqb]; try discriminate; intros _;
      destruct v; try (cbn; discriminate); cbn [filter_builtin fcheck unch fatal out negb valid_builtin]; auto.
  - destruct k; cbn [assignable_g kind_eqb]; try discriminate; intros _;
      destruct v; try (cbn; discriminate); cbn [filter_builtin fcheck unch fatal out negb valid_builtin]; auto.
Qed.

Lemma arr_valid_mono (ve' ve : json -> vres) :
  (forall x, clean (ve' x) = true -> clean (ve x) = true) ->
  forall d v, clean (arr_valid ve' d v) = true -> clean (arr_valid ve d v) = true.
Proof.
  intros H d. induction d as [d IHd] using (well_founded_induction lt_wf). intros v.
  rewrite !arr_valid_eq. destruct v; auto. rewrite !clean_vall. intros Hl x Hin.
  specialize (Hl x Hin). destruct d; cbn [arr_sub] in *; auto.
Qed.

Lemma arr_transfer (ve' ve : json -> vres) (fe : json -> fres) :
  (forall x, clean (ve' x) = true -> fatal (fe x) = false /\ clean (ve (out (fe x))) = true) ->
  chout fe ->
  forall d v, clean (arr_valid ve' d v) = true ->
    fatal (arr_filter fe d v) = false /\ clean (arr_valid ve d (out (arr_filter fe d v))) = true.
Proof.
  intros H Hc d. induction d as [d IHd] using (well_founded_induction lt_wf).
  set (g' := arr_sub (arr_valid ve') ve' d). set (g := arr_sub (arr_valid ve) ve d).
  set (gf := arr_sub (arr_filter fe) fe d).
  assert (Hs : forall x, clean (g' x) = true -> fatal (gf x) = false /\ clean (g (out (gf x))) = true).
  { unfold g', g, gf. destruct d; cbn [arr_sub]; auto. }
  assert (Hgc : chout gf). { unfold gf. destruct d; cbn [arr_sub]; auto. apply arr_chout. }
  intros v. rewrite (arr_valid_eq ve' d v), (arr_filter_eq fe d v). fold g' gf.
  destruct v as [| | | |[|x l]|]; try (cbn; discriminate).
  - intros _. cbn [fatal out unch]. rewrite arr_valid_eq. auto.
  - intros _. cbn [fatal out unch]. rewrite arr_valid_eq. auto.
  - rewrite clean_vall. intros Hl. cbv zeta. cbn [fatal out]. split.
    + apply any_fatal_false. intros r Hr. apply in_map_iff in Hr. destruct Hr as [y [<- Hy]].
      apply Hs. auto.
    + destruct (any_ch (map gf (x :: l))) eqn:E; rewrite arr_valid_eq; fold g; apply clean_vall.
      * intros y Hy. rewrite map_map in Hy. apply in_map_iff in Hy. destruct Hy as [z [<- Hz]].
        apply Hs. auto.
      * intros y Hy. rewrite <- (Hgc y).
        -- apply Hs. auto.
        -- apply (any_ch_false_inv _ E). apply in_map. exact Hy.
Qed.

Section Table.
  (* a type table: a set of types closed under components in which the TypeId
     determines the type (TypeLookup.Get is a function of the TypeId) *)
  Variable U : ty -> Prop.
  Hypothesis U_arr : forall e d, U (TArr e d) -> U e.
  Hypothesis U_map : forall e, U (TMap e) -> U e.
  Hypothesis U_mem : forall n ms m, U (TS n ms) -> In m ms -> U (snd m).
  Hypothesis U_inj : forall a b, U a -> U b -> tid_eqb a b = true -> a = b.

  Lemma filter_valid_main : forall t, wf t -> U t -> forall t' v, U t' ->
    assignable_g false t t' = true -> clean (valid_gen allk t' v) = true ->
    fatal (filter t v) = false /\ clean (valid_gen allk t (out (filter t v))) = true.
  Proof.
    induction t as [k|n|e d IH|e IH|n ms IH] using ty_ind'; intros Hw Hu t' v Hu' Ha Hv.
    - apply (builtin_transfer k t' v Ha Hv).
    - destruct t' as [k'|n'|e' d'|e'|n' ms']; cbn [assignable_g] in Ha; try discriminate.
      + destruct k'; cbn in Ha; try discriminate; destruct v; cbn in Hv; try discriminate; cbn; auto.
      + destruct v; cbn in Hv; try discriminate; cbn; auto.
    - destruct t' as [k'|n'|e' d'|e'|n' ms']; cbn [assignable_g] in Ha; try discriminate.
      apply andb_true_iff in Ha. destruct Ha as [Ha Hd]. apply Nat.eqb_eq in Hd. subst d'.
      inversion Hw; subst.
      assert (He : forall x, clean (valid_gen allk e' x) = true ->
                     fatal (filter e x) = false /\ clean (valid_gen allk e (out (filter e x))) = true).
      { intros x Hx. apply (IH H0 (U_arr _ _ Hu) e' x (U_arr _ _ Hu') Ha Hx). }
      cbn [valid_gen filter] in *. destruct (can_filter e) eqn:Ec.
      + apply (arr_transfer _ _ _ He (ch_false_out_lemma e) d v Hv).
      + cbn [fatal out unch]. split; auto. revert Hv. apply arr_valid_mono.
        intros x Hx. destruct (He x Hx) as [_ H]. rewrite (nofilter_out e x Ec) in H. exact H.
    - destruct t' as [k'|n'|e' d'|e'|n' ms']; cbn [assignable_g andb] in Ha; try discriminate.
      inversion Hw; subst.
      assert (He : forall x, clean (valid_gen allk e' x) = true ->
                     fatal (filter e x) = false /\ clean (valid_gen allk e (out (filter e x))) = true).
      { intros x Hx. apply (IH H0 (U_map _ Hu) e' x (U_map _ Hu') Ha Hx). }
      destruct v; try (cbn in Hv; discriminate).
      + rewrite filter_null. cbn [fatal out unch]. rewrite valid_gen_null. auto.
      + cbn [valid_gen] in Hv. rewrite clean_vor, andb_true_iff in Hv. destruct Hv as [Hv _].
        rewrite clean_vall in Hv.
        destruct (can_filter e) eqn:Ec.
        * rewrite (filter_map_obj e kvs Ec), map_filter_obj_eq. cbv zeta.
          destruct (dedup kvs) as [|p m] eqn:Em.
          { cbn [fatal out unch]. split; auto. cbn [valid_gen]. rewrite Em.
            rewrite clean_vor, clean_keys_allk. reflexivity. }
          set (mm := p :: m) in *. cbn [fatal out]. split.
          { apply any_fatal_false. intros r Hr. apply in_map_iff in Hr. destruct Hr as [y [<- Hy]].
            apply He. auto. }
          destruct (any_ch (map (fun kv => filter e (snd kv)) mm)) eqn:E.
          { cbn [valid_gen]. rewrite clean_vor, clean_keys_allk, andb_true_r. apply clean_vall.
            intros [k y] Hy. apply dedup_incl in Hy. rewrite map_map in Hy.
            apply In_combine_map in Hy. destruct Hy as [m0 [Hm0 [_ <-]]]. cbn [snd]. apply He. auto. }
          { cbn [valid_gen]. rewrite clean_vor, clean_keys_allk, andb_true_r, Em. fold mm. apply clean_vall.
            intros kv Hy. rewrite <- (ch_false_out_lemma e (snd kv)).
            - apply He. auto.
            - apply (any_ch_false_inv _ E). apply (in_map (fun kv => filter e (snd kv))). exact Hy. }
        * cbn [filter]. rewrite Ec. cbn [fatal out unch]. split; auto.
          cbn [valid_gen]. rewrite clean_vor, clean_keys_allk, andb_true_r. apply clean_vall.
          intros kv Hy. destruct (He (snd kv) (Hv kv Hy)) as [_ H]. rewrite (nofilter_out e _ Ec) in H. exact H.
    - destruct t' as [k'|n'|e' d'|e'|n' ms']; try (cbn in Ha; discriminate).
      rewrite assignable_struct_unfold, forallb_forall in Ha.
      inversion Hw as [| | | |? ? Hn Hm]; subst.
      destruct v; try (cbn in Hv; discriminate).
      + rewrite filter_null. cbn [fatal out unch]. rewrite valid_gen_null. auto.
      + rewrite valid_struct_unfold, clean_vall in Hv.
        assert (Hmem : forall m, In m ms -> exists x, get_last (fst m) kvs = Some x /\
                   fatal (member_filter kvs m) = false /\
                   clean (valid_gen allk (snd m) (out (member_filter kvs m))) = true /\
                   (ch (member_filter kvs m) = false -> out (member_filter kvs m) = x)).
        { intros m Hin. specialize (Ha m Hin). unfold member_assign in Ha.
          destruct (assoc_get (fst m) ms') as [ot|] eqn:Eo; [|discriminate].
          apply assoc_get_In in Eo. specialize (Hv _ Eo). unfold member_valid in Hv. cbn [fst snd] in Hv.
          destruct (get_last (fst m) kvs) as [x|] eqn:Ex; [|discriminate].
          exists x. split; auto.
          assert (HA : fatal (filter (snd m) x) = false /\
                       clean (valid_gen allk (snd m) (out (filter (snd m) x))) = true).
          { rewrite Forall_forall in IH, Hm.
            rewrite !andb_true_iff in Ha. destruct Ha as [[Hd1 Hd2] Ha].
            apply orb_true_iff in Ha. destruct Ha as [Hname|Ha].
            - assert (ot = snd m).
              { symmetry. apply U_inj.
                - apply (U_mem _ _ m Hu Hin).
                - apply (U_mem _ _ (fst m, ot) Hu' Eo).
                - unfold tid_eqb. rewrite Hname, Hd1, Hd2. reflexivity. }
              subst ot. apply (IH m Hin (Hm m Hin) (U_mem _ _ m Hu Hin) (snd m) x (U_mem _ _ m Hu Hin)); auto.
              apply assignable_g_refl. apply (Hm m Hin).
            - apply (IH m Hin (Hm m Hin) (U_mem _ _ m Hu Hin) ot x (U_mem _ _ (fst m, ot) Hu' Eo)); auto. }
          unfold member_filter. rewrite Ex. destruct (can_filter (snd m)) eqn:Ec.
          - destruct HA as [HA1 HA2]. repeat split; auto. apply ch_false_out_lemma.
          - destruct HA as [HA1 HA2]. rewrite (nofilter_out _ _ Ec) in HA2. cbn [fatal out ch unch]. auto. }
        rewrite (filter_struct_unfold n ms kvs). cbv zeta. cbn [fatal out]. split.
        { apply any_fatal_false. intros r Hr. apply in_map_iff in Hr. destruct Hr as [m [<- Hin]].
          destruct (Hmem m Hin) as [x [_ [H _]]]. exact H. }
        destruct (struct_different kvs ms (map (member_filter kvs) ms)) eqn:E.
        { rewrite valid_struct_unfold. apply clean_vall. intros m Hin. unfold member_valid.
          rewrite map_map.
          rewrite (get_last_nodup (fst m) (out (member_filter kvs m))).
          - destruct (Hmem m Hin) as [x [_ [_ [H _]]]]. exact H.
          - rewrite combine_map_fst. exact Hn.
          - apply (combine_map_In ms (fun z => out (member_filter kvs z)) m Hin). }
        { rewrite valid_struct_unfold. apply clean_vall. intros m Hin. unfold member_valid.
          destruct (Hmem m Hin) as [x [Hx [_ [H Hc]]]]. rewrite Hx. rewrite <- Hc; auto.
          unfold struct_different in E. apply orb_false_iff in E. destruct E as [_ E].
          apply (any_ch_false_inv _ E). apply in_map. exact Hin. }
  Qed.
End Table.

(* the file-name rule on keys is the only difference between [valid] and
   [valid_gen allk] *)
Lemma valid_gen_allk L : forall t v, clean (valid_gen L t v) = true -> clean (valid_gen allk t v) = true.
Proof.
  induction t as [k|n|e d IH|e IH|n ms IH] using ty_ind'; intros v.
  - cbn. auto.
  - cbn. auto.
  - cbn [valid_gen]. apply arr_valid_mono. exact IH.
  - destruct v; cbn [valid_gen]; auto. rewrite !clean_vor, !andb_true_iff. intros [H1 _].
    split; [|apply clean_keys_allk]. rewrite clean_vall in *. auto.
  - destruct v; try (cbn; auto; fail). rewrite !valid_struct_unfold, !clean_vall. intros H m Hin.
    specialize (H m Hin). unfold member_valid in *. destruct (get_last (fst m) kvs); auto.
    rewrite Forall_forall in IH. apply (IH m Hin). exact H.
Qed.

(* no typed map of the type is directory-like *)
Fixpoint no_dir_map (t : ty) : bool :=
  match t with
  | TB _ | TU _ => true
  | TArr e _ => no_dir_map e
  | TMap e => negb (is_dir (TMap e)) && no_dir_map e
  | TS _ ms =>
      (fix go (ms : list (bytes * ty)) : bool :=
         match ms with
         | [] => true
         | (_, mt) :: r => no_dir_map mt && go r
         end) ms
  end.

Lemma no_dir_struct_unfold n ms : no_dir_map (TS n ms) = forallb (fun m => no_dir_map (snd m)) ms.
Proof. cbn [no_dir_map]. induction ms as [|[id mt] r IH]; cbn [forallb snd]; [reflexivity|]. rewrite IH. reflexivity. Qed.

Lemma vall_ext {A} (f g : A -> vres) l : (forall x, In x l -> f x = g x) -> vall f l = vall g l.
Proof.
  induction l as [|y r IH]; cbn [vall fold_right]; intros H; auto. fold (vall f r) (vall g r).
  rewrite (H y) by (left; auto). rewrite IH; auto. intros; apply H; right; auto.
Qed.

Lemma arr_valid_ext (ve ve' : json -> vres) :
  (forall x, ve x = ve' x) -> forall d v, arr_valid ve d v = arr_valid ve' d v.
Proof.
  intros H d. induction d as [d IHd] using (well_founded_induction lt_wf). intros v.
  rewrite !arr_valid_eq. destruct v; auto. apply vall_ext. intros x _. destruct d; cbn [arr_sub]; auto.
Qed.

Lemma no_dir_valid L : forall t, no_dir_map t = true -> forall v, valid_gen L t v = valid_gen allk t v.
Proof.
  induction t as [k|n|e d IH|e IH|n ms IH] using ty_ind'; intros Hn v.
  - reflexivity.
  - reflexivity.
  - cbn [valid_gen]. apply arr_valid_ext. apply IH. exact Hn.
  - cbn [no_dir_map] in Hn. apply andb_true_iff in Hn. destruct Hn as [Hd Hn].
    destruct v; cbn [valid_gen]; auto. apply negb_true_iff in Hd. rewrite Hd. f_equal.
    apply vall_ext. intros x _. apply IH. exact Hn.
  - rewrite no_dir_struct_unfold, forallb_forall in Hn.
    destruct v; try reflexivity. rewrite !valid_struct_unfold. apply vall_ext. intros m Hin.
    unfold member_valid. destruct (get_last (fst m) kvs); auto.
    rewrite Forall_forall in IH. apply (IH m Hin). apply Hn. exact Hin.
Qed.

Definition table (U : ty -> Prop) : Prop :=
  (forall e d, U (TArr e d) -> U e) /\
  (forall e, U (TMap e) -> U e) /\
  (forall n ms m, U (TS n ms) -> In m ms -> U (snd m)) /\
  (forall a b, U a -> U b -> tid_eqb a b = true -> a = b).

Lemma filter_valid_modkeys_lemma : forall U, table U -> forall t t' v,
  wf t -> U t -> U t' ->
  assignable_g false t t' = true -> valid_clean t' v = true ->
  fatal (filter t v) = false /\ clean (valid_gen allk t (out (filter t v))) = true.
Proof.
  intros U [H1 [H2 [H3 H4]]] t t' v Hw Hu Hu' Ha Hv.
  apply (filter_valid_main U H1 H2 H3 H4 t Hw Hu t' v Hu' Ha).
  apply (valid_gen_allk legal_filename). exact Hv.
Qed.

Lemma filter_valid_lemma : forall U, table U -> forall t t' v,
  wf t -> U t -> U t' -> no_dir_map t = true ->
  assignable_g false t t' = true -> valid_clean t' v = true ->
  fatal (filter t v) = false /\ valid_clean t (out (filter t v)) = true.
Proof.
  intros U HU t t' v Hw Hu Hu' Hn Ha Hv.
  destruct (filter_valid_modkeys_lemma U HU t t' v Hw Hu Hu' Ha Hv) as [Hf Hc]. split; auto.
  unfold valid_clean, valid. rewrite (no_dir_valid legal_filename t Hn). exact Hc.
Qed.

(* the two guards are needed *)
Lemma filter_valid_refuted_struct_to_map :
  exists t t' v, wf t /\ no_dir_map t = true /\ assignable t t' = true /\ valid_clean t' v = true /\
                 valid_clean t (out (filter t v)) = false.
Proof.
  exists (TMap (TB KInt)), (TS (bs "S") [(bs "a", TB KInt)]),
         (JObj [(bs "a", JNum 1 0); (bs "zz", JStr (bs "str"))]).
  split; [repeat constructor|]. vm_compute. auto.
Qed.

Lemma filter_valid_refuted_dir_keys :
  exists t t' v, wf t /\ assignable_g false t t' = true /\ valid_clean t' v = true /\
                 fatal (filter t v) = false /\ valid_clean t (out (filter t v)) = false.
Proof.
  exists (TMap (TB KFile)), (TMap (TB KString)), (JObj [(bs "a/b", JStr (bs "x"))]).
  split; [repeat constructor|]. vm_compute. auto.
Qed.

(* ---------------------------------------------------------------- struct assignability *)
Lemma assignable_struct_partial_lemma : forall U, table U -> forall n ms n' ms',
  wf (TS n ms) -> U (TS n ms) -> U (TS n' ms') ->
  (assignable (TS n ms) (TS n' ms') = true <->
   forall m, In m ms -> exists ot, assoc_get (fst m) ms' = Some ot /\
     adim (snd m) = adim ot /\ mdim (snd m) = mdim ot /\ assignable (snd m) ot = true).
Proof.
  intros U [H1 [H2 [H3 H4]]] n ms n' ms' Hw Hu Hu'. unfold assignable.
  rewrite assignable_struct_unfold, forallb_forall.
  inversion Hw as [| | | |? ? Hn Hm]; subst. rewrite Forall_forall in Hm.
  split; intros H m Hin; specialize (H m Hin).
  - unfold member_assign in H. destruct (assoc_get (fst m) ms') as [ot|] eqn:Eo; [|discriminate].
    exists ot. rewrite !andb_true_iff, !Nat.eqb_eq in H. destruct H as [[Hd1 Hd2] H].
    repeat split; auto. apply orb_true_iff in H. destruct H as [Hname|H]; auto.
    assert (ot = snd m).
    { symmetry. apply H4.
      - apply (H3 _ _ m Hu Hin).
      - apply (H3 _ _ (fst m, ot) Hu' (assoc_get_In _ _ _ Eo)).
      - unfold tid_eqb. rewrite Hname, Hd1, Hd2, !Nat.eqb_refl. reflexivity. }
    subst ot. apply assignable_g_refl. apply (Hm m Hin).
  - destruct H as [ot [Eo [Hd1 [Hd2 H]]]]. unfold member_assign. rewrite Eo, Hd1, Hd2, !Nat.eqb_refl, H.
    rewrite orb_true_r. reflexivity.
Qed.

(* without the dimension equalities the equivalence fails: struct A(map m) is
   not assignable from struct B(map<int> m) although map accepts map<int> *)
Lemma assignable_struct_refuted :
  exists n ms n' ms',
    (forall m, In m ms -> exists ot, assoc_get (fst m) ms' = Some ot /\ assignable (snd m) ot = true) /\
    assignable (TS n ms) (TS n' ms') = false.
Proof.
  exists (bs "A"), [(bs "m", TB KMap)], (bs "B"), [(bs "m", TMap (TB KInt))]. split; [|reflexivity].
  intros m [<-|[]]. exists (TMap (TB KInt)). split; reflexivity.
Qed.

(* ---------------------------------------------------------------- the declared shape *)
Inductive shape : ty -> json -> Prop :=
| sh_null t : shape t JNull
| sh_str k s : k = KString \/ k = KPath \/ k = KFile -> shape (TB k) (JStr s)
| sh_int m : in_int64 m = true -> shape (TB KInt) (JNum m 0)
| sh_float m e : f64_overflow m e = false -> shape (TB KFloat) (JNum m e)
| sh_bool b : shape (TB KBool) (JBool b)
| sh_map kvs : shape (TB KMap) (JObj kvs)
| sh_user n s : shape (TU n) (JStr s)
| sh_arr e d l : Forall (shape (arr_ty e d)) l -> shape (TArr e d) (JArr l)
| sh_tmap e kvs :
    Forall (fun kv => shape e (snd kv)) (dedup kvs) ->
    (is_dir (TMap e) = true -> Forall (fun kv => legal_filename (fst kv) = true) (dedup kvs)) ->
    shape (TMap e) (JObj kvs)
| sh_struct n ms kvs :
    Forall (fun m : bytes * ty => exists x, get_last (fst m) kvs = Some x /\ shape (snd m) x) ms ->
    shape (TS n ms) (JObj kvs).

Lemma builtin_shape k v : clean (valid_builtin k v) = true <-> shape (TB k) v.
Proof.
  split.
  - destruct v; destruct k; cbn; try discriminate; intros H; try (constructor; auto; fail).
    + destruct ((e =? 0)%Z && in_int64 m) eqn:E; [|discriminate]. apply andb_true_iff in E.
      destruct E as [E1 E2]. apply Z.eqb_eq in E1. subst. constructor. exact E2.
    + destruct (f64_overflow m e) eqn:E; [discriminate|]. constructor. exact E.
  - intros H. inversion H; subst; cbn; auto;
      try (destruct k; reflexivity);
      try match goal with Hk : _ \/ _ |- _ => destruct Hk as [Hk | [Hk | Hk]]; subst; reflexivity end;
      try match goal with Hk : _ = _ |- _ => rewrite Hk; reflexivity end.
Qed.

Lemma arr_shape_of_valid e (ve : json -> vres) :
  (forall x, clean (ve x) = true -> shape e x) ->
  forall d v, clean (arr_valid ve d v) = true -> shape (TArr e d) v.
Proof.
  intros H d. induction d as [d IHd] using (well_founded_induction lt_wf). intros v.
  rewrite arr_valid_eq. destruct v; try (cbn; discriminate); [constructor|].
  rewrite clean_vall. intros Hl. constructor. apply Forall_forall. intros x Hin. specialize (Hl x Hin).
  destruct d; cbn [arr_sub arr_ty] in *; auto.
Qed.

Lemma arr_valid_of_shape e (ve : json -> vres) :
  (forall x, shape e x -> clean (ve x) = true) ->
  forall d v, shape (TArr e d) v -> clean (arr_valid ve d v) = true.
Proof.
  intros H d. induction d as [d IHd] using (well_founded_induction lt_wf). intros v Hs.
  rewrite arr_valid_eq. inversion Hs as [| | | | | | |? ? ? Hl| |]; subst; [reflexivity|].
  apply clean_vall. intros x Hin. rewrite Forall_forall in Hl. specialize (Hl x Hin).
  destruct d; cbn [arr_sub arr_ty] in *; auto.
Qed.

Lemma valid_exact_shape_lemma : forall t v, valid_clean t v = true <-> shape t v.
Proof.
  unfold valid_clean, valid.
  induction t as [k|n|e d IH|e IH|n ms IH] using ty_ind'; intros v.
  - apply builtin_shape.
  - split.
    + destruct v; cbn; try discriminate; intros; constructor.
    + intros H; inversion H; reflexivity.
  - cbn [valid_gen]. split.
    + apply arr_shape_of_valid. intros x. apply IH.
    + apply arr_valid_of_shape. intros x. apply IH.
  - split.
    + destruct v; try (cbn; discriminate); [constructor|]. cbn [valid_gen].
      rewrite clean_vor, andb_true_iff, clean_vall. intros [H1 H2]. constructor.
      * apply Forall_forall. intros kv Hin. apply IH. auto.
      * intros Hd. rewrite Hd in H2. rewrite clean_vall in H2. apply Forall_forall. intros kv Hin.
        specialize (H2 kv Hin). rewrite clean_vbool in H2. exact H2.
    + intros H. inversion H as [| | | | | | | |? ? H1 H2|]; subst; [reflexivity|]. cbn [valid_gen].
      rewrite clean_vor, andb_true_iff, clean_vall. rewrite Forall_forall in H1. split.
      * intros kv Hin. apply IH. auto.
      * destruct (is_dir (TMap e)); [|reflexivity]. apply clean_vall. intros kv Hin.
        rewrite clean_vbool. specialize (H2 eq_refl). rewrite Forall_forall in H2. auto.
  - rewrite Forall_forall in IH. split.
    + destruct v; try (cbn; discriminate); [constructor|]. rewrite valid_struct_unfold, clean_vall.
      intros H. constructor. apply Forall_forall. intros m Hin. specialize (H m Hin).
      unfold member_valid in H. destruct (get_last (fst m) kvs) as [x|]; [|discriminate].
      exists x. split; auto. apply (IH m Hin). exact H.
    + intros H. inversion H as [| | | | | | | | |? ? ? H1]; subst; [reflexivity|].
      rewrite valid_struct_unfold, clean_vall. rewrite Forall_forall in H1. intros m Hin.
      destruct (H1 m Hin) as [x [Hx Hs]]. unfold member_valid. rewrite Hx. apply (IH m Hin). exact Hs.
Qed.
