(* Proofs about K/Equiv.v: the model of equivalence.go accepts exactly the
   pairs of programs whose normal forms have the same content. *)
From Martian Require Import Lib.Bytes Mro.Ast K.Equiv.

(* ------------------------------------------------------------ basics *)
Lemma beq_eq : forall a b, beq a b = true <-> a = b.
Proof.
  intros a b. unfold beq. split.
  - apply Byte.byte_dec_bl.
  - intros ->. apply Byte.byte_dec_lb. reflexivity.
Qed.

Lemma bytes_eqb_eq : forall a b, bytes_eqb a b = true <-> a = b.
Proof.
  induction a as [|x a IH]; destruct b as [|y b]; cbn; split; intro H; try easy.
  - apply andb_true_iff in H as [H1 H2]. apply beq_eq in H1. apply IH in H2. congruence.
  - inversion H; subst. apply andb_true_iff. split; [apply beq_eq|apply IH]; reflexivity.
Qed.

Lemma bytes_eqb_refl : forall a, bytes_eqb a a = true.
Proof. intro a. apply bytes_eqb_eq. reflexivity. Qed.

Lemma bytes_eqb_neq : forall a b, bytes_eqb a b = false <-> a <> b.
Proof.
  intros a b. split.
  - intros H E. apply bytes_eqb_eq in E. congruence.
  - intro H. destruct (bytes_eqb a b) eqn:E; [apply bytes_eqb_eq in E; contradiction|reflexivity].
Qed.

Lemma nodupb_NoDup : forall l, nodupb l = true -> NoDup l.
Proof.
  induction l as [|x l IH]; cbn; intro H; [constructor|].
  apply andb_true_iff in H as [H1 H2]. constructor; [|auto].
  intro Hin. apply negb_true_iff in H1.
  assert (existsb (bytes_eqb x) l = true) as E.
  { apply existsb_exists. exists x. split; [assumption|apply bytes_eqb_refl]. }
  congruence.
Qed.

Lemma NoDup_map_inj : forall {A B} (f : A -> B) l x y,
  NoDup (map f l) -> In x l -> In y l -> f x = f y -> x = y.
Proof.
  induction l as [|a l IH]; cbn; intros x y Hnd Hx Hy E; [easy|].
  inversion Hnd as [|? ? Hna Hnd']; subst.
  destruct Hx as [->|Hx]; destruct Hy as [->|Hy]; auto.
  - exfalso. apply Hna. rewrite E. apply in_map. assumption.
  - exfalso. apply Hna. rewrite <- E. apply in_map. assumption.
Qed.

(* generic first-match lookup facts, instantiated below *)
Section Find.
  Context {A : Type} (key : A -> bytes).
  Fixpoint findk (id : bytes) (l : list A) : option A :=
    match l with
    | [] => None
    | x :: r => if bytes_eqb (key x) id then Some x else findk id r
    end.
  Lemma findk_some : forall id l x, findk id l = Some x -> In x l /\ key x = id.
  Proof.
    induction l as [|a l IH]; cbn; intros x H; [discriminate|].
    destruct (bytes_eqb (key a) id) eqn:E.
    - inversion H; subst. apply bytes_eqb_eq in E. auto.
    - destruct (IH _ H). auto.
  Qed.
  Lemma findk_none : forall id l, findk id l = None -> forall x, In x l -> key x <> id.
  Proof.
    induction l as [|a l IH]; cbn; intros H x Hx; [easy|].
    destruct (bytes_eqb (key a) id) eqn:E; [discriminate|].
    destruct Hx as [->|Hx]; [apply bytes_eqb_neq; assumption|auto].
  Qed.
  Lemma findk_in : forall id l x, NoDup (map key l) -> In x l -> key x = id -> findk id l = Some x.
  Proof.
    intros id l x Hnd Hx Hk. destruct (findk id l) as [y|] eqn:E.
    - apply findk_some in E as [Hy Hky]. f_equal.
      apply (NoDup_map_inj key l); auto. congruence.
    - exfalso. eapply findk_none; eauto.
  Qed.
End Find.

Lemma find_bind_k : forall id l, find_bind id l = findk b_id id l.
Proof. induction l; cbn; [|rewrite IHl]; reflexivity. Qed.
Lemma find_in_k : forall id l, find_in id l = findk ip_id id l.
Proof. induction l; cbn; [|rewrite IHl]; reflexivity. Qed.
Lemma find_member_k : forall id l, find_member id l = findk sm_id id l.
Proof. induction l; cbn; [|rewrite IHl]; reflexivity. Qed.
Lemma find_call_k : forall id l, find_call id l = findk c_id id l.
Proof. induction l; cbn; [|rewrite IHl]; reflexivity. Qed.
Lemma find_callable_k : forall id l, find_callable id l = findk callable_id id l.
Proof. induction l; cbn; [|rewrite IHl]; reflexivity. Qed.

Lemma assoc_exp_in : forall k l v, assoc_exp k l = Some v -> In (k, v) l.
Proof.
  induction l as [|[k' v'] l IH]; cbn; intros v H; [discriminate|].
  destruct (bytes_eqb k' k) eqn:E.
  - apply bytes_eqb_eq in E. inversion H; subst. auto.
  - auto.
Qed.

Lemma assoc_exp_nodup : forall k l v, NoDup (map fst l) -> In (k, v) l -> assoc_exp k l = Some v.
Proof.
  induction l as [|[k' v'] l IH]; cbn; intros v Hnd Hin; [easy|].
  inversion Hnd as [|? ? Hna Hnd']; subst.
  destruct Hin as [E|Hin].
  - inversion E; subst. rewrite bytes_eqb_refl. reflexivity.
  - destruct (bytes_eqb k' k) eqn:E.
    + apply bytes_eqb_eq in E. subst. exfalso. apply Hna.
      change k with (fst (k, v)). apply in_map. assumption.
    + auto.
Qed.

(* ------------------------------------------------- induction on exp *)
Section ExpInd.
  Variable P : exp -> Prop.
  Hypothesis HA : forall l, Forall P l -> P (EArray l).
  Hypothesis HM : forall k es, Forall (fun kv => P (snd kv)) es -> P (EMap k es).
  Hypothesis HStr : forall s, P (EString s).
  Hypothesis HB : forall b, P (EBool b).
  Hypothesis HI : forall z, P (EInt z).
  Hypothesis HF : forall m e, P (EFloat m e).
  Hypothesis HN : P ENull.
  Hypothesis HR : forall k i o, P (ERef k i o).
  Hypothesis HSp : forall x, P x -> P (ESplit x).
  Fixpoint exp_ind' (e : exp) : P e :=
    match e with
    | EArray l => HA l ((fix go (l : list exp) : Forall P l :=
                           match l with
                           | [] => Forall_nil _
                           | x :: r => Forall_cons x (exp_ind' x) (go r)
                           end) l)
    | EMap k es => HM k es ((fix go (es : list (bytes * exp)) : Forall (fun kv => P (snd kv)) es :=
                               match es with
                               | [] => Forall_nil _
                               | kv :: r => Forall_cons kv (exp_ind' (snd kv)) (go r)
                               end) es)
    | EString s => HStr s
    | EBool b => HB b
    | EInt z => HI z
    | EFloat m e => HF m e
    | ENull => HN
    | ERef k i o => HR k i o
    | ESplit x => HSp x (exp_ind' x)
    end.
End ExpInd.

(* named versions of the anonymous loops, for rewriting *)
Fixpoint arr_equal (xs ys : list exp) : bool :=
  match xs, ys with
  | x :: xs', y :: ys' => exp_equal x y && arr_equal xs' ys'
  | _, _ => true
  end.
Fixpoint map_equal (fs es : list (bytes * exp)) : bool :=
  match es with
  | [] => true
  | (k, v) :: r =>
      match assoc_exp k fs with Some v' => exp_equal v v' | None => false end && map_equal fs r
  end.
Fixpoint arr_sim (xs ys : list exp) : Prop :=
  match xs, ys with
  | [], [] => True
  | x :: xs', y :: ys' => exp_sim x y /\ arr_sim xs' ys'
  | _, _ => False
  end.
Fixpoint map_sim (fs es : list (bytes * exp)) : Prop :=
  match es with
  | [] => True
  | (key, v) :: r => (exists v', In (key, v') fs /\ exp_sim v v') /\ map_sim fs r
  end.

Lemma exp_equal_array : forall xs ys,
  exp_equal (EArray xs) (EArray ys) = Nat.eqb (length xs) (length ys) && arr_equal xs ys.
Proof. reflexivity. Qed.
Lemma exp_equal_map : forall k k' es fs,
  exp_equal (EMap k es) (EMap k' fs) = Nat.eqb (length es) (length fs) && map_equal fs es.
Proof.
  intros. cbn. f_equal. induction es as [|[key v] es IH]; cbn; [reflexivity|].
  rewrite IH. reflexivity.
Qed.
Lemma exp_sim_array : forall xs ys, exp_sim (EArray xs) (EArray ys) = arr_sim xs ys.
Proof. reflexivity. Qed.
Lemma exp_sim_map : forall k k' es fs,
  exp_sim (EMap k es) (EMap k' fs) = (k = k' /\ length es = length fs /\ map_sim fs es).
Proof.
  intros. cbn. f_equal. f_equal. induction es as [|[key v] es IH]; cbn; [reflexivity|].
  rewrite IH. reflexivity.
Qed.

Definition norm_entries (es : list (bytes * exp)) : list (bytes * exp) :=
  map (fun kv => (fst kv, norm_exp (snd kv))) es.

Lemma norm_entries_in : forall k v es, In (k, v) es -> In (k, norm_exp v) (norm_entries es).
Proof.
  intros k v es H. unfold norm_entries.
  change (k, norm_exp v) with ((fun kv : bytes * exp => (fst kv, norm_exp (snd kv))) (k, v)).
  apply in_map. assumption.
Qed.
Lemma norm_entries_inv : forall k w es, In (k, w) (norm_entries es) ->
  exists v, In (k, v) es /\ w = norm_exp v.
Proof.
  intros k w es H. unfold norm_entries in H. apply in_map_iff in H as [[k' v] [E Hin]].
  cbn in E. inversion E; subst. eauto.
Qed.

Ltac bool_hyps :=
  repeat match goal with
  | H : _ && _ = true |- _ => apply andb_true_iff in H; destruct H
  | H : Nat.eqb _ _ = true |- _ => apply Nat.eqb_eq in H
  | H : bytes_eqb _ _ = true |- _ => apply bytes_eqb_eq in H
  | H : Bool.eqb _ _ = true |- _ => apply Bool.eqb_prop in H
  | H : (_ =? _)%Z = true |- _ => apply Z.eqb_eq in H
  | H : (_ =? _)%N = true |- _ => apply N.eqb_eq in H
  | H : negb _ = true |- _ => apply negb_true_iff in H
  end.

Lemma ref_kind_eqb_eq : forall a b, ref_kind_eqb a b = true <-> a = b.
Proof. destruct a, b; cbn; split; intro; congruence. Qed.

(* ------------------------------------------------- Exp.equal, soundness *)
Lemma exp_sound : forall a b, exp_equal a b = true -> exp_sim (norm_exp a) (norm_exp b).
Proof.
  induction a as [l IH|k es IH|s|x|z|m e| |k i o|x IH] using exp_ind'; intros b H;
    destruct b as [l'|k' fs|s'|x'|z'|m' e'| |k' i' o'|x']; try (cbn in H; discriminate).
  - rewrite exp_equal_array in H. bool_hyps. cbn [norm_exp]. rewrite exp_sim_array.
    revert l' H H0. induction IH as [|x l Hx _ IHl]; intros [|y l'] H H0; cbn in *; auto; try discriminate.
    bool_hyps. split; auto.
  - rewrite exp_equal_map in H. bool_hyps. cbn [norm_exp]. rewrite exp_sim_map.
    split; [reflexivity|]. split; [rewrite !map_length; assumption|].
    fold (norm_entries es). fold (norm_entries fs).
    clear H. induction IH as [|[key v] es Hv _ IHes]; cbn in *; auto.
    bool_hyps. split; auto.
    destruct (assoc_exp key fs) as [v'|] eqn:E; [|discriminate].
    exists (norm_exp v'). split; [apply norm_entries_in, assoc_exp_in; assumption|auto].
  - cbn in *. bool_hyps. assumption.
  - cbn in *. bool_hyps. assumption.
  - cbn in *. bool_hyps. assumption.
  - cbn in *. assumption.
  - cbn in *. assumption.
  - cbn in *. assumption.
  - cbn. trivial.
  - cbn in *. bool_hyps. apply ref_kind_eqb_eq in H. auto.
  - cbn in *. auto.
Qed.

(* ------------------------------------------------- Exp.equal, completeness *)
Lemma wf_exp_map : forall k es, wf_exp (EMap k es) = true ->
  NoDup (map fst es) /\ forall key v, In (key, v) es -> wf_exp v = true.
Proof.
  intros k es H. cbn in H. apply andb_true_iff in H as [H1 H2]. split; [apply nodupb_NoDup; assumption|].
  clear H1. induction es as [|[k0 v0] es IH]; cbn in *; intros key v Hin; [easy|].
  apply andb_true_iff in H2 as [Hv Hr]. destruct Hin as [E|Hin]; [inversion E; subst; assumption|eauto].
Qed.

Lemma exp_complete : forall a b, wf_exp b = true ->
  exp_sim (norm_exp a) (norm_exp b) -> exp_equal a b = true.
Proof.
  induction a as [l IH|k es IH|s|x|z|m e| |k i o|x IH] using exp_ind'; intros b Hwf H;
    destruct b as [l'|k' fs|s'|x'|z'|m' e'| |k' i' o'|x']; try (cbn in H; contradiction).
  - cbn [norm_exp] in H. rewrite exp_sim_array in H. rewrite exp_equal_array.
    cbn in Hwf.
    assert (length l = length l' /\ arr_equal l l' = true) as [E1 E2].
    { revert l' Hwf H. induction IH as [|x l Hx _ IHl]; intros [|y l'] Hwf H; cbn in *; try easy.
      apply andb_true_iff in Hwf as [Hy Hl']. destruct H as [H1 H2].
      destruct (IHl l' Hl' H2) as [E1 E2]. split; [congruence|].
      rewrite (Hx y Hy H1), E2. reflexivity. }
    rewrite E1, Nat.eqb_refl, E2. reflexivity.
  - cbn [norm_exp] in H. rewrite exp_sim_map in H. destruct H as [_ [Hlen Hsim]].
    rewrite !map_length in Hlen. rewrite exp_equal_map, Hlen, Nat.eqb_refl. cbn [andb].
    apply wf_exp_map in Hwf as [Hnd Hwfv].
    fold (norm_entries es) in Hsim. fold (norm_entries fs) in Hsim.
    clear Hlen. induction IH as [|[key v] es Hv _ IHes]; cbn in *; [reflexivity|].
    destruct Hsim as [[w [Hin Hs]] Hrest].
    apply norm_entries_inv in Hin as [v' [Hin ->]].
    rewrite (assoc_exp_nodup _ _ _ Hnd Hin).
    rewrite (Hv v' (Hwfv _ _ Hin) Hs). cbn. auto.
  - cbn in *. apply bytes_eqb_eq. assumption.
  - cbn in *. subst. destruct x'; reflexivity.
  - cbn in *. apply Z.eqb_eq. assumption.
  - cbn in *. assumption.
  - cbn in *. assumption.
  - cbn in *. assumption.
  - reflexivity.
  - cbn in *. destruct H as [-> [-> ->]]. rewrite !bytes_eqb_refl.
    destruct k'; reflexivity.
  - cbn in *. auto.
Qed.

(* ------------------------------------------------------------ bindings *)
(* the wildcard id regenerated from BindStms.Equals is the one Mro/Ast.v uses
   for BindStms.Table *)
Lemma star_is : star = star_id.
Proof. reflexivity. Qed.
Lemma disabled_is : disabled = disabled_id.
Proof. reflexivity. Qed.

Lemma bind_table_eq : forall l,
  bind_table l = filter (fun b => negb (bytes_eqb (b_id b) star)) l.
Proof. intro l. unfold bind_table. rewrite star_is. reflexivity. Qed.

Local Opaque star.

Lemma bind_table_in : forall b l, In b (bind_table l) <-> In b l /\ b_id b <> star.
Proof.
  intros b l. rewrite bind_table_eq. rewrite filter_In. split; intros [H1 H2]; split; auto.
  - apply negb_true_iff in H2. apply bytes_eqb_neq. assumption.
  - apply negb_true_iff. apply bytes_eqb_neq. assumption.
Qed.

Lemma norm_binds_in : forall b l, In b l -> b_id b <> star ->
  In (b_id b, norm_exp (b_exp b)) (norm_binds l).
Proof.
  intros b l H1 H2. unfold norm_binds.
  change (b_id b, norm_exp (b_exp b)) with ((fun b => (b_id b, norm_exp (b_exp b))) b).
  apply in_map. apply bind_table_in. auto.
Qed.

Lemma norm_binds_inv : forall k w l, In (k, w) (norm_binds l) ->
  exists b, In b l /\ b_id b = k /\ k <> star /\ w = norm_exp (b_exp b).
Proof.
  intros k w l H. unfold norm_binds in H. apply in_map_iff in H as [b [E Hin]].
  inversion E; subst. apply bind_table_in in Hin as [H1 H2]. eauto.
Qed.

Lemma has_star_false : forall l, ~ In star (map b_id l) -> has_star l = false.
Proof.
  intros l H. unfold has_star. destruct (existsb _ l) eqn:E; [|reflexivity].
  apply existsb_exists in E as [b [Hb Hs]]. apply bytes_eqb_eq in Hs.
  exfalso. apply H. rewrite <- Hs. apply in_map. assumption.
Qed.

Lemma star_count : forall l, NoDup (map b_id l) ->
  length l = length (bind_table l) + (if has_star l then 1 else 0).
Proof.
  intro l. rewrite bind_table_eq.
  induction l as [|a l IH]; cbn; intro Hnd; [reflexivity|].
  inversion Hnd as [|? ? Hna Hnd']; subst.
  destruct (bytes_eqb (b_id a) star) eqn:E; cbn.
  - apply bytes_eqb_eq in E. rewrite E in Hna.
    rewrite (IH Hnd'). fold (has_star l). rewrite (has_star_false _ Hna). lia.
  - fold (has_star l). rewrite (IH Hnd'). reflexivity.
Qed.

Lemma wf_binds_spec : forall l, wf_binds l = true ->
  NoDup (map b_id l) /\ forall b, In b l -> wf_exp (b_exp b) = true.
Proof.
  intros l H. unfold wf_binds in H. apply andb_true_iff in H as [H1 H2].
  split; [apply nodupb_NoDup; assumption|]. rewrite forallb_forall in H2. assumption.
Qed.

Lemma bind_in_true : forall other b, bind_in other b = true ->
  b_id b = star \/ exists ob, In ob other /\ b_id ob = b_id b /\ exp_equal (b_exp b) (b_exp ob) = true.
Proof.
  intros other b H. unfold bind_in in H. destruct (bytes_eqb (b_id b) star) eqn:E.
  - left. apply bytes_eqb_eq. assumption.
  - right. rewrite find_bind_k in H. destruct (findk b_id (b_id b) other) as [ob|] eqn:F; [|discriminate].
    apply findk_some in F as [F1 F2]. unfold bind_equals in H. bool_hyps. eauto.
Qed.

Lemma binds_sound : forall mine other,
  NoDup (map b_id mine) -> NoDup (map b_id other) ->
  length (bind_table mine) = length (bind_table other) ->
  binds_equal mine other = true ->
  has_star mine = has_star other /\ binds_sim (norm_binds mine) (norm_binds other).
Proof.
  intros mine other Hn1 Hn2 Hcnt H.
  assert (length other = length mine /\ forallb (bind_in other) mine = true) as [Hlen Hall].
  { unfold binds_equal in H. destruct mine; [destruct other; [auto|discriminate]|]. bool_hyps. auto. }
  pose proof (star_count _ Hn1) as S1. pose proof (star_count _ Hn2) as S2.
  split.
  - destruct (has_star mine), (has_star other); auto; lia.
  - split; [unfold norm_binds; rewrite !map_length; assumption|].
    intros k v Hin. apply norm_binds_inv in Hin as [b [Hb [Hk [Hns ->]]]].
    rewrite forallb_forall in Hall. specialize (Hall b Hb).
    apply bind_in_true in Hall as [Hs|[ob [Ho [Hid He]]]]; [congruence|].
    exists (norm_exp (b_exp ob)). split.
    + rewrite <- Hk, <- Hid. apply norm_binds_in; [assumption|congruence].
    + apply exp_sound. assumption.
Qed.

Lemma binds_complete : forall mine other,
  NoDup (map b_id mine) -> NoDup (map b_id other) ->
  (forall b, In b other -> wf_exp (b_exp b) = true) ->
  has_star mine = has_star other ->
  binds_sim (norm_binds mine) (norm_binds other) ->
  binds_equal mine other = true.
Proof.
  intros mine other Hn1 Hn2 Hwf Hst [Hlen Hsim].
  pose proof (star_count _ Hn1) as S1. pose proof (star_count _ Hn2) as S2.
  unfold norm_binds in Hlen. rewrite !map_length in Hlen.
  assert (length other = length mine) as Hl by (rewrite S1, S2, Hst, Hlen; reflexivity).
  assert (forallb (bind_in other) mine = true) as Hall.
  { apply forallb_forall. intros b Hb. unfold bind_in.
    destruct (bytes_eqb (b_id b) star) eqn:E; [reflexivity|]. apply bytes_eqb_neq in E.
    destruct (Hsim _ _ (norm_binds_in _ _ Hb E)) as [v' [Hin Hs]].
    apply norm_binds_inv in Hin as [ob [Ho [Hid [_ ->]]]].
    rewrite find_bind_k, (findk_in b_id _ _ _ Hn2 Ho Hid).
    unfold bind_equals. rewrite Hid, bytes_eqb_refl. cbn.
    apply exp_complete; auto. }
  unfold binds_equal. destruct mine as [|b0 mine].
  - destruct other; [reflexivity|discriminate].
  - rewrite Hl, Nat.eqb_refl, Hall. reflexivity.
Qed.

(* ------------------------------------------------------------ modifiers *)
Definition dis_norm (m : modifiers) : option exp :=
  match disabled_bind m with Some b => Some (norm_exp (b_exp b)) | None => None end.

Lemma mods_sound : forall m o, mods_equiv_some m o = true ->
  m_local m = m_local o /\ m_preflight m = m_preflight o /\ opt_sim (dis_norm m) (dis_norm o).
Proof.
  intros m o H. unfold mods_equiv_some in H.
  destruct (Bool.eqb (m_local m) (m_local o)) eqn:E1; [|discriminate].
  destruct (Bool.eqb (m_preflight m) (m_preflight o)) eqn:E2; [|discriminate].
  apply Bool.eqb_prop in E1, E2. cbn in H. repeat split; auto.
  unfold dis_norm. destruct (disabled_bind m) as [b|].
  - destruct (m_bindings o) eqn:Eo; [discriminate|]. clear Eo.
    destruct (disabled_bind o) as [ob|]; [|discriminate].
    unfold bind_equals in H. bool_hyps. cbn. apply exp_sound. assumption.
  - destruct (disabled_bind o); [discriminate|exact I].
Qed.

Lemma mods_complete : forall m o, wf_binds (m_bindings o) = true ->
  m_local m = m_local o -> m_preflight m = m_preflight o ->
  opt_sim (dis_norm m) (dis_norm o) -> mods_equiv_some m o = true.
Proof.
  intros m o Hwf E1 E2 H. unfold mods_equiv_some. rewrite E1, E2, !Bool.eqb_reflx. cbn.
  unfold dis_norm in H. apply wf_binds_spec in Hwf as [_ Hwf].
  destruct (disabled_bind m) as [b|] eqn:Dm; destruct (disabled_bind o) as [ob|] eqn:Do; cbn in H; try easy.
  unfold disabled_bind in Dm, Do. rewrite find_bind_k in Dm, Do.
  apply findk_some in Dm as [_ Dm]. apply findk_some in Do as [Hin Do].
  destruct (m_bindings o); [easy|].
  unfold bind_equals. rewrite Dm, Do, bytes_eqb_refl. cbn. apply exp_complete; auto.
Qed.

(* ------------------------------------------------------------ parameters *)
Lemma file_kind_eqb_eq : forall a b, file_kind_eqb a b = true <-> a = b.
Proof. destruct a, b; cbn; split; intro; congruence. Qed.

Lemma type_id_eqb_eq : forall a b, type_id_eqb a b = true <-> a = b.
Proof.
  intros [n a m] [n' a' m']. unfold type_id_eqb. cbn. split; intro H.
  - bool_hyps. congruence.
  - inversion H; subst. rewrite bytes_eqb_refl, !N.eqb_refl. reflexivity.
Qed.

Lemma ptype_equal_spec : forall t u tk uk tb ub,
  ptype_equal t u tk uk tb ub = true <-> norm_type t tk tb = norm_type u uk ub.
Proof.
  intros t u tk uk tb ub. unfold ptype_equal, norm_type. split; intro H.
  - bool_hyps. apply file_kind_eqb_eq in H2. subst. destruct ub.
    + bool_hyps. congruence.
    + apply type_id_eqb_eq in H0. subst. reflexivity.
  - destruct tb, ub; inversion H; subst.
    + rewrite !N.eqb_refl. cbn. replace (file_kind_eqb uk uk) with true; [reflexivity|].
      symmetry. apply file_kind_eqb_eq. reflexivity.
    + rewrite N.eqb_refl. replace (file_kind_eqb uk uk) with true by (symmetry; apply file_kind_eqb_eq; reflexivity).
      cbn. unfold type_id_eqb. rewrite H1, H2, H3, bytes_eqb_refl, !N.eqb_refl. reflexivity.
Qed.

Lemma in_params_sound : forall mine other, in_params_equal mine other = true ->
  params_sim (map norm_in mine) (map norm_in other).
Proof.
  intros mine other H. unfold in_params_equal in H.
  destruct mine as [|p0 mine'] eqn:Em.
  - destruct other; [|discriminate]. split; [reflexivity|auto].
  - rewrite <- Em in *. clear Em. bool_hyps. split; [rewrite !map_length; auto|].
    intros np Hin. apply in_map_iff in Hin as [p [<- Hp]].
    rewrite forallb_forall in H0. specialize (H0 p Hp). unfold in_param_in in H0.
    rewrite find_in_k in H0. destruct (findk ip_id (ip_id p) other) as [q|] eqn:F; [|discriminate].
    apply findk_some in F as [F1 F2]. apply ptype_equal_spec in H0.
    replace (norm_in p) with (norm_in q); [apply in_map; assumption|].
    unfold norm_in. rewrite F2, H0. reflexivity.
Qed.

Lemma in_params_length : forall mine other, in_params_equal mine other = true ->
  length mine = length other.
Proof.
  intros mine other H. apply in_params_sound in H as [H _]. rewrite !map_length in H. assumption.
Qed.

Lemma in_params_complete : forall mine other, NoDup (map ip_id other) ->
  params_sim (map norm_in mine) (map norm_in other) -> in_params_equal mine other = true.
Proof.
  intros mine other Hnd [Hlen Hsim]. rewrite !map_length in Hlen. unfold in_params_equal.
  assert (forallb (in_param_in other) mine = true) as Hall.
  { apply forallb_forall. intros p Hp. unfold in_param_in.
    specialize (Hsim _ (in_map norm_in _ _ Hp)). apply in_map_iff in Hsim as [q [E Hq]].
    assert (ip_id q = ip_id p) as Hid by (apply (f_equal np_id) in E; exact E).
    rewrite find_in_k, (findk_in ip_id _ _ _ Hnd Hq Hid).
    apply ptype_equal_spec. apply (f_equal np_type) in E. cbn in E. symmetry. exact E. }
  destruct mine as [|p0 mine'].
  - destruct other; [reflexivity|discriminate].
  - rewrite <- Hlen, Nat.eqb_refl, Hall. reflexivity.
Qed.

Lemma out_params_sound : forall chk mine other, out_params_equal chk mine other = true ->
  params_sim (map (norm_out chk) mine) (map (norm_out chk) other).
Proof.
  intros chk mine other H. unfold out_params_equal in H.
  destruct mine as [|p0 mine'] eqn:Em.
  - destruct other; [|discriminate]. split; [reflexivity|auto].
  - rewrite <- Em in *. clear Em. bool_hyps. split; [rewrite !map_length; auto|].
    intros np Hin. apply in_map_iff in Hin as [p [<- Hp]].
    rewrite forallb_forall in H0. specialize (H0 p Hp). unfold out_param_in in H0.
    rewrite find_member_k in H0. destruct (findk sm_id (sm_id p) other) as [q|] eqn:F; [|discriminate].
    apply findk_some in F as [F1 F2]. bool_hyps. apply ptype_equal_spec in H0.
    replace (norm_out chk p) with (norm_out chk q); [apply in_map; assumption|].
    unfold norm_out. rewrite F2, H0. f_equal.
    assert (sm_isfile q = sm_isfile p) as Hk by (apply (f_equal nt_kind) in H0; symmetry; exact H0).
    rewrite Hk. destruct chk; cbn in *; [|reflexivity].
    destruct (is_file_or_dir (sm_isfile p)); cbn in *; [|reflexivity].
    apply negb_false_iff in H1. apply bytes_eqb_eq in H1. congruence.
Qed.

Lemma out_params_length : forall chk mine other, out_params_equal chk mine other = true ->
  length mine = length other.
Proof.
  intros chk mine other H. apply out_params_sound in H as [H _]. rewrite !map_length in H. assumption.
Qed.

Lemma out_params_complete : forall chk mine other, NoDup (map sm_id other) ->
  params_sim (map (norm_out chk) mine) (map (norm_out chk) other) ->
  out_params_equal chk mine other = true.
Proof.
  intros chk mine other Hnd [Hlen Hsim]. rewrite !map_length in Hlen. unfold out_params_equal.
  assert (forallb (out_param_in chk other) mine = true) as Hall.
  { apply forallb_forall. intros p Hp. unfold out_param_in.
    specialize (Hsim _ (in_map (norm_out chk) _ _ Hp)). apply in_map_iff in Hsim as [q [E Hq]].
    assert (sm_id q = sm_id p) as Hid by (apply (f_equal np_id) in E; exact E).
    rewrite find_member_k, (findk_in sm_id _ _ _ Hnd Hq Hid).
    pose proof (f_equal np_type E) as E2. pose proof (f_equal np_outname E) as E3. cbn in E2, E3.
    apply andb_true_iff. split; [apply ptype_equal_spec; auto|].
    assert (sm_isfile q = sm_isfile p) as Hk by (apply (f_equal nt_kind) in E2; exact E2).
    rewrite Hk in E3. destruct chk; cbn in *; [|rewrite andb_false_r; reflexivity].
    destruct (is_file_or_dir (sm_isfile p)); cbn in *; [|reflexivity].
    inversion E3 as [E4]. rewrite E4, bytes_eqb_refl. reflexivity. }
  destruct mine as [|p0 mine'].
  - destruct other; [reflexivity|discriminate].
  - rewrite <- Hlen, Nat.eqb_refl, Hall. reflexivity.
Qed.

(* ------------------------------------------------------------ calls *)
Lemma map_opt_length : forall {A B} (f : A -> option B) l l', map_opt f l = Some l' -> length l' = length l.
Proof.
  induction l as [|a l IH]; cbn; intros l' H; [inversion H; reflexivity|].
  destruct (f a); [|discriminate]. destruct (map_opt f l); [|discriminate].
  inversion H; subst. cbn. f_equal. auto.
Qed.
Lemma map_opt_in : forall {A B} (f : A -> option B) l l' x, map_opt f l = Some l' -> In x l ->
  exists y, f x = Some y /\ In y l'.
Proof.
  induction l as [|a l IH]; cbn; intros l' x H Hx; [easy|].
  destruct (f a) as [b|] eqn:Ea; [|discriminate]. destruct (map_opt f l) as [bs|]; [|discriminate].
  inversion H; subst. destruct Hx as [->|Hx].
  - exists b. cbn. auto.
  - destruct (IH _ _ eq_refl Hx) as [y [H1 H2]]. exists y. cbn. auto.
Qed.
Lemma map_opt_inv : forall {A B} (f : A -> option B) l l' y, map_opt f l = Some l' -> In y l' ->
  exists x, In x l /\ f x = Some y.
Proof.
  induction l as [|a l IH]; cbn; intros l' y H Hy; [inversion H; subst; easy|].
  destruct (f a) as [b|] eqn:Ea; [|discriminate]. destruct (map_opt f l) as [bs|]; [|discriminate].
  inversion H; subst. destruct Hy as [->|Hy].
  - exists a. auto.
  - destruct (IH _ _ eq_refl Hy) as [x [H1 H2]]. exists x. auto.
Qed.

Lemma all_opt_spec : forall {A} (f : A -> option bool) l,
  (forall x, In x l -> exists r, f x = Some r) ->
  exists r, all_opt f l = Some r /\ (r = true <-> forall x, In x l -> f x = Some true).
Proof.
  induction l as [|a l IH]; cbn; intro H.
  - exists true. split; [reflexivity|]. split; [easy|reflexivity].
  - destruct (H a (or_introl eq_refl)) as [ra Ha]. rewrite Ha.
    destruct ra.
    + destruct (IH (fun x Hx => H x (or_intror Hx))) as [r [E Hr]]. exists r. split; [assumption|].
      rewrite Hr. split.
      * intros Hall x [<-|Hx]; auto.
      * intros Hall x Hx. auto.
    + exists false. split; [reflexivity|]. split; [discriminate|].
      intro Hall. specialize (Hall a (or_introl eq_refl)). congruence.
Qed.

Lemma call_sim_unfold : forall h c calls h' c' calls',
  call_sim (NCall h c calls) (NCall h' c' calls') <->
  head_sim h h' /\ callee_sim c c' /\ length calls = length calls' /\
  (forall x, In x calls -> exists y, In y calls' /\ call_sim x y).
Proof.
  intros. cbn. split; intros (H1 & H2 & H3 & H4); (split; [exact H1|split; [exact H2|split; [exact H3|]]]); clear H3.
  - induction calls as [|a l IH]; cbn in *; [easy|]. destruct H4 as [Ha Hl].
    intros x [<-|Hx]; auto.
  - induction calls as [|a l IH]; cbn in *; [exact I|]. split; [apply H4; auto|].
    apply IH. intros x Hx. apply H4. auto.
Qed.

Lemma norm_call_head : forall n t c h ce cs, norm_call n t c = Some (NCall h ce cs) -> h = norm_head c.
Proof.
  intros n t c h ce cs H. destruct n; cbn in H; [discriminate|].
  destruct (find_callable (c_dec_id c) t) as [[s|p]|]; try (inversion H; reflexivity).
  destruct (pl_ret p); [|discriminate]. destruct (map_opt _ _); [|discriminate].
  inversion H; reflexivity.
Qed.

Lemma wf_call_spec : forall t c, wf_call t c = true ->
  exists m callee, c_mods c = Some m /\ wf_binds (c_bindings c) = true /\ wf_binds (m_bindings m) = true /\
    find_callable (c_dec_id c) t = Some callee /\
    length (bind_table (c_bindings c)) = length (callable_ins callee).
Proof.
  intros t c H. unfold wf_call in H. bool_hyps.
  destruct (c_mods c) as [m|]; [|discriminate].
  destruct (find_callable (c_dec_id c) t) as [callee|]; [|discriminate].
  bool_hyps. exists m, callee. auto.
Qed.

Lemma wf_table_in : forall t c, wf_table t = true -> In c t -> wf_callable t c = true.
Proof. intros t c H Hc. unfold wf_table in H. rewrite forallb_forall in H. auto. Qed.

Lemma wf_callable_spec : forall t c, wf_callable t c = true ->
  NoDup (map ip_id (callable_ins c)) /\ NoDup (map sm_id (callable_outs c)) /\
  match c with
  | CStage _ => True
  | CPipeline p =>
      NoDup (map c_id (pl_calls p)) /\
      (forall call, In call (pl_calls p) -> wf_call t call = true) /\
      exists r, pl_ret p = Some r /\ wf_binds r = true /\
                length (bind_table r) = length (pl_outs p)
  end.
Proof.
  intros t c H. unfold wf_callable in H. bool_hyps.
  split; [apply nodupb_NoDup; assumption|]. split; [apply nodupb_NoDup; assumption|].
  destruct c as [s|p]; [exact I|]. bool_hyps.
  split; [apply nodupb_NoDup; assumption|]. split; [apply forallb_forall; assumption|].
  destruct (pl_ret p) as [r|]; [|discriminate]. bool_hyps. eauto.
Qed.

(* the three head tests of CallStm.EquivalentTo *)
Definition head_tests (c o : call_stm) : bool :=
  bytes_eqb (c_id c) (c_id o) && binds_equal (c_bindings c) (c_bindings o) &&
  mods_equiv (c_mods c) (c_mods o).

Lemma head_sound : forall c o m mo,
  c_mods c = Some m -> c_mods o = Some mo ->
  wf_binds (c_bindings c) = true -> wf_binds (c_bindings o) = true ->
  length (bind_table (c_bindings c)) = length (bind_table (c_bindings o)) ->
  head_tests c o = true -> head_sim (norm_head c) (norm_head o).
Proof.
  intros c o m mo Hm Hmo W1 W2 Hcnt H. unfold head_tests in H. bool_hyps.
  apply wf_binds_spec in W1 as [N1 _]. apply wf_binds_spec in W2 as [N2 _].
  destruct (binds_sound _ _ N1 N2 Hcnt H1) as [Hs Hb].
  rewrite Hm, Hmo in H0. cbn in H0. apply mods_sound in H0 as (L & P & D).
  unfold head_sim, norm_head. rewrite Hm, Hmo. cbn.
  split; [assumption|]. split; [assumption|]. split; [assumption|]. auto.
Qed.

Lemma head_complete : forall c o m mo,
  c_mods c = Some m -> c_mods o = Some mo ->
  wf_binds (c_bindings c) = true -> wf_binds (c_bindings o) = true ->
  wf_binds (m_bindings mo) = true ->
  head_sim (norm_head c) (norm_head o) -> head_tests c o = true.
Proof.
  intros c o m mo Hm Hmo W1 W2 W3 H. unfold head_sim, norm_head in H. rewrite Hm, Hmo in H.
  cbn in H. destruct H as (Hid & Hs & Hb & L & P & D).
  apply wf_binds_spec in W1 as [N1 _]. apply wf_binds_spec in W2 as [N2 Wf2].
  unfold head_tests. rewrite Hid, bytes_eqb_refl, (binds_complete _ _ N1 N2 Wf2 Hs Hb).
  rewrite Hm, Hmo. cbn. apply mods_complete; auto.
Qed.

Lemma call_equiv_unfold : forall n ta tb c o,
  call_equiv (S n) ta tb c o =
  if negb (head_tests c o) then Some false
  else match find_callable (c_dec_id c) ta, find_callable (c_dec_id o) tb with
       | None, None => Some true
       | None, Some _ => Some false
       | Some _, None => Some false
       | Some (CStage s), Some (CStage t) => Some (stage_equiv s t)
       | Some (CPipeline p), Some (CPipeline q) =>
           if negb (in_params_equal (pl_ins p) (pl_ins q)) then Some false
           else if negb (out_params_equal true (pl_outs p) (pl_outs q)) then Some false
           else if negb (Nat.eqb (length (pl_calls p)) (length (pl_calls q))) then Some false
           else if negb (ret_equal (pl_ret p) (pl_ret q)) then Some false
           else all_opt (fun call =>
                  match find_call (c_id call) (pl_calls q) with
                  | None => Some false
                  | Some oc => call_equiv n ta tb call oc
                  end) (pl_calls p)
       | Some _, Some _ => Some false
       end.
Proof.
  intros. cbn [call_equiv]. unfold head_tests.
  destruct (bytes_eqb (c_id c) (c_id o)); cbn; [|reflexivity].
  destruct (binds_equal (c_bindings c) (c_bindings o)); cbn; [|reflexivity].
  destruct (mods_equiv (c_mods c) (c_mods o)); cbn; reflexivity.
Qed.

Lemma call_spec : forall n ta tb c o x y,
  wf_table ta = true -> wf_table tb = true -> wf_call ta c = true -> wf_call tb o = true ->
  norm_call n ta c = Some x -> norm_call n tb o = Some y ->
  exists r, call_equiv n ta tb c o = Some r /\ (r = true <-> call_sim x y).
Proof.
  induction n as [|n IH]; intros ta tb c o x y Wa Wb Wc Wo Nx Ny; [discriminate|].
  destruct (wf_call_spec _ _ Wc) as (m & ca & Hm & W1 & _ & Fa & Ca).
  destruct (wf_call_spec _ _ Wo) as (mo & cb & Hmo & W2 & W3 & Fb & Cb).
  rewrite call_equiv_unfold. cbn [norm_call] in Nx, Ny. rewrite Fa in *. rewrite Fb in *.
  assert (In ca ta) as Ia by (rewrite find_callable_k in Fa; apply findk_some in Fa; tauto).
  assert (In cb tb) as Ib by (rewrite find_callable_k in Fb; apply findk_some in Fb; tauto).
  pose proof (wf_table_in _ _ Wa Ia) as Wca. pose proof (wf_table_in _ _ Wb Ib) as Wcb.
  apply wf_callable_spec in Wca as (Nia & Noa & Xa). apply wf_callable_spec in Wcb as (Nib & Nob & Xb).
  destruct ca as [s|p]; destruct cb as [t|q]; cbn in Nia, Noa, Nib, Nob, Ca, Cb.
  - (* stage / stage *)
    inversion Nx; subst x. inversion Ny; subst y. clear Nx Ny.
    exists (if negb (head_tests c o) then false else stage_equiv s t).
    split; [destruct (head_tests c o); reflexivity|].
    rewrite call_sim_unfold.
    split.
    + intro HR. destruct (head_tests c o) eqn:Ht; [|discriminate]. cbn in HR.
      unfold stage_equiv in HR. apply andb_true_iff in HR as [HR Ho].
      apply andb_true_iff in HR as [Hsp Hi]. apply Bool.eqb_prop in Hsp.
      split; [|split; [|split]].
      * eapply head_sound; eauto. rewrite Ca, Cb. eapply in_params_length; eauto.
      * cbn. split; [assumption|]. split; [apply in_params_sound|apply out_params_sound]; assumption.
      * reflexivity.
      * intros z [].
    + intros (Hh & Hc & _ & _). rewrite (head_complete _ _ _ _ Hm Hmo W1 W2 W3 Hh). cbn.
      cbn in Hc. destruct Hc as (Hsp & Hi & Ho). unfold stage_equiv.
      rewrite Hsp, Bool.eqb_reflx, in_params_complete, out_params_complete; auto.
  - (* stage / pipeline *)
    inversion Nx; subst x.
    destruct (pl_ret q); [|discriminate]. destruct (map_opt _ _); [|discriminate]. inversion Ny; subst y.
    exists false. split; [destruct (head_tests c o); reflexivity|].
    rewrite call_sim_unfold. split; [discriminate|]. intros (_ & Hc & _). cbn in Hc. contradiction.
  - (* pipeline / stage *)
    destruct (pl_ret p); [|discriminate]. destruct (map_opt _ _); [|discriminate]. inversion Nx; subst x.
    inversion Ny; subst y.
    exists false. split; [destruct (head_tests c o); reflexivity|].
    rewrite call_sim_unfold. split; [discriminate|]. intros (_ & Hc & _). cbn in Hc. contradiction.
  - (* pipeline / pipeline *)
    destruct Xa as (Ncp & Wcp & rp & Rp & Wrp & Crp). destruct Xb as (Ncq & Wcq & rq & Rq & Wrq & Crq).
    rewrite Rp in Nx. rewrite Rq in Ny.
    destruct (map_opt (norm_call n ta) (pl_calls p)) as [xs|] eqn:Mp; [|discriminate].
    destruct (map_opt (norm_call n tb) (pl_calls q)) as [ys|] eqn:Mq; [|discriminate].
    inversion Nx; subst x. inversion Ny; subst y. clear Nx Ny.
    rewrite Rp, Rq.
    set (f := fun call => match find_call (c_id call) (pl_calls q) with
                          | None => Some false
                          | Some oc => call_equiv n ta tb call oc
                          end).
    assert (forall call, In call (pl_calls p) -> exists r, f call = Some r) as Hex.
    { intros call Hc. unfold f. rewrite find_call_k.
      destruct (findk c_id (c_id call) (pl_calls q)) as [oc|] eqn:F; [|eauto].
      apply findk_some in F as [F1 _].
      destruct (map_opt_in _ _ _ _ Mp Hc) as [x' [Nx' _]].
      destruct (map_opt_in _ _ _ _ Mq F1) as [y' [Ny' _]].
      destruct (IH ta tb call oc x' y' Wa Wb (Wcp _ Hc) (Wcq _ F1) Nx' Ny') as [r [E _]]. eauto. }
    destruct (all_opt_spec f (pl_calls p) Hex) as [rall [Eall Hall]].
    exists (if negb (head_tests c o) then false
            else if negb (in_params_equal (pl_ins p) (pl_ins q)) then false
            else if negb (out_params_equal true (pl_outs p) (pl_outs q)) then false
            else if negb (Nat.eqb (length (pl_calls p)) (length (pl_calls q))) then false
            else if negb (binds_equal rp rq) then false else rall).
    split.
    { rewrite Eall. cbn [ret_equal].
      destruct (head_tests c o); cbn; [|reflexivity].
      destruct (in_params_equal _ _); cbn; [|reflexivity].
      destruct (out_params_equal _ _ _); cbn; [|reflexivity].
      destruct (Nat.eqb _ _); cbn; [|reflexivity].
      destruct (binds_equal rp rq); reflexivity. }
    rewrite call_sim_unfold.
    apply wf_binds_spec in Wrp as [Nrp _]. pose proof (wf_binds_spec _ Wrq) as [Nrq Wfrq].
    split.
    + intro HR.
      destruct (head_tests c o) eqn:Ht; [|discriminate]. cbn in HR.
      destruct (in_params_equal (pl_ins p) (pl_ins q)) eqn:Hi; [|discriminate]. cbn in HR.
      destruct (out_params_equal true (pl_outs p) (pl_outs q)) eqn:Ho; [|discriminate]. cbn in HR.
      destruct (Nat.eqb (length (pl_calls p)) (length (pl_calls q))) eqn:Hl; [|discriminate]. cbn in HR.
      destruct (binds_equal rp rq) eqn:Hr; [|discriminate]. cbn in HR.
      apply Nat.eqb_eq in Hl.
      assert (length (bind_table rp) = length (bind_table rq)) as Hcr.
      { rewrite Crp, Crq. eapply out_params_length; eauto. }
      destruct (binds_sound _ _ Nrp Nrq Hcr Hr) as [Hs Hb].
      split; [|split; [|split]].
      * eapply head_sound; eauto. rewrite Ca, Cb. eapply in_params_length; eauto.
      * cbn. split; [apply in_params_sound; assumption|]. split; [apply out_params_sound; assumption|].
        split; assumption.
      * rewrite (map_opt_length _ _ _ Mp), (map_opt_length _ _ _ Mq). assumption.
      * intros x' Hx'. destruct (map_opt_inv _ _ _ _ Mp Hx') as [call [Hc Nx']].
        pose proof (proj1 Hall HR call Hc) as Hf. unfold f in Hf. rewrite find_call_k in Hf.
        destruct (findk c_id (c_id call) (pl_calls q)) as [oc|] eqn:F; [|discriminate].
        apply findk_some in F as [F1 _].
        destruct (map_opt_in _ _ _ _ Mq F1) as [y' [Ny' Hy']].
        exists y'. split; [assumption|].
        destruct (IH ta tb call oc x' y' Wa Wb (Wcp _ Hc) (Wcq _ F1) Nx' Ny') as [r [E Hr']].
        rewrite Hf in E. inversion E; subst r. apply Hr'. reflexivity.
    + intros (Hh & Hc & Hlen & Hcalls).
      rewrite (head_complete _ _ _ _ Hm Hmo W1 W2 W3 Hh). cbn.
      cbn in Hc. destruct Hc as (Hi & Ho & Hs & Hb).
      rewrite in_params_complete, out_params_complete; auto. cbn.
      rewrite (map_opt_length _ _ _ Mp), (map_opt_length _ _ _ Mq) in Hlen.
      rewrite Hlen, Nat.eqb_refl. cbn.
      rewrite (binds_complete _ _ Nrp Nrq Wfrq Hs Hb). cbn.
      apply Hall. intros call Hcall.
      destruct (map_opt_in _ _ _ _ Mp Hcall) as [x' [Nx' Hx']].
      destruct (Hcalls _ Hx') as [y' [Hy' Hsim]].
      destruct (map_opt_inv _ _ _ _ Mq Hy') as [oc [Hoc Ny']].
      assert (c_id oc = c_id call) as Hid.
      { destruct x' as [h1 ce1 cs1], y' as [h2 ce2 cs2].
        apply call_sim_unfold in Hsim as ((Hid & _) & _).
        rewrite (norm_call_head _ _ _ _ _ _ Nx'), (norm_call_head _ _ _ _ _ _ Ny') in Hid.
        cbn in Hid. congruence. }
      unfold f. rewrite find_call_k, (findk_in c_id _ _ _ Ncq Hoc Hid).
      destruct (IH ta tb call oc x' y' Wa Wb (Wcp _ Hcall) (Wcq _ Hoc) Nx' Ny') as [r [E Hr']].
      rewrite E. f_equal. apply Hr'. assumption.
Qed.

(* ------------------------------------------------------------ programs *)
Lemma wf_ast_spec : forall a, wf_ast a = true ->
  a_compiled a = true /\ wf_table (a_callables a) = true /\
  exists c, a_call a = Some c /\ wf_call (a_callables a) c = true.
Proof.
  intros a H. unfold wf_ast in H. bool_hyps. destruct (a_call a) as [c|]; [|discriminate]. eauto.
Qed.

Lemma equiv_spec : forall a b x y,
  wf_ast a = true -> wf_ast b = true ->
  norm (fuel_of a b) a = Some x -> norm (fuel_of a b) b = Some y ->
  (equiv_call a b = true <-> call_sim x y).
Proof.
  intros a b x y Wa Wb Nx Ny.
  apply wf_ast_spec in Wa as (Ca & Ta & c & Ec & Wc). apply wf_ast_spec in Wb as (Cb & Tb & o & Eo & Wo).
  unfold norm in Nx, Ny. rewrite Ec in Nx. rewrite Eo in Ny.
  unfold equiv_call, equiv_call_opt. rewrite Ca, Cb, Ec, Eo. cbn [andb negb].
  destruct (call_spec _ _ _ _ _ _ _ Ta Tb Wc Wo Nx Ny) as [r [E Hr]]. rewrite E. exact Hr.
Qed.

Lemma equiv_sound_lemma : forall a b x y,
  wf_ast a = true -> wf_ast b = true ->
  norm (fuel_of a b) a = Some x -> norm (fuel_of a b) b = Some y ->
  equiv_call a b = true -> call_sim x y.
Proof. intros a b x y Wa Wb Nx Ny. apply (equiv_spec a b x y Wa Wb Nx Ny). Qed.

Lemma equiv_complete_lemma : forall a b x y,
  wf_ast a = true -> wf_ast b = true ->
  norm (fuel_of a b) a = Some x -> norm (fuel_of a b) b = Some y ->
  call_sim x y -> equiv_call a b = true.
Proof. intros a b x y Wa Wb Nx Ny. apply (equiv_spec a b x y Wa Wb Nx Ny). Qed.

(* the comparison never runs out of fuel on well-formed programs that have a
   normal form: refusing is a decision, not a timeout *)
Lemma equiv_decides_lemma : forall a b x y,
  wf_ast a = true -> wf_ast b = true ->
  norm (fuel_of a b) a = Some x -> norm (fuel_of a b) b = Some y ->
  exists r, equiv_call_opt a b = Some r.
Proof.
  intros a b x y Wa Wb Nx Ny.
  apply wf_ast_spec in Wa as (Ca & Ta & c & Ec & Wc). apply wf_ast_spec in Wb as (Cb & Tb & o & Eo & Wo).
  unfold norm in Nx, Ny. rewrite Ec in Nx. rewrite Eo in Ny.
  unfold equiv_call_opt. rewrite Ca, Cb, Ec, Eo. cbn [andb negb].
  destruct (call_spec _ _ _ _ _ _ _ Ta Tb Wc Wo Nx Ny) as [r [E _]]. eauto.
Qed.

(* ---------------------------------------- the clauses before the fixes *)
(* (a) Modifiers.EquivalentTo compared the disabled binding with itself:
   `disabled = self.skip` and `disabled = self.skip2` were equivalent. *)
Lemma mods_v0_refuted_lemma : exists m o,
  mods_equiv_some_v0 m o = true /\ ~ opt_sim (dis_norm m) (dis_norm o).
Proof.
  exists (mk_mods [mk_bind disabled_id (ERef RefSelf [x61] []) (mk_tid [] 0 0)] false false false),
         (mk_mods [mk_bind disabled_id (ERef RefSelf [x62] []) (mk_tid [] 0 0)] false false false).
  split; [vm_compute; reflexivity|]. vm_compute. intros (_ & H & _). discriminate.
Qed.

(* (b) parameter types fastq[] and fq[] (both arrays of a user file type,
   KindIsDirectory) were unequal although only a file type name differs *)
Lemma ptype_v0_refuted_lemma : exists t u,
  ptype_equal_v0 t u KindIsDirectory KindIsDirectory = false /\
  norm_type t KindIsDirectory true = norm_type u KindIsDirectory true.
Proof.
  exists (mk_tid [x61] 1 0), (mk_tid [x62] 1 0). split; vm_compute; reflexivity.
Qed.

