(* Fork ids with empty inner collections: the injectivity theorem of
   Proofs/ForkName.v extended to forks one of whose parts ranges over an
   empty collection (there is exactly one such fork per choice of the indices
   above it, identified by those indices). *)
From Martian Require Import Lib.Bytes Extracted.Journal K.ForkName Proofs.ForkName.
Local Open Scope N_scope.

(* a part over an empty collection *)
Definition empty_part (p : part) : Prop :=
  range_len p = Some 0 /\ p_id p = IEmpty /\ p_mode p <> MSingle.

Definition wf_part_e (p : part) : Prop := wf_part p \/ empty_part p.

(* the ids that identify a fork: those up to and including the first empty
   part (what lies below an empty collection is not a choice) *)
Fixpoint ids_upto_empty (ps : list part) : list fid :=
  match ps with
  | [] => []
  | p :: r => match p_id p with
              | IEmpty => [IEmpty]
              | i => i :: ids_upto_empty r
              end
  end.

(* The id string, as Proofs/ForkName.enc, with the empty case. *)
Fixpoint ence (i0 b : bool) (idx dim : N) (ps : list part) : bytes :=
  match ps with
  | [] => if (idx =? 0) && negb b then fork0 else write_fork_index dim idx
  | p :: rest =>
      match range_len p with
      | Some 0 => if (idx =? 0) && negb b then fork0 else write_fork_index dim idx
      | _ =>
        match p_id p, range_len p with
        | IArr a, Some alen =>
            if variable_len p alen && negb i0
            then write_fork_index dim idx ++ c_us :: ence false true a alen rest
            else ence false b (idx + dim * a) (dim * alen) rest
        | IKey k, _ =>
            (if i0 then [] else write_fork_index dim idx ++ [c_slash])
            ++ s_fork_us ++ path_escape k
            ++ match rest with [] => [] | _ => c_slash :: ence true true 0 1 rest end
        | _, _ => []
        end
      end
  end.

Lemma wf_e_cases p : wf_part_e p ->
  (exists alen, range_len p = Some alen /\ 0 < alen /\ wf_part p /\
     match p_id p with IArr a => a < alen | IKey _ => True | _ => False end)
  \/ empty_part p.
Proof.
  intros [H|H]; [left|right; exact H].
  destruct (wf_range p H) as (alen & Hr & Hpos & Hid). exists alen. split; [exact Hr|split; [exact Hpos|split; [exact H|exact Hid]]].
Qed.

Lemma fork_go_ence : forall ps, Forall wf_part_e ps -> forall i0 b idx dim,
  exists r, fork_go false i0 b idx dim ps = Some r /\ str r = ence i0 b idx dim ps /\
            (fst r = true -> snd r = [] /\ b = false).
Proof.
  induction ps as [|p rest IH]; intros Hwf i0 b idx dim.
  - cbn [fork_go ence]. destruct ((idx =? 0) && negb b) eqn:E.
    + exists (true, []). split; [reflexivity|]. split; [reflexivity|]. intros _. split; [reflexivity|].
      apply andb_true_iff in E as [_ E]. destruct b; [discriminate|reflexivity].
    + exists (false, write_fork_index dim idx). split; [reflexivity|].
      split; [apply app_nil_r|intro; discriminate].
  - inversion Hwf as [|? ? Hp Hrest]; subst.
    destruct (wf_e_cases p Hp) as [(alen & Hr & Hpos & Hw & Hid)|(Hr & Hid & _)].
    + destruct Hw as [Hallow _].
      cbn [fork_go ence]. rewrite Hr.
      assert (Ez : (alen =? 0) = false) by (apply N.eqb_neq; lia).
      assert (Enz : match alen with 0 => true | _ => false end = false) by (destruct alen; [lia|reflexivity]).
      destruct alen as [|pa]; [lia|].
      destruct (p_id p) as [a|k| |] eqn:Eid; try contradiction.
      * rewrite Ez, Hallow. cbn [negb].
        destruct (variable_len p (N.pos pa) && negb i0) eqn:Ev.
        -- destruct (IH Hrest false true a (N.pos pa)) as ([d s] & E1 & E2 & E3). rewrite E1.
           assert (d = false) as ->.
           { destruct d; [|reflexivity]. destruct (E3 eq_refl) as [_ Hc]. discriminate. }
           exists (false, write_fork_index dim idx ++ c_us :: s). split; [reflexivity|].
           split; [|intro; discriminate]. unfold str in *. cbn [fst snd] in *.
           rewrite app_nil_r in *. rewrite <- E2. reflexivity.
        -- apply IH. exact Hrest.
      * rewrite Ez, Hallow. cbn [negb].
        assert (Hseg : exists sg,
          match rest with
          | [] => Some (s_fork_us ++ path_escape k)
          | _ :: _ =>
              match key_tail (fork_go false true true 0 1 rest) with
              | Some t => Some (s_fork_us ++ path_escape k ++ t)
              | None => None
              end
          end = Some sg /\
          sg = s_fork_us ++ path_escape k ++
               match rest with [] => [] | _ => c_slash :: ence true true 0 1 rest end).
        { destruct rest as [|p2 rest2].
          - eexists; split; [reflexivity|]. rewrite app_nil_r. reflexivity.
          - destruct (IH Hrest true true 0 1) as ([d s] & E1 & E2 & E3). rewrite E1.
            cbn [key_tail]. unfold str in E2. destruct d; eexists; split; try reflexivity; cbn [fst snd] in E2; rewrite <- E2.
            + reflexivity.
            + rewrite app_nil_r. reflexivity. }
        destruct Hseg as (sg & Es & ->). rewrite Es.
        destruct i0.
        -- eexists. split; [reflexivity|]. split; [|intro; discriminate].
           unfold str. cbn [fst snd app]. apply app_nil_r.
        -- eexists. split; [reflexivity|]. split; [|intro; discriminate].
           unfold str. cbn [fst snd app]. rewrite app_nil_r, <- app_assoc. reflexivity.
    + cbn [fork_go ence]. rewrite Hr, Hid. cbn [N.eqb].
      destruct ((idx =? 0) && negb b) eqn:E.
      * exists (true, []). split; [reflexivity|]. split; [reflexivity|]. intros _. split; [reflexivity|].
        apply andb_true_iff in E as [_ E]. destruct b; [discriminate|reflexivity].
      * exists (false, write_fork_index dim idx). split; [reflexivity|].
        split; [apply app_nil_r|intro; discriminate].
Qed.

(* Shape of the output while an index is being accumulated. *)
Lemma ence_shape : forall ps, Forall wf_part_e ps -> forall b idx dim,
  exists ds tail m, ence false b idx dim ps = s_fork ++ ds ++ tail /\
    all_digits ds /\ dec_val ds = idx + dim * m /\ nondigit_tail tail.
Proof.
  assert (Hbase : forall b idx dim,
    exists ds tail m, (if (idx =? 0) && negb b then fork0 else write_fork_index dim idx) = s_fork ++ ds ++ tail /\
      all_digits ds /\ dec_val ds = idx + dim * m /\ nondigit_tail tail).
  { intros b idx dim. destruct ((idx =? 0) && negb b) eqn:E.
    + apply andb_true_iff in E as [E _]. apply N.eqb_eq in E. subst idx.
      exists [c_0], [], 0. split; [reflexivity|]. split; [reflexivity|].
      split; [change (dec_val [c_0]) with 0; lia|left; reflexivity].
    + destruct (write_fork_index_spec dim idx) as (ds & E1 & Hd & _ & Hv).
      exists ds, [], 0. split; [rewrite E1, app_nil_r; reflexivity|].
      split; [exact Hd|]. split; [lia|left; reflexivity]. }
  induction ps as [|p rest IH]; intros Hwf b idx dim.
  - cbn [ence]. apply Hbase.
  - inversion Hwf as [|? ? Hp Hrest]; subst.
    destruct (wf_e_cases p Hp) as [(alen & Hr & Hpos & Hw & Hid)|(Hr & Hid & _)].
    + cbn [ence]. rewrite Hr. destruct alen as [|pa]; [lia|].
      destruct (write_fork_index_spec dim idx) as (ds & E1 & Hd & _ & Hv).
      destruct (p_id p) as [a|k| |] eqn:Eid; try contradiction.
      * cbn [negb]. rewrite andb_true_r. destruct (variable_len p (N.pos pa)).
        -- exists ds, (c_us :: ence false true a (N.pos pa) rest), 0.
           split; [rewrite E1, <- app_assoc; reflexivity|].
           split; [exact Hd|]. split; [lia|].
           right. do 2 eexists. split; [reflexivity|apply c_us_nondigit].
        -- destruct (IH Hrest b (idx + dim * a) (dim * N.pos pa)) as (ds2 & tl & m & E2 & Hd2 & Hv2 & Ht).
           exists ds2, tl, (a + N.pos pa * m).
           split; [exact E2|]. split; [exact Hd2|]. split; [lia|exact Ht].
      * exists ds, (c_slash :: s_fork_us ++ path_escape k ++ match rest with [] => [] | _ => c_slash :: ence true true 0 1 rest end), 0.
        split; [rewrite E1; cbn [app]; rewrite <- !app_assoc; reflexivity|].
        split; [exact Hd|]. split; [lia|].
        right. do 2 eexists. split; [reflexivity|apply c_slash_nondigit].
    + cbn [ence]. rewrite Hr. apply Hbase.
Qed.

Lemma ence_diverged : forall ps qs, Forall wf_part_e ps -> Forall wf_part_e qs ->
  forall b1 b2 idx1 idx2 dim1 dim2 D k1 k2,
  0 < D -> dim1 = k1 * D -> dim2 = k2 * D -> idx1 mod D <> idx2 mod D ->
  ence false b1 idx1 dim1 ps <> ence false b2 idx2 dim2 qs.
Proof.
  intros ps qs Hp Hq b1 b2 idx1 idx2 dim1 dim2 D k1 k2 HD E1 E2 Hne Heq.
  destruct (ence_shape ps Hp b1 idx1 dim1) as (ds1 & t1 & m1 & S1 & A1 & V1 & T1).
  destruct (ence_shape qs Hq b2 idx2 dim2) as (ds2 & t2 & m2 & S2 & A2 & V2 & T2).
  rewrite S1, S2 in Heq. apply app_inv_head in Heq.
  destruct (digits_split _ _ _ _ A1 A2 T1 T2 Heq) as [Hds _]. subst ds2.
  rewrite V1 in V2. apply Hne.
  assert (X1 : (idx1 + dim1 * m1) mod D = idx1 mod D).
  { subst dim1. replace (k1 * D * m1) with (k1 * m1 * D) by lia. apply N.mod_add. lia. }
  assert (X2 : (idx2 + dim2 * m2) mod D = idx2 mod D).
  { subst dim2. replace (k2 * D * m2) with (k2 * m2 * D) by lia. apply N.mod_add. lia. }
  rewrite <- X1, <- X2, V2. reflexivity.
Qed.

Lemma ids_upto_empty_cons_ne p r : p_id p <> IEmpty ->
  ids_upto_empty (p :: r) = p_id p :: ids_upto_empty r.
Proof. intro H. cbn [ids_upto_empty]. destruct (p_id p); try reflexivity. contradiction. Qed.

Lemma ence_inj : forall ps qs, sib ps qs -> Forall wf_part_e ps -> Forall wf_part_e qs ->
  forall i0 b idx dim, idx < dim ->
  ence i0 b idx dim ps = ence i0 b idx dim qs -> ids_upto_empty ps = ids_upto_empty qs.
Proof.
  intros ps qs Hs. induction Hs as [|p q ps qs Hsrc Hsib IH Hlen]; intros Hwp Hwq i0 b idx dim Hlt E.
  - reflexivity.
  - inversion Hwp as [|? ? Hp Hps]; subst. inversion Hwq as [|? ? Hq Hqs]; subst.
    pose proof (same_src_range _ _ Hsrc) as Hrr.
    destruct (wf_e_cases p Hp) as [(alen & Hr & Hpos & Hwp1 & Hidp)|(Hr & Hidp & _)];
    destruct (wf_e_cases q Hq) as [(alen' & Hr' & Hpos' & Hwq1 & Hidq)|(Hr' & Hidq & _)].
    + (* both non-empty: as in Proofs/ForkName.enc_inj *)
      rewrite Hrr, Hr' in Hr. inversion Hr; subst alen'.
      pose proof (same_src_kind p q Hsrc Hwp1 Hwq1) as Hk.
      cbn [ence] in E. rewrite Hrr, Hr' in E.
      rewrite <- (same_src_variable _ _ alen Hsrc) in E.
      destruct alen as [|pa]; [lia|].
      destruct (p_id p) as [a1|k1| |] eqn:E1; destruct (p_id q) as [a2|k2| |] eqn:E2; try contradiction.
      * rewrite !ids_upto_empty_cons_ne by (rewrite ?E1, ?E2; discriminate). rewrite E1, E2.
        destruct (variable_len p (N.pos pa) && negb i0).
        -- apply app_inv_head in E. inversion E as [E'].
           destruct (N.eq_dec a1 a2) as [->|Hne].
           ++ f_equal. eapply (IH eq_refl Hps Hqs false true a2 (N.pos pa)); [lia|exact E'].
           ++ exfalso. revert E'. apply (ence_diverged ps qs Hps Hqs true true a1 a2 (N.pos pa) (N.pos pa) (N.pos pa) 1 1); try lia.
              rewrite !N.mod_small by lia. exact Hne.
        -- destruct (N.eq_dec a1 a2) as [->|Hne].
           ++ f_equal. eapply (IH eq_refl Hps Hqs false b (idx + dim * a2) (dim * N.pos pa)); [nia|exact E].
           ++ exfalso. revert E.
              apply (ence_diverged ps qs Hps Hqs b b _ _ (dim * N.pos pa) (dim * N.pos pa) (dim * N.pos pa) 1 1); try lia; try nia.
              rewrite !N.mod_small by nia. nia.
      * rewrite !ids_upto_empty_cons_ne by (rewrite ?E1, ?E2; discriminate). rewrite E1, E2.
        apply app_inv_head in E. apply app_inv_head in E.
        assert (Hst : forall (l : list part) x, stop_tail esc_code
                   match l with [] => [] | _ => c_slash :: x end).
        { intros l x. destruct l; [left; reflexivity|]. right. do 2 eexists. split; [reflexivity|apply esc_stop_slash]. }
        apply (encode_with_split esc_code esc_prefix_code) in E; [|apply Hst|apply Hst].
        destruct E as [-> ET]. f_equal.
        specialize (Hsib eq_refl). specialize (IH eq_refl Hps Hqs true true 0 1).
        destruct ps as [|p2 ps2], qs as [|q2 qs2]; try discriminate Hlen; [reflexivity|].
        inversion ET as [ET']. apply IH; [lia|exact ET'].
    + exfalso. rewrite Hrr, Hr' in Hr. inversion Hr. lia.
    + exfalso. rewrite Hrr, Hr' in Hr. inversion Hr. lia.
    + cbn [ids_upto_empty]. rewrite Hidp, Hidq. reflexivity.
Qed.

(* Distinct forks of a call have distinct id strings, empty inner collections
   included: two forks with the same id string agree on every index and key
   up to (and including) their first empty part. *)
Theorem fork_id_inj_empty_lemma : forall ps qs s,
  sib ps qs -> Forall wf_part_e ps -> Forall wf_part_e qs ->
  fork_id ps = Some s -> fork_id qs = Some s -> ids_upto_empty ps = ids_upto_empty qs.
Proof.
  intros ps qs s Hs Hp Hq E1 E2.
  pose proof (sib_length _ _ Hs) as Hl.
  destruct ps as [|p [|p2 ps]]; destruct qs as [|q [|q2 qs]]; try discriminate Hl.
  - reflexivity.
  - inversion Hs as [|? ? ? ? Hsrc _ _]; subst.
    inversion Hp as [|? ? Hp1 _]; inversion Hq as [|? ? Hq1 _]; subst.
    pose proof (same_src_range _ _ Hsrc) as Hrr.
    destruct (wf_e_cases p Hp1) as [(alen & Hr & Hpos & Hwp1 & Hidp)|(Hr & Hidp & _)];
    destruct (wf_e_cases q Hq1) as [(alen' & Hr' & Hpos' & Hwq1 & Hidq)|(Hr' & Hidq & _)].
    + assert (Hid : p_id p = p_id q) by (eapply part_id_string_inj; eauto).
      cbn [ids_upto_empty]. rewrite Hid. reflexivity.
    + exfalso. rewrite Hrr, Hr' in Hr. inversion Hr. lia.
    + exfalso. rewrite Hrr, Hr' in Hr. inversion Hr. lia.
    + cbn [ids_upto_empty]. rewrite Hidp, Hidq. reflexivity.
  - unfold fork_id, fork_id_gen in E1, E2.
    destruct (fork_go_ence (p :: p2 :: ps) Hp true false 0 1) as ([d1 s1] & G1 & S1 & F1).
    destruct (fork_go_ence (q :: q2 :: qs) Hq true false 0 1) as ([d2 s2] & G2 & S2 & F2).
    rewrite G1 in E1. rewrite G2 in E2.
    apply (ence_inj _ _ Hs Hp Hq true false 0 1); [lia|].
    rewrite <- S1, <- S2. unfold str. cbn [fst snd] in *.
    destruct d1, d2.
    + destruct (F1 eq_refl) as [-> _]. destruct (F2 eq_refl) as [-> _]. reflexivity.
    + destruct (F1 eq_refl) as [-> _]. inversion E1; inversion E2; subst. rewrite app_nil_r. reflexivity.
    + destruct (F2 eq_refl) as [-> _]. inversion E1; inversion E2; subst. rewrite app_nil_r. reflexivity.
    + inversion E1; inversion E2; subst. reflexivity.
Qed.

(* The code before the repair (default id for an empty collection whenever
   the accumulated index is 0, even behind a written enclosing index):
   two different forks, one id. *)
Definition fork_go_empty_bug_witness : list part * list part :=
  let a i := mkPart MArray false 0 [] (RArr 2) (IArr i) in
  let e := mkPart MArray false 0 [] (RArr 0) IEmpty in
  ([a 0; a 0; e], [a 1; a 0; e]).
