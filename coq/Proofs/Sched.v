(* Theorems about Mro/Sched.v: they hold for every dependency relation and
   every valid trace (no bound on jobs, events, crashes or failures). *)
From Martian Require Import Lib.Bytes Mro.Sched.

Section SchedProofs.
  Variable job : Type.
  Variable jeqb : job -> job -> bool.
  Hypothesis jeqb_spec : forall a b, jeqb a b = true <-> a = b.
  Variable deps : job -> list job.

  Notation get := (get job jeqb).
  Notation run := (run job jeqb deps).
  Notation enabled := (enabled job jeqb deps).
  Notation apply := (apply job).
  Notation state := (state job).
  Notation count_starts := (count_starts job jeqb).

  Lemma jeqb_refl j : jeqb j j = true.
  Proof. apply jeqb_spec. reflexivity. Qed.
  Lemma jeqb_neq a b : a <> b -> jeqb a b = false.
  Proof. intros H. destruct (jeqb a b) eqn:E; [|reflexivity]. apply jeqb_spec in E. contradiction. Qed.
  Lemma jeq_dec (a b : job) : {a = b} + {a <> b}.
  Proof. destruct (jeqb a b) eqn:E; [left; apply jeqb_spec; exact E|right]. intros ->. rewrite jeqb_refl in E. discriminate. Qed.

  Lemma get_set_same (s : state) j v : get (set job s j v) j = v.
  Proof. cbn. rewrite jeqb_refl. reflexivity. Qed.
  Lemma get_set_other (s : state) j k v : j <> k -> get (set job s k v) j = get s j.
  Proof. intros H. cbn. rewrite (jeqb_neq _ _ H). reflexivity. Qed.

  Definition target (e : event job) : job :=
    match e with EStart j | EDone j | EFail j | EReset j => j end.
  Definition newval (e : event job) : jstate :=
    match e with EStart _ => Running | EDone _ => Done | EFail _ => Failed | EReset _ => Idle end.

  Lemma apply_set s e : apply s e = set job s (target e) (newval e).
  Proof. destruct e; reflexivity. Qed.

  Lemma jstate_eqb_eq a b : jstate_eqb a b = true <-> a = b.
  Proof. destruct a, b; cbn; split; intros H; try reflexivity; discriminate. Qed.

  (* an enabled event never touches a job that is done: Done is absorbing *)
  Lemma enabled_not_done s e : enabled s e = true -> get s (target e) <> Done.
  Proof.
    destruct e as [j|j|j|j]; cbn; intros H E; rewrite E in H; cbn in H; discriminate.
  Qed.

  Lemma get_apply_other s e j : j <> target e -> get (apply s e) j = get s j.
  Proof. intros H. rewrite apply_set. apply get_set_other. exact H. Qed.
  Lemma get_apply_same s e : get (apply s e) (target e) = newval e.
  Proof. rewrite apply_set. apply get_set_same. Qed.

  Lemma done_step s e d : enabled s e = true -> get s d = Done -> get (apply s e) d = Done.
  Proof.
    intros He Hd. destruct (jeq_dec d (target e)) as [->|Hn].
    - exfalso. exact (enabled_not_done _ _ He Hd).
    - rewrite get_apply_other by exact Hn. exact Hd.
  Qed.

  Lemma run_cons s e r : run s (e :: r) = if enabled s e then run (apply s e) r else None.
  Proof. reflexivity. Qed.

  Lemma run_app : forall a b s,
    run s (a ++ b) = match run s a with Some s' => run s' b | None => None end.
  Proof.
    induction a as [|e a IH]; intros b s; [reflexivity|].
    cbn [app]. rewrite !run_cons. destruct (enabled s e); [apply IH|reflexivity].
  Qed.

  (* C05 kernel: a recorded completion is never lost *)
  Lemma done_stable : forall tr s s' d,
    run s tr = Some s' -> get s d = Done -> get s' d = Done.
  Proof.
    induction tr as [|e tr IH]; intros s s' d Hr Hd.
    - injection Hr as <-. exact Hd.
    - rewrite run_cons in Hr. destruct (enabled s e) eqn:He; [|discriminate].
      eapply IH; [exact Hr|]. apply done_step; assumption.
  Qed.

  (* a job is done only through its completion event *)
  Lemma done_has_event : forall tr s s' d,
    run s tr = Some s' -> get s' d = Done -> get s d = Done \/ In (EDone d) tr.
  Proof.
    induction tr as [|e tr IH]; intros s s' d Hr Hd.
    - injection Hr as <-. left. exact Hd.
    - rewrite run_cons in Hr. destruct (enabled s e) eqn:He; [|discriminate].
      destruct (IH _ _ _ Hr Hd) as [H|H]; [|right; right; exact H].
      destruct (jeq_dec d (target e)) as [->|Hn].
      + rewrite get_apply_same in H. destruct e; cbn in H; try discriminate.
        right. left. reflexivity.
      + rewrite get_apply_other in H by exact Hn. left. exact H.
  Qed.

  (* ---------------- C02: jobs start only after their dependencies *)
  Theorem start_after_deps : forall pre j post s,
    run [] (pre ++ EStart j :: post) = Some s ->
    forall d, In d (deps j) ->
      In (EDone d) pre /\
      (* and the dependency is still done in every later state *)
      (forall s1, run [] pre = Some s1 -> get s1 d = Done) /\
      get s d = Done.
  Proof.
    intros pre j post s Hr d Hd.
    rewrite run_app in Hr. destruct (run [] pre) as [s1|] eqn:E1; [|discriminate].
    rewrite run_cons in Hr. destruct (enabled s1 (EStart j)) eqn:He; [|discriminate].
    pose proof He as He0.
    cbn in He. apply andb_prop in He. destruct He as [_ Hall].
    rewrite forallb_forall in Hall. specialize (Hall d Hd).
    unfold is_done in Hall. apply jstate_eqb_eq in Hall.
    assert (Hdone1 : get s1 d = Done) by exact Hall.
    split; [|split].
    - destruct (done_has_event _ _ _ _ E1 Hdone1) as [H|H]; [|exact H].
      unfold Sched.get in H. discriminate.
    - intros s1' Hs1'. injection Hs1' as <-. exact Hdone1.
    - eapply done_stable; [exact Hr|]. apply done_step; [exact He0|exact Hdone1].
  Qed.

  (* ---------------- C05: a job whose completion was recorded never starts again,
     whatever crashes, failures and resets follow *)
  Theorem done_never_restarted : forall pre j post s,
    run [] (pre ++ EDone j :: post) = Some s -> count_starts j post = 0.
  Proof.
    intros pre j post s Hr.
    rewrite run_app in Hr. destruct (run [] pre) as [s1|]; [|discriminate].
    rewrite run_cons in Hr. destruct (enabled s1 (EDone j)); [|discriminate].
    assert (Hd : get (apply s1 (EDone j)) j = Done) by apply get_set_same.
    revert Hr Hd. generalize (apply s1 (EDone j)). clear s1.
    induction post as [|e post IH]; intros s0 Hr Hd; [reflexivity|].
    rewrite run_cons in Hr. destruct (enabled s0 e) eqn:He; [|discriminate].
    unfold Sched.count_starts. cbn [filter].
    destruct (is_start job jeqb j e) eqn:Es.
    - exfalso. destruct e as [k|k|k|k]; cbn in Es; try discriminate.
      apply jeqb_spec in Es. subst k. cbn in He. rewrite Hd in He. cbn in He. discriminate.
    - apply (IH _ Hr). apply done_step; assumption.
  Qed.

  (* ---------------- C03: no job is started twice, and a completed pipestance ran
     every job exactly once *)
  Definition quiet (tr : list (event job)) : Prop :=
    forallb (fun e => negb (is_reset_or_fail job e)) tr = true.

  Lemma nonidle_step s e j :
    enabled s e = true -> is_reset_or_fail job e = false ->
    get s j <> Idle -> get (apply s e) j <> Idle.
  Proof.
    intros He Hq Hj. destruct (jeq_dec j (target e)) as [->|Hn].
    - rewrite get_apply_same. destruct e; cbn in *; try discriminate.
    - rewrite get_apply_other by exact Hn. exact Hj.
  Qed.

  Lemma no_start_when_busy : forall tr s s' j,
    run s tr = Some s' -> quiet tr -> get s j <> Idle -> count_starts j tr = 0.
  Proof.
    induction tr as [|e tr IH]; intros s s' j Hr Hq Hj; [reflexivity|].
    rewrite run_cons in Hr. destruct (enabled s e) eqn:He; [|discriminate].
    unfold quiet in Hq. cbn [forallb] in Hq. apply andb_prop in Hq. destruct Hq as [Hq1 Hq].
    apply negb_true_iff in Hq1.
    unfold Sched.count_starts. cbn [filter].
    destruct (is_start job jeqb j e) eqn:Es.
    - exfalso. destruct e as [k|k|k|k]; cbn in Es; try discriminate.
      apply jeqb_spec in Es. subst k. cbn in He. apply andb_prop in He. destruct He as [He _].
      apply jstate_eqb_eq in He. contradiction.
    - apply (IH _ _ _ Hr Hq). apply nonidle_step; assumption.
  Qed.

  Theorem no_double_start : forall tr s s' j,
    run s tr = Some s' -> quiet tr -> count_starts j tr <= 1.
  Proof.
    induction tr as [|e tr IH]; intros s s' j Hr Hq; [cbn; lia|].
    rewrite run_cons in Hr. destruct (enabled s e) eqn:He; [|discriminate].
    pose proof Hq as Hq0.
    unfold quiet in Hq. cbn [forallb] in Hq. apply andb_prop in Hq. destruct Hq as [Hq1 Hq].
    unfold Sched.count_starts. cbn [filter].
    destruct (is_start job jeqb j e) eqn:Es.
    - destruct e as [k|k|k|k]; cbn in Es; try discriminate.
      apply jeqb_spec in Es. subst k. cbn [length].
      assert (H0 : count_starts j tr = 0).
      { eapply no_start_when_busy; [exact Hr|exact Hq|]. cbn. rewrite jeqb_refl. discriminate. }
      unfold Sched.count_starts in H0. rewrite H0. lia.
    - apply (IH _ _ _ Hr Hq).
  Qed.

  Lemma started_if_not_idle : forall tr s s' j,
    run s tr = Some s' -> get s' j <> Idle -> get s j <> Idle \/ 1 <= count_starts j tr.
  Proof.
    induction tr as [|e tr IH]; intros s s' j Hr Hj.
    - injection Hr as <-. left. exact Hj.
    - rewrite run_cons in Hr. destruct (enabled s e) eqn:He; [|discriminate].
      unfold Sched.count_starts. cbn [filter].
      destruct (is_start job jeqb j e) eqn:Es; [right; cbn; lia|].
      destruct (IH _ _ _ Hr Hj) as [H|H]; [|right; exact H].
      destruct (jeq_dec j (target e)) as [->|Hn].
      + left. destruct e as [k|k|k|k]; cbn in He, Es |- *.
        * rewrite jeqb_refl in Es. discriminate.
        * intros E. rewrite E in He. discriminate.
        * intros E. rewrite E in He. discriminate.
        * intros E. rewrite E in He. discriminate.
      + rewrite get_apply_other in H by exact Hn. left. exact H.
  Qed.

  Theorem exactly_once : forall tr s j,
    run [] tr = Some s -> quiet tr -> get s j = Done -> count_starts j tr = 1.
  Proof.
    intros tr s j Hr Hq Hd.
    pose proof (no_double_start _ _ _ j Hr Hq) as Hle.
    destruct (started_if_not_idle _ _ _ j Hr) as [H|H].
    - rewrite Hd. discriminate.
    - cbn in H. contradiction.
    - lia.
  Qed.

  (* ---------------- C06: a failed job blocks exactly its dependents and the
     pipestance can never be complete while the failure stands *)
  Definition no_reset_of (j : job) (tr : list (event job)) : Prop :=
    forall e, In e tr -> e <> EReset j.

  Lemma failed_stays : forall tr s s' j,
    run s tr = Some s' -> get s j = Failed -> no_reset_of j tr -> get s' j = Failed.
  Proof.
    induction tr as [|e tr IH]; intros s s' j Hr Hf Hn.
    - injection Hr as <-. exact Hf.
    - rewrite run_cons in Hr. destruct (enabled s e) eqn:He; [|discriminate].
      eapply IH; [exact Hr| |intros x Hx; apply Hn; right; exact Hx].
      destruct (jeq_dec j (target e)) as [->|Hne].
      + exfalso. destruct e as [k|k|k|k]; cbn in He, Hf.
        * rewrite Hf in He. discriminate.
        * rewrite Hf in He. discriminate.
        * rewrite Hf in He. discriminate.
        * apply (Hn (EReset k)); [left|]; reflexivity.
      + rewrite get_apply_other by exact Hne. exact Hf.
  Qed.

  Theorem failed_blocks_dependents : forall tr s s' j k,
    run s tr = Some s' -> get s j = Failed -> no_reset_of j tr ->
    In j (deps k) -> get s k = Idle ->
    count_starts k tr = 0 /\ get s' k = Idle.
  Proof.
    induction tr as [|e tr IH]; intros s s' j k Hr Hf Hn Hdep Hk.
    - injection Hr as <-. split; [reflexivity|exact Hk].
    - rewrite run_cons in Hr. destruct (enabled s e) eqn:He; [|discriminate].
      assert (Hf' : get (apply s e) j = Failed).
      { eapply (failed_stays [e]); [cbn; rewrite He; reflexivity|exact Hf|].
        intros x [<-|[]]. apply Hn. left. reflexivity. }
      assert (Hnotk : target e <> k \/ False).
      { left. intros <-. destruct e as [x|x|x|x]; cbn in He, Hk.
        - apply andb_prop in He. destruct He as [_ Hall]. rewrite forallb_forall in Hall.
          specialize (Hall j Hdep). unfold is_done in Hall. rewrite Hf in Hall. discriminate.
        - rewrite Hk in He. discriminate.
        - rewrite Hk in He. discriminate.
        - rewrite Hk in He. discriminate. }
      destruct Hnotk as [Hnotk|[]].
      assert (Hk' : get (apply s e) k = Idle).
      { rewrite get_apply_other by (intros E; apply Hnotk; symmetry; exact E). exact Hk. }
      destruct (IH _ _ j k Hr Hf' (fun x Hx => Hn x (or_intror Hx)) Hdep Hk') as [Hc Hs].
      split; [|exact Hs]. unfold Sched.count_starts. cbn [filter].
      destruct (is_start job jeqb k e) eqn:Es; [|exact Hc].
      exfalso. destruct e as [x|x|x|x]; cbn in Es; try discriminate.
      apply jeqb_spec in Es. apply Hnotk. cbn. symmetry. exact Es.
  Qed.

  Theorem failed_never_complete : forall tr s s' j,
    run s tr = Some s' -> get s j = Failed -> no_reset_of j tr -> get s' j <> Done.
  Proof.
    intros tr s s' j Hr Hf Hn. rewrite (failed_stays _ _ _ _ Hr Hf Hn). discriminate.
  Qed.

  (* ---------------- no stall: when nothing is running or failed and some job is
     not done, a job is startable (jobs listed in a dependency-respecting order) *)
  Definition topo (jobs : list job) : Prop :=
    forall pre j post, jobs = pre ++ j :: post -> forall d, In d (deps j) -> In d pre.

  Theorem progress : forall jobs s,
    topo jobs ->
    (forall j, In j jobs -> get s j = Idle \/ get s j = Done) ->
    (exists j, In j jobs /\ get s j <> Done) ->
    exists j, In j jobs /\ enabled s (EStart j) = true.
  Proof.
    intros jobs s Htopo Hst [j0 [Hin0 Hnd0]].
    assert (Hgen : forall post pre, jobs = pre ++ post ->
              (forall x, In x pre -> get s x = Done) ->
              (exists j, In j post /\ get s j <> Done) ->
              exists j, In j jobs /\ enabled s (EStart j) = true).
    { induction post as [|j post IH]; intros pre Hj Hpre [x [Hx Hnx]]; [contradiction|].
      destruct (Hst j) as [Hi|Hd].
      - rewrite Hj. apply in_or_app. right. left. reflexivity.
      - exists j. split; [rewrite Hj; apply in_or_app; right; left; reflexivity|].
        cbn. rewrite Hi. cbn. apply forallb_forall. intros d Hd.
        unfold is_done. rewrite (Hpre d (Htopo pre j post Hj d Hd)). reflexivity.
      - apply (IH (pre ++ [j])).
        + rewrite <- app_assoc. exact Hj.
        + intros y Hy. apply in_app_or in Hy. destruct Hy as [Hy|[<-|[]]]; [apply Hpre; exact Hy|exact Hd].
        + destruct Hx as [<-|Hx]; [contradiction|]. exists x. split; assumption. }
    apply (Hgen jobs []); [reflexivity|intros x []|exists j0; split; assumption].
  Qed.
End SchedProofs.

(* ---------------- C05: after any interruption, a restart converges: from a state
   in which every job is idle or done (what a restart leaves after resetting
   the unfinished ones) there is a continuation that completes every job,
   starts no job that was already done, and runs every other job once. *)
Section Converge.
  Variable job : Type.
  Variable jeqb : job -> job -> bool.
  Hypothesis jeqb_spec : forall a b, jeqb a b = true <-> a = b.
  Variable deps : job -> list job.

  Notation get := (get job jeqb).
  Notation run := (run job jeqb deps).

  Fixpoint finish (jobs : list job) (s : state job) : list (event job) :=
    match jobs with
    | [] => []
    | j :: r =>
        if is_done job jeqb s j then finish r s
        else EStart j :: EDone j :: finish r (set job (set job s j Running) j Done)
    end.

  Lemma get_set2_same s j : get (set job (set job s j Running) j Done) j = Done.
  Proof. apply (get_set_same job jeqb jeqb_spec). Qed.
  Lemma get_set2_other s j k : k <> j -> get (set job (set job s j Running) j Done) k = get s k.
  Proof.
    intros H. rewrite (get_set_other job jeqb jeqb_spec) by exact H.
    apply (get_set_other job jeqb jeqb_spec). exact H.
  Qed.

  Lemma finish_runs : forall jobs pre s,
    topo job deps (pre ++ jobs) ->
    (forall x, In x pre -> get s x = Done) ->
    (forall j, In j jobs -> get s j = Idle \/ get s j = Done) ->
    exists s', run s (finish jobs s) = Some s' /\
               (forall j, In j jobs -> get s' j = Done) /\
               (forall j, get s j = Done -> get s' j = Done) /\
               (forall j, get s j = Done -> count_starts job jeqb j (finish jobs s) = 0) /\
               (forall j, count_starts job jeqb j (finish jobs s) <= 1) /\
               quiet job (finish jobs s).
  Proof.
    induction jobs as [|j jobs IH]; intros pre s Htopo Hpre Hst.
    - exists s. cbn. repeat split; auto. intros j [].
    - cbn [finish]. destruct (is_done job jeqb s j) eqn:Ed.
      + unfold is_done in Ed. apply jstate_eqb_eq in Ed.
        destruct (IH (pre ++ [j]) s) as (s' & Hr & Hall & Hmono & Hcnt & Hle & Hq).
        * rewrite <- app_assoc. exact Htopo.
        * intros x Hx. apply in_app_or in Hx. destruct Hx as [Hx|[<-|[]]]; [apply Hpre; exact Hx|exact Ed].
        * intros k Hk. apply Hst. right. exact Hk.
        * exists s'. split; [exact Hr|]. split; [|repeat split; assumption].
          intros k [<-|Hk]; [apply Hmono; exact Ed|apply Hall; exact Hk].
      + assert (Hidle : get s j = Idle).
        { destruct (Hst j (or_introl eq_refl)) as [H|H]; [exact H|].
          unfold is_done in Ed. rewrite H in Ed. discriminate. }
        set (s2 := set job (set job s j Running) j Done).
        destruct (IH (pre ++ [j]) s2) as (s' & Hr & Hall & Hmono & Hcnt & Hle & Hq).
        * rewrite <- app_assoc. exact Htopo.
        * intros x Hx. apply in_app_or in Hx. destruct Hx as [Hx|[<-|[]]].
          -- destruct (jeq_dec job jeqb jeqb_spec x j) as [->|Hn]; [apply get_set2_same|].
             unfold s2. rewrite get_set2_other by exact Hn. apply Hpre. exact Hx.
          -- apply get_set2_same.
        * intros k Hk. destruct (jeq_dec job jeqb jeqb_spec k j) as [->|Hn].
          -- right. apply get_set2_same.
          -- unfold s2. rewrite get_set2_other by exact Hn. apply Hst. right. exact Hk.
        * exists s'.
          assert (Hen : enabled job jeqb deps s (EStart j) = true).
          { cbn. rewrite Hidle. cbn. apply forallb_forall. intros d Hd.
            unfold is_done. rewrite (Hpre d (Htopo pre j jobs eq_refl d Hd)). reflexivity. }
          split.
          { rewrite (run_cons job jeqb deps). rewrite Hen.
            rewrite (run_cons job jeqb deps).
            assert (Hen2 : enabled job jeqb deps (apply job s (EStart j)) (EDone j) = true).
            { cbn. rewrite jeqb_refl by exact jeqb_spec. reflexivity. }
            rewrite Hen2. exact Hr. }
          split.
          { intros k [<-|Hk]; [apply Hmono; apply get_set2_same|apply Hall; exact Hk]. }
          split.
          { intros k Hk. apply Hmono. destruct (jeq_dec job jeqb jeqb_spec k j) as [->|Hn];
              [apply get_set2_same|unfold s2; rewrite get_set2_other by exact Hn; exact Hk]. }
          split.
          { intros k Hk. unfold count_starts. cbn [filter is_start].
            destruct (jeqb k j) eqn:Ekj.
            - apply jeqb_spec in Ekj. subst k. rewrite Hidle in Hk. discriminate.
            - apply Hcnt. unfold s2. rewrite get_set2_other; [exact Hk|].
              intros ->. rewrite jeqb_refl in Ekj by exact jeqb_spec. discriminate. }
          split.
          { intros k. unfold count_starts. cbn [filter is_start].
            destruct (jeqb k j) eqn:Ekj.
            - apply jeqb_spec in Ekj. subst k. cbn [length].
              pose proof (Hcnt j (get_set2_same s j)) as H0. unfold count_starts in H0. rewrite H0. lia.
            - apply Hle. }
          { unfold quiet. cbn. exact Hq. }
  Qed.

  Theorem restart_converges : forall jobs s,
    topo job deps jobs ->
    (forall j, In j jobs -> get s j = Idle \/ get s j = Done) ->
    exists tr s', run s tr = Some s' /\
      (forall j, In j jobs -> get s' j = Done) /\
      (forall j, get s j = Done -> count_starts job jeqb j tr = 0) /\
      (forall j, count_starts job jeqb j tr <= 1) /\ quiet job tr.
  Proof.
    intros jobs s Ht Hs.
    destruct (finish_runs jobs [] s Ht (fun x (H : In x []) => match H with end) Hs)
      as (s' & Hr & Hall & _ & Hcnt & Hle & Hq).
    exists (finish jobs s), s'. repeat split; assumption.
  Qed.
End Converge.
