(* Concrete compiled programs (dumped by `vh c15 term` from the MRO sources in
   the comments) used by the non-vacuity examples and the refutation lemmas of
   property C15.

   ex_a:  filetype fastq; struct Rec(int n, fastq reads);
          stage S(in fastq[] reads, in Rec r, in float x, out int n, src py "s")
          pipeline P(in fastq[] reads, in bool skip, out int n)
          { call S(reads = self.reads, r = null, x = 1.5) using (disabled = self.skip)
            return (n = S.n) }
          call P(reads = ["a"], skip = false)
   ex_b:  ex_a with the file type renamed to fq and a comment added (cosmetic)
   ex_c:  ex_a with x = 2.5 (semantic)
   ex_d:  ex_a with the struct member `int n` retyped to `float n` *)
From Coq Require Import String.
From Martian Require Import Lib.Bytes Mro.Ast K.Equiv.
Open Scope string_scope.

Definition ex_a : ast :=
(mk_ast [(unhex "6661737471")] [(mk_struct (unhex "526563") [(mk_member (unhex "6e") (mk_tid (unhex "696e74") 0%N 0%N) (@nil byte) (@nil byte) KindIsNotFile false false); (mk_member (unhex "7265616473") (mk_tid (unhex "6661737471") 0%N 0%N) (@nil byte) (@nil byte) KindIsFile false true)] KindIsDirectory)] [(CStage (mk_stage (unhex "53") [(mk_in (unhex "7265616473") (mk_tid (unhex "6661737471") 1%N 0%N) (@nil byte) KindIsDirectory true); (mk_in (unhex "72") (mk_tid (unhex "526563") 0%N 0%N) (@nil byte) KindIsDirectory false); (mk_in (unhex "78") (mk_tid (unhex "666c6f6174") 0%N 0%N) (@nil byte) KindIsNotFile false)] [(mk_member (unhex "6e") (mk_tid (unhex "696e74") 0%N 0%N) (@nil byte) (@nil byte) KindIsNotFile false false)] false [] [] [] (mk_src LangPython (unhex "73") []) None)); (CPipeline (mk_pipeline (unhex "50") [(mk_in (unhex "7265616473") (mk_tid (unhex "6661737471") 1%N 0%N) (@nil byte) KindIsDirectory true); (mk_in (unhex "736b6970") (mk_tid (unhex "626f6f6c") 0%N 0%N) (@nil byte) KindIsNotFile false)] [(mk_member (unhex "6e") (mk_tid (unhex "696e74") 0%N 0%N) (@nil byte) (@nil byte) KindIsNotFile false false)] [(mk_call (unhex "53") (unhex "53") (Some (mk_mods [(mk_bind (unhex "64697361626c6564") (ERef RefSelf (unhex "736b6970") (@nil byte)) (mk_tid (unhex "626f6f6c") 0%N 0%N))] false false false)) [(mk_bind (unhex "7265616473") (ERef RefSelf (unhex "7265616473") (@nil byte)) (mk_tid (unhex "6661737471") 1%N 0%N)); (mk_bind (unhex "72") ENull (mk_tid (unhex "526563") 0%N 0%N)); (mk_bind (unhex "78") (EFloat (3)%Z (-1)%Z) (mk_tid (unhex "666c6f6174") 0%N 0%N))] ModeSingleCall)] (Some [(mk_bind (unhex "6e") (ERef RefCall (unhex "53") (unhex "6e")) (mk_tid (unhex "696e74") 0%N 0%N))]) []))] true (Some (mk_call (unhex "50") (unhex "50") (Some (mk_mods [] false false false)) [(mk_bind (unhex "7265616473") (EArray [(EString (unhex "61"))]) (mk_tid (unhex "6661737471") 1%N 0%N)); (mk_bind (unhex "736b6970") (EBool false) (mk_tid (unhex "626f6f6c") 0%N 0%N))] ModeSingleCall))).

Definition ex_b : ast :=
(mk_ast [(unhex "6671")] [(mk_struct (unhex "526563") [(mk_member (unhex "6e") (mk_tid (unhex "696e74") 0%N 0%N) (@nil byte) (@nil byte) KindIsNotFile false false); (mk_member (unhex "7265616473") (mk_tid (unhex "6671") 0%N 0%N) (@nil byte) (@nil byte) KindIsFile false true)] KindIsDirectory)] [(CStage (mk_stage (unhex "53") [(mk_in (unhex "7265616473") (mk_tid (unhex "6671") 1%N 0%N) (@nil byte) KindIsDirectory true); (mk_in (unhex "72") (mk_tid (unhex "526563") 0%N 0%N) (@nil byte) KindIsDirectory false); (mk_in (unhex "78") (mk_tid (unhex "666c6f6174") 0%N 0%N) (@nil byte) KindIsNotFile false)] [(mk_member (unhex "6e") (mk_tid (unhex "696e74") 0%N 0%N) (@nil byte) (@nil byte) KindIsNotFile false false)] false [] [] [] (mk_src LangPython (unhex "73") []) None)); (CPipeline (mk_pipeline (unhex "50") [(mk_in (unhex "7265616473") (mk_tid (unhex "6671") 1%N 0%N) (@nil byte) KindIsDirectory true); (mk_in (unhex "736b6970") (mk_tid (unhex "626f6f6c") 0%N 0%N) (@nil byte) KindIsNotFile false)] [(mk_member (unhex "6e") (mk_tid (unhex "696e74") 0%N 0%N) (@nil byte) (@nil byte) KindIsNotFile false false)] [(mk_call (unhex "53") (unhex "53") (Some (mk_mods [(mk_bind (unhex "64697361626c6564") (ERef RefSelf (unhex "736b6970") (@nil byte)) (mk_tid (unhex "626f6f6c") 0%N 0%N))] false false false)) [(mk_bind (unhex "7265616473") (ERef RefSelf (unhex "7265616473") (@nil byte)) (mk_tid (unhex "6671") 1%N 0%N)); (mk_bind (unhex "72") ENull (mk_tid (unhex "526563") 0%N 0%N)); (mk_bind (unhex "78") (EFloat (3)%Z (-1)%Z) (mk_tid (unhex "666c6f6174") 0%N 0%N))] ModeSingleCall)] (Some [(mk_bind (unhex "6e") (ERef RefCall (unhex "53") (unhex "6e")) (mk_tid (unhex "696e74") 0%N 0%N))]) []))] true (Some (mk_call (unhex "50") (unhex "50") (Some (mk_mods [] false false false)) [(mk_bind (unhex "7265616473") (EArray [(EString (unhex "61"))]) (mk_tid (unhex "6671") 1%N 0%N)); (mk_bind (unhex "736b6970") (EBool false) (mk_tid (unhex "626f6f6c") 0%N 0%N))] ModeSingleCall))).

Definition ex_c : ast :=
(mk_ast [(unhex "6661737471")] [(mk_struct (unhex "526563") [(mk_member (unhex "6e") (mk_tid (unhex "696e74") 0%N 0%N) (@nil byte) (@nil byte) KindIsNotFile false false); (mk_member (unhex "7265616473") (mk_tid (unhex "6661737471") 0%N 0%N) (@nil byte) (@nil byte) KindIsFile false true)] KindIsDirectory)] [(CStage (mk_stage (unhex "53") [(mk_in (unhex "7265616473") (mk_tid (unhex "6661737471") 1%N 0%N) (@nil byte) KindIsDirectory true); (mk_in (unhex "72") (mk_tid (unhex "526563") 0%N 0%N) (@nil byte) KindIsDirectory false); (mk_in (unhex "78") (mk_tid (unhex "666c6f6174") 0%N 0%N) (@nil byte) KindIsNotFile false)] [(mk_member (unhex "6e") (mk_tid (unhex "696e74") 0%N 0%N) (@nil byte) (@nil byte) KindIsNotFile false false)] false [] [] [] (mk_src LangPython (unhex "73") []) None)); (CPipeline (mk_pipeline (unhex "50") [(mk_in (unhex "7265616473") (mk_tid (unhex "6661737471") 1%N 0%N) (@nil byte) KindIsDirectory true); (mk_in (unhex "736b6970") (mk_tid (unhex "626f6f6c") 0%N 0%N) (@nil byte) KindIsNotFile false)] [(mk_member (unhex "6e") (mk_tid (unhex "696e74") 0%N 0%N) (@nil byte) (@nil byte) KindIsNotFile false false)] [(mk_call (unhex "53") (unhex "53") (Some (mk_mods [(mk_bind (unhex "64697361626c6564") (ERef RefSelf (unhex "736b6970") (@nil byte)) (mk_tid (unhex "626f6f6c") 0%N 0%N))] false false false)) [(mk_bind (unhex "7265616473") (ERef RefSelf (unhex "7265616473") (@nil byte)) (mk_tid (unhex "6661737471") 1%N 0%N)); (mk_bind (unhex "72") ENull (mk_tid (unhex "526563") 0%N 0%N)); (mk_bind (unhex "78") (EFloat (5)%Z (-1)%Z) (mk_tid (unhex "666c6f6174") 0%N 0%N))] ModeSingleCall)] (Some [(mk_bind (unhex "6e") (ERef RefCall (unhex "53") (unhex "6e")) (mk_tid (unhex "696e74") 0%N 0%N))]) []))] true (Some (mk_call (unhex "50") (unhex "50") (Some (mk_mods [] false false false)) [(mk_bind (unhex "7265616473") (EArray [(EString (unhex "61"))]) (mk_tid (unhex "6661737471") 1%N 0%N)); (mk_bind (unhex "736b6970") (EBool false) (mk_tid (unhex "626f6f6c") 0%N 0%N))] ModeSingleCall))).

Definition ex_d : ast :=
(mk_ast [(unhex "6661737471")] [(mk_struct (unhex "526563") [(mk_member (unhex "6e") (mk_tid (unhex "666c6f6174") 0%N 0%N) (@nil byte) (@nil byte) KindIsNotFile false false); (mk_member (unhex "7265616473") (mk_tid (unhex "6661737471") 0%N 0%N) (@nil byte) (@nil byte) KindIsFile false true)] KindIsDirectory)] [(CStage (mk_stage (unhex "53") [(mk_in (unhex "7265616473") (mk_tid (unhex "6661737471") 1%N 0%N) (@nil byte) KindIsDirectory true); (mk_in (unhex "72") (mk_tid (unhex "526563") 0%N 0%N) (@nil byte) KindIsDirectory false); (mk_in (unhex "78") (mk_tid (unhex "666c6f6174") 0%N 0%N) (@nil byte) KindIsNotFile false)] [(mk_member (unhex "6e") (mk_tid (unhex "696e74") 0%N 0%N) (@nil byte) (@nil byte) KindIsNotFile false false)] false [] [] [] (mk_src LangPython (unhex "73") []) None)); (CPipeline (mk_pipeline (unhex "50") [(mk_in (unhex "7265616473") (mk_tid (unhex "6661737471") 1%N 0%N) (@nil byte) KindIsDirectory true); (mk_in (unhex "736b6970") (mk_tid (unhex "626f6f6c") 0%N 0%N) (@nil byte) KindIsNotFile false)] [(mk_member (unhex "6e") (mk_tid (unhex "696e74") 0%N 0%N) (@nil byte) (@nil byte) KindIsNotFile false false)] [(mk_call (unhex "53") (unhex "53") (Some (mk_mods [(mk_bind (unhex "64697361626c6564") (ERef RefSelf (unhex "736b6970") (@nil byte)) (mk_tid (unhex "626f6f6c") 0%N 0%N))] false false false)) [(mk_bind (unhex "7265616473") (ERef RefSelf (unhex "7265616473") (@nil byte)) (mk_tid (unhex "6661737471") 1%N 0%N)); (mk_bind (unhex "72") ENull (mk_tid (unhex "526563") 0%N 0%N)); (mk_bind (unhex "78") (EFloat (3)%Z (-1)%Z) (mk_tid (unhex "666c6f6174") 0%N 0%N))] ModeSingleCall)] (Some [(mk_bind (unhex "6e") (ERef RefCall (unhex "53") (unhex "6e")) (mk_tid (unhex "696e74") 0%N 0%N))]) []))] true (Some (mk_call (unhex "50") (unhex "50") (Some (mk_mods [] false false false)) [(mk_bind (unhex "7265616473") (EArray [(EString (unhex "61"))]) (mk_tid (unhex "6661737471") 1%N 0%N)); (mk_bind (unhex "736b6970") (EBool false) (mk_tid (unhex "626f6f6c") 0%N 0%N))] ModeSingleCall))).

Lemma examples_wf :
  wf_ast ex_a = true /\ wf_ast ex_b = true /\ wf_ast ex_c = true /\ wf_ast ex_d = true /\
  cache_ok ex_a = true /\ cache_ok ex_b = true.
Proof. vm_compute. repeat split; reflexivity. Qed.

Lemma examples_norm :
  (exists x, norm (fuel_of ex_b ex_a) ex_a = Some x) /\
  (exists y, norm (fuel_of ex_b ex_a) ex_b = Some y) /\
  (exists z, norm (fuel_of ex_c ex_a) ex_c = Some z).
Proof. vm_compute. repeat split; eexists; reflexivity. Qed.

Lemma examples_equiv :
  equiv_call ex_b ex_a = true /\ equiv_call ex_a ex_b = true /\
  equiv_call ex_c ex_a = false /\ equiv_call ex_a ex_c = false.
Proof. vm_compute. repeat split; reflexivity. Qed.

(* defect (c), recorded: a struct type is compared by name only, so a changed
   member type of a struct used by a parameter is not noticed *)
Lemma struct_member_refuted_lemma : exists a b,
  wf_ast a = true /\ wf_ast b = true /\ equiv_call b a = true /\
  a_struct_types a <> a_struct_types b.
Proof.
  exists ex_a, ex_d. split; [vm_compute; reflexivity|]. split; [vm_compute; reflexivity|].
  split; [vm_compute; reflexivity|]. vm_compute. intro H. discriminate H.
Qed.

(* the float tolerance, recorded: 1.0 and the next float64 above it are equal
   for FloatExp.equal although the literals denote different values *)
Lemma float_tolerance_refuted_lemma : exists m e m' e',
  exp_equal (EFloat m e) (EFloat m' e') = true /\ (m, e) <> (m', e') /\
  feqb (m, e) (m', e') = false.
Proof.
  exists 1%Z, 0%Z, 4503599627370497%Z, (-52)%Z. split; [vm_compute; reflexivity|].
  split; [intro H; discriminate H|vm_compute; reflexivity].
Qed.
