(* Proofs about K/Journal.v: constants still as modelled, getFork exactness,
   uniquifier check, and parsing of printed journal names. *)
From Coq Require Import String.
From Martian Require Import Lib.Bytes Extracted.Journal K.ForkName K.Journal Proofs.ForkName.
Local Open Scope N_scope.

(* ----------------------------------------------- the source's constants *)
(* The recogniser parse_journal was written for this pattern. *)
Lemma job_journal_re_unchanged : job_journal_re = job_journal_re_expected.
Proof. reflexivity. Qed.

(* The prefixes mrjob writes (run type + underscore) are the ones
   Fork.updateState looks for. *)
Lemma run_prefix_split : run_prefix RSplit = splitp. Proof. reflexivity. Qed.
Lemma run_prefix_join : run_prefix RJoin = joinp. Proof. reflexivity. Qed.

(* No metadata file name passed to UpdateJournal contains a dot, starts with
   the split or join prefix, or is empty. *)
Definition file_ok (f : bytes) : bool :=
  negb (contains_byte c_dot f) && negb (is_prefix splitp f) && negb (is_prefix joinp f)
  && match f with [] => false | _ => true end.

Lemma journaled_names_ok : forallb (fun f => file_ok (map n2b f)) journaled_file_names = true.
Proof. vm_compute. reflexivity. Qed.

(* ------------------------------------------------------------- getFork *)
Lemma find_index_first {A} (f : A -> bool) : forall l n i t,
  nth_error l i = Some t -> f t = true ->
  (forall j x, (j < i)%nat -> nth_error l j = Some x -> f x = false) ->
  find_index f l n = Some (n + i)%nat.
Proof.
  induction l as [|y l IH]; intros n i t Hn Hf Hlt.
  - destruct i; discriminate.
  - destruct i as [|i]; cbn [nth_error] in Hn.
    + inversion Hn; subst. cbn [find_index]. rewrite Hf. f_equal. lia.
    + cbn [find_index]. rewrite (Hlt 0%nat y) by (try lia; reflexivity).
      rewrite (IH (S n) i t Hn Hf).
      * f_equal. lia.
      * intros j x Hj Hx. apply (Hlt (S j) x); [lia|exact Hx].
Qed.

Lemma tok_match_true index t : tok_match index t = true -> t = index /\ t <> [].
Proof.
  unfold tok_match. destruct t; [discriminate|]. intro H. apply bytes_eqb_eq in H. split; [exact H|discriminate].
Qed.

Lemma tok_match_refl t : t <> [] -> tok_match t t = true.
Proof. unfold tok_match. destruct t; [congruence|]. intros _. apply bytes_eqb_eq. reflexivity. Qed.

(* For every order of the fork list with pairwise distinct tokens, getFork
   returns exactly the fork whose token was asked for. *)
Lemma get_fork_exact_lemma : forall toks i t,
  NoDup toks -> nth_error toks i = Some t -> t <> [] ->
  get_fork false toks t = Some i.
Proof.
  intros toks i t Hnd Hi Hne. unfold get_fork.
  assert (Hslow : find_index (tok_match t) toks 0 = Some i).
  { rewrite (find_index_first (tok_match t) toks 0 i t Hi (tok_match_refl t Hne)); [reflexivity|].
    intros j x Hj Hx. destruct (tok_match t x) eqn:E; [|reflexivity].
    apply tok_match_true in E as [-> _].
    assert (j = i); [|lia].
    apply (proj1 (NoDup_nth_error toks) Hnd); [apply nth_error_Some; congruence|congruence]. }
  destruct (atoi_nonneg t) as [k|]; [|exact Hslow].
  destruct (nth_error toks (N.to_nat k)) as [t'|] eqn:Ek; [|exact Hslow].
  cbn [orb]. destruct (tok_match t t') eqn:E; [|exact Hslow].
  apply tok_match_true in E as [-> _]. f_equal.
  apply (proj1 (NoDup_nth_error toks) Hnd); [apply nth_error_Some; congruence|congruence].
Qed.

(* The fast path without the name check (the code before the fix) returned
   the fork stored at the numeric position. *)
Lemma get_fork_legacy_refuted : exists toks i t,
  NoDup toks /\ nth_error toks i = Some t /\ t <> [] /\ get_fork true toks t <> Some i.
Proof.
  exists [bs "0_fork0"; bs "1_fork0"; bs "0_fork1"; bs "0"; bs "1"]%string, 4%nat, (bs "1")%string.
  repeat split; try (vm_compute; discriminate).
  repeat constructor; cbn; intuition discriminate.
Qed.

(* -------------------------------------------------------- uniquifier *)
Lemma uniq_accepts_iff cur seen : uniq_accepts cur seen = true <-> cur = seen.
Proof. apply bytes_eqb_eq. Qed.
